(* C15, request/offered part: proofs about Qos/CompatModel.v *)
From DustDDS Require Import Base.Machine Qos.CompatModel.
From Coq Require Import Permutation.
Open Scope Z_scope.

(* ------------------------------------------------------------------ the order tables *)
Lemma durability_kind_pcmp_rank a b :
  durability_kind_pcmp a b = Some (durability_rank a ?= durability_rank b).
Proof. destruct a, b; reflexivity. Qed.
Lemma access_scope_pcmp_rank a b :
  access_scope_pcmp a b = Some (scope_rank a ?= scope_rank b).
Proof. destruct a, b; reflexivity. Qed.
Lemma liveliness_kind_pcmp_rank a b :
  liveliness_kind_pcmp a b = Some (liveliness_rank a ?= liveliness_rank b).
Proof. destruct a, b; reflexivity. Qed.
Lemma reliability_kind_pcmp_rank a b :
  reliability_kind_pcmp a b = Some (reliability_rank a ?= reliability_rank b).
Proof. destruct a, b; reflexivity. Qed.
Lemma destination_order_kind_pcmp_rank a b :
  destination_order_kind_pcmp a b = Some (destination_order_rank a ?= destination_order_rank b).
Proof. destruct a, b; reflexivity. Qed.

Lemma p_lt_cmp x y : p_lt (Some (x ?= y)) = (x <? y).
Proof. unfold p_lt, Z.ltb. destruct (x ?= y); reflexivity. Qed.
Lemma p_gt_cmp x y : p_gt (Some (x ?= y)) = (y <? x).
Proof.
  unfold p_gt. rewrite (Z.ltb_compare y x), (Z.compare_antisym x y).
  destruct (x ?= y); reflexivity.
Qed.
Lemma ltb_negb_leb x y : (x <? y) = negb (y <=? x).
Proof. destruct (Z.ltb_spec x y), (Z.leb_spec y x); try reflexivity; lia. Qed.

(* the derived (sec, nanosec) order is the order of the length in nanoseconds on
   normalized durations *)
Lemma duration_pcmp_ns a b :
  duration_normalized a -> duration_normalized b ->
  duration_pcmp a b = Some (duration_ns a ?= duration_ns b).
Proof.
  unfold duration_normalized, duration_pcmp, duration_ns, lex, NANOS_PER_SEC.
  destruct a as [sa na], b as [sb nb]; cbn [d_sec d_nanosec]. intros Ha Hb.
  destruct (Z.compare_spec sa sb) as [E|L|G].
  - subst sb. f_equal.
    destruct (Z.compare_spec na nb), (Z.compare_spec (sa * 1000000000 + na) (sa * 1000000000 + nb));
      try reflexivity; lia.
  - f_equal. symmetry. apply Z.compare_lt_iff. lia.
  - f_equal. symmetry. apply Z.compare_gt_iff. lia.
Qed.

(* without normalization the derived order is NOT the order of the lengths
   (2 s written as (0, 2*10^9) sorts before 1 s): the hypothesis is needed *)
Lemma duration_pcmp_ns_needs_normalization :
  exists a b, duration_pcmp a b = Some Lt /\ duration_ns b < duration_ns a.
Proof.
  exists (mkduration 0 2000000000), (mkduration 1 0). split; [reflexivity|].
  unfold duration_ns, NANOS_PER_SEC; cbn [d_sec d_nanosec]. lia.
Qed.

Lemma dk_gt_spec a b :
  dk_normalized a -> dk_normalized b ->
  p_gt (duration_kind_pcmp a b) = negb (spec_dk_leb a b).
Proof.
  destruct a as [x|], b as [y|]; cbn [dk_normalized duration_kind_pcmp spec_dk_leb]; intros Ha Hb;
    try reflexivity.
  rewrite (duration_pcmp_ns _ _ Ha Hb), p_gt_cmp. apply ltb_negb_leb.
Qed.
Lemma dk_lt_spec a b :
  dk_normalized a -> dk_normalized b ->
  p_lt (duration_kind_pcmp a b) = negb (spec_dk_leb b a).
Proof.
  destruct a as [x|], b as [y|]; cbn [dk_normalized duration_kind_pcmp spec_dk_leb]; intros Ha Hb;
    try reflexivity.
  rewrite (duration_pcmp_ns _ _ Ha Hb), p_lt_cmp. apply ltb_negb_leb.
Qed.
Lemma spec_dk_leb_total a b : spec_dk_leb a b = false -> spec_dk_leb b a = true.
Proof.
  destruct a as [x|], b as [y|]; cbn [spec_dk_leb]; try congruence.
  intros H. apply Z.leb_gt in H. apply Z.leb_le. lia.
Qed.

(* antisymmetry of every comparison used: a < b  iff  b > a *)
Lemma duration_pcmp_antisym a b :
  p_lt (duration_pcmp a b) = p_gt (duration_pcmp b a).
Proof.
  unfold duration_pcmp, lex.
  rewrite (Z.compare_antisym (d_sec a) (d_sec b)), (Z.compare_antisym (d_nanosec a) (d_nanosec b)).
  destruct (d_sec a ?= d_sec b), (d_nanosec a ?= d_nanosec b); reflexivity.
Qed.
Lemma duration_pcmp_eq_sym a b :
  duration_pcmp a b = Some Eq <-> duration_pcmp b a = Some Eq.
Proof.
  unfold duration_pcmp, lex.
  rewrite (Z.compare_antisym (d_sec a) (d_sec b)), (Z.compare_antisym (d_nanosec a) (d_nanosec b)).
  destruct (d_sec a ?= d_sec b), (d_nanosec a ?= d_nanosec b); cbn; split; congruence.
Qed.
Lemma dk_pcmp_antisym a b :
  p_lt (duration_kind_pcmp a b) = p_gt (duration_kind_pcmp b a).
Proof.
  destruct a, b; cbn [duration_kind_pcmp]; try reflexivity. apply duration_pcmp_antisym.
Qed.
Lemma dk_pcmp_antisym' a b :
  p_gt (duration_kind_pcmp a b) = p_lt (duration_kind_pcmp b a).
Proof. symmetry. apply dk_pcmp_antisym. Qed.

Lemma liveliness_pcmp_antisym a b :
  p_lt (liveliness_policy_pcmp a b) = p_gt (liveliness_policy_pcmp b a).
Proof.
  unfold liveliness_policy_pcmp, lex.
  destruct a as [ka la], b as [kb lb]; cbn [l_kind l_lease].
  pose proof (dk_pcmp_antisym la lb) as H.
  destruct ka, kb; cbn [liveliness_kind_pcmp]; try reflexivity; exact H.
Qed.

(* ------------------------------------------------------------------ membership in the pushed list *)
Lemma in_push_if x b id : In x (push_if b id) <-> b = true /\ x = id.
Proof.
  unfold push_if. destruct b; cbn; split.
  - intros [H|[]]; auto.
  - intros [_ H]; auto.
  - intros [].
  - intros [H _]; discriminate.
Qed.

(* the flag the code computes for one policy, reader-side function *)
Definition reader_flag (id : Z) (w r : eqos) : bool :=
  if id =? DURABILITY_ID then p_lt (durability_policy_pcmp (q_durability w) (q_durability r))
  else if id =? PRESENTATION_ID then
    p_lt (access_scope_pcmp (p_scope (q_presentation w)) (p_scope (q_presentation r)))
    || (p_coherent (q_presentation r) && negb (p_coherent (q_presentation w)))
    || (p_ordered (q_presentation r) && negb (p_ordered (q_presentation w)))
  else if id =? DEADLINE_ID then p_gt (deadline_policy_pcmp (q_deadline w) (q_deadline r))
  else if id =? LATENCYBUDGET_ID then p_gt (latency_policy_pcmp (q_latency w) (q_latency r))
  else if id =? LIVELINESS_ID then
    p_lt (liveliness_kind_pcmp (l_kind (q_liveliness w)) (l_kind (q_liveliness r)))
    || p_gt (duration_kind_pcmp (l_lease (q_liveliness w)) (l_lease (q_liveliness r)))
  else if id =? RELIABILITY_ID then p_lt (reliability_kind_pcmp (q_reliability w) (q_reliability r))
  else if id =? DESTINATIONORDER_ID then
    p_lt (destination_order_policy_pcmp (q_destination_order w) (q_destination_order r))
  else if id =? OWNERSHIP_ID then negb (ownership_kind_eqb (q_ownership w) (q_ownership r))
  else if id =? DATA_REPRESENTATION_ID then
    negb (contains (q_representation r) (first_or (q_representation w) XCDR_DATA_REPRESENTATION)
          || ((first_or (q_representation w) XCDR_DATA_REPRESENTATION =? XCDR_DATA_REPRESENTATION)
              && is_empty (q_representation r)))
  else false.

Definition writer_flag (id : Z) (r w : eqos) : bool :=
  if id =? DURABILITY_ID then p_gt (durability_policy_pcmp (q_durability r) (q_durability w))
  else if id =? PRESENTATION_ID then
    p_gt (access_scope_pcmp (p_scope (q_presentation r)) (p_scope (q_presentation w)))
    || (p_coherent (q_presentation r) && negb (p_coherent (q_presentation w)))
    || (p_ordered (q_presentation r) && negb (p_ordered (q_presentation w)))
  else if id =? DEADLINE_ID then p_lt (deadline_policy_pcmp (q_deadline r) (q_deadline w))
  else if id =? LATENCYBUDGET_ID then p_lt (latency_policy_pcmp (q_latency r) (q_latency w))
  else if id =? LIVELINESS_ID then
    p_gt (liveliness_kind_pcmp (l_kind (q_liveliness r)) (l_kind (q_liveliness w)))
    || p_lt (duration_kind_pcmp (l_lease (q_liveliness r)) (l_lease (q_liveliness w)))
  else if id =? RELIABILITY_ID then p_gt (reliability_kind_pcmp (q_reliability r) (q_reliability w))
  else if id =? DESTINATIONORDER_ID then
    p_gt (destination_order_policy_pcmp (q_destination_order r) (q_destination_order w))
  else if id =? OWNERSHIP_ID then negb (ownership_kind_eqb (q_ownership r) (q_ownership w))
  else if id =? DATA_REPRESENTATION_ID then
    (if negb (contains (q_representation r) (first_or (q_representation w) XCDR_DATA_REPRESENTATION))
     then negb ((first_or (q_representation w) XCDR_DATA_REPRESENTATION =? XCDR_DATA_REPRESENTATION)
                && is_empty (q_representation r))
     else false)
  else false.

Ltac ids :=
  unfold DURABILITY_ID, PRESENTATION_ID, DEADLINE_ID, LATENCYBUDGET_ID, OWNERSHIP_ID, LIVELINESS_ID,
    RELIABILITY_ID, DESTINATIONORDER_ID, DATA_REPRESENTATION_ID in *.

(* split on which policy id we are talking about *)
Ltac id_cases id :=
  destruct (Z.eqb_spec id 2) as [->|?];
  [|destruct (Z.eqb_spec id 3) as [->|?];
  [|destruct (Z.eqb_spec id 4) as [->|?];
  [|destruct (Z.eqb_spec id 5) as [->|?];
  [|destruct (Z.eqb_spec id 8) as [->|?];
  [|destruct (Z.eqb_spec id 11) as [->|?];
  [|destruct (Z.eqb_spec id 12) as [->|?];
  [|destruct (Z.eqb_spec id 6) as [->|?];
  [|destruct (Z.eqb_spec id 23) as [->|?]]]]]]]]].

Lemma in_reader_incompatible id w r :
  In id (reader_incompatible w r) <-> reader_flag id w r = true.
Proof.
  unfold reader_incompatible, reader_flag.
  repeat rewrite in_app_iff. repeat rewrite in_push_if. ids.
  id_cases id; cbn [Z.eqb Pos.eqb];
    (split; [intros H; repeat (destruct H as [H|H]); destruct H as [H1 H2]; try discriminate H2; try lia; exact H1
            | intros H; try discriminate H;
              repeat match goal with |- _ \/ _ => first [left; split; [exact H|reflexivity] | right] end;
              try (split; [exact H|reflexivity])]).
Qed.

Lemma in_writer_incompatible id r w :
  In id (writer_incompatible r w) <-> writer_flag id r w = true.
Proof.
  unfold writer_incompatible, writer_flag.
  repeat rewrite in_app_iff. repeat rewrite in_push_if. ids.
  id_cases id; cbn [Z.eqb Pos.eqb];
    (split; [intros H; repeat (destruct H as [H|H]); destruct H as [H1 H2]; try discriminate H2; try lia; exact H1
            | intros H; try discriminate H;
              repeat match goal with |- _ \/ _ => first [left; split; [exact H|reflexivity] | right] end;
              try (split; [exact H|reflexivity])]).
Qed.

(* ------------------------------------------------------------------ both sides agree *)
Lemma flags_agree id w r : reader_flag id w r = writer_flag id r w.
Proof.
  unfold reader_flag, writer_flag.
  unfold durability_policy_pcmp, deadline_policy_pcmp, latency_policy_pcmp, destination_order_policy_pcmp.
  repeat match goal with |- (if ?c then _ else _) = (if ?c then _ else _) => destruct c end;
    try reflexivity.
  - destruct (q_durability w), (q_durability r); reflexivity.
  - destruct (q_presentation w) as [sw cw ow], (q_presentation r) as [sr cr or_]; cbn [p_scope p_coherent p_ordered].
    destruct sw, sr, cw, cr, ow, or_; reflexivity.
  - apply dk_pcmp_antisym'.
  - apply dk_pcmp_antisym'.
  - rewrite (dk_pcmp_antisym' (l_lease (q_liveliness w)) (l_lease (q_liveliness r))).
    destruct (l_kind (q_liveliness w)), (l_kind (q_liveliness r)); reflexivity.
  - destruct (q_reliability w), (q_reliability r); reflexivity.
  - destruct (q_destination_order w), (q_destination_order r); reflexivity.
  - destruct (q_ownership w), (q_ownership r); reflexivity.
  - destruct (contains (q_representation r) (first_or (q_representation w) XCDR_DATA_REPRESENTATION));
      reflexivity.
Qed.

Lemma both_sides_same_policies w r id :
  In id (reader_incompatible w r) <-> In id (writer_incompatible r w).
Proof. rewrite in_reader_incompatible, in_writer_incompatible, flags_agree. reflexivity. Qed.

Lemma nil_iff_no_member (l : list Z) : l = [] <-> forall x, ~ In x l.
Proof.
  split; [intros -> x []|]. destruct l as [|a t]; [reflexivity|]. intros H. exfalso. apply (H a). left. reflexivity.
Qed.

Lemma both_sides_same_verdict w r :
  reader_incompatible w r = [] <-> writer_incompatible r w = [].
Proof.
  rewrite !nil_iff_no_member. split; intros H x; specialize (H x);
    [rewrite <- both_sides_same_policies | rewrite both_sides_same_policies]; exact H.
Qed.

(* the writer-side list is the reader-side list with its first two entries
   (DURABILITY, PRESENTATION) exchanged: a permutation *)
Lemma both_sides_permutation w r :
  Permutation (reader_incompatible w r) (writer_incompatible r w).
Proof.
  unfold reader_incompatible, writer_incompatible.
  pose proof (flags_agree DURABILITY_ID w r) as F2. pose proof (flags_agree PRESENTATION_ID w r) as F3.
  pose proof (flags_agree DEADLINE_ID w r) as F4. pose proof (flags_agree LATENCYBUDGET_ID w r) as F5.
  pose proof (flags_agree LIVELINESS_ID w r) as F8. pose proof (flags_agree RELIABILITY_ID w r) as F11.
  pose proof (flags_agree DESTINATIONORDER_ID w r) as F12. pose proof (flags_agree OWNERSHIP_ID w r) as F6.
  pose proof (flags_agree DATA_REPRESENTATION_ID w r) as F23.
  unfold reader_flag, writer_flag in *. ids. cbn [Z.eqb Pos.eqb] in *.
  rewrite F2, F3, F4, F5, F8, F11, F12, F6. cbv zeta. rewrite F23.
  rewrite !app_assoc. repeat apply Permutation_app_tail. apply Permutation_app_comm.
Qed.

Lemma NoDup_reader_incompatible w r : NoDup (reader_incompatible w r).
Proof.
  unfold reader_incompatible, push_if. ids. cbv zeta.
  repeat match goal with |- context [if ?b then _ else _] => destruct b end; cbn [app];
    repeat constructor; cbn [In]; intuition discriminate.
Qed.
Lemma NoDup_writer_incompatible r w : NoDup (writer_incompatible r w).
Proof.
  eapply Permutation_NoDup; [apply both_sides_permutation|apply NoDup_reader_incompatible].
Qed.

(* ------------------------------------------------------------------ code flag vs the standard *)
Lemma contains_existsb l x : contains l x = existsb (Z.eqb x) l.
Proof. induction l as [|y t IH]; cbn; [reflexivity|]. rewrite IH, (Z.eqb_sym y x). reflexivity. Qed.

Lemma representation_flag_spec w r :
  negb (contains (q_representation r) (first_or (q_representation w) XCDR_DATA_REPRESENTATION)
        || ((first_or (q_representation w) XCDR_DATA_REPRESENTATION =? XCDR_DATA_REPRESENTATION)
            && is_empty (q_representation r)))
  = negb (spec_representation_ok w r).
Proof.
  unfold spec_representation_ok, spec_effective_representation. f_equal.
  destruct (q_representation w) as [|o wt], (q_representation r) as [|x rt];
    cbn [first_or is_empty contains existsb]; rewrite ?contains_existsb;
    unfold XCDR_DATA_REPRESENTATION; cbn [existsb];
    rewrite ?Bool.andb_true_r, ?Bool.andb_false_r, ?Bool.orb_false_r; try reflexivity.
  rewrite (Z.eqb_sym x o). reflexivity.
Qed.

(* On every policy, for every pair of normalized QoS: the code flags the policy exactly
   when the standard does. *)
Lemma reader_flag_spec id w r :
  eqos_normalized w -> eqos_normalized r ->
  reader_flag id w r = spec_policy_fails id w r.
Proof.
  intros (Hwd & Hwl & Hwv) (Hrd & Hrl & Hrv).
  unfold reader_flag, spec_policy_fails. ids.
  id_cases id; cbn [Z.eqb Pos.eqb].
  - unfold durability_policy_pcmp, spec_durability_ok.
    rewrite durability_kind_pcmp_rank, p_lt_cmp. apply ltb_negb_leb.
  - unfold spec_presentation_ok.
    rewrite access_scope_pcmp_rank, p_lt_cmp.
    destruct (q_presentation w) as [sw cw ow], (q_presentation r) as [sr cr or_]; cbn [p_scope p_coherent p_ordered].
    destruct sw, sr, cw, cr, ow, or_; reflexivity.
  - unfold deadline_policy_pcmp, spec_deadline_ok. apply dk_gt_spec; assumption.
  - unfold latency_policy_pcmp, spec_latency_ok. apply dk_gt_spec; assumption.
  - unfold spec_liveliness_ok, spec_liveliness_kind_ok, spec_liveliness_lease_ok.
    rewrite liveliness_kind_pcmp_rank, p_lt_cmp, (dk_gt_spec _ _ Hwv Hrv), ltb_negb_leb.
    rewrite Bool.negb_andb. reflexivity.
  - unfold spec_reliability_ok. rewrite reliability_kind_pcmp_rank, p_lt_cmp. apply ltb_negb_leb.
  - unfold destination_order_policy_pcmp, spec_destination_order_ok.
    rewrite destination_order_kind_pcmp_rank, p_lt_cmp. apply ltb_negb_leb.
  - unfold spec_ownership_ok. destruct (q_ownership w), (q_ownership r); reflexivity.
  - apply representation_flag_spec.
  - reflexivity.
Qed.

Lemma writer_flag_spec id r w :
  eqos_normalized w -> eqos_normalized r ->
  writer_flag id r w = spec_policy_fails id w r.
Proof. intros Hw Hr. rewrite <- flags_agree. apply reader_flag_spec; assumption. Qed.

(* ------------------------------------------------------------------ the theorems *)
Lemma spec_policy_fails_only_rxo id off req :
  spec_policy_fails id off req = true -> In id rxo_policy_ids.
Proof.
  unfold spec_policy_fails, rxo_policy_ids. ids.
  id_cases id; cbn [Z.eqb Pos.eqb In]; intros H; try discriminate H; tauto.
Qed.

Lemma in_spec_failing id off req :
  In id (spec_failing off req) <-> spec_policy_fails id off req = true.
Proof.
  unfold spec_failing. rewrite filter_In. split; [tauto|].
  intros H. split; [eapply spec_policy_fails_only_rxo; eassumption|exact H].
Qed.

Lemma dds_rxo_true_iff off req :
  dds_rxo off req = true <-> forall id, spec_policy_fails id off req = false.
Proof.
  unfold dds_rxo. split.
  - intros H id. destruct (spec_policy_fails id off req) eqn:E; [|reflexivity].
    apply in_spec_failing in E. destruct (spec_failing off req); [destruct E|discriminate H].
  - intros H. destruct (spec_failing off req) as [|a t] eqn:E; [reflexivity|].
    assert (In a (spec_failing off req)) as I by (rewrite E; left; reflexivity).
    apply in_spec_failing in I. rewrite H in I. discriminate I.
Qed.

(* the reported list names exactly the failing policies *)
Theorem reader_reported_policies_exact w r :
  eqos_normalized w -> eqos_normalized r ->
  forall id, In id (reader_incompatible w r) <-> spec_policy_fails id w r = true.
Proof.
  intros Hw Hr id. rewrite in_reader_incompatible, (reader_flag_spec id w r Hw Hr). reflexivity.
Qed.
Theorem writer_reported_policies_exact r w :
  eqos_normalized w -> eqos_normalized r ->
  forall id, In id (writer_incompatible r w) <-> spec_policy_fails id w r = true.
Proof.
  intros Hw Hr id. rewrite <- both_sides_same_policies. apply reader_reported_policies_exact; assumption.
Qed.

Theorem reader_side_eq_spec w r :
  eqos_normalized w -> eqos_normalized r ->
  (reader_incompatible w r = [] <-> dds_rxo w r = true).
Proof.
  intros Hw Hr. rewrite nil_iff_no_member, dds_rxo_true_iff. split; intros H id; specialize (H id).
  - rewrite (reader_reported_policies_exact w r Hw Hr id) in H.
    destruct (spec_policy_fails id w r); [exfalso; apply H|]; reflexivity.
  - rewrite (reader_reported_policies_exact w r Hw Hr id), H. discriminate.
Qed.
Theorem writer_side_eq_spec r w :
  eqos_normalized w -> eqos_normalized r ->
  (writer_incompatible r w = [] <-> dds_rxo w r = true).
Proof.
  intros Hw Hr. rewrite <- both_sides_same_verdict. apply reader_side_eq_spec; assumption.
Qed.

(* ------------------------------------------------------------------ regression witnesses of the two fixed defects *)
Definition qdefault : eqos :=
  mkeqos Volatile (mkpresentation ScopeInstance false false) Infinite (Finite (mkduration 0 0))
         (mkliveliness Automatic Infinite) Reliable ByReceptionTimestamp Shared [].
Definition with_lease (q : eqos) (k : liveliness_kind) (s : Z) : eqos :=
  mkeqos (q_durability q) (q_presentation q) (q_deadline q) (q_latency q)
         (mkliveliness k (Finite (mkduration s 0))) (q_reliability q) (q_destination_order q)
         (q_ownership q) (q_representation q).
Definition with_presentation (q : eqos) (p : presentation_policy) : eqos :=
  mkeqos (q_durability q) p (q_deadline q) (q_latency q) (q_liveliness q) (q_reliability q)
         (q_destination_order q) (q_ownership q) (q_representation q).

(* the inputs on which the code before f03d4da / 908a0e8 was wrong, now decided correctly:
   offered lease 20 s vs requested 10 s (incompatible), 10 s vs 20 s (compatible),
   coherent_access offered and not requested (compatible) *)
Example fixed_defects_regression :
  reader_incompatible (with_lease qdefault Automatic 20) (with_lease qdefault Automatic 10) = [LIVELINESS_ID] /\
  writer_incompatible (with_lease qdefault Automatic 10) (with_lease qdefault Automatic 20) = [LIVELINESS_ID] /\
  reader_incompatible (with_lease qdefault Automatic 10) (with_lease qdefault Automatic 20) = [] /\
  reader_incompatible (with_presentation qdefault (mkpresentation ScopeInstance true false)) qdefault = [] /\
  writer_incompatible qdefault (with_presentation qdefault (mkpresentation ScopeInstance true false)) = [].
Proof. repeat split; reflexivity. Qed.

(* the derived lexicographic order of LivelinessQosPolicy, still present in qos_policy.rs,
   is NOT the standard's compatibility: it must not be used for matching *)
Lemma derived_liveliness_order_is_not_rxo :
  let w := with_lease qdefault Automatic 20 in let r := with_lease qdefault Automatic 10 in
  p_lt (liveliness_policy_pcmp (q_liveliness w) (q_liveliness r)) = false /\ spec_liveliness_ok w r = false.
Proof. cbv zeta. split; reflexivity. Qed.

(* decidable side conditions are reflected *)
Lemma dk_normalizedb_true k : dk_normalizedb k = true <-> dk_normalized k.
Proof.
  destruct k as [d|]; cbn; [|tauto]. unfold duration_normalized.
  rewrite Bool.andb_true_iff, Z.leb_le, Z.ltb_lt. tauto.
Qed.
Lemma eqos_normalizedb_true q : eqos_normalizedb q = true <-> eqos_normalized q.
Proof.
  unfold eqos_normalizedb, eqos_normalized. rewrite !Bool.andb_true_iff, !dk_normalizedb_true. tauto.
Qed.
