(* C15, the decision "matched / incompatible / nothing" at the two call sites
     DcpsDomainParticipant::process_discovered_readers (discovery_methods.rs:871)
     DcpsDomainParticipant::process_discovered_writers (discovery_methods.rs:1494)
   for ONE local endpoint and ONE discovered endpoint, in the branch where the discovered
   data carries no TypeInformation (types are then compared by name).  Definitions only. *)
From DustDDS Require Export Base.Machine Qos.CompatModel Qos.PartitionModel.
Open Scope Z_scope.

Record config : Type := mkconfig {
  c_topic_eq : bool;            (* discovered topic name == local topic name *)
  c_type_eq : bool;             (* discovered type name == type name of the local topic *)
  c_off : eqos;                 (* DataWriterQos + presentation of its Publisher *)
  c_req : eqos;                 (* DataReaderQos + presentation of its Subscriber *)
  c_pub_part : list name;       (* PublisherQos.partition.name *)
  c_sub_part : list name        (* SubscriberQos.partition.name *)
}.

(* what becomes observable on the local endpoint *)
Inductive verdict : Type :=
| VNothing                               (* filtered by topic name, or partition mismatch *)
| VInconsistentTopic                     (* inconsistent_topic_status.total_count += 1 *)
| VMatched                               (* pushed on the matched list, matched status +1 *)
| VIncompatible (last : Z) (ids : list Z).  (* offered/requested incompatible QoS status:
                                               last_policy_id, policies in status order *)

(* add_incompatible_subscription / add_requested_incompatible_qos on a fresh endpoint:
   last_policy_id = list[0]; one QosPolicyCount per pushed id, in order *)
Definition verdict_of_list (l : list Z) : verdict :=
  match l with [] => VMatched | id :: _ => VIncompatible id l end.

Definition decide (topic_eq type_eq : bool) (part : option bool) (l : list Z) : option verdict :=
  if negb topic_eq then Some VNothing             (* .filter(|x| x.topic_name == ...) *)
  else match part with
       | None => None
       | Some false => Some VNothing              (* if is_partition_matched { ... } *)
       | Some true =>
           if negb type_eq then Some VInconsistentTopic
           else Some (verdict_of_list l)
       end.

(* the writer's participant: the reader is the discovered ("received") endpoint *)
Definition writer_side (c : config) : option verdict :=
  decide (c_topic_eq c) (c_type_eq c)
         (partition_matched (c_sub_part c) (c_pub_part c))
         (reader_incompatible (c_off c) (c_req c)).
(* the reader's participant: the writer is the discovered endpoint *)
Definition reader_side (c : config) : option verdict :=
  decide (c_topic_eq c) (c_type_eq c)
         (partition_matched (c_pub_part c) (c_sub_part c))
         (writer_incompatible (c_req c) (c_off c)).

(* ------------------------------------------------------------------ the property *)
(* "matched iff topic names equal, types compatible, partitions match, every RxO policy
   compatible" *)
Definition dds_should_match (c : config) : bool :=
  c_topic_eq c && c_type_eq c && dds_partition_match (c_pub_part c) (c_sub_part c)
  && dds_rxo (c_off c) (c_req c).
(* "an incompatible pair": everything but the QoS fits *)
Definition dds_incompatible_pair (c : config) : bool :=
  c_topic_eq c && c_type_eq c && dds_partition_match (c_pub_part c) (c_sub_part c)
  && negb (dds_rxo (c_off c) (c_req c)).

Definition config_in_domain (c : config) : bool :=
  eqos_normalizedb (c_off c) && eqos_normalizedb (c_req c)
  && names_supported (c_pub_part c) && names_supported (c_sub_part c).
Definition config_known (c : config) : bool := known_partition (c_pub_part c) (c_sub_part c).

Definition is_matched (v : verdict) : bool := match v with VMatched => true | _ => false end.
Fixpoint subset (a b : list Z) : bool :=
  match a with [] => true | x :: t => contains b x && subset t b end.
Fixpoint nodupb (a : list Z) : bool :=
  match a with [] => true | x :: t => negb (contains t x) && nodupb t end.
(* the status names exactly the policies in `fs` *)
Definition reports (v : verdict) (fs : list Z) : bool :=
  match v with
  | VIncompatible last ids => subset ids fs && subset fs ids && nodupb ids && contains ids last
  | _ => false
  end.
