(* C15, partition part: proofs about Qos/PartitionModel.v *)
From DustDDS Require Import Base.Machine Qos.PartitionModel.
Open Scope Z_scope.

(* ------------------------------------------------------------------ names *)
Lemma name_eqb_eq a b : name_eqb a b = true <-> a = b.
Proof.
  revert b. induction a as [|x a IH]; destruct b as [|y b]; cbn; try (split; congruence).
  rewrite Bool.andb_true_iff, Z.eqb_eq, IH. split; [intros [-> ->]; reflexivity|intros H; inversion H; auto].
Qed.
Lemma name_eqb_refl a : name_eqb a a = true.
Proof. apply name_eqb_eq. reflexivity. Qed.
Lemma name_eqb_sym a b : name_eqb a b = name_eqb b a.
Proof.
  destruct (name_eqb a b) eqn:E.
  - apply name_eqb_eq in E. subst. symmetry. apply name_eqb_refl.
  - destruct (name_eqb b a) eqn:E'; [|reflexivity]. apply name_eqb_eq in E'. subst.
    rewrite name_eqb_refl in E. discriminate.
Qed.
Lemma names_eqb_eq a b : names_eqb a b = true <-> a = b.
Proof.
  revert b. induction a as [|x a IH]; destruct b as [|y b]; cbn; try (split; congruence).
  rewrite Bool.andb_true_iff, name_eqb_eq, IH. split; [intros [-> ->]; reflexivity|intros H; inversion H; auto].
Qed.
Lemma name_in_In n l : name_in n l = true <-> In n l.
Proof.
  unfold name_in. rewrite existsb_exists. split.
  - intros (x & Hx & E). apply name_eqb_eq in E. subst. exact Hx.
  - intros H. exists n. split; [exact H|apply name_eqb_refl].
Qed.

Lemma existsb_ext_in {A} (f g : A -> bool) l :
  (forall x, In x l -> f x = g x) -> existsb f l = existsb g l.
Proof.
  induction l as [|x l IH]; intros H; [reflexivity|]. cbn.
  rewrite (H x (or_introl eq_refl)), IH; [reflexivity|]. intros y Hy. apply H. right. exact Hy.
Qed.

Lemma existsb_false_all {A} (f : A -> bool) l : existsb f l = false -> forall x, In x l -> f x = false.
Proof.
  intros H x Hx. destruct (f x) eqn:E; [|reflexivity].
  assert (existsb f l = true) by (apply existsb_exists; exists x; auto). congruence.
Qed.

(* ------------------------------------------------------------------ A. the literal buffer is transparent *)
Lemma map_TLit_app a b : map TLit (a ++ b) = map TLit a ++ map TLit b.
Proof. apply map_app. Qed.

Lemma translate_loop_acc fuel : forall p out lit,
  translate_loop fuel p out lit = out ++ map TLit lit ++ translate_loop fuel p [] [].
Proof.
  induction fuel as [|f IH]; intros p out lit.
  - cbn. unfold flush. cbn. rewrite app_nil_r. reflexivity.
  - destruct p as [|c p']; [cbn; unfold flush; cbn; rewrite app_nil_r; reflexivity|].
    cbn [translate_loop].
    destruct (c =? c_bslash).
    { destruct p' as [|next p''].
      - rewrite (IH [] out (lit ++ [c_bslash])), (IH [] [] ([] ++ [c_bslash])).
        rewrite map_TLit_app. cbn [app map]. rewrite <- !app_assoc. reflexivity.
      - rewrite (IH p'' out (lit ++ [next])), (IH p'' [] ([] ++ [next])).
        rewrite map_TLit_app. cbn [app map]. rewrite <- !app_assoc. reflexivity. }
    destruct (c =? c_star).
    { rewrite (IH p' (flush out lit ++ [TDotStar]) []), (IH p' (flush [] [] ++ [TDotStar]) []).
      unfold flush. cbn [app map]. rewrite <- !app_assoc. reflexivity. }
    destruct (c =? c_qmark).
    { rewrite (IH p' (flush out lit ++ [TDot]) []), (IH p' (flush [] [] ++ [TDot]) []).
      unfold flush. cbn [app map]. rewrite <- !app_assoc. reflexivity. }
    destruct (c =? c_lbrack).
    { destruct (match p' with
                | [] => (false, p')
                | n :: q => if (n =? c_bang) || (n =? c_caret) then (true, q) else (false, p')
                end) as [neg p1].
      destruct (scan_class p1 []) as [[closed pushed] rest].
      destruct closed.
      - rewrite (IH rest (flush out lit ++ [TClass neg (removelast pushed)]) []),
                (IH rest (flush [] [] ++ [TClass neg (removelast pushed)]) []).
        unfold flush. cbn [app map]. rewrite <- !app_assoc. reflexivity.
      - set (L := c_lbrack :: (if neg then [c_caret] else []) ++ pushed).
        rewrite (IH rest (flush out lit) L), (IH rest (flush [] []) L).
        unfold flush. cbn [app map]. rewrite <- !app_assoc. reflexivity. }
    destruct (c =? c_plus).
    { rewrite (IH p' (flush out lit ++ [TPlus]) []), (IH p' (flush [] [] ++ [TPlus]) []).
      unfold flush. cbn [app map]. rewrite <- !app_assoc. reflexivity. }
    rewrite (IH p' out (lit ++ [c])), (IH p' [] ([] ++ [c])).
    rewrite map_TLit_app. cbn [app map]. rewrite <- !app_assoc. reflexivity.
Qed.

(* ------------------------------------------------------------------ C. bracket expressions *)
Lemma plain_not_special c :
  plain c = true -> c <> c_rbrack /\ c <> c_bslash /\ c <> c_dash.
Proof.
  unfold plain. rewrite Bool.negb_true_iff, !Bool.orb_false_iff, !Z.eqb_neq. tauto.
Qed.

Lemma scan_class_plain c t acc :
  plain c = true -> scan_class (c :: t) acc = scan_class t (acc ++ [c]).
Proof.
  intros H. apply plain_not_special in H as (H1 & H2 & _). cbn [scan_class].
  apply Z.eqb_neq in H1, H2. rewrite H1, H2. reflexivity.
Qed.

Lemma scan_class_dash t acc : scan_class (c_dash :: t) acc = scan_class t (acc ++ [c_dash]).
Proof. reflexivity. Qed.

(* parse_class of a body that starts with a single plain character not followed by a range *)
Lemma parse_class_single c body :
  plain c = true ->
  (forall d hi t, body = d :: hi :: t -> d <> c_dash) ->
  parse_class (c :: body) = match parse_class body with POk rs => POk ((c, c) :: rs) | e => e end.
Proof.
  intros Hc Hd. cbn [parse_class]. destruct body as [|d [|hi t]]; rewrite ?Hc; try reflexivity.
  specialize (Hd d hi t eq_refl). apply Z.eqb_neq in Hd. rewrite Hd. reflexivity.
Qed.

(* what fnmatch reads as a bracket expression is what the code copies into the regex, and
   the regex crate reads the copied body as the same set of ranges *)
Lemma bracket_items_scan n : forall p rs rest acc,
  (length p <= n)%nat ->
  fn_bracket_items p = Some (rs, rest) ->
  exists body,
    p = body ++ c_rbrack :: rest /\
    scan_class p acc = (true, acc ++ body ++ [c_rbrack], rest) /\
    parse_class body = POk rs /\
    (rs = [] <-> body = []).
Proof.
  induction n as [|n IH]; intros p rs rest acc Hlen H.
  - destruct p; [discriminate H|cbn in Hlen; lia].
  - destruct p as [|c t]; [discriminate H|].
    cbn [fn_bracket_items] in H.
    destruct (Z.eqb_spec c c_rbrack) as [->|Hc].
    + inversion H; subst. exists []. cbn. repeat split; auto; try tauto.
    + assert (Single : forall rs' rest',
                plain c = true ->
                (forall d hi t', t = d :: hi :: t' -> d <> c_dash) ->
                fn_bracket_items t = Some (rs', rest') ->
                rs = (c, c) :: rs' -> rest = rest' ->
                exists body,
                  c :: t = body ++ c_rbrack :: rest /\
                  scan_class (c :: t) acc = (true, acc ++ body ++ [c_rbrack], rest) /\
                  parse_class body = POk rs /\
                  (rs = [] <-> body = [])).
      { intros rs' rest' Hp Hnd Ht -> ->.
        destruct (IH t rs' rest' (acc ++ [c]) ltac:(cbn in Hlen; lia) Ht) as (body' & E & S & P & _).
        exists (c :: body'). split; [cbn; rewrite E; reflexivity|]. split.
        - rewrite (scan_class_plain c t acc Hp), S. cbn. rewrite <- !app_assoc. reflexivity.
        - split; [|split; discriminate].
          rewrite parse_class_single, P; [reflexivity|exact Hp|].
          intros d hi t0 Eb. subst body'. cbn in E. apply (Hnd d hi (t0 ++ c_rbrack :: rest')).
          destruct t0; exact E. }
      destruct t as [|d [|hi t']].
      * destruct (plain c) eqn:Hp; [|discriminate H]. cbn in H. discriminate H.
      * destruct (plain c) eqn:Hp; [|discriminate H].
        destruct (fn_bracket_items [d]) as [[rs' rest']|] eqn:Ht; [|discriminate H].
        inversion H; subst. eapply Single; eauto. intros ? ? ? E; discriminate E.
      * destruct (Z.eqb_spec d c_dash) as [->|Hd].
        -- destruct (plain c) eqn:Hpc; [|discriminate H].
           destruct (plain hi) eqn:Hph; [|discriminate H].
           destruct (c <=? hi) eqn:Hle; [|discriminate H]. cbn [andb] in H.
           destruct (fn_bracket_items t') as [[rs' rest']|] eqn:Ht; [|discriminate H].
           inversion H; subst.
           destruct (IH t' rs' rest (acc ++ [c] ++ [c_dash] ++ [hi]) ltac:(cbn in Hlen; lia) Ht)
             as (body' & E & S & P & _).
           exists (c :: c_dash :: hi :: body'). split; [cbn; rewrite E; reflexivity|]. split.
           ++ rewrite (scan_class_plain c _ acc Hpc), scan_class_dash, (scan_class_plain hi _ _ Hph).
              rewrite <- !app_assoc. cbn [app]. cbn [app] in S. rewrite S.
              rewrite <- !app_assoc. reflexivity.
           ++ split; [|split; discriminate].
              cbn [parse_class]. rewrite Z.eqb_refl, Hpc, Hph, Hle, P. reflexivity.
        -- destruct (plain c) eqn:Hp; [|discriminate H].
           destruct (fn_bracket_items (d :: hi :: t')) as [[rs' rest']|] eqn:Ht; [|discriminate H].
           inversion H; subst. eapply Single; eauto.
           intros d0 hi0 t0 E. inversion E; subst. exact Hd.
Qed.

Lemma bracket_items_rest_shorter n : forall p rs rest,
  (length p <= n)%nat -> fn_bracket_items p = Some (rs, rest) -> (length rest < length p)%nat.
Proof.
  intros p rs rest Hlen H.
  destruct (bracket_items_scan n p rs rest [] Hlen H) as (body & E & _).
  rewrite E, app_length. cbn. lia.
Qed.

Definition strip_neg (p : list Z) : bool * list Z :=
  match p with
  | n :: q => if (n =? c_bang) || (n =? c_caret) then (true, q) else (false, p)
  | [] => (false, p)
  end.

Lemma strip_neg_length p : (length (snd (strip_neg p)) <= length p)%nat.
Proof. destruct p as [|n q]; cbn; [lia|]. destruct ((n =? c_bang) || (n =? c_caret)); cbn; lia. Qed.

Lemma fn_bracket_spec p neg rs rest :
  fn_bracket p = Some (neg, rs, rest) ->
  neg = fst (strip_neg p) /\ rs <> [] /\ fn_bracket_items (snd (strip_neg p)) = Some (rs, rest).
Proof.
  unfold fn_bracket. fold (strip_neg p). destruct (strip_neg p) as [ng p1]. cbn [fst snd].
  destruct (fn_bracket_items p1) as [[[|r rs'] rest']|]; try discriminate.
  intros H; inversion H; subst. repeat split. discriminate.
Qed.

(* ------------------------------------------------------------------ B. the translator against fnmatch's reading *)
Inductive tok_rel : ftok -> tok -> Prop :=
| rel_lit c : tok_rel (FLit c) (TLit c)
| rel_any : tok_rel FAny TDot
| rel_star : tok_rel FStar TDotStar
| rel_set neg rs body : body <> [] -> parse_class body = POk rs -> tok_rel (FSet neg rs) (TClass neg body).

Definition no_plus (ts : list tok) : Prop := existsb is_tplus ts = false.

Lemma no_plus_app a b : no_plus (a ++ b) <-> no_plus a /\ no_plus b.
Proof. unfold no_plus. rewrite existsb_app, Bool.orb_false_iff. reflexivity. Qed.

Lemma removelast_snoc {A} (l : list A) x : removelast (l ++ [x]) = l.
Proof. apply removelast_last. Qed.

Lemma translate_rel f1 : forall p f2 fts,
  fn_tokens_fuel f1 p = Some fts ->
  (length p < f2)%nat ->
  no_plus (translate_loop f2 p [] []) ->
  Forall2 tok_rel fts (translate_loop f2 p [] []).
Proof.
  induction f1 as [|f1 IH]; intros p f2 fts H Hlen NP; [discriminate H|].
  destruct f2 as [|f2]; [lia|].
  destruct p as [|c p']; [inversion H; subst; cbn; constructor|].
  cbn [fn_tokens_fuel] in H. cbn [translate_loop] in NP |- *. cbn [length] in Hlen.
  destruct (c =? c_bslash).
  { destruct p' as [|q p'']; [discriminate H|].
    destruct (fn_tokens_fuel f1 p'') as [fts'|] eqn:E; [|discriminate H]. inversion H; subst.
    rewrite translate_loop_acc in NP |- *. cbn [app map] in NP |- *.
    constructor; [constructor|]. apply IH; [exact E|cbn in Hlen; lia|].
    change (TLit q :: translate_loop f2 p'' [] []) with ([TLit q] ++ translate_loop f2 p'' [] []) in NP.
    apply no_plus_app in NP. tauto. }
  destruct (c =? c_star).
  { destruct (fn_tokens_fuel f1 p') as [fts'|] eqn:E; [|discriminate H]. inversion H; subst.
    rewrite translate_loop_acc in NP |- *. cbn [flush app map] in NP |- *.
    constructor; [constructor|]. apply IH; [exact E|lia|].
    change (TDotStar :: translate_loop f2 p' [] []) with ([TDotStar] ++ translate_loop f2 p' [] []) in NP.
    apply no_plus_app in NP. tauto. }
  destruct (c =? c_qmark).
  { destruct (fn_tokens_fuel f1 p') as [fts'|] eqn:E; [|discriminate H]. inversion H; subst.
    rewrite translate_loop_acc in NP |- *. cbn [flush app map] in NP |- *.
    constructor; [constructor|]. apply IH; [exact E|lia|].
    change (TDot :: translate_loop f2 p' [] []) with ([TDot] ++ translate_loop f2 p' [] []) in NP.
    apply no_plus_app in NP. tauto. }
  destruct (c =? c_lbrack).
  { destruct (fn_bracket p') as [[[neg rs] rest]|] eqn:B; [|discriminate H].
    destruct (fn_tokens_fuel f1 rest) as [fts'|] eqn:E; [|discriminate H]. inversion H; subst.
    apply fn_bracket_spec in B as (Hneg & Hrs & Hitems).
    fold (strip_neg p') in NP |- *. destruct (strip_neg p') as [ng p1] eqn:SN. cbn [fst snd] in *. subst ng.
    destruct (bracket_items_scan (length p1) p1 rs rest [] (le_n _) Hitems) as (body & Ep & S & P & Hne).
    cbn [app] in S. rewrite S in NP |- *.
    rewrite removelast_snoc in NP |- *.
    rewrite translate_loop_acc in NP |- *. cbn [flush app map] in NP |- *.
    assert (length rest < length p')%nat.
    { pose proof (strip_neg_length p') as L. rewrite SN in L. cbn in L.
      pose proof (bracket_items_rest_shorter _ p1 rs rest (le_n _) Hitems). lia. }
    constructor.
    - constructor; [|exact P]. intros Eb. apply Hrs. apply Hne. exact Eb.
    - apply IH; [exact E|lia|].
      change (TClass neg body :: translate_loop f2 rest [] [])
        with ([TClass neg body] ++ translate_loop f2 rest [] []) in NP.
      apply no_plus_app in NP. tauto. }
  destruct (c =? c_plus).
  { exfalso. rewrite translate_loop_acc in NP. cbn [flush app map] in NP.
    unfold no_plus in NP. cbn in NP. discriminate NP. }
  destruct (fn_tokens_fuel f1 p') as [fts'|] eqn:E; [|discriminate H]. inversion H; subst.
  rewrite translate_loop_acc in NP |- *. cbn [app map] in NP |- *.
  constructor; [constructor|]. apply IH; [exact E|lia|].
  change (TLit c :: translate_loop f2 p' [] []) with ([TLit c] ++ translate_loop f2 p' [] []) in NP.
  apply no_plus_app in NP. tauto.
Qed.

(* ------------------------------------------------------------------ D. what the regex crate makes of it *)
Definition rep_of (t : ftok) : rep :=
  match t with
  | FLit c => ROne (CSingle c)
  | FAny => ROne CAny
  | FStar => RStar CAny
  | FSet neg rs => ROne (CRanges neg rs)
  end.

Lemma regex_parse_rel fts toks : Forall2 tok_rel fts toks ->
  forall acc, regex_parse toks acc = POk (acc ++ map rep_of fts).
Proof.
  induction 1 as [|ft t fts toks R _ IH]; intros acc; [cbn; rewrite app_nil_r; reflexivity|].
  destruct R; cbn [regex_parse map rep_of].
  - rewrite IH, <- app_assoc. reflexivity.
  - rewrite IH, <- app_assoc. reflexivity.
  - rewrite IH, <- app_assoc. reflexivity.
  - destruct body as [|b0 body]; [congruence|]. rewrite H0, IH, <- app_assoc. reflexivity.
Qed.

(* ------------------------------------------------------------------ E. matching *)
Lemma star_match_ext k1 k2 m1 m2 s :
  (forall t, (length t <= length s)%nat -> k1 t = k2 t) ->
  (forall c, m1 c = m2 c) ->
  star_match k1 m1 s = star_match k2 m2 s.
Proof.
  intros Hk Hm. induction s as [|c s IH]; cbn [star_match].
  - rewrite (Hk [] (le_n _)). reflexivity.
  - rewrite (Hk (c :: s) (le_n _)), (Hm c), IH; [reflexivity|].
    intros t Ht. apply Hk. cbn. lia.
Qed.

Lemma reps_match_fn fts : forall s, reps_match (map rep_of fts) s = fn_match fts s.
Proof.
  induction fts as [|t fts IH]; intros s; [reflexivity|].
  destruct t as [x| | |ng rs]; cbn [map rep_of reps_match fn_match].
  - destruct s as [|c s]; [reflexivity|]. rewrite IH. reflexivity.
  - destruct s as [|c s]; [reflexivity|]. rewrite IH. reflexivity.
  - apply star_match_ext; [intros t _; apply IH|reflexivity].
  - destruct s as [|c s]; [reflexivity|]. rewrite IH. reflexivity.
Qed.

(* the pattern, compiled by the code and run by the regex crate, decides exactly what
   fnmatch decides *)
Theorem compile_is_fnmatch p fts :
  fn_tokens p = Some fts -> has_plus p = false ->
  compile p = POk (map rep_of fts) /\
  forall s, reps_match (map rep_of fts) s = fn_match fts s.
Proof.
  intros H NP. split; [|intros s; apply reps_match_fn].
  unfold compile. rewrite (regex_parse_rel fts (fnmatch_to_regex p)); [reflexivity|].
  apply (translate_rel (S (length p))); [exact H|lia|exact NP].
Qed.

(* ------------------------------------------------------------------ F. names without special characters *)
Lemma special_false c : special c = false ->
  (c =? c_bslash) = false /\ (c =? c_star) = false /\ (c =? c_qmark) = false /\ (c =? c_lbrack) = false.
Proof. unfold special. rewrite !Bool.orb_false_iff. tauto. Qed.

Lemma fn_tokens_plain_fuel f : forall a, (length a < f)%nat -> wild a = false ->
  fn_tokens_fuel f a = Some (map FLit a).
Proof.
  induction f as [|f IH]; intros a Hl Hw; [lia|].
  destruct a as [|c a]; [reflexivity|].
  unfold wild in Hw. cbn [existsb] in Hw. apply Bool.orb_false_iff in Hw as [Hc Hw].
  apply special_false in Hc as (H1 & H2 & H3 & H4).
  cbn [fn_tokens_fuel]. rewrite H1, H2, H3, H4, IH; [reflexivity|cbn in Hl; lia|exact Hw].
Qed.
Lemma fn_tokens_plain a : wild a = false -> fn_tokens a = Some (map FLit a).
Proof. intros H. apply fn_tokens_plain_fuel; [lia|exact H]. Qed.

Lemma fn_match_lits a : forall b, fn_match (map FLit a) b = name_eqb a b.
Proof.
  induction a as [|x a IH]; intros b; destruct b as [|y b]; cbn; try reflexivity.
  rewrite IH, (Z.eqb_sym y x). reflexivity.
Qed.

(* ------------------------------------------------------------------ G. lists of names *)
Definition pat_match (p n : name) : bool :=
  match compile p with POk r => reps_match r n | _ => false end.

Lemma any_regex_match_ok patterns names :
  (forall p, In p patterns -> exists r, compile p = POk r) ->
  any_regex_match patterns names = Some (existsb (fun p => existsb (pat_match p) names) patterns).
Proof.
  induction patterns as [|p t IH]; intros H; [reflexivity|].
  cbn [any_regex_match existsb]. destruct (H p (or_introl eq_refl)) as [r Er].
  rewrite IH by (intros q Hq; apply H; right; exact Hq). rewrite Er.
  f_equal. f_equal. apply existsb_ext_in. intros n _. unfold pat_match. rewrite Er. reflexivity.
Qed.

Definition name_ok (n : name) : Prop :=
  fn_supported n = true /\ has_plus n = false.

Lemma name_ok_compiles n : name_ok n -> exists r, compile n = POk r.
Proof.
  intros (Hs & Hp). unfold fn_supported in Hs. destruct (fn_tokens n) as [fts|] eqn:E; [|discriminate Hs].
  exists (map rep_of fts). apply (compile_is_fnmatch n fts E Hp).
Qed.

(* one name used as a pattern for another *)
Lemma pat_match_spec a b : name_ok a -> name_ok b ->
  pat_match a b = if wild a then match fnmatch a b with Some r => r | None => false end else name_eqb a b.
Proof.
  intros (Hs & Hp) _. unfold fn_supported in Hs.
  destruct (fn_tokens a) as [fts|] eqn:E; [|discriminate Hs].
  destruct (compile_is_fnmatch a fts E Hp) as [C Mt].
  unfold pat_match, fnmatch. rewrite C, E, (Mt b). cbn [option_map].
  destruct (wild a) eqn:W; [reflexivity|].
  rewrite (fn_tokens_plain a W) in E. inversion E; subst. apply fn_match_lits.
Qed.

Lemma wild_differs a b : wild a = true -> wild b = false -> name_eqb a b = false.
Proof.
  intros Ha Hb. destruct (name_eqb a b) eqn:E; [|reflexivity]. apply name_eqb_eq in E. subst. congruence.
Qed.

Lemma code_pair_match_unfold a b :
  code_pair_match a b = name_eqb a b || pat_match a b || pat_match b a.
Proof. reflexivity. Qed.

Lemma pair_spec a b : name_ok a -> name_ok b ->
  (wild a && wild b && code_pair_match a b) = false ->
  code_pair_match a b = dds_name_match a b.
Proof.
  intros Ha Hb K. rewrite code_pair_match_unfold in *. unfold dds_name_match.
  rewrite (pat_match_spec a b Ha Hb), (pat_match_spec b a Hb Ha) in *.
  destruct (wild a) eqn:Wa, (wild b) eqn:Wb; cbn [andb] in *.
  - exact K.
  - rewrite (wild_differs a b Wa Wb), (name_eqb_sym b a), (wild_differs a b Wa Wb).
    rewrite Bool.orb_false_r. reflexivity.
  - rewrite (name_eqb_sym a b), (wild_differs b a Wb Wa). reflexivity.
  - rewrite (name_eqb_sym b a). destruct (name_eqb a b); reflexivity.
Qed.

(* the boolean the code computes, regrouped pair by pair *)
Lemma code_bool_pairs recv loc :
  recv <> [] ->
  (names_eqb recv loc
   || existsb (fun n => name_in n loc) recv
   || existsb (fun p => existsb (pat_match p) loc) recv
   || existsb (fun p => existsb (pat_match p) recv) loc) = true
  <-> exists a b, In a recv /\ In b loc /\ code_pair_match a b = true.
Proof.
  intros Hne. rewrite !Bool.orb_true_iff. split.
  - intros [[[H|H]|H]|H].
    + apply names_eqb_eq in H. subst loc. destruct recv as [|a t]; [congruence|].
      exists a, a. repeat split; try (left; reflexivity).
      rewrite code_pair_match_unfold, name_eqb_refl. reflexivity.
    + apply existsb_exists in H as (a & Ha & H). apply name_in_In in H.
      exists a, a. repeat split; auto. rewrite code_pair_match_unfold, name_eqb_refl. reflexivity.
    + apply existsb_exists in H as (a & Ha & H). apply existsb_exists in H as (b & Hb & H).
      exists a, b. repeat split; auto. rewrite code_pair_match_unfold, H, Bool.orb_true_r. reflexivity.
    + apply existsb_exists in H as (b & Hb & H). apply existsb_exists in H as (a & Ha & H).
      exists a, b. repeat split; auto. rewrite code_pair_match_unfold, H, Bool.orb_true_r. reflexivity.
  - intros (a & b & Ha & Hb & H). rewrite code_pair_match_unfold, !Bool.orb_true_iff in H.
    destruct H as [[H|H]|H].
    + apply name_eqb_eq in H. subst b. left. left. right. apply existsb_exists. exists a. split; auto.
      apply name_in_In. exact Hb.
    + left. right. apply existsb_exists. exists a. split; auto. apply existsb_exists. exists b. auto.
    + right. apply existsb_exists. exists b. split; auto. apply existsb_exists. exists a. auto.
Qed.

Lemma known_plus_false a b : known_plus a b = false ->
  (forall n, In n a -> has_plus n = false) /\ (forall n, In n b -> has_plus n = false).
Proof.
  unfold known_plus. rewrite Bool.orb_false_iff. intros [A B]. split; apply existsb_false_all; assumption.
Qed.
Lemma names_supported_all l : names_supported l = true -> forall n, In n l -> fn_supported n = true.
Proof. unfold names_supported. rewrite forallb_forall. auto. Qed.

(* the partition test of the code is the PARTITION rule of the standard, outside the four
   recorded classes, on supported names *)
Theorem partition_match_eq_spec recv loc :
  names_supported recv = true -> names_supported loc = true ->
  known_partition recv loc = false ->
  partition_matched recv loc = Some (dds_partition_match recv loc).
Proof.
  intros Sr Sl K. unfold known_partition in K.
  apply Bool.orb_false_iff in K as [K Kw].
  apply Bool.orb_false_iff in K as [Kp Kd].
  apply known_plus_false in Kp as [Pr Pl].
  pose proof (names_supported_all _ Sr) as Sr'. pose proof (names_supported_all _ Sl) as Sl'.
  assert (OKr : forall n, In n recv -> name_ok n) by (intros n Hn; repeat split; auto).
  assert (OKl : forall n, In n loc -> name_ok n) by (intros n Hn; repeat split; auto).
  unfold partition_matched.
  rewrite (any_regex_match_ok recv loc) by (intros p Hp; apply name_ok_compiles; auto).
  rewrite (any_regex_match_ok loc recv) by (intros p Hp; apply name_ok_compiles; auto).
  f_equal.
  unfold known_default in Kd.
  destruct recv as [|r0 recv'], loc as [|l0 loc']; try discriminate Kd; [reflexivity|].
  set (recv := r0 :: recv') in *. set (loc := l0 :: loc') in *.
  unfold dds_partition_match. change (effective_partition recv) with recv. change (effective_partition loc) with loc.
  apply Bool.eq_true_iff_eq. rewrite code_bool_pairs by discriminate.
  rewrite existsb_exists. split.
  - intros (a & b & Ha & Hb & H). exists a. split; [exact Ha|]. apply existsb_exists. exists b. split; [exact Hb|].
    rewrite <- (pair_spec a b (OKr a Ha) (OKl b Hb)); [exact H|].
    pose proof (existsb_false_all _ _ Kw a Ha) as K1. cbv beta in K1.
    exact (existsb_false_all _ _ K1 b Hb).
  - intros (a & Ha & H). apply existsb_exists in H as (b & Hb & H). exists a, b. repeat split; auto.
    rewrite (pair_spec a b (OKr a Ha) (OKl b Hb)); [exact H|].
    pose proof (existsb_false_all _ _ Kw a Ha) as K1. cbv beta in K1.
    exact (existsb_false_all _ _ K1 b Hb).
Qed.

(* ------------------------------------------------------------------ symmetry: the role (received / local) does not matter *)
Lemma existsb_swap {A B} (f : A -> B -> bool) la lb :
  existsb (fun a => existsb (fun b => f a b) lb) la = existsb (fun b => existsb (fun a => f a b) la) lb.
Proof.
  apply Bool.eq_true_iff_eq. rewrite !existsb_exists. split.
  - intros (a & Ha & H). apply existsb_exists in H as (b & Hb & H). exists b. split; auto.
    apply existsb_exists. exists a. auto.
  - intros (b & Hb & H). apply existsb_exists in H as (a & Ha & H). exists a. split; auto.
    apply existsb_exists. exists b. auto.
Qed.

Lemma names_eqb_sym a b : names_eqb a b = names_eqb b a.
Proof.
  revert b. induction a as [|x a IH]; destruct b as [|y b]; cbn; try reflexivity.
  rewrite IH, name_eqb_sym. reflexivity.
Qed.

Lemma any_name_sym a b :
  existsb (fun n => name_in n b) a = existsb (fun n => name_in n a) b.
Proof.
  apply Bool.eq_true_iff_eq. rewrite !existsb_exists. split.
  - intros (n & Hn & H). apply name_in_In in H. exists n. split; [exact H|apply name_in_In; exact Hn].
  - intros (n & Hn & H). apply name_in_In in H. exists n. split; [exact H|apply name_in_In; exact Hn].
Qed.

Theorem partition_matched_sym a b : partition_matched a b = partition_matched b a.
Proof.
  unfold partition_matched.
  destruct (any_regex_match a b) as [r1|], (any_regex_match b a) as [r2|]; try reflexivity.
  rewrite names_eqb_sym, any_name_sym. f_equal.
  destruct (names_eqb b a), (existsb (fun n => name_in n a) b), r1, r2; reflexivity.
Qed.

Lemma dds_name_match_sym a b : dds_name_match a b = dds_name_match b a.
Proof.
  unfold dds_name_match. rewrite (name_eqb_sym b a).
  destruct (wild a), (wild b); reflexivity.
Qed.

Theorem dds_partition_match_sym a b : dds_partition_match a b = dds_partition_match b a.
Proof.
  unfold dds_partition_match. rewrite existsb_swap.
  apply existsb_ext_in. intros y _. apply existsb_ext_in. intros x _. apply dds_name_match_sym.
Qed.

(* ------------------------------------------------------------------ the classes are real *)
(* "a+" against "aa": fnmatch says no, the code says yes *)
Lemma plus_refuted :
  known_plus [[97; 43]] [[97; 97]] = true /\
  partition_matched [[97; 43]] [[97; 97]] = Some true /\ dds_partition_match [[97; 43]] [[97; 97]] = false.
Proof. vm_compute. auto. Qed.
(* [] against [""] *)
Lemma default_refuted :
  known_default [] [[]] = true /\
  partition_matched [] [[]] = Some false /\ dds_partition_match [] [[]] = true.
Proof. vm_compute. auto. Qed.
(* "a*" against "ab*" *)
Lemma two_wildcards_refuted :
  known_two_wildcards [[97; 42]] [[97; 98; 42]] = true /\
  partition_matched [[97; 42]] [[97; 98; 42]] = Some true /\ dds_partition_match [[97; 42]] [[97; 98; 42]] = false.
Proof. vm_compute. auto. Qed.
(* regression of d70d0d9: "a?b" and "a*b" match "a<LF>b", as for fnmatch *)
Example newline_regression :
  partition_matched [[97; 63; 98]] [[97; 10; 98]] = Some true /\ dds_partition_match [[97; 63; 98]] [[97; 10; 98]] = true /\
  partition_matched [[97; 42; 98]] [[97; 10; 98]] = Some true /\ known_partition [[97; 63; 98]] [[97; 10; 98]] = false.
Proof. vm_compute. auto. Qed.

(* non-vacuity of the main theorem *)
Example partition_example :
  names_supported [[97; 91; 97; 45; 99; 93; 42]; [120]] = true /\
  known_partition [[97; 91; 97; 45; 99; 93; 42]; [120]] [[121]; [97; 98; 122; 122]] = false /\
  partition_matched [[97; 91; 97; 45; 99; 93; 42]; [120]] [[121]; [97; 98; 122; 122]] = Some true.
Proof. vm_compute. auto. Qed.
