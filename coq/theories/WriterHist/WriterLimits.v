(* The writer never holds more than its limits allow (writer half of C19, depth bound of C27):
   for every sequence of events, samples per instance <= depth (KEEP_LAST, depth >= 1) or
   <= max_samples_per_instance (KEEP_ALL), total samples <= max_samples, instances <= max_instances.
   Also: which writes are refused, and that a refused write stores no sample. *)
From DustDDS Require Import Base.Machine WriterHist.WriterModel WriterHist.WriterFacts.
Open Scope Z_scope.

(* ------------------------------------------------------------- list facts *)
Lemma zlen_app {A} (a b : list A) : zlen (a ++ b) = zlen a + zlen b.
Proof. unfold zlen. rewrite app_length. lia. Qed.
Lemma zlen_nonneg {A} (l : list A) : 0 <= zlen l.
Proof. unfold zlen. lia. Qed.
Lemma zlen_cons {A} (x : A) l : zlen (x :: l) = 1 + zlen l.
Proof. unfold zlen. cbn [length]. lia. Qed.

Lemma total_acc l : forall a, fold_left (fun acc i => acc + zlen (i_samples i)) l a =
                              a + fold_left (fun acc i => acc + zlen (i_samples i)) l 0.
Proof.
  induction l as [|i t IH]; intros a; cbn [fold_left]; [lia|].
  rewrite IH. rewrite (IH (0 + _)). lia.
Qed.
Lemma total_cons i t : total_samples (i :: t) = zlen (i_samples i) + total_samples t.
Proof. unfold total_samples. cbn [fold_left]. rewrite total_acc. lia. Qed.
Lemma total_nil : total_samples [] = 0.
Proof. reflexivity. Qed.
Lemma total_app a b : total_samples (a ++ b) = total_samples a + total_samples b.
Proof.
  induction a as [|i t IH]; cbn [app]; [rewrite total_nil; lia|]. rewrite !total_cons, IH. lia.
Qed.
Lemma total_nonneg l : 0 <= total_samples l.
Proof. induction l as [|i t IH]; [rewrite total_nil; lia|]. rewrite total_cons. pose proof (zlen_nonneg (i_samples i)). lia. Qed.

Lemma find_inst_app_new h l i :
  has_inst h l = false -> i_h i = h -> find_inst h (l ++ [i]) = Some i.
Proof.
  unfold has_inst, find_inst. intros H Hi. induction l as [|y t IH]; cbn [app find existsb] in *.
  - rewrite Hi, Z.eqb_refl. reflexivity.
  - apply orb_false_iff in H. destruct H as [H1 H2]. rewrite H1. auto.
Qed.
Lemma find_inst_app_old h l i :
  has_inst h l = true -> find_inst h (l ++ [i]) = find_inst h l.
Proof.
  unfold has_inst, find_inst. induction l as [|y t IH]; cbn [app find existsb]; [discriminate|].
  destruct (i_h y =? h); cbn [orb]; auto.
Qed.
Lemma find_inst_app_other x l i :
  i_h i <> x -> find_inst x (l ++ [i]) = find_inst x l.
Proof.
  unfold find_inst. intros Hn. induction l as [|y t IH]; cbn [app find].
  - apply Z.eqb_neq in Hn. now rewrite Hn.
  - destruct (i_h y =? x); auto.
Qed.

(* upd_inst changes exactly the record find_inst returns *)
Lemma upd_inst_none h f l : find_inst h l = None -> upd_inst h f l = l.
Proof.
  unfold find_inst. induction l as [|i t IH]; cbn [find upd_inst]; [reflexivity|].
  destruct (i_h i =? h); [discriminate|]. intros H. now rewrite IH.
Qed.
Lemma upd_inst_in h f l i0 :
  find_inst h l = Some i0 ->
  forall i, In i (upd_inst h f l) -> i = f i0 \/ In i l.
Proof.
  unfold find_inst. induction l as [|y t IH]; cbn [find upd_inst]; [discriminate|].
  destruct (i_h y =? h).
  - intros [= <-] i [<-|Hi]; [now left|right; now right].
  - intros H i [<-|Hi]; [right; now left|]. destruct (IH H i Hi); [now left|right; now right].
Qed.
Lemma upd_inst_total h f l i0 :
  find_inst h l = Some i0 ->
  total_samples (upd_inst h f l) = total_samples l - zlen (i_samples i0) + zlen (i_samples (f i0)).
Proof.
  unfold find_inst. induction l as [|y t IH]; cbn [find upd_inst]; [discriminate|].
  destruct (i_h y =? h).
  - intros [= <-]. rewrite !total_cons. lia.
  - intros H. rewrite !total_cons, (IH H). lia.
Qed.
Lemma upd_inst_len h f l : zlen (upd_inst h f l) = zlen l.
Proof.
  unfold zlen. f_equal. induction l as [|y t IH]; cbn [upd_inst length]; [reflexivity|].
  destruct (i_h y =? h); cbn [length]; congruence.
Qed.
Lemma find_upd_same h f l :
  (forall i, i_h (f i) = i_h i) ->
  find_inst h (upd_inst h f l) = option_map f (find_inst h l).
Proof.
  intros Hf. unfold find_inst. induction l as [|y t IH]; cbn [find upd_inst option_map]; [reflexivity|].
  destruct (i_h y =? h) eqn:E; cbn [find].
  - rewrite Hf, E. reflexivity.
  - rewrite E. exact IH.
Qed.
Lemma find_upd_other h x f l :
  (forall i, i_h (f i) = i_h i) -> x <> h ->
  find_inst x (upd_inst h f l) = find_inst x l.
Proof.
  intros Hf Hn. unfold find_inst. induction l as [|y t IH]; cbn [find upd_inst]; [reflexivity|].
  destruct (i_h y =? h) eqn:E; cbn [find].
  - rewrite Hf. apply Z.eqb_eq in E. destruct (i_h y =? x) eqn:E2; [|reflexivity].
    apply Z.eqb_eq in E2. congruence.
  - destruct (i_h y =? x); [reflexivity|exact IH].
Qed.
Lemma find_inst_in h l s : find_inst h l = Some s -> In s l.
Proof. unfold find_inst. intros H. apply find_some in H. tauto. Qed.

(* ---------------------------------------------- which writes are refused *)
Lemma usize_nonneg m : 0 <= m -> usize_of_i32 m = m.
Proof. intros H. unfold usize_of_i32. destruct (m <? 0) eqn:E; [apply Z.ltb_lt in E; lia|reflexivity]. Qed.

Lemma ent_write_refused_iff w h ts now slot :
  snd (ent_write w h ts now slot) =
  if would_exceed (w_qos w) h (w_insts w) then E_OUT_OF_RESOURCES else 0.
Proof.
  unfold ent_write, would_exceed.
  destruct (inst_refused _ _ _); cbn [orb snd]; [reflexivity|].
  destruct (mspi_hit _ _ _); cbn [orb snd]; [reflexivity|].
  destruct (ms_hit _ _); cbn [orb snd]; [reflexivity|].
  destruct (expired _ _ _); reflexivity.
Qed.

(* a refused write stores nothing: no sample, no sequence number, no instance record *)
Lemma set_insts_same w : set_insts w (w_insts w) = w.
Proof. destruct w; reflexivity. Qed.

Lemma ent_write_refused_stores_nothing w h ts now slot w' c :
  ent_write w h ts now slot = (w', c) -> c <> 0 -> w' = w.
Proof. intros H Hc. now destruct (ent_write_refused _ _ _ _ _ _ _ H Hc). Qed.

Lemma samples_of_for_write h x l : samples_of x (inst_for_write h l) = samples_of x l.
Proof.
  unfold inst_for_write. destruct (has_inst h l) eqn:Eh; [reflexivity|].
  unfold samples_of. destruct (Z.eq_dec x h) as [->|Hn].
  - rewrite (find_inst_app_new h l (mkInst h None [] false) Eh eq_refl), (has_inst_false_find _ _ Eh). reflexivity.
  - rewrite find_inst_app_other; [reflexivity|]. cbn [i_h]. congruence.
Qed.

(* a sample that is already expired when it is written is recorded in the instance (it counts
   against the limits) but never enters the RTPS history *)
Lemma ent_write_expired_recorded_not_stored w h ts now slot w' :
  expired (w_qos w) ts now = true -> ent_write w h ts now slot = (w', 0) ->
  w_changes w' = w_changes w /\ w_last_sn w' = w_last_sn w + 1 /\
  samples_of h (w_insts w') = samples_of h (w_insts w) ++ [w_last_sn w + 1].
Proof.
  unfold ent_write. intros Hx H.
  destruct (inst_refused _ _ _); [discriminate|].
  destruct (mspi_hit _ _ _); [discriminate|]. destruct (ms_hit _ _); [discriminate|].
  rewrite Hx in H. injection H as <-. wsimpl. repeat split.
  unfold samples_of at 1. rewrite find_upd_same by reflexivity.
  destruct (inst_for_write_spec h (w_insts w)) as (Hh & _).
  destruct (proj1 (has_inst_find _ _) Hh) as [s Hs]. rewrite Hs. cbn [option_map record_sample i_samples].
  rewrite <- (samples_of_for_write h h (w_insts w)). unfold samples_of. now rewrite Hs.
Qed.

(* -------------------------------------------------- the limits invariant *)
(* the bound on the samples of one instance: depth for KEEP_LAST(depth >= 1), the
   max_samples_per_instance limit for KEEP_ALL; a negative Limited value is no limit (as usize
   it is astronomically large) *)
Definition nonneg_lim (l : option Z) : option Z :=
  match l with Some v => if 0 <=? v then Some v else None | None => None end.
Definition inst_bound (q : qos) : option Z :=
  match q_hist q with
  | KeepLast d => if 1 <=? d then Some d else None
  | KeepAll => nonneg_lim (q_mspi q)
  end.
Definition opt_le (n : Z) (b : option Z) : Prop := match b with Some x => n <= x | None => True end.

Record Lim (w : writer) : Prop := mkLim {
  lim_inst : forall i, In i (w_insts w) -> opt_le (zlen (i_samples i)) (inst_bound (w_qos w));
  lim_total : opt_le (total_samples (w_insts w)) (nonneg_lim (q_max_samples (w_qos w)));
  lim_count : opt_le (zlen (w_insts w)) (nonneg_lim (q_max_instances (w_qos w)))
}.

Lemma Lim_init keyed en q : Lim (init keyed en q).
Proof.
  constructor; cbn [init w_insts w_qos].
  - intros i [].
  - rewrite total_nil. unfold opt_le, nonneg_lim. destruct (q_max_samples q) as [v|]; [|exact I].
    destruct (0 <=? v) eqn:E; [apply Z.leb_le in E; exact E|exact I].
  - unfold opt_le, nonneg_lim, zlen. cbn [length]. destruct (q_max_instances q) as [v|]; [|exact I].
    destruct (0 <=? v) eqn:E; [apply Z.leb_le in E; exact E|exact I].
Qed.

(* Lim only looks at the QoS and the instance records *)
Lemma Lim_ext w w' : w_qos w' = w_qos w -> w_insts w' = w_insts w -> Lim w -> Lim w'.
Proof. intros Hq Hi [A B C]. constructor; rewrite ?Hq, ?Hi; assumption. Qed.

Lemma opt_le_bound_nonneg q : opt_le 0 (inst_bound q).
Proof.
  unfold inst_bound, nonneg_lim, opt_le. destruct (q_hist q) as [|d].
  - destruct (q_mspi q) as [m|]; [|exact I]. destruct (0 <=? m) eqn:E; [apply Z.leb_le in E; exact E|exact I].
  - destruct (1 <=? d) eqn:E; [apply Z.leb_le in E; lia|exact I].
Qed.

(* before a KEEP_LAST push the instance holds fewer than depth samples *)
Definition room (w : writer) (h : Z) : Prop :=
  match q_hist (w_qos w) with
  | KeepLast d => 1 <= d -> forall s, find_inst h (w_insts w) = Some s -> zlen (i_samples s) < d
  | KeepAll => True
  end.

Lemma ent_write_lim w h ts now slot w' c :
  Lim w -> room w h -> ent_write w h ts now slot = (w', c) -> Lim w'.
Proof.
  intros [Li Lt Lc] R H. unfold ent_write in H.
  destruct (inst_refused (w_qos w) h (w_insts w)) eqn:Er; [injection H as <- <-; constructor; assumption|].
  destruct (mspi_hit (w_qos w) h (w_insts w)) eqn:Em; [injection H as <- <-; constructor; assumption|].
  destruct (ms_hit (w_qos w) (w_insts w)) eqn:Es; [injection H as <- <-; constructor; assumption|].
  set (l1 := inst_for_write h (w_insts w)) in *.
  (* the records after the possible push *)
  assert (L1 : (forall i, In i l1 -> opt_le (zlen (i_samples i)) (inst_bound (w_qos w))) /\
               total_samples l1 = total_samples (w_insts w) /\
               opt_le (zlen l1) (nonneg_lim (q_max_instances (w_qos w))) /\
               exists i0, find_inst h l1 = Some i0 /\
                 (find_inst h (w_insts w) = Some i0 \/ i_samples i0 = [])).
  { subst l1. unfold inst_for_write. unfold inst_refused in Er. destruct (has_inst h (w_insts w)) eqn:Eh.
    - repeat split; auto.
      destruct (proj1 (has_inst_find _ _) Eh) as [s Hs]. exists s. auto.
    - cbn [negb andb] in Er. apply negb_false_iff in Er. rename Er into El.
      repeat split.
      + intros i Hi. apply in_app_or in Hi. destruct Hi as [Hi|[<-|[]]]; [auto|].
        cbn [i_samples]. apply opt_le_bound_nonneg.
      + rewrite total_app. replace (total_samples [mkInst h None [] false]) with 0 by reflexivity. lia.
      + unfold opt_le, nonneg_lim. unfold len_lt in El.
        destruct (q_max_instances (w_qos w)) as [v|]; [|exact I].
        destruct (0 <=? v) eqn:E0; [|exact I]. apply Z.leb_le in E0.
        rewrite usize_nonneg in El by exact E0. apply Z.ltb_lt in El.
        rewrite zlen_app. replace (zlen [mkInst h None [] false]) with 1 by reflexivity. lia.
      + exists (mkInst h None [] false). split; [now apply find_inst_app_new|now right]. }
  destruct L1 as (Li1 & Lt1 & Lc1 & i0 & Hf & Hi0).
  assert (Hso : samples_of h (w_insts w) = i_samples i0).
  { rewrite <- (samples_of_for_write h h (w_insts w)). fold l1. unfold samples_of. now rewrite Hf. }
  assert (FIN : Lim (set_insts (set_last_sn w (w_last_sn w + 1))
                               (upd_inst h (record_sample ts (w_last_sn w + 1)) l1))).
  { constructor; wsimpl.
    - intros i Hi. destruct (upd_inst_in _ _ _ _ Hf i Hi) as [-> | Hin]; [|auto].
      cbn [record_sample i_samples]. rewrite zlen_app. replace (zlen [w_last_sn w + 1]) with 1 by reflexivity.
      unfold inst_bound, opt_le, room, mspi_hit in *. destruct (q_hist (w_qos w)) as [|d].
      + (* KEEP_ALL: the max_samples_per_instance test let it through *)
        unfold nonneg_lim. destruct (q_mspi (w_qos w)) as [m|] eqn:Eq; [|exact I].
        destruct (0 <=? m) eqn:E0; [|exact I]. apply Z.leb_le in E0.
        rewrite Hso in Em. rewrite usize_nonneg in Em by exact E0. apply Z.leb_gt in Em. lia.
      + destruct (1 <=? d) eqn:E1d; [|exact I]. apply Z.leb_le in E1d.
        destruct Hi0 as [Hold|Hnew].
        * specialize (R E1d _ Hold). lia.
        * rewrite Hnew. unfold zlen. cbn [length]. lia.
    - rewrite (upd_inst_total _ _ _ _ Hf). cbn [record_sample i_samples]. rewrite zlen_app.
      replace (zlen [w_last_sn w + 1]) with 1 by reflexivity. rewrite Lt1.
      unfold opt_le, nonneg_lim, ms_hit in *. destruct (q_max_samples (w_qos w)) as [ms|]; [|exact I].
      destruct (0 <=? ms) eqn:E0; [|exact I]. apply Z.leb_le in E0.
      rewrite usize_nonneg in Es by exact E0. apply Z.leb_gt in Es. lia.
    - rewrite upd_inst_len. exact Lc1. }
  destruct (expired (w_qos w) ts now); injection H as <- <-; [exact FIN|].
  eapply Lim_ext; [| |exact FIN]; reflexivity.
Qed.

Lemma pop_front_lim w h :
  Lim w -> Lim (pop_front w h) /\
  (forall s sn rest, find_inst h (w_insts w) = Some s -> i_samples s = sn :: rest ->
     exists s', find_inst h (w_insts (pop_front w h)) = Some s' /\ zlen (i_samples s') = zlen (i_samples s) - 1).
Proof.
  intros [Li Lt Lc]. unfold pop_front.
  destruct (find_inst h (w_insts w)) as [s|] eqn:Ef.
  2:{ split; [constructor; assumption|]. intros; discriminate. }
  destruct (i_samples s) as [|sn rest] eqn:Es.
  { split; [constructor; assumption|]. intros s0 sn rest [= <-]. congruence. }
  split.
  - constructor; wsimpl.
    + intros i Hi. destruct (upd_inst_in _ _ _ _ Ef i Hi) as [-> | Hin]; [|auto].
      cbn [i_samples]. specialize (Li s (find_inst_in _ _ _ Ef)).
      unfold opt_le in *. destruct (inst_bound (w_qos w)); [|exact I].
      rewrite Es in *. cbn [tl]. rewrite zlen_cons in Li. lia.
    + rewrite (upd_inst_total _ _ _ _ Ef). cbn [i_samples]. rewrite Es. cbn [tl]. rewrite zlen_cons.
      unfold opt_le in *. destruct (nonneg_lim (q_max_samples (w_qos w))); [lia|exact I].
    + rewrite upd_inst_len. exact Lc.
  - intros s0 sn0 rest0 [= <-] Hs0. wsimpl. rewrite find_upd_same by reflexivity. rewrite Ef.
    cbn [option_map]. eexists. split; [reflexivity|]. cbn [i_samples]. rewrite Es. cbn [tl].
    rewrite zlen_cons. lia.
Qed.

Lemma smallest_full_inv d h l sn :
  smallest_full d h l = Some sn ->
  exists s rest, find_inst h l = Some s /\ i_samples s = sn :: rest /\ zlen (i_samples s) = d.
Proof.
  unfold smallest_full. destruct (find_inst h l) as [s|]; [|discriminate].
  destruct (zlen (i_samples s) =? d) eqn:E; [|discriminate]. apply Z.eqb_eq in E.
  destruct (i_samples s) as [|x rest] eqn:Es; cbn [hd_error]; [discriminate|].
  intros [= <-]. exists s, rest. rewrite Es. auto.
Qed.

(* with the invariant, an instance that is not exactly full has room *)
Lemma room_if_not_full w h d :
  Lim w -> q_hist (w_qos w) = KeepLast d ->
  (forall s, find_inst h (w_insts w) = Some s -> 1 <= d -> zlen (i_samples s) <> d) -> room w h.
Proof.
  intros [Li _ _] Hq Hne. unfold room. rewrite Hq. intros Hd s Hs.
  specialize (Li s (find_inst_in _ _ _ Hs)). unfold inst_bound, opt_le in Li. rewrite Hq in Li.
  destruct (1 <=? d) eqn:E; [|apply Z.leb_gt in E; lia]. specialize (Hne s Hs Hd). lia.
Qed.

Lemma room_after_pop w h d :
  Lim w -> q_hist (w_qos w) = KeepLast d ->
  (exists s sn rest, find_inst h (w_insts w) = Some s /\ i_samples s = sn :: rest /\ zlen (i_samples s) = d) ->
  Lim (pop_front w h) /\ room (pop_front w h) h.
Proof.
  intros L Hq (s & sn & rest & Hf & Hs & Hd).
  destruct (pop_front_lim w h L) as [L' P]. split; [exact L'|].
  destruct (P s sn rest Hf Hs) as (s' & Hf' & Hl').
  destruct (pop_front_spec w h) as ([_ _ Fq] & _).
  unfold room. rewrite Fq, Hq. intros _ s0 Hs0. rewrite Hf' in Hs0. injection Hs0 as <-. lia.
Qed.

Lemma go_lim w0 h ts now slot w' r :
  Lim w0 -> room w0 h ->
  (let '(w'', c) := ent_write w0 h ts now slot in (w'', rsl_of_code c)) = (w', r) -> Lim w'.
Proof.
  intros L R H. destruct (ent_write w0 h ts now slot) as [w'' c] eqn:E. injection H as <- <-.
  eapply ent_write_lim; eauto.
Qed.

Lemma svc_write_lim now w slot k ts w' r :
  Lim w -> svc_write now w slot k ts = (w', r) -> Lim w'.
Proof.
  intros L H. unfold svc_write in H.
  destruct (w_enabled w); cbn [negb] in H; [|injection H as <- <-; exact L].
  set (h := hof w k) in *.
  destruct (q_hist (w_qos w)) as [|d] eqn:Hq.
  - eapply go_lim; eauto. unfold room. now rewrite Hq.
  - destruct (smallest_full d h (w_insts w)) as [sn|] eqn:Es.
    + destruct (smallest_full_inv _ _ _ _ Es) as (s & rest & Hf & Hs & Hd).
      destruct (q_reliable (w_qos w) && negb (acked w sn)).
      * destruct (w_pending w); injection H as <- <-; [exact L|].
        eapply Lim_ext; [| |exact L]; reflexivity.
      * destruct (room_after_pop w h d L Hq) as [L' R']; [exists s, sn, rest; auto|].
        eapply go_lim; eauto.
    + eapply go_lim; eauto. apply (room_if_not_full w h d L Hq).
      intros s Hs Hd Hlen. unfold smallest_full in Es. rewrite Hs in Es.
      rewrite Hlen, Z.eqb_refl in Es. destruct (i_samples s) eqn:E; [|discriminate].
      unfold zlen in Hlen. cbn [length] in Hlen. lia.
Qed.

Lemma process_pending_lim now w w' d :
  Lim w -> process_pending now w = (w', d) -> Lim w'.
Proof.
  intros L H. unfold process_pending in H.
  destruct (w_pending w) as [p|]; [|injection H as <- <-; exact L].
  destruct (w_enabled w); cbn [negb] in H; [|injection H as <- <-; exact L].
  set (h := hof w (pd_key p)) in *.
  match type of H with (if ?b then _ else _) = _ => destruct b end; [|injection H as <- <-; exact L].
  set (w1 := set_pending w None) in *.
  assert (L1 : Lim w1) by (eapply Lim_ext; [| |exact L]; reflexivity).
  match type of H with (let '(_, _) := ent_write ?x _ _ _ _ in _) = _ => set (w2 := x) in * end.
  assert (A : Lim w2 /\ room w2 h).
  { subst w2. destruct (q_hist (w_qos w)) as [|dd] eqn:Hq.
    - split; [exact L1|]. unfold room. subst w1. wsimpl. now rewrite Hq.
    - assert (Hq1 : q_hist (w_qos w1) = KeepLast dd) by exact Hq.
      destruct (find_inst h (w_insts w1)) as [s|] eqn:Ef.
      + destruct (zlen (i_samples s) =? dd) eqn:El.
        * apply Z.eqb_eq in El. destruct (i_samples s) as [|sn rest] eqn:Es.
          -- (* depth 0 and no samples: pop_front does nothing *)
             unfold pop_front. rewrite Ef, Es. split; [exact L1|].
             unfold room. rewrite Hq1. intros Hd. unfold zlen in El. cbn [length] in El. lia.
          -- apply (room_after_pop w1 h dd L1 Hq1). exists s, sn, rest. rewrite Es. auto.
        * split; [exact L1|]. apply (room_if_not_full w1 h dd L1 Hq1).
          intros s0 Hs0 _ Hlen. rewrite Ef in Hs0. injection Hs0 as <-. apply Z.eqb_neq in El. contradiction.
      + split; [exact L1|]. unfold room. rewrite Hq1. intros _ s Hs. congruence. }
  destruct A as [L2 R2].
  destruct (ent_write w2 h (pd_ts p) now (pd_slot p)) as [w3 c] eqn:E. injection H as <- <-.
  eapply ent_write_lim; eauto.
Qed.

Lemma lim_upd_same_samples w h f :
  (forall i, i_samples (f i) = i_samples i) -> Lim w -> Lim (set_insts w (upd_inst h f (w_insts w))).
Proof.
  intros Hf [Li Lt Lc]. constructor; wsimpl.
  - intros i Hi. destruct (find_inst h (w_insts w)) as [i0|] eqn:Ef.
    + destruct (upd_inst_in _ _ _ _ Ef i Hi) as [-> | Hin]; [|auto].
      rewrite Hf. apply Li. eapply find_inst_in; eauto.
    + rewrite upd_inst_none in Hi by exact Ef. auto.
  - destruct (find_inst h (w_insts w)) as [i0|] eqn:Ef.
    + rewrite (upd_inst_total _ _ _ _ Ef), Hf. replace (total_samples (w_insts w) - zlen (i_samples i0) + zlen (i_samples i0)) with (total_samples (w_insts w)) by lia. exact Lt.
    + rewrite upd_inst_none by exact Ef. exact Lt.
  - rewrite upd_inst_len. exact Lc.
Qed.

Lemma lim_push_empty w h lwt reg :
  len_lt (zlen (w_insts w)) (q_max_instances (w_qos w)) = true ->
  Lim w -> Lim (set_insts w (w_insts w ++ [mkInst h lwt [] reg])).
Proof.
  intros El [Li Lt Lc]. constructor; wsimpl.
  - intros i Hi. apply in_app_or in Hi. destruct Hi as [Hi|[<-|[]]]; [auto|].
    cbn [i_samples]. apply opt_le_bound_nonneg.
  - rewrite total_app. replace (total_samples [mkInst h lwt [] reg]) with 0 by reflexivity.
    rewrite Z.add_0_r. exact Lt.
  - unfold opt_le, nonneg_lim. unfold len_lt in El.
    destruct (q_max_instances (w_qos w)) as [v|]; [|exact I].
    destruct (0 <=? v) eqn:E0; [|exact I]. apply Z.leb_le in E0.
    rewrite usize_nonneg in El by exact E0. apply Z.ltb_lt in El.
    rewrite zlen_app. replace (zlen [mkInst h lwt [] reg]) with 1 by reflexivity. lia.
Qed.

(* upd_reg touches one record and f keeps its samples *)
Lemma upd_reg_in h f l i : In i (upd_reg h f l) -> In i l \/ exists i0, In i0 l /\ i = f i0.
Proof.
  induction l as [|y t IH]; cbn [upd_reg]; [intros []|].
  destruct ((i_h y =? h) && i_reg y).
  - intros [<-|Hi]; [right; exists y; split; [now left|reflexivity]|left; now right].
  - intros [<-|Hi]; [left; now left|]. destruct (IH Hi) as [H|(i0 & H0 & ->)]; [left; now right|].
    right. exists i0. split; [now right|reflexivity].
Qed.
Lemma upd_reg_total h f l : (forall i, i_samples (f i) = i_samples i) ->
  total_samples (upd_reg h f l) = total_samples l.
Proof.
  intros Hf. induction l as [|y t IH]; cbn [upd_reg]; [reflexivity|].
  destruct ((i_h y =? h) && i_reg y); rewrite !total_cons; [now rewrite Hf|now rewrite IH].
Qed.
Lemma upd_reg_len h f l : zlen (upd_reg h f l) = zlen l.
Proof.
  unfold zlen. f_equal. induction l as [|y t IH]; cbn [upd_reg length]; [reflexivity|].
  destruct ((i_h y =? h) && i_reg y); cbn [length]; congruence.
Qed.
Lemma lim_updreg_same_samples w h f :
  (forall i, i_samples (f i) = i_samples i) -> Lim w -> Lim (set_insts w (upd_reg h f (w_insts w))).
Proof.
  intros Hf [Li Lt Lc]. constructor; wsimpl.
  - intros i Hi. destruct (upd_reg_in _ _ _ _ Hi) as [H|(i0 & H0 & ->)]; [auto|]. rewrite Hf. auto.
  - now rewrite upd_reg_total.
  - now rewrite upd_reg_len.
Qed.

Lemma apply_op_lim now w o w' imm d :
  Lim w -> apply_op now w o = (w', imm, d) -> Lim w'.
Proof.
  intros L H. destruct o as [|k ts|k ts|k ts|k|slot k ts|r base count|r rel|r|]; cbn [apply_op] in H.
  - injection H as <- <- <-. eapply Lim_ext; [| |exact L]; reflexivity.
  - destruct (svc_register w k ts) as [w1 r] eqn:E. injection H as <- <- <-.
    unfold svc_register in E.
    destruct (w_enabled w); cbn [negb] in E; [|injection E as <- <-; exact L].
    destruct (w_keyed w); cbn [negb] in E; [|injection E as <- <-; exact L].
    destruct (has_inst (hof w k) (w_insts w)).
    + injection E as <- <-. apply lim_upd_same_samples; auto.
    + destruct (len_lt _ _) eqn:El; injection E as <- <-; [|exact L]. now apply lim_push_empty.
  - destruct (svc_unregister w k ts) as [w1 r] eqn:E. injection H as <- <- <-.
    unfold svc_unregister, svc_unreg_or_dispose in E.
    destruct (w_enabled w); cbn [negb] in E; [|injection E as <- <-; exact L].
    destruct (w_keyed w); cbn [negb] in E; [|injection E as <- <-; exact L].
    destruct (is_reg (hof w k) (w_insts w)); injection E as <- <-; [|exact L].
    match goal with |- Lim (set_changes (set_insts _ (upd_reg _ ?f _)) _) =>
      eapply Lim_ext; [| |apply (lim_updreg_same_samples w (hof w k) f (fun i => eq_refl) L)]; reflexivity end.
  - destruct (svc_dispose w k ts) as [w1 r] eqn:E. injection H as <- <- <-.
    unfold svc_dispose, svc_unreg_or_dispose in E.
    destruct (w_enabled w); cbn [negb] in E; [|injection E as <- <-; exact L].
    destruct (w_keyed w); cbn [negb] in E; [|injection E as <- <-; exact L].
    destruct (is_reg (hof w k) (w_insts w)); injection E as <- <-; [|exact L].
    match goal with |- Lim (set_changes (set_insts _ (upd_reg _ ?f _)) _) =>
      eapply Lim_ext; [| |apply (lim_updreg_same_samples w (hof w k) f (fun i => eq_refl) L)]; reflexivity end.
  - injection H as <- <- <-. exact L.
  - destruct (svc_write now w slot k ts) as [w1 r] eqn:E. injection H as <- <- <-.
    eapply svc_write_lim; eauto.
  - destruct (process_pending now _) as [w1 dd] eqn:E. injection H as <- <- <-.
    eapply process_pending_lim; [|exact E]. eapply Lim_ext; [| |exact L]; reflexivity.
  - injection H as <- <- <-. eapply Lim_ext; [| |exact L]; reflexivity.
  - injection H as <- <- <-. eapply Lim_ext; [| |exact L]; reflexivity.
  - injection H as <- <- <-. exact L.
Qed.

Lemma step_lim w e w' o : Lim w -> step w e = (w', o) -> Lim w'.
Proof.
  intros L H. unfold step in H.
  destruct (catch_up (e_now e) w) as [w0 d0] eqn:E0.
  destruct (apply_op (e_now e) w0 (e_op e)) as [[w1 imm] d1] eqn:E1.
  destruct (tail (e_now e) w1) as [w2 d2] eqn:E2. injection H as <- <-.
  assert (L0 : Lim w0).
  { unfold catch_up in E0. destruct (check_timeout_spec _ _ _ _ E0) as ([_ _ Fq] & Hi & _).
    eapply Lim_ext; eauto. }
  assert (L1 : Lim w1) by (eapply apply_op_lim; eauto).
  unfold tail in E2.
  destruct (remove_stale_spec (e_now e) w1) as ([_ _ Fq1] & _ & _ & Hi1 & _).
  destruct (check_timeout (e_now e) (remove_stale (e_now e) w1)) as [wa da] eqn:Ea.
  destruct (process_pending (e_now e) wa) as [wb db] eqn:Eb. injection E2 as <- <-.
  destruct (check_timeout_spec _ _ _ _ Ea) as ([_ _ Fqa] & Hia & _).
  eapply process_pending_lim; [|exact Eb].
  eapply Lim_ext; [| |exact L1]; congruence.
Qed.

(* for every sequence of events the writer stays within its limits *)
Theorem limits_invariant keyed enabled q evs : Lim (fst (run (init keyed enabled q) evs)).
Proof.
  assert (G : forall l w, Lim w -> Lim (fst (run w l))).
  { induction l as [|e t IH]; intros w L; [exact L|].
    cbn [run]. destruct (step w e) as [w1 o] eqn:Es. destruct (run w1 t) as [w2 os] eqn:Er.
    cbn [fst]. specialize (IH w1 (step_lim _ _ _ _ L Es)). now rewrite Er in IH. }
  apply G. apply Lim_init.
Qed.
