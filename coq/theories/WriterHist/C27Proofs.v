(* C27: a RELIABLE KEEP_LAST writer never replaces a sample that a matched reliable reader has
   not acknowledged; the write is parked, answered Timeout at its expiration without storing
   anything, or written as soon as the acknowledgement arrives. *)
From DustDDS Require Import Base.Machine WriterHist.WriterModel WriterHist.WriterFacts WriterHist.WriterCorr
  WriterHist.WriterLimits WriterHist.WriterReg WriterHist.C28Proofs.
Open Scope Z_scope.

(* ------------------------------------------------------- proxies are only touched by RTPS events *)
Lemma acked_px a b sn : w_proxies a = w_proxies b -> acked a sn = acked b sn.
Proof. unfold acked. now intros ->. Qed.

Lemma ent_write_px w h ts now slot w' c : ent_write w h ts now slot = (w', c) -> w_proxies w' = w_proxies w.
Proof.
  unfold ent_write. destruct (inst_refused _ _ _); [now intros [= <- <-]|].
  destruct (mspi_hit _ _ _); [now intros [= <- <-]|]. destruct (ms_hit _ _); [now intros [= <- <-]|].
  destruct (expired _ _ _); now intros [= <- <-].
Qed.
Lemma pop_front_px w h : w_proxies (pop_front w h) = w_proxies w.
Proof. unfold pop_front. destruct (find_inst _ _) as [s|]; [|reflexivity]. now destruct (i_samples s). Qed.

(* ------------------------------------------------------------ what leaves the history *)
(* every change of w is still in w' unless P holds for it *)
Definition keeps (P : change -> Prop) (w w' : writer) : Prop :=
  forall c, In c (w_changes w) -> In c (w_changes w') \/ P c.
Lemma keeps_refl P w : keeps P w w.
Proof. intros c H. now left. Qed.
Lemma keeps_trans P a b c : keeps P a b -> keeps P b c -> keeps P a c.
Proof. intros H1 H2 x Hx. destruct (H1 x Hx) as [H|H]; [apply H2, H|now right]. Qed.
Lemma keeps_same P w w' : w_changes w' = w_changes w -> keeps P w w'.
Proof. intros E c H. left. now rewrite E. Qed.
Lemma keeps_weaken (P Q : change -> Prop) w w' : (forall c, P c -> Q c) -> keeps P w w' -> keeps Q w w'.
Proof. intros I H c Hc. destruct (H c Hc); [now left|right; auto]. Qed.

Lemma remove_change_keeps sn l c : In c l -> In c (remove_change sn l) \/ c_sn c = sn.
Proof.
  intros H. destruct (c_sn c =? sn) eqn:E; [right; now apply Z.eqb_eq|left].
  unfold remove_change. apply filter_In. split; [exact H|]. now rewrite E.
Qed.

Lemma ent_write_keeps P w h ts now slot w' c : ent_write w h ts now slot = (w', c) -> keeps P w w'.
Proof.
  unfold ent_write. destruct (inst_refused _ _ _); [intros [= <- <-]; apply keeps_refl|].
  destruct (mspi_hit _ _ _); [intros [= <- <-]; apply keeps_refl|].
  destruct (ms_hit _ _); [intros [= <- <-]; apply keeps_refl|].
  destruct (expired _ _ _); intros [= <- <-]; [now apply keeps_same|].
  intros x Hx. left. wsimpl. apply in_or_app. now left.
Qed.

(* pop_front removes exactly the oldest recorded sample of the instance *)
Lemma pop_front_keeps w h :
  keeps (fun c => exists s rest, find_inst h (w_insts w) = Some s /\ i_samples s = c_sn c :: rest) w (pop_front w h).
Proof.
  unfold pop_front. destruct (find_inst h (w_insts w)) as [s|] eqn:Ef; [|apply keeps_refl].
  destruct (i_samples s) as [|sn rest] eqn:Es; [apply keeps_refl|].
  intros c Hc. wsimpl. destruct (remove_change_keeps sn _ c Hc) as [H|H]; [now left|right].
  exists s, rest. subst sn. auto.
Qed.

Lemma smallest_full_head d h l sn s rest :
  smallest_full d h l = Some sn -> find_inst h l = Some s -> i_samples s = sn :: rest \/ True ->
  hd_error (i_samples s) = Some sn.
Proof.
  unfold smallest_full. intros H Hf _. rewrite Hf in H. destruct (zlen (i_samples s) =? d); [exact H|discriminate].
Qed.

Definition lifespan_expired (q : qos) (c : change) (now : Z) : Prop :=
  match q_lifespan q with Some ls => c_ts c + ls <= now | None => False end.

(* the KEEP_LAST front of write_w_timestamp *)
Lemma svc_write_keeps now w slot k ts w' r :
  q_reliable (w_qos w) = true -> svc_write now w slot k ts = (w', r) ->
  keeps (fun c => acked w (c_sn c) = true) w w' /\ w_proxies w' = w_proxies w.
Proof.
  intros Hr H. unfold svc_write in H.
  destruct (w_enabled w); cbn [negb] in H; [|injection H as <- <-; split; [apply keeps_refl|reflexivity]].
  set (h := hof w k) in *.
  assert (GO : forall w0, (let '(w'', c) := ent_write w0 h ts now slot in (w'', rsl_of_code c)) = (w', r) ->
               keeps (fun c => acked w (c_sn c) = true) w0 w' /\ w_proxies w' = w_proxies w0).
  { intros w0 H0. destruct (ent_write w0 h ts now slot) as [w'' c] eqn:E. injection H0 as <- <-.
    split; [eapply ent_write_keeps; eauto|eapply ent_write_px; eauto]. }
  destruct (q_hist (w_qos w)) as [|d]; [apply GO, H|].
  destruct (smallest_full d h (w_insts w)) as [sn|] eqn:Es; [|apply GO, H].
  rewrite Hr in H. cbn [andb] in H. destruct (acked w sn) eqn:Ea; cbn [negb] in H.
  - destruct (GO _ H) as [K P]. split; [|now rewrite P, pop_front_px].
    eapply keeps_trans; [|exact K].
    eapply keeps_weaken; [|apply pop_front_keeps].
    intros c (s & rest & Hf & Hs). cbn beta.
    unfold smallest_full in Es. rewrite Hf in Es. destruct (zlen (i_samples s) =? d); [|discriminate].
    rewrite Hs in Es. cbn [hd_error] in Es. injection Es as ->. exact Ea.
  - destruct (w_pending w); injection H as <- <-; split; try reflexivity; try apply keeps_refl.
    now apply keeps_same.
Qed.

Lemma process_pending_keeps now w w' d :
  q_reliable (w_qos w) = true -> process_pending now w = (w', d) ->
  keeps (fun c => acked w (c_sn c) = true) w w' /\ w_proxies w' = w_proxies w.
Proof.
  intros Hr H. unfold process_pending in H.
  destruct (w_pending w) as [p|]; [|injection H as <- <-; split; [apply keeps_refl|reflexivity]].
  destruct (w_enabled w); cbn [negb] in H; [|injection H as <- <-; split; [apply keeps_refl|reflexivity]].
  set (h := hof w (pd_key p)) in *.
  destruct (q_hist (w_qos w)) as [|dd] eqn:Hq.
  - destruct (ent_write (set_pending w None) h (pd_ts p) now (pd_slot p)) as [w3 c] eqn:E.
    injection H as <- <-. split.
    + eapply keeps_trans; [apply (keeps_same _ w (set_pending w None)); reflexivity|].
      eapply ent_write_keeps; eauto.
    + now rewrite (ent_write_px _ _ _ _ _ _ _ E).
  - rewrite Hr in H. cbn [negb orb] in H.
    destruct (smallest_full dd h (w_insts w)) as [sn|] eqn:Es.
    + destruct (acked w sn) eqn:Ea; [|injection H as <- <-; split; [apply keeps_refl|reflexivity]].
      set (w1 := set_pending w None) in *.
      match type of H with (let '(_, _) := ent_write ?x _ _ _ _ in _) = _ => set (w2 := x) in * end.
      destruct (ent_write w2 h (pd_ts p) now (pd_slot p)) as [w3 c] eqn:E. injection H as <- <-.
      assert (K2 : keeps (fun c => acked w (c_sn c) = true) w w2 /\ w_proxies w2 = w_proxies w).
      { subst w2. destruct (find_inst h (w_insts w1)) as [s|] eqn:Ef; [|split; [now apply keeps_same|reflexivity]].
        destruct (zlen (i_samples s) =? dd); [|split; [now apply keeps_same|reflexivity]].
        split; [|now rewrite pop_front_px].
        eapply keeps_trans; [apply (keeps_same _ w w1); reflexivity|].
        eapply keeps_weaken; [|apply pop_front_keeps].
        intros x (s' & rest & Hf & Hs). cbn beta.
        unfold smallest_full in Es. subst w1. wsimpl in Hf. rewrite Hf in Es.
        destruct (zlen (i_samples s') =? dd); [|discriminate].
        rewrite Hs in Es. cbn [hd_error] in Es. injection Es as ->. exact Ea. }
      destruct K2 as [K2 P2]. split.
      * eapply keeps_trans; [exact K2|]. eapply ent_write_keeps; eauto.
      * now rewrite (ent_write_px _ _ _ _ _ _ _ E).
    + (* the instance is not full (or absent): nothing is replaced unless depth = 0 = no samples *)
      set (w1 := set_pending w None) in *.
      match type of H with (let '(_, _) := ent_write ?x _ _ _ _ in _) = _ => set (w2 := x) in * end.
      destruct (ent_write w2 h (pd_ts p) now (pd_slot p)) as [w3 c] eqn:E. injection H as <- <-.
      assert (K2 : w_changes w2 = w_changes w /\ w_proxies w2 = w_proxies w).
      { subst w2. destruct (find_inst h (w_insts w1)) as [s|] eqn:Ef; [|split; reflexivity].
        destruct (zlen (i_samples s) =? dd) eqn:El; [|split; reflexivity].
        unfold smallest_full in Es. subst w1. wsimpl in Ef. rewrite Ef, El in Es.
        unfold pop_front. wsimpl. rewrite Ef.
        destruct (i_samples s); [split; reflexivity|discriminate]. }
      destruct K2 as [K2 P2]. split.
      * eapply keeps_trans; [apply (keeps_same _ w w2); exact K2|]. eapply ent_write_keeps; eauto.
      * now rewrite (ent_write_px _ _ _ _ _ _ _ E).
Qed.

Lemma remove_stale_keeps now w :
  keeps (fun c => lifespan_expired (w_qos w) c now) w (remove_stale now w).
Proof.
  unfold remove_stale, lifespan_expired. destruct (q_lifespan (w_qos w)) as [ls|]; [|apply keeps_refl].
  intros c Hc. wsimpl. destruct (now <? c_ts c + ls) eqn:E.
  - left. apply filter_In. now split.
  - right. apply Z.ltb_ge in E. exact E.
Qed.

Lemma qos_frame_tail now w w' d : tail now w = (w', d) -> w_qos w' = w_qos w.
Proof.
  unfold tail. destruct (check_timeout now (remove_stale now w)) as [w2 d1] eqn:E2.
  destruct (process_pending now w2) as [w3 d2] eqn:E3. intros [= <- <-].
  destruct (remove_stale_spec now w) as ([_ _ Q1] & _).
  destruct (check_timeout_spec _ _ _ _ E2) as ([_ _ Q2] & _).
  unfold process_pending in E3. destruct (w_pending w2) as [p|]; [|injection E3 as <- <-; congruence].
  destruct (w_enabled w2); cbn [negb] in E3; [|injection E3 as <- <-; congruence].
  match type of E3 with (if ?b then _ else _) = _ => destruct b end; [|injection E3 as <- <-; congruence].
  match type of E3 with (let '(_, _) := ent_write ?x _ _ _ _ in _) = _ => set (wx := x) in * end.
  destruct (ent_write wx _ _ _ _) as [wy c] eqn:E. injection E3 as <- <-.
  destruct (ent_write_spec _ _ _ _ _ _ _ E) as ([_ _ Q] & _).
  assert (Qx : w_qos wx = w_qos w2).
  { subst wx. destruct (q_hist (w_qos w2)); [reflexivity|].
    destruct (find_inst _ _) as [s|]; [|reflexivity]. destruct (_ =? _); [|reflexivity].
    destruct (pop_front_spec (set_pending w2 None) (hof w2 (pd_key p))) as ([_ _ Qp] & _). exact Qp. }
  congruence.
Qed.

Definition removal_ok (w' : writer) (q : qos) (now : Z) (c : change) : Prop :=
  acked w' (c_sn c) = true \/ lifespan_expired q c now.

Lemma tail_keeps now w w' d :
  q_reliable (w_qos w) = true -> tail now w = (w', d) ->
  keeps (removal_ok w' (w_qos w) now) w w' /\ w_proxies w' = w_proxies w.
Proof.
  intros Hr H. unfold tail in H.
  destruct (check_timeout now (remove_stale now w)) as [w2 d1] eqn:E2.
  destruct (process_pending now w2) as [w3 d2] eqn:E3. injection H as <- <-.
  destruct (remove_stale_spec now w) as ([_ _ Q1] & _).
  destruct (check_timeout_spec _ _ _ _ E2) as ([_ _ Q2] & _ & C2 & _).
  assert (Hr2 : q_reliable (w_qos w2) = true) by congruence.
  destruct (process_pending_keeps _ _ _ _ Hr2 E3) as [K3 P3].
  assert (P2 : w_proxies w2 = w_proxies w).
  { unfold check_timeout in E2. unfold remove_stale in E2.
    destruct (q_lifespan (w_qos w)); wsimpl in E2;
      (destruct (w_pending w) as [p|]; [destruct (pd_exp p) as [e|]; [destruct (e <=? now)|]|]);
      injection E2 as <- <-; reflexivity. }
  split; [|congruence].
  eapply keeps_trans.
  - eapply keeps_weaken; [|apply remove_stale_keeps]. intros c Hc. right. exact Hc.
  - eapply keeps_trans; [apply keeps_same; exact C2|].
    eapply keeps_weaken; [|exact K3]. intros c Hc. left. cbn beta in Hc.
    rewrite <- Hc. apply acked_px. exact P3.
Qed.

(* Never drops unacknowledged samples: whatever event is processed, a change leaves the history
   of a RELIABLE writer only if every matched reliable reader proxy has acknowledged it (judged
   with the proxies as they are when it is removed, which are those after the event), or its
   lifespan is over. *)
Theorem never_drops_unacked w e w' o :
  q_reliable (w_qos w) = true -> step w e = (w', o) ->
  forall c, In c (w_changes w) -> ~ In c (w_changes w') ->
    acked w' (c_sn c) = true \/ lifespan_expired (w_qos w) c (e_now e).
Proof.
  intros Hr H c Hc Hn. unfold step in H.
  destruct (catch_up (e_now e) w) as [w0 d0] eqn:E0.
  destruct (apply_op (e_now e) w0 (e_op e)) as [[w1 imm] d1] eqn:E1.
  destruct (tail (e_now e) w1) as [w2 d2] eqn:E2. injection H as <- <-.
  unfold catch_up in E0.
  destruct (check_timeout_spec _ _ _ _ E0) as ([_ _ Q0] & _ & C0 & _).
  assert (Hr0 : q_reliable (w_qos w0) = true) by congruence.
  (* the mail: changes kept unless acknowledged w.r.t. the proxies after the mail *)
  assert (A : keeps (fun c => acked w1 (c_sn c) = true) w0 w1 /\ w_qos w1 = w_qos w0).
  { destruct (e_op e) as [|k ts|k ts|k ts|k|slot k ts|r base count|r rel|r|]; cbn [apply_op] in E1.
    - injection E1 as <- <- <-. split; [now apply keeps_same|reflexivity].
    - destruct (svc_register w0 k ts) as [wx rx] eqn:E. injection E1 as <- <- <-.
      unfold svc_register in E.
      destruct (w_enabled w0); cbn [negb] in E; [|injection E as <- <-; split; [apply keeps_refl|reflexivity]].
      destruct (w_keyed w0); cbn [negb] in E; [|injection E as <- <-; split; [apply keeps_refl|reflexivity]].
      destruct (has_inst _ _); [injection E as <- <-; split; [now apply keeps_same|reflexivity]|].
      destruct (len_lt _ _); injection E as <- <-; split; try reflexivity; [now apply keeps_same|apply keeps_refl].
    - destruct (svc_unregister w0 k ts) as [wx rx] eqn:E. injection E1 as <- <- <-.
      unfold svc_unregister, svc_unreg_or_dispose in E.
      destruct (w_enabled w0); cbn [negb] in E; [|injection E as <- <-; split; [apply keeps_refl|reflexivity]].
      destruct (w_keyed w0); cbn [negb] in E; [|injection E as <- <-; split; [apply keeps_refl|reflexivity]].
      destruct (is_reg _ _); injection E as <- <-; split; try reflexivity; [|apply keeps_refl].
      intros x Hx. left. wsimpl. apply in_or_app. now left.
    - destruct (svc_dispose w0 k ts) as [wx rx] eqn:E. injection E1 as <- <- <-.
      unfold svc_dispose, svc_unreg_or_dispose in E.
      destruct (w_enabled w0); cbn [negb] in E; [|injection E as <- <-; split; [apply keeps_refl|reflexivity]].
      destruct (w_keyed w0); cbn [negb] in E; [|injection E as <- <-; split; [apply keeps_refl|reflexivity]].
      destruct (is_reg _ _); injection E as <- <-; split; try reflexivity; [|apply keeps_refl].
      intros x Hx. left. wsimpl. apply in_or_app. now left.
    - injection E1 as <- <- <-. split; [apply keeps_refl|reflexivity].
    - destruct (svc_write (e_now e) w0 slot k ts) as [wx rx] eqn:E. injection E1 as <- <- <-.
      destruct (svc_write_keeps _ _ _ _ _ _ _ Hr0 E) as [K P].
      destruct (svc_write_spec _ _ _ _ _ _ _ E) as ([_ _ Q] & _).
      split; [|exact Q]. eapply keeps_weaken; [|exact K]. intros x Hx. cbn beta in *.
      rewrite <- Hx. now apply acked_px.
    - destruct (process_pending (e_now e) _) as [wx dx] eqn:E. injection E1 as <- <- <-.
      set (wa := set_proxies w0 _) in *.
      assert (Hra : q_reliable (w_qos wa) = true) by exact Hr0.
      destruct (process_pending_keeps _ _ _ _ Hra E) as [K P].
      split.
      + eapply keeps_trans; [apply (keeps_same _ w0 wa); reflexivity|].
        eapply keeps_weaken; [|exact K]. intros x Hx. cbn beta in *. rewrite <- Hx. now apply acked_px.
      + unfold process_pending in E. destruct (w_pending wa) as [p|]; [|injection E as <- <-; reflexivity].
        destruct (w_enabled wa); cbn [negb] in E; [|injection E as <- <-; reflexivity].
        match type of E with (if ?b then _ else _) = _ => destruct b end; [|injection E as <- <-; reflexivity].
        match type of E with (let '(_, _) := ent_write ?x _ _ _ _ in _) = _ => set (wz := x) in * end.
        destruct (ent_write wz _ _ _ _) as [wy c0] eqn:Ew. injection E as <- <-.
        destruct (ent_write_spec _ _ _ _ _ _ _ Ew) as ([_ _ Q] & _).
        assert (Qz : w_qos wz = w_qos wa).
        { subst wz. destruct (q_hist (w_qos wa)); [reflexivity|].
          destruct (find_inst _ _) as [s|]; [|reflexivity]. destruct (_ =? _); [|reflexivity].
          destruct (pop_front_spec (set_pending wa None) (hof wa (pd_key p))) as ([_ _ Qp] & _). exact Qp. }
        rewrite Q, Qz. reflexivity.
    - injection E1 as <- <- <-. split; [now apply keeps_same|reflexivity].
    - injection E1 as <- <- <-. split; [now apply keeps_same|reflexivity].
    - injection E1 as <- <- <-. split; [apply keeps_refl|reflexivity]. }
  destruct A as [K1 Q1].
  assert (Hr1 : q_reliable (w_qos w1) = true) by congruence.
  destruct (tail_keeps _ _ _ _ Hr1 E2) as [K2 P2].
  (* chain: w -> w0 -> w1 -> w2 *)
  assert (In c (w_changes w0)) as Hc0 by now rewrite C0.
  destruct (K1 c Hc0) as [Hc1|Ha].
  - destruct (K2 c Hc1) as [Hc2|[Ha|Hx]]; [contradiction|now left|right].
    unfold lifespan_expired in *. now rewrite Q1, Q0 in Hx.
  - left. cbn beta in Ha. rewrite <- Ha. apply acked_px. exact P2.
Qed.

(* ------------------------------------------------------------ when a write is parked *)
(* a write is parked exactly when the instance is full, the writer is reliable, the oldest
   sample is not acknowledged by every matched reliable reader and no other write is parked;
   it then gets the expiration time now + max_blocking_time and stores nothing *)
Lemma write_parked_iff now w slot k ts :
  w_enabled w = true ->
  (snd (svc_write now w slot k ts) = RBlocked <->
   exists d sn, q_hist (w_qos w) = KeepLast d /\ smallest_full d (hof w k) (w_insts w) = Some sn /\
                q_reliable (w_qos w) = true /\ acked w sn = false /\ w_pending w = None).
Proof.
  intros En. unfold svc_write. rewrite En. cbn [negb].
  assert (NB : forall w0, snd (let '(w'', c) := ent_write w0 (hof w k) ts now slot in (w'', rsl_of_code c)) <> RBlocked).
  { intros w0. destruct (ent_write w0 (hof w k) ts now slot) as [w'' c]. cbn [snd].
    unfold rsl_of_code. destruct (c =? 0); discriminate. }
  destruct (q_hist (w_qos w)) as [|d] eqn:Hq.
  - split; [intros H; now apply NB in H|intros (d & sn & Hd & _); discriminate].
  - destruct (smallest_full d (hof w k) (w_insts w)) as [sn|] eqn:Es.
    + destruct (q_reliable (w_qos w)) eqn:Hr; cbn [andb].
      * destruct (acked w sn) eqn:Ea; cbn [negb].
        -- split; [intros H; now apply NB in H|].
           intros (d' & sn' & Hd & Hs & _ & Ha & _). injection Hd as <-. rewrite Es in Hs. injection Hs as <-. congruence.
        -- destruct (w_pending w) as [p|] eqn:Ep; cbn [snd].
           ++ split; [discriminate|]. intros (d' & sn' & _ & _ & _ & _ & Hp). discriminate.
           ++ split; [|reflexivity]. intros _. exists d, sn. auto.
      * split; [intros H; now apply NB in H|]. intros (d' & sn' & _ & _ & Hr' & _). discriminate.
    + split; [intros H; now apply NB in H|].
      intros (d' & sn' & Hd & Hs & _). injection Hd as <-. congruence.
Qed.

Lemma write_parked_state now w slot k ts w' :
  svc_write now w slot k ts = (w', RBlocked) ->
  w' = set_pending w (Some (mkPend slot k ts (match q_mbt (w_qos w) with Some t => Some (now + t) | None => None end))) /\
  w_pending w = None.
Proof.
  unfold svc_write. destruct (w_enabled w); cbn [negb]; [|discriminate].
  assert (NB : forall w0, (let '(w'', c) := ent_write w0 (hof w k) ts now slot in (w'', rsl_of_code c)) <> (w', RBlocked)).
  { intros w0. destruct (ent_write w0 (hof w k) ts now slot) as [w'' c].
    unfold rsl_of_code. destruct (c =? 0); intros [= _ ?]. }
  destruct (q_hist (w_qos w)) as [|d]; [intros H; now apply NB in H|].
  destruct (smallest_full d (hof w k) (w_insts w)) as [sn|]; [|intros H; now apply NB in H].
  destruct (q_reliable (w_qos w) && negb (acked w sn)); [|intros H; now apply NB in H].
  destruct (w_pending w); [discriminate|]. intros [= <-]. auto.
Qed.

(* the recorded deviation: while a write is parked, another write that would have to wait is
   answered Error at once (and changes nothing) *)
Lemma second_blocked_write_error now w slot k ts p d sn :
  w_enabled w = true -> w_pending w = Some p ->
  q_hist (w_qos w) = KeepLast d -> smallest_full d (hof w k) (w_insts w) = Some sn ->
  q_reliable (w_qos w) = true -> acked w sn = false ->
  svc_write now w slot k ts = (w, RErr E_ERROR).
Proof.
  intros En Ep Hq Hs Hr Ha. unfold svc_write. rewrite En, Hq, Hs, Hr, Ha, Ep. reflexivity.
Qed.

(* ---------------------------------------------------------------- Timeout *)
(* the parked write is answered Timeout by the first event at or after its expiration, with the
   expiration as completion time, before anything else happens in that event *)
Lemma timeout_at_expiration w p e ev w' o :
  w_pending w = Some p -> pd_exp p = Some e -> e <= e_now ev ->
  step w ev = (w', o) -> hd_error (o_done o) = Some (pd_slot p, E_TIMEOUT, e).
Proof.
  intros Hp He Hle H. unfold step in H. unfold catch_up, check_timeout in H. rewrite Hp, He in H.
  destruct (e <=? e_now ev) eqn:E; [|apply Z.leb_gt in E; lia].
  destruct (apply_op _ _ _) as [[w1 imm] d1]. destruct (tail _ _) as [w2 d2].
  injection H as <- <-. reflexivity.
Qed.

(* ... and not before: an event before the expiration that brings no acknowledgement leaves the
   write parked (here: a timer tick) *)
Lemma still_parked_before_expiration w p e now w' o :
  w_pending w = Some p -> pd_exp p = Some e -> now < e ->
  (forall d sn, q_hist (w_qos w) = KeepLast d ->
                smallest_full d (hof w (pd_key p)) (w_insts w) = Some sn -> acked w sn = false) ->
  q_reliable (w_qos w) = true -> w_enabled w = true ->
  (exists d sn, q_hist (w_qos w) = KeepLast d /\ smallest_full d (hof w (pd_key p)) (w_insts w) = Some sn) ->
  step w (mkEv now OTick) = (w', o) ->
  o_done o = [] /\ w_pending w' = Some p /\ w_insts w' = w_insts w.
Proof.
  intros Hp He Hlt Hna Hr En (d & sn & Hq & Hs) H.
  unfold step in H. cbn [e_now e_op apply_op] in H.
  unfold catch_up, check_timeout in H. rewrite Hp, He in H.
  destruct (e <=? now) eqn:E; [apply Z.leb_le in E; lia|].
  unfold tail in H.
  destruct (remove_stale_spec now w) as ([Fe Fk Fq] & _ & P1 & I1 & _).
  unfold check_timeout in H. rewrite P1, Hp, He, E in H.
  unfold process_pending in H. rewrite P1, Hp, Fe, En in H. cbn [negb] in H.
  rewrite Fq, Hq, I1 in H. unfold hof in H. rewrite Fk in H. fold (hof w (pd_key p)) in H.
  rewrite Hs, Hr in H. cbn [negb orb] in H.
  assert (Ha : acked (remove_stale now w) sn = false).
  { rewrite (acked_px _ w); [eapply Hna; eauto|].
    unfold remove_stale. destruct (q_lifespan (w_qos w)); reflexivity. }
  rewrite Ha in H. injection H as <- <-. cbn [o_done app]. repeat split; auto. congruence.
Qed.

(* a write answered Timeout stores nothing: the step that answers it adds no change carrying
   that slot (slots identify write calls; the event itself must not reuse the slot) *)
Lemma check_timeout_stores_nothing now w w' d :
  check_timeout now w = (w', d) ->
  w_changes w' = w_changes w /\ w_insts w' = w_insts w /\ w_last_sn w' = w_last_sn w /\
  (forall s c t, In (s, c, t) d ->
     c = E_TIMEOUT /\ w_pending w' = None /\
     exists p, w_pending w = Some p /\ pd_slot p = s /\ pd_exp p = Some t /\ t <= now).
Proof.
  intros H. destruct (check_timeout_spec _ _ _ _ H) as (_ & Hi & Hc & Hl & _).
  refine (conj Hc (conj Hi (conj Hl _))).
  unfold check_timeout in H. destruct (w_pending w) as [p|] eqn:Ep.
  2:{ injection H as <- <-. intros s c t []. }
  destruct (pd_exp p) as [e|] eqn:Ee.
  2:{ injection H as <- <-. intros s c t []. }
  destruct (e <=? now) eqn:E.
  - injection H as <- <-. intros s c t [[= <- <- <-]|[]]. wsimpl. repeat split; auto.
    exists p. apply Z.leb_le in E. auto.
  - injection H as <- <-. intros s c t [].
Qed.

(* completions produced by process_pending are never Timeout *)
Lemma process_pending_codes now w w' d s c t :
  process_pending now w = (w', d) -> In (s, c, t) d -> (c = 0 \/ c = E_OUT_OF_RESOURCES) /\ t = now.
Proof.
  unfold process_pending. destruct (w_pending w) as [p|]; [|intros [= <- <-] []].
  destruct (w_enabled w); cbn [negb]; [|intros [= <- <-] []].
  match goal with |- (if ?b then _ else _) = _ -> _ => destruct b end; [|intros [= <- <-] []].
  match goal with |- (let '(_, _) := ent_write ?x ?h ?a ?b ?e in _) = _ -> _ => destruct (ent_write x h a b e) as [w3 c3] eqn:E end.
  intros [= <- <-] [[= <- <- <-]|[]].
  destruct (ent_write_spec _ _ _ _ _ _ _ E) as (_ & _ & Cc & _). auto.
Qed.

Definition slots_of (w : writer) : list Z := map c_slot (w_changes w).

Lemma ent_write_slots w h ts now slot w' c :
  ent_write w h ts now slot = (w', c) ->
  forall x, In x (w_changes w') -> In x (w_changes w) \/ c_slot x = slot.
Proof.
  unfold ent_write. destruct (inst_refused _ _ _); [intros [= <- <-]; auto|].
  destruct (mspi_hit _ _ _); [intros [= <- <-]; auto|]. destruct (ms_hit _ _); [intros [= <- <-]; auto|].
  destruct (expired _ _ _); intros [= <- <-]; wsimpl; auto.
  intros x Hx. apply in_app_or in Hx. destruct Hx as [Hx|[<-|[]]]; auto.
Qed.

Lemma remove_change_sub sn l x : In x (remove_change sn l) -> In x l.
Proof. unfold remove_change. intros H. apply filter_In in H. tauto. Qed.
Lemma pop_front_sub w h x : In x (w_changes (pop_front w h)) -> In x (w_changes w).
Proof.
  unfold pop_front. destruct (find_inst _ _) as [s|]; [|auto]. destruct (i_samples s); [auto|].
  wsimpl. apply remove_change_sub.
Qed.


(* ------------------------- the history only ever holds samples of writes answered Ok *)
Lemma ent_write_new w h ts now slot w' c :
  ent_write w h ts now slot = (w', c) ->
  forall x, In x (w_changes w') -> In x (w_changes w) \/ (c_slot x = slot /\ c = 0).
Proof.
  unfold ent_write. destruct (inst_refused _ _ _); [intros [= <- <-]; auto|].
  destruct (mspi_hit _ _ _); [intros [= <- <-]; auto|]. destruct (ms_hit _ _); [intros [= <- <-]; auto|].
  destruct (expired _ _ _); intros [= <- <-]; wsimpl; auto.
  intros x Hx. apply in_app_or in Hx. destruct Hx as [Hx|[<-|[]]]; auto.
Qed.

Lemma svc_write_new now w slot k ts w' r :
  svc_write now w slot k ts = (w', r) ->
  forall x, In x (w_changes w') -> In x (w_changes w) \/ (c_slot x = slot /\ r = ROk).
Proof.
  unfold svc_write. destruct (w_enabled w); cbn [negb]; [|intros [= <- <-]; auto].
  assert (GO : forall w0, (forall y, In y (w_changes w0) -> In y (w_changes w)) ->
     (let '(w'', c) := ent_write w0 (hof w k) ts now slot in (w'', rsl_of_code c)) = (w', r) ->
     forall x, In x (w_changes w') -> In x (w_changes w) \/ (c_slot x = slot /\ r = ROk)).
  { intros w0 S0 H. destruct (ent_write w0 (hof w k) ts now slot) as [w'' c] eqn:E. injection H as <- <-.
    intros x Hx. destruct (ent_write_new _ _ _ _ _ _ _ E x Hx) as [Hy|[Hs ->]]; [left; auto|right; auto]. }
  destruct (q_hist (w_qos w)) as [|d]; [apply GO; auto|].
  destruct (smallest_full d (hof w k) (w_insts w)) as [sn|]; [|apply GO; auto].
  destruct (q_reliable (w_qos w) && negb (acked w sn)).
  - destruct (w_pending w); intros [= <- <-]; auto.
  - apply GO. intros y Hy. now apply pop_front_sub in Hy.
Qed.

Lemma process_pending_new now w w' d :
  process_pending now w = (w', d) ->
  forall x, In x (w_changes w') -> In x (w_changes w) \/ In (c_slot x, 0, now) d.
Proof.
  unfold process_pending. destruct (w_pending w) as [p|]; [|intros [= <- <-]; auto].
  destruct (w_enabled w); cbn [negb]; [|intros [= <- <-]; auto].
  match goal with |- (if ?b then _ else _) = _ -> _ => destruct b end; [|intros [= <- <-]; auto].
  match goal with |- (let '(_, _) := ent_write ?x ?h ?a ?b ?e in _) = _ -> _ =>
    set (w2 := x); destruct (ent_write w2 h a b e) as [w3 c3] eqn:E end.
  intros [= <- <-] x Hx.
  assert (S2 : forall y, In y (w_changes w2) -> In y (w_changes w)).
  { subst w2. destruct (q_hist (w_qos w)); [auto|].
    destruct (find_inst _ _) as [s|]; [|auto]. destruct (_ =? _); [|auto].
    intros y Hy. apply pop_front_sub in Hy. exact Hy. }
  destruct (ent_write_new _ _ _ _ _ _ _ E x Hx) as [H|[Hs ->]]; [left; auto|right].
  rewrite Hs. now left.
Qed.

(* slots answered Ok by one event *)
Definition ok_of (e : ev) (o : out) : list Z :=
  (match e_op e, o_imm o with OWrite s _ _, Some ROk => [s] | _, _ => [] end) ++
  flat_map (fun d => let '(s, c, _) := d in if c =? 0 then [s] else []) (o_done o).

Lemma ok_done_in (s now : Z) (d : list done) : In (s, 0, now) d ->
  In s (flat_map (fun d : done => let '(s, c, _) := d in if c =? 0 then [s] else []) d).
Proof. intros H. apply in_flat_map. exists (s, 0, now). split; [exact H|now left]. Qed.

Lemma step_new w e w' o :
  step w e = (w', o) ->
  forall x, In x (w_changes w') -> In x (w_changes w) \/ c_slot x = -1 \/ In (c_slot x) (ok_of e o).
Proof.
  intros H. unfold step in H.
  destruct (catch_up (e_now e) w) as [w0 d0] eqn:E0.
  destruct (apply_op (e_now e) w0 (e_op e)) as [[w1 imm] d1] eqn:E1.
  destruct (tail (e_now e) w1) as [w2 d2] eqn:E2. injection H as <- <-.
  unfold catch_up in E0. destruct (check_timeout_spec _ _ _ _ E0) as (_ & _ & C0 & _).
  unfold ok_of. cbn [o_imm o_done].
  (* the tail *)
  unfold tail in E2.
  destruct (check_timeout (e_now e) (remove_stale (e_now e) w1)) as [wa da] eqn:Ea.
  destruct (process_pending (e_now e) wa) as [wb db] eqn:Eb. injection E2 as <- <-.
  destruct (check_timeout_spec _ _ _ _ Ea) as (_ & _ & Ca & _).
  assert (T : forall x, In x (w_changes wb) -> In x (w_changes w1) \/ In (c_slot x, 0, e_now e) db).
  { intros x Hx. destruct (process_pending_new _ _ _ _ Eb x Hx) as [H|H]; [left|now right].
    rewrite Ca in H. unfold remove_stale in H. destruct (q_lifespan (w_qos w1)); [|exact H].
    wsimpl in H. apply filter_In in H. tauto. }
  intros x Hx. destruct (T x Hx) as [H1|Hd].
  2:{ right. right. apply in_or_app. right. rewrite !flat_map_app. apply in_or_app. right.
      apply in_or_app. right. apply in_or_app. right. eapply ok_done_in; eauto. }
  (* the mail *)
  assert (M : In x (w_changes w0) \/ c_slot x = -1 \/
              In (c_slot x) (match e_op e, imm with OWrite s _ _, Some ROk => [s] | _, _ => [] end) \/
              In (c_slot x, 0, e_now e) d1).
  { destruct (e_op e) as [|k ts|k ts|k ts|k|slot k ts|r base count|r rel|r|]; cbn [apply_op] in E1.
    - injection E1 as <- <- <-. now left.
    - destruct (svc_register w0 k ts) as [wx rx] eqn:E. injection E1 as <- <- <-.
      unfold svc_register in E.
      destruct (w_enabled w0); cbn [negb] in E; [|injection E as <- <-; now left].
      destruct (w_keyed w0); cbn [negb] in E; [|injection E as <- <-; now left].
      destruct (has_inst _ _); [injection E as <- <-; now left|].
      destruct (len_lt _ _); injection E as <- <-; now left.
    - destruct (svc_unregister w0 k ts) as [wx rx] eqn:E. injection E1 as <- <- <-.
      unfold svc_unregister, svc_unreg_or_dispose in E.
      destruct (w_enabled w0); cbn [negb] in E; [|injection E as <- <-; now left].
      destruct (w_keyed w0); cbn [negb] in E; [|injection E as <- <-; now left].
      destruct (is_reg _ _); injection E as <- <-; [|now left].
      wsimpl in H1. apply in_app_or in H1. destruct H1 as [H1|[<-|[]]]; [now left|right; now left].
    - destruct (svc_dispose w0 k ts) as [wx rx] eqn:E. injection E1 as <- <- <-.
      unfold svc_dispose, svc_unreg_or_dispose in E.
      destruct (w_enabled w0); cbn [negb] in E; [|injection E as <- <-; now left].
      destruct (w_keyed w0); cbn [negb] in E; [|injection E as <- <-; now left].
      destruct (is_reg _ _); injection E as <- <-; [|now left].
      wsimpl in H1. apply in_app_or in H1. destruct H1 as [H1|[<-|[]]]; [now left|right; now left].
    - injection E1 as <- <- <-. now left.
    - destruct (svc_write (e_now e) w0 slot k ts) as [wx rx] eqn:E. injection E1 as <- <- <-.
      destruct (svc_write_new _ _ _ _ _ _ _ E x H1) as [H|[Hs ->]]; [now left|].
      right. right. left. rewrite Hs. now left.
    - destruct (process_pending (e_now e) _) as [wx dx] eqn:E. injection E1 as <- <- <-.
      destruct (process_pending_new _ _ _ _ E x H1) as [H|H]; [now left|]. right. right. now right.
    - injection E1 as <- <- <-. now left.
    - injection E1 as <- <- <-. now left.
    - injection E1 as <- <- <-. now left. }
  destruct M as [M|[M|[M|M]]].
  - left. now rewrite <- C0.
  - right. now left.
  - right. right. apply in_or_app. now left.
  - right. right. apply in_or_app. right. rewrite !flat_map_app. apply in_or_app. right.
    apply in_or_app. left. eapply ok_done_in; eauto.
Qed.

Lemma ok_slots_cons e o t : ok_slots ((e, o) :: t) = ok_of e o ++ ok_slots t.
Proof. reflexivity. Qed.

Lemma run_new evs : forall w acc,
  (forall x, In x (w_changes w) -> c_slot x = -1 \/ In (c_slot x) acc) ->
  forall x, In x (w_changes (fst (run w evs))) ->
            c_slot x = -1 \/ In (c_slot x) (acc ++ ok_slots (model_trace w evs)).
Proof.
  induction evs as [|e t IH]; intros w acc I x Hx.
  - cbn in Hx. destruct (I x Hx); [now left|right]. apply in_or_app. now left.
  - unfold model_trace in *. rewrite run_cons in *.
    destruct (step w e) as [w1 o] eqn:Es. destruct (run w1 t) as [w2 os] eqn:Er.
    cbn [fst snd combine] in *. rewrite ok_slots_cons.
    assert (I1 : forall y, In y (w_changes w1) -> c_slot y = -1 \/ In (c_slot y) (acc ++ ok_of e o)).
    { intros y Hy. destruct (step_new _ _ _ _ Es y Hy) as [H|[H|H]].
      - destruct (I y H); [now left|right]. apply in_or_app. now left.
      - now left.
      - right. apply in_or_app. now right. }
    specialize (IH w1 (acc ++ ok_of e o) I1 x). rewrite Er in IH. cbn [fst snd] in IH.
    rewrite <- app_assoc in IH. apply IH. exact Hx.
Qed.

(* For every run: every change in the history is a dispose/unregister record or the sample of a
   write that was answered Ok.  A write answered Timeout or Error never stores its sample. *)
Theorem history_only_ok_writes keyed enabled q evs :
  forall x, In x (w_changes (fst (run (init keyed enabled q) evs))) ->
            c_slot x = -1 \/ In (c_slot x) (ok_slots (model_trace (init keyed enabled q) evs)).
Proof.
  intros x Hx. apply (run_new evs (init keyed enabled q) []); [intros y []|exact Hx].
Qed.

(* ------------------------------------ the parked write completes when the ACKNACK arrives *)
Lemma Lim_set_pending w x : Lim w -> Lim (set_pending w x).
Proof. intros L. eapply Lim_ext; [| |exact L]; reflexivity. Qed.

(* process_pending_write_samples (called by the ACKNACK handler and by every worker iteration):
   once the oldest sample of the full instance is acknowledged, the parked sample replaces it
   and the write is answered Ok *)
Lemma process_pending_completes now w p d sn :
  Lim w -> qos_wf (w_qos w) -> w_enabled w = true -> w_pending w = Some p ->
  q_hist (w_qos w) = KeepLast d ->
  smallest_full d (hof w (pd_key p)) (w_insts w) = Some sn ->
  acked w sn = true ->
  exists w', process_pending now w = (w', [(pd_slot p, 0, now)]) /\ w_pending w' = None /\
    (expired (w_qos w) (pd_ts p) now = false ->
       In (mkCh (w_last_sn w + 1) K_ALIVE (hof w (pd_key p)) (pd_ts p) (pd_slot p)) (w_changes w')).
Proof.
  intros L WF En Hp Hq Hs Ha. unfold process_pending. rewrite Hp, En. cbn [negb].
  set (h := hof w (pd_key p)) in *. rewrite Hq, Hs, Ha, orb_true_r.
  destruct (smallest_full_inv _ _ _ _ Hs) as (s & rest & Hf & Hsm & Hd).
  set (w1 := set_pending w None).
  assert (Hf1 : find_inst h (w_insts w1) = Some s) by exact Hf.
  rewrite Hf1. rewrite Hd, Z.eqb_refl.
  assert (L1 : Lim w1) by now apply Lim_set_pending.
  assert (WF1 : qos_wf (w_qos w1)) by exact WF.
  assert (Hq1 : q_hist (w_qos w1) = KeepLast d) by exact Hq.
  pose proof (no_refusal_after_pop w1 h d s sn rest (pd_ts p) now (pd_slot p) L1 WF1 Hq1 Hf1 Hsm Hd) as N.
  destruct (ent_write (pop_front w1 h) h (pd_ts p) now (pd_slot p)) as [w3 c] eqn:E.
  cbn [snd] in N. subst c. exists w3. split; [reflexivity|].
  destruct (ent_write_spec _ _ _ _ _ _ _ E) as (_ & P & _).
  destruct (pop_front_spec w1 h) as ([_ _ Fq] & Pp & Ls & _).
  split; [rewrite P, Pp; reflexivity|].
  intros Hx. unfold ent_write in E.
  destruct (inst_refused _ _ _); [discriminate|].
  destruct (mspi_hit _ _ _); [discriminate|]. destruct (ms_hit _ _); [discriminate|].
  rewrite Fq in E. change (w_qos w1) with (w_qos w) in E. rewrite Hx in E.
  injection E as <-. wsimpl. apply in_or_app. right. rewrite Ls. now left.
Qed.

(* the same seen from the event: the ACKNACK that acknowledges the oldest sample of the full
   instance makes the parked write complete with Ok at that very moment *)
Lemma ack_completes_parked_write w p d sn r base count now w' o :
  Lim w -> qos_wf (w_qos w) -> w_enabled w = true -> w_pending w = Some p ->
  q_hist (w_qos w) = KeepLast d ->
  smallest_full d (hof w (pd_key p)) (w_insts w) = Some sn ->
  match pd_exp p with Some e => now < e | None => True end ->
  acked (set_proxies w (on_acknack r base count (w_proxies w))) sn = true ->
  step w (mkEv now (OAck r base count)) = (w', o) ->
  In (pd_slot p, 0, now) (o_done o) /\ w_pending w' = None.
Proof.
  intros L WF En Hp Hq Hs Hexp Ha H. unfold step in H. cbn [e_now e_op] in H.
  assert (C0 : catch_up now w = (w, [])).
  { unfold catch_up, check_timeout. rewrite Hp. destruct (pd_exp p) as [e|]; [|reflexivity].
    destruct (e <=? now) eqn:E; [apply Z.leb_le in E; lia|reflexivity]. }
  rewrite C0 in H. cbn [apply_op] in H.
  set (w1 := set_proxies w (on_acknack r base count (w_proxies w))) in *.
  assert (L1 : Lim w1) by (eapply Lim_ext; [| |exact L]; reflexivity).
  destruct (process_pending_completes now w1 p d sn L1 WF En Hp Hq Hs Ha) as (w2 & E2 & P2 & _).
  rewrite E2 in H.
  destruct (tail now w2) as [w3 d3] eqn:E3. injection H as <- <-. cbn [o_done app].
  split; [now left|].
  unfold tail in E3.
  destruct (remove_stale_spec now w2) as (_ & _ & Pr & _).
  unfold check_timeout in E3. rewrite Pr, P2 in E3.
  unfold process_pending in E3. rewrite Pr, P2 in E3. injection E3 as <- <-. now rewrite Pr.
Qed.

(* -------------------------------- depth bound on the RTPS history itself *)
(* the ALIVE changes of the history are recorded in their instance; sequence numbers are unique *)
Record HistInv (w : writer) : Prop := mkHI {
  hi_rec : forall c, In c (w_changes w) -> c_kind c = K_ALIVE -> In (c_sn c) (samples_of (c_h c) (w_insts w));
  hi_nodup : NoDup (map c_sn (w_changes w));
  hi_le : forall c, In c (w_changes w) -> c_sn c <= w_last_sn w
}.

Lemma HistInv_init keyed en q : HistInv (init keyed en q).
Proof. constructor; cbn; [intros c []|constructor|intros c []]. Qed.

Lemma nodup_map_filter {A B} (f : A -> B) (p : A -> bool) l : NoDup (map f l) -> NoDup (map f (filter p l)).
Proof.
  induction l as [|x t IH]; cbn [map filter]; [auto|]. intros H. inversion H as [|? ? Hn Ht]; subst.
  destruct (p x); cbn [map]; [constructor|]; auto.
  intros Hin. apply Hn. apply in_map_iff in Hin. destruct Hin as (y & Hy & Hyin).
  apply filter_In in Hyin. apply in_map_iff. exists y. tauto.
Qed.

Lemma NoDup_app_snoc {A} (l : list A) x : NoDup l -> ~ In x l -> NoDup (l ++ [x]).
Proof.
  intros H Hx. induction H as [|y l Hy H IH]; cbn [app]; [constructor; [intros []|constructor]|].
  constructor.
  - rewrite in_app_iff. cbn [In]. intros [?|[<-|[]]]; [tauto|]. apply Hx. now left.
  - apply IH. intros Hin. apply Hx. now right.
Qed.

Lemma samples_of_upd_same h f l :
  (forall i, i_h (f i) = i_h i) ->
  samples_of h (upd_inst h f l) = match find_inst h l with Some s => i_samples (f s) | None => [] end.
Proof. intros Hf. unfold samples_of. rewrite find_upd_same by exact Hf. now destruct (find_inst h l). Qed.
Lemma samples_of_upd_other h x f l :
  (forall i, i_h (f i) = i_h i) -> x <> h -> samples_of x (upd_inst h f l) = samples_of x l.
Proof. intros Hf Hn. unfold samples_of. now rewrite find_upd_other. Qed.
Lemma samples_of_push_other x l i : i_h i <> x -> samples_of x (l ++ [i]) = samples_of x l.
Proof. intros Hn. unfold samples_of. now rewrite find_inst_app_other. Qed.

(* records may only grow, or be updated without touching the samples *)
Lemma HistInv_samples_ext w w' :
  w_changes w' = w_changes w -> w_last_sn w' = w_last_sn w ->
  (forall x, incl (samples_of x (w_insts w)) (samples_of x (w_insts w'))) ->
  HistInv w -> HistInv w'.
Proof.
  intros Hc Hl Hs [A B C]. constructor; rewrite ?Hc, ?Hl; auto.
  intros c Hin Hk. apply Hs. auto.
Qed.

Lemma ent_write_hist w h ts now slot w' c :
  HistInv w -> ent_write w h ts now slot = (w', c) -> HistInv w'.
Proof.
  intros I H. unfold ent_write in H.
  destruct (inst_refused _ _ _); [injection H as <- <-; exact I|].
  destruct (mspi_hit _ _ _); [injection H as <- <-; exact I|].
  destruct (ms_hit _ _); [injection H as <- <-; exact I|].
  set (l1 := inst_for_write h (w_insts w)) in *.
  assert (S1 : forall x, samples_of x l1 = samples_of x (w_insts w)) by (intros x; apply samples_of_for_write).
  assert (Hh : has_inst h l1 = true) by exact (proj1 (inst_for_write_spec h (w_insts w))).
  set (sn := w_last_sn w + 1) in *.
  destruct (proj1 (has_inst_find _ _) Hh) as [s0 Hs0].
  assert (G : forall x, incl (samples_of x (w_insts w)) (samples_of x (upd_inst h (record_sample ts sn) l1)) /\
                        In sn (samples_of h (upd_inst h (record_sample ts sn) l1))).
  { intros x. split.
    - rewrite <- S1. destruct (Z.eq_dec x h) as [->|Hn].
      + rewrite samples_of_upd_same by apply record_sample_h. unfold samples_of. rewrite Hs0.
        cbn [record_sample i_samples]. apply incl_appl, incl_refl.
      + rewrite samples_of_upd_other by (auto using record_sample_h). apply incl_refl.
    - rewrite samples_of_upd_same by apply record_sample_h. rewrite Hs0.
      cbn [record_sample i_samples]. apply in_or_app. right. now left. }
  destruct I as [A B C].
  destruct (expired _ _ _); injection H as <- <-.
  - constructor; wsimpl; auto.
    + intros c0 Hin Hk. apply (proj1 (G (c_h c0))). auto.
    + intros c0 Hin. specialize (C c0 Hin). subst sn. lia.
  - constructor; wsimpl.
    + intros c0 Hin Hk. apply in_app_or in Hin. destruct Hin as [Hin|[<-|[]]].
      * apply (proj1 (G (c_h c0))). auto.
      * cbn [c_h c_sn]. apply (proj2 (G h)).
    + rewrite map_app. cbn [map c_sn]. apply NoDup_app_snoc; [exact B|].
      intros Hin. apply in_map_iff in Hin. destruct Hin as (y & Hy & Hyin). specialize (C y Hyin). subst sn. lia.
    + intros c0 Hin. apply in_app_or in Hin. destruct Hin as [Hin|[<-|[]]].
      * specialize (C c0 Hin). subst sn. lia.
      * cbn [c_sn]. lia.
Qed.

Lemma pop_front_hist w h : HistInv w -> HistInv (pop_front w h).
Proof.
  intros [A B C]. unfold pop_front.
  destruct (find_inst h (w_insts w)) as [s|] eqn:Ef; [|constructor; assumption].
  destruct (i_samples s) as [|sn rest] eqn:Es; [constructor; assumption|].
  constructor; wsimpl.
  - intros c Hin Hk. unfold remove_change in Hin. apply filter_In in Hin. destruct Hin as [Hin Hne].
    apply negb_true_iff, Z.eqb_neq in Hne. specialize (A c Hin Hk).
    destruct (Z.eq_dec (c_h c) h) as [Hh|Hh].
    + rewrite Hh in *. rewrite samples_of_upd_same by reflexivity. rewrite Ef. cbn [i_samples].
      unfold samples_of in A. rewrite Ef, Es in A. rewrite Es. cbn [tl].
      destruct A as [A|A]; [congruence|exact A].
    + rewrite samples_of_upd_other by auto. exact A.
  - unfold remove_change. now apply nodup_map_filter.
  - intros c Hin. unfold remove_change in Hin. apply filter_In in Hin. apply C. tauto.
Qed.

Lemma go_hist w0 h ts now slot w' r :
  HistInv w0 -> (let '(w'', c) := ent_write w0 h ts now slot in (w'', rsl_of_code c)) = (w', r) -> HistInv w'.
Proof.
  intros I H. destruct (ent_write w0 h ts now slot) as [w'' c] eqn:E. injection H as <- <-.
  eapply ent_write_hist; eauto.
Qed.

Lemma svc_write_hist now w slot k ts w' r : HistInv w -> svc_write now w slot k ts = (w', r) -> HistInv w'.
Proof.
  intros I H. unfold svc_write in H.
  destruct (w_enabled w); cbn [negb] in H; [|injection H as <- <-; exact I].
  destruct (q_hist (w_qos w)) as [|d]; [eapply go_hist; eauto|].
  destruct (smallest_full d (hof w k) (w_insts w)) as [sn|]; [|eapply go_hist; eauto].
  destruct (q_reliable (w_qos w) && negb (acked w sn)).
  - destruct (w_pending w); injection H as <- <-; [exact I|]. destruct I as [A B C]. constructor; assumption.
  - eapply go_hist; [|exact H]. now apply pop_front_hist.
Qed.

Lemma process_pending_hist now w w' d : HistInv w -> process_pending now w = (w', d) -> HistInv w'.
Proof.
  intros I H. unfold process_pending in H.
  destruct (w_pending w) as [p|]; [|injection H as <- <-; exact I].
  destruct (w_enabled w); cbn [negb] in H; [|injection H as <- <-; exact I].
  match type of H with (if ?b then _ else _) = _ => destruct b end; [|injection H as <- <-; exact I].
  match type of H with (let '(_, _) := ent_write ?x _ _ _ _ in _) = _ => set (w2 := x) in * end.
  assert (I2 : HistInv w2).
  { assert (I1 : HistInv (set_pending w None)) by (destruct I as [A B C]; constructor; assumption).
    subst w2. destruct (q_hist (w_qos w)); [exact I1|].
    destruct (find_inst _ _) as [s|]; [|exact I1]. destruct (_ =? _); [|exact I1]. now apply pop_front_hist. }
  destruct (ent_write w2 _ _ _ _) as [w3 c] eqn:E. injection H as <- <-. eapply ent_write_hist; eauto.
Qed.

Lemma HistInv_lwt w h f :
  (forall i, i_h (f i) = i_h i /\ i_samples (f i) = i_samples i) ->
  HistInv w -> HistInv (set_insts w (upd_inst h f (w_insts w))).
Proof.
  intros Hf I. eapply HistInv_samples_ext; [| | |exact I]; try reflexivity.
  intros x. wsimpl. destruct (Z.eq_dec x h) as [->|Hn].
  - rewrite samples_of_upd_same by (intros i; apply Hf). unfold samples_of.
    destruct (find_inst h (w_insts w)) as [s|]; [|apply incl_refl].
    rewrite (proj2 (Hf s)). apply incl_refl.
  - rewrite samples_of_upd_other; [apply incl_refl|intros i; apply Hf|exact Hn].
Qed.

(* a dispose / unregister record: not ALIVE, next sequence number *)
Lemma HistInv_notalive w kind h ts insts' :
  kind <> K_ALIVE -> (forall x, incl (samples_of x (w_insts w)) (samples_of x insts')) ->
  HistInv w ->
  HistInv (set_changes (set_insts (set_last_sn w (w_last_sn w + 1)) insts')
                       (w_changes w ++ [mkCh (w_last_sn w + 1) kind h ts (-1)])).
Proof.
  intros Hk Hs [A B C]. constructor; wsimpl.
  - intros c Hin Hkc. apply in_app_or in Hin. destruct Hin as [Hin|[<-|[]]]; [apply Hs; auto|].
    cbn [c_kind] in Hkc. contradiction.
  - rewrite map_app. cbn [map c_sn]. apply NoDup_app_snoc; [exact B|].
    intros Hin. apply in_map_iff in Hin. destruct Hin as (y & Hy & Hyin). specialize (C y Hyin). lia.
  - intros c Hin. apply in_app_or in Hin. destruct Hin as [Hin|[<-|[]]]; [specialize (C c Hin); lia|cbn [c_sn]; lia].
Qed.

Lemma samples_of_updreg x h f l :
  (forall i, i_h (f i) = i_h i /\ i_samples (f i) = i_samples i) -> samples_of x (upd_reg h f l) = samples_of x l.
Proof.
  intros Hf. unfold samples_of, find_inst. induction l as [|y t IH]; cbn [upd_reg find]; [reflexivity|].
  destruct ((i_h y =? h) && i_reg y); cbn [find].
  - destruct (Hf y) as [-> Hs]. destruct (i_h y =? x); [exact Hs|reflexivity].
  - destruct (i_h y =? x); [reflexivity|exact IH].
Qed.

Lemma apply_op_hist now w o w' imm d : HistInv w -> apply_op now w o = (w', imm, d) -> HistInv w'.
Proof.
  intros I H. destruct o as [|k ts|k ts|k ts|k|slot k ts|r base count|r rel|r|]; cbn [apply_op] in H.
  - injection H as <- <- <-. destruct I as [A B C]. constructor; assumption.
  - destruct (svc_register w k ts) as [w1 r] eqn:E. injection H as <- <- <-. unfold svc_register in E.
    destruct (w_enabled w); cbn [negb] in E; [|injection E as <- <-; exact I].
    destruct (w_keyed w); cbn [negb] in E; [|injection E as <- <-; exact I].
    destruct (has_inst (hof w k) (w_insts w)) eqn:Eh.
    + injection E as <- <-. apply HistInv_lwt; [intros i; split; reflexivity|exact I].
    + destruct (len_lt _ _); injection E as <- <-; [|exact I].
      eapply HistInv_samples_ext; [| | |exact I]; try reflexivity. intros x. wsimpl.
      destruct (Z.eq_dec x (hof w k)) as [->|Hn].
      * unfold samples_of at 1. rewrite (has_inst_false_find _ _ Eh). intros y [].
      * rewrite samples_of_push_other by (cbn [i_h]; congruence). apply incl_refl.
  - destruct (svc_unregister w k ts) as [w1 r] eqn:E. injection H as <- <- <-.
    unfold svc_unregister, svc_unreg_or_dispose in E.
    destruct (w_enabled w); cbn [negb] in E; [|injection E as <- <-; exact I].
    destruct (w_keyed w); cbn [negb] in E; [|injection E as <- <-; exact I].
    destruct (is_reg (hof w k) (w_insts w)); injection E as <- <-; [|exact I].
    apply HistInv_notalive; auto.
    + destruct (q_autodispose (w_qos w)); discriminate.
    + intros x. rewrite samples_of_updreg by (intros i; split; reflexivity). apply incl_refl.
  - destruct (svc_dispose w k ts) as [w1 r] eqn:E. injection H as <- <- <-.
    unfold svc_dispose, svc_unreg_or_dispose in E.
    destruct (w_enabled w); cbn [negb] in E; [|injection E as <- <-; exact I].
    destruct (w_keyed w); cbn [negb] in E; [|injection E as <- <-; exact I].
    destruct (is_reg (hof w k) (w_insts w)); injection E as <- <-; [|exact I].
    apply HistInv_notalive; auto.
    + discriminate.
    + intros x. rewrite samples_of_updreg by (intros i; split; reflexivity). apply incl_refl.
  - injection H as <- <- <-. exact I.
  - destruct (svc_write now w slot k ts) as [w1 r] eqn:E. injection H as <- <- <-. eapply svc_write_hist; eauto.
  - destruct (process_pending now _) as [w1 dd] eqn:E. injection H as <- <- <-.
    eapply process_pending_hist; [|exact E]. destruct I as [A B C]. constructor; assumption.
  - injection H as <- <- <-. destruct I as [A B C]. constructor; assumption.
  - injection H as <- <- <-. destruct I as [A B C]. constructor; assumption.
  - injection H as <- <- <-. exact I.
Qed.

Lemma remove_stale_hist now w : HistInv w -> HistInv (remove_stale now w).
Proof.
  intros [A B C]. unfold remove_stale. destruct (q_lifespan (w_qos w)); [|constructor; assumption].
  constructor; wsimpl.
  - intros c Hin. apply filter_In in Hin. apply A. tauto.
  - now apply nodup_map_filter.
  - intros c Hin. apply filter_In in Hin. apply C. tauto.
Qed.

Lemma check_timeout_hist now w w' d : HistInv w -> check_timeout now w = (w', d) -> HistInv w'.
Proof.
  intros [A B C] H. destruct (check_timeout_spec _ _ _ _ H) as (_ & Hi & Hc & Hl & _).
  constructor; rewrite ?Hi, ?Hc, ?Hl; assumption.
Qed.

Lemma step_hist w e w' o : HistInv w -> step w e = (w', o) -> HistInv w'.
Proof.
  intros I H. unfold step in H.
  destruct (catch_up (e_now e) w) as [w0 d0] eqn:E0.
  destruct (apply_op (e_now e) w0 (e_op e)) as [[w1 imm] d1] eqn:E1.
  destruct (tail (e_now e) w1) as [w2 d2] eqn:E2. injection H as <- <-.
  unfold catch_up in E0. pose proof (check_timeout_hist _ _ _ _ I E0) as I0.
  pose proof (apply_op_hist _ _ _ _ _ _ I0 E1) as I1.
  unfold tail in E2.
  destruct (check_timeout (e_now e) (remove_stale (e_now e) w1)) as [wa da] eqn:Ea.
  destruct (process_pending (e_now e) wa) as [wb db] eqn:Eb. injection E2 as <- <-.
  eapply process_pending_hist; [|exact Eb].
  eapply check_timeout_hist; [|exact Ea]. now apply remove_stale_hist.
Qed.

Lemma run_hist evs : forall w, HistInv w -> HistInv (fst (run w evs)).
Proof.
  induction evs as [|e t IH]; intros w I; [exact I|].
  rewrite run_cons. destruct (step w e) as [w1 o] eqn:Es. destruct (run w1 t) as [w2 os] eqn:Er.
  cbn [fst]. specialize (IH w1 (step_hist _ _ _ _ I Es)). now rewrite Er in IH.
Qed.

(* the ALIVE changes of one instance in the RTPS history *)
Definition alive_of (h : Z) (w : writer) : list change :=
  filter (fun c => (c_kind c =? K_ALIVE) && (c_h c =? h)) (w_changes w).

(* Depth bound: for every run of a KEEP_LAST(depth >= 1) writer, the history never holds more
   than depth ALIVE samples of any instance. *)
Theorem depth_bound keyed enabled q evs d h :
  q_hist q = KeepLast d -> 1 <= d ->
  zlen (alive_of h (fst (run (init keyed enabled q) evs))) <= d.
Proof.
  intros Hq Hd. set (w := fst (run (init keyed enabled q) evs)).
  pose proof (run_hist evs _ (HistInv_init keyed enabled q)) as [A B _]. fold w in A, B.
  destruct (limits_after_trace keyed enabled q evs) as (Li & _). fold w in Li.
  (* the sequence numbers of the ALIVE changes of h are distinct and all recorded in the instance *)
  assert (N : NoDup (map c_sn (alive_of h w))) by (unfold alive_of; now apply nodup_map_filter).
  assert (Inc : incl (map c_sn (alive_of h w)) (samples_of h (w_insts w))).
  { intros sn Hsn. apply in_map_iff in Hsn. destruct Hsn as (c & <- & Hc).
    unfold alive_of in Hc. apply filter_In in Hc. destruct Hc as [Hc Hp].
    apply andb_true_iff in Hp. destruct Hp as [Hk Hh]. apply Z.eqb_eq in Hk, Hh.
    rewrite <- Hh. now apply A. }
  pose proof (NoDup_incl_length N Inc) as Len. rewrite map_length in Len.
  assert (Hs : zlen (samples_of h (w_insts w)) <= d).
  { unfold samples_of. destruct (find_inst h (w_insts w)) as [s|] eqn:Ef; [|unfold zlen; cbn [length]; lia].
    specialize (Li s (find_inst_in _ _ _ Ef)). unfold inst_bound, opt_le in Li. rewrite Hq in Li.
    destruct (1 <=? d) eqn:E; [exact Li|apply Z.leb_gt in E; lia]. }
  unfold zlen in *. lia.
Qed.

(* a writer can only be created with a consistent QoS, which now means depth >= 1 (depth : u32) *)
Theorem depth_bound_created keyed enabled q evs d h :
  qos_consistent q = true -> q_hist q = KeepLast d -> 0 <= d ->
  zlen (alive_of h (fst (run (init keyed enabled q) evs))) <= d.
Proof.
  intros Hc Hq Hd. apply depth_bound; [exact Hq|]. eapply consistent_depth_positive; eauto.
Qed.
