(* Which instances are registered (the `registered` flag of the instance records), and how each
   operation of the writer changes that set.  Handles of the records are pairwise distinct. *)
From DustDDS Require Import Base.Machine WriterHist.WriterModel WriterHist.WriterFacts.
Open Scope Z_scope.

Definition hnodup (l : list inst) : Prop := NoDup (map i_h l).

Lemma has_inst_in h l : has_inst h l = true <-> In h (map i_h l).
Proof.
  unfold has_inst. rewrite existsb_exists, in_map_iff. split.
  - intros (i & Hi & E). apply Z.eqb_eq in E. eauto.
  - intros (i & E & Hi). exists i. split; [exact Hi|now apply Z.eqb_eq].
Qed.
Lemma is_reg_has h l : is_reg h l = true -> has_inst h l = true.
Proof.
  unfold is_reg, has_inst. rewrite !existsb_exists. intros (i & Hi & E).
  apply andb_true_iff in E. exists i. tauto.
Qed.
Lemma is_reg_notin h l : ~ In h (map i_h l) -> is_reg h l = false.
Proof.
  intros H. destruct (is_reg h l) eqn:E; [|reflexivity].
  apply is_reg_has, has_inst_in in E. contradiction.
Qed.

Lemma map_h_upd_inst h f l : (forall i, i_h (f i) = i_h i) -> map i_h (upd_inst h f l) = map i_h l.
Proof.
  intros Hf. induction l as [|y t IH]; cbn [upd_inst map]; [reflexivity|].
  destruct (i_h y =? h); cbn [map]; [now rewrite Hf|now rewrite IH].
Qed.
Lemma map_h_upd_reg h f l : (forall i, i_h (f i) = i_h i) -> map i_h (upd_reg h f l) = map i_h l.
Proof.
  intros Hf. induction l as [|y t IH]; cbn [upd_reg map]; [reflexivity|].
  destruct ((i_h y =? h) && i_reg y); cbn [map]; [now rewrite Hf|now rewrite IH].
Qed.
Lemma hnodup_push h l lwt ss r : has_inst h l = false -> hnodup l -> hnodup (l ++ [mkInst h lwt ss r]).
Proof.
  unfold hnodup. intros Hn H. rewrite map_app. cbn [map i_h].
  assert (Hni : ~ In h (map i_h l)) by (intros Hin; apply has_inst_in in Hin; congruence).
  clear Hn. induction H as [|y m Hy H IH]; cbn [app]; [constructor; [intros []|constructor]|].
  constructor.
  - rewrite in_app_iff. cbn [In]. intros [?|[<-|[]]]; [tauto|]. apply Hni. now left.
  - apply IH. intros Hin. apply Hni. now right.
Qed.

(* ---- is_reg under the updates of the model ---- *)
Lemma is_reg_app x l i : is_reg x (l ++ [i]) = is_reg x l || ((i_h i =? x) && i_reg i).
Proof. unfold is_reg. rewrite existsb_app. cbn [existsb]. now rewrite orb_false_r. Qed.

(* the updated record becomes registered *)
Lemma is_reg_upd_set h f l x :
  (forall i, i_h (f i) = i_h i /\ i_reg (f i) = true) -> has_inst h l = true ->
  is_reg x (upd_inst h f l) = (x =? h) || is_reg x l.
Proof.
  intros Hf. unfold is_reg, has_inst. induction l as [|y t IH]; cbn [upd_inst existsb]; [discriminate|].
  destruct (i_h y =? h) eqn:E; cbn [existsb orb].
  - intros _. destruct (Hf y) as [-> ->]. apply Z.eqb_eq in E. rewrite E.
    rewrite andb_true_r. destruct (x =? h) eqn:Ex.
    + apply Z.eqb_eq in Ex. subst x. now rewrite Z.eqb_refl.
    + rewrite Z.eqb_sym, Ex. reflexivity.
  - intros H. rewrite (IH H). destruct (x =? h) eqn:Ex; cbn [orb]; [now rewrite orb_true_r|reflexivity].
Qed.
(* an update that keeps the flag *)
Lemma is_reg_upd_keep h f l x :
  (forall i, i_h (f i) = i_h i /\ i_reg (f i) = i_reg i) -> is_reg x (upd_inst h f l) = is_reg x l.
Proof.
  intros Hf. unfold is_reg. induction l as [|y t IH]; cbn [upd_inst existsb]; [reflexivity|].
  destruct (i_h y =? h); cbn [existsb]; [|now rewrite IH]. destruct (Hf y) as [-> ->]. reflexivity.
Qed.
Lemma is_reg_updreg_keep h f l x :
  (forall i, i_reg i = true -> i_h (f i) = i_h i /\ i_reg (f i) = true) -> is_reg x (upd_reg h f l) = is_reg x l.
Proof.
  intros Hf. unfold is_reg. induction l as [|y t IH]; cbn [upd_reg existsb]; [reflexivity|].
  destruct ((i_h y =? h) && i_reg y) eqn:E; cbn [existsb]; [|now rewrite IH].
  apply andb_true_iff in E. destruct E as [_ Er]. destruct (Hf y Er) as [-> ->]. now rewrite Er.
Qed.
(* unregister: the registered record of h loses the flag; handles are distinct *)
Lemma is_reg_updreg_clear h f l x :
  (forall i, i_h (f i) = i_h i /\ i_reg (f i) = false) -> hnodup l ->
  is_reg x (upd_reg h f l) = negb (x =? h) && is_reg x l.
Proof.
  intros Hf. unfold hnodup. induction l as [|y t IH]; cbn [upd_reg map]; intros N.
  - now rewrite andb_false_r.
  - inversion N as [|? ? Hy Nt]; subst.
    destruct ((i_h y =? h) && i_reg y) eqn:E.
    + apply andb_true_iff in E. destruct E as [Eh Er]. apply Z.eqb_eq in Eh.
      change (is_reg x (f y :: t)) with (((i_h (f y) =? x) && i_reg (f y)) || is_reg x t).
      change (is_reg x (y :: t)) with (((i_h y =? x) && i_reg y) || is_reg x t).
      destruct (Hf y) as [-> ->]. rewrite andb_false_r. cbn [orb].
      destruct (x =? h) eqn:Ex; cbn [negb andb].
      * apply Z.eqb_eq in Ex. subst x. apply is_reg_notin. now rewrite <- Eh.
      * rewrite Eh, Z.eqb_sym, Ex. reflexivity.
    + change (is_reg x (y :: upd_reg h f t)) with (((i_h y =? x) && i_reg y) || is_reg x (upd_reg h f t)).
      change (is_reg x (y :: t)) with (((i_h y =? x) && i_reg y) || is_reg x t).
      rewrite (IH Nt). destruct (x =? h) eqn:Ex; cbn [negb andb]; [|reflexivity].
      apply Z.eqb_eq in Ex. subst x. rewrite E. reflexivity.
Qed.

(* ------------------------------------------------------- the operations *)
Lemma record_sample_reg ts sn i : i_h (record_sample ts sn i) = i_h i /\ i_reg (record_sample ts sn i) = true.
Proof. split; reflexivity. Qed.

Lemma hnodup_for_write h l : hnodup l -> hnodup (inst_for_write h l).
Proof. unfold inst_for_write. destruct (has_inst h l) eqn:E; [auto|]. now apply hnodup_push. Qed.
Lemma is_reg_for_write h l x : is_reg x (inst_for_write h l) = is_reg x l.
Proof.
  unfold inst_for_write. destruct (has_inst h l); [reflexivity|].
  rewrite is_reg_app. cbn [i_reg]. now rewrite andb_false_r, orb_false_r.
Qed.

(* a successful write registers its instance and nothing else; a refused one changes nothing *)
Lemma ent_write_reg w h ts now slot w' c :
  ent_write w h ts now slot = (w', c) -> hnodup (w_insts w) ->
  hnodup (w_insts w') /\
  (c = 0 -> forall x, is_reg x (w_insts w') = (x =? h) || is_reg x (w_insts w)) /\
  (c <> 0 -> w' = w).
Proof.
  intros H N. destruct (Z.eq_dec c 0) as [->|Hc].
  2:{ destruct (ent_write_refused _ _ _ _ _ _ _ H Hc) as [-> _]. split; [exact N|]. split; [intros; contradiction|reflexivity]. }
  unfold ent_write in H.
  destruct (inst_refused _ _ _); [discriminate|]. destruct (mspi_hit _ _ _); [discriminate|].
  destruct (ms_hit _ _); [discriminate|].
  assert (A : hnodup (upd_inst h (record_sample ts (w_last_sn w + 1)) (inst_for_write h (w_insts w))) /\
              forall x, is_reg x (upd_inst h (record_sample ts (w_last_sn w + 1)) (inst_for_write h (w_insts w))) =
                        (x =? h) || is_reg x (w_insts w)).
  { split.
    - unfold hnodup. rewrite map_h_upd_inst by reflexivity. now apply hnodup_for_write.
    - intros x. rewrite is_reg_upd_set; [now rewrite is_reg_for_write|intros i; apply record_sample_reg|].
      exact (proj1 (inst_for_write_spec h (w_insts w))). }
  destruct A as [A1 A2].
  destruct (expired _ _ _); injection H as <-; wsimpl; (split; [exact A1|split; [intros _; exact A2|intros X; contradiction]]).
Qed.

Lemma pop_front_reg w h :
  map i_h (w_insts (pop_front w h)) = map i_h (w_insts w) /\
  forall x, is_reg x (w_insts (pop_front w h)) = is_reg x (w_insts w).
Proof.
  unfold pop_front. destruct (find_inst h (w_insts w)) as [s|]; [|auto].
  destruct (i_samples s); [auto|]. wsimpl. split.
  - now apply map_h_upd_inst.
  - intros x. apply is_reg_upd_keep. intros i. split; reflexivity.
Qed.

Definition same_regs (w w' : writer) : Prop := forall x, is_reg x (w_insts w') = is_reg x (w_insts w).
Definition regs_plus (h : Z) (w w' : writer) : Prop :=
  forall x, is_reg x (w_insts w') = (x =? h) || is_reg x (w_insts w).

Lemma go_reg w0 h ts now slot w' r :
  (let '(w'', c) := ent_write w0 h ts now slot in (w'', rsl_of_code c)) = (w', r) -> hnodup (w_insts w0) ->
  hnodup (w_insts w') /\ w_pending w' = w_pending w0 /\ r <> RBlocked /\
  (r = ROk -> regs_plus h w0 w') /\ (r <> ROk -> same_regs w0 w').
Proof.
  destruct (ent_write w0 h ts now slot) as [w'' c] eqn:E. intros [= <- <-] N.
  destruct (ent_write_reg _ _ _ _ _ _ _ E N) as (N' & A & B).
  destruct (ent_write_spec _ _ _ _ _ _ _ E) as (_ & P & _).
  refine (conj N' (conj P (conj _ (conj _ _)))).
  - unfold rsl_of_code. destruct (c =? 0); discriminate.
  - intros Hr. exact (A (rsl_of_code_ok _ Hr)).
  - intros Hr x. destruct (Z.eq_dec c 0) as [->|Hc]; [now contradiction Hr|]. now rewrite (B Hc).
Qed.

Lemma svc_write_reg now w slot k ts w' r :
  svc_write now w slot k ts = (w', r) -> hnodup (w_insts w) ->
  hnodup (w_insts w') /\
  (r = ROk -> regs_plus (hof w k) w w') /\ (r <> ROk -> same_regs w w') /\
  (r = RBlocked -> w_pending w = None /\ exists p, w_pending w' = Some p /\ pd_key p = k) /\
  (r <> RBlocked -> w_pending w' = w_pending w).
Proof.
  unfold svc_write. intros H N.
  assert (SAME : (w', r) = (w, r) -> r <> ROk -> r <> RBlocked ->
     hnodup (w_insts w') /\ (r = ROk -> regs_plus (hof w k) w w') /\ (r <> ROk -> same_regs w w') /\
     (r = RBlocked -> w_pending w = None /\ exists p, w_pending w' = Some p /\ pd_key p = k) /\
     (r <> RBlocked -> w_pending w' = w_pending w)).
  { intros [= ->] N1 N2. split; [exact N|]. split; [intros X; contradiction|]. split; [intros _ x; reflexivity|].
    split; [intros X; contradiction|reflexivity]. }
  destruct (w_enabled w); cbn [negb] in H; [|injection H as <- <-; apply SAME; auto; discriminate].
  assert (GO : forall w0, hnodup (w_insts w0) -> same_regs w w0 -> w_pending w0 = w_pending w ->
     (let '(w'', c) := ent_write w0 (hof w k) ts now slot in (w'', rsl_of_code c)) = (w', r) ->
     hnodup (w_insts w') /\ (r = ROk -> regs_plus (hof w k) w w') /\ (r <> ROk -> same_regs w w') /\
     (r = RBlocked -> w_pending w = None /\ exists p, w_pending w' = Some p /\ pd_key p = k) /\
     (r <> RBlocked -> w_pending w' = w_pending w)).
  { intros w0 N0 S0 P0 H0. destruct (go_reg _ _ _ _ _ _ _ H0 N0) as (N' & P & NB & A & B).
    refine (conj N' (conj _ (conj _ (conj _ _)))).
    - intros Hr x. rewrite (A Hr x). now rewrite S0.
    - intros Hr x. rewrite (B Hr x). apply S0.
    - intros Hr. contradiction.
    - intros _. congruence. }
  destruct (q_hist (w_qos w)) as [|d]; [apply (GO w); auto; intros x; reflexivity|].
  destruct (smallest_full d (hof w k) (w_insts w)) as [sn|]; [|apply (GO w); auto; intros x; reflexivity].
  destruct (q_reliable (w_qos w) && negb (acked w sn)).
  - destruct (w_pending w) as [p|] eqn:Ep.
    + injection H as <- <-. apply SAME; auto; discriminate.
    + injection H as <- <-. wsimpl. split; [exact N|]. split; [discriminate|]. split; [intros _ x; reflexivity|].
      split; [|intros X; now contradiction X].
      intros _. split; [reflexivity|]. eexists. split; reflexivity.
  - destruct (pop_front_reg w (hof w k)) as [Mh Sr]. destruct (pop_front_spec w (hof w k)) as (_ & Pp & _).
    apply (GO (pop_front w (hof w k))); auto. unfold hnodup. now rewrite Mh.
Qed.

Lemma check_timeout_reg now w w' d :
  check_timeout now w = (w', d) ->
  w_insts w' = w_insts w /\ w_enabled w' = w_enabled w /\ w_keyed w' = w_keyed w /\
  ((d = [] /\ w_pending w' = w_pending w) \/
   (exists p e, w_pending w = Some p /\ d = [(pd_slot p, E_TIMEOUT, e)] /\ w_pending w' = None)).
Proof.
  unfold check_timeout. destruct (w_pending w) as [p|] eqn:Ep; [|intros [= <- <-]; repeat split; auto].
  destruct (pd_exp p) as [e|]; [|intros [= <- <-]; repeat split; auto].
  destruct (e <=? now); intros [= <- <-]; wsimpl; repeat split; auto.
  right. exists p, e. auto.
Qed.

Lemma process_pending_reg now w w' d :
  process_pending now w = (w', d) -> hnodup (w_insts w) ->
  hnodup (w_insts w') /\
  ((d = [] /\ w_pending w' = w_pending w /\ same_regs w w') \/
   (exists p c, w_pending w = Some p /\ d = [(pd_slot p, c, now)] /\ w_pending w' = None /\
                forall x, is_reg x (w_insts w') =
                          ((c =? 0) && (x =? hof w (pd_key p))) || is_reg x (w_insts w))).
Proof.
  unfold process_pending. intros H N.
  assert (SAME : (w', d) = (w, []) ->
     hnodup (w_insts w') /\ ((d = [] /\ w_pending w' = w_pending w /\ same_regs w w') \/
       (exists p c, w_pending w = Some p /\ d = [(pd_slot p, c, now)] /\ w_pending w' = None /\
          forall x, is_reg x (w_insts w') = ((c =? 0) && (x =? hof w (pd_key p))) || is_reg x (w_insts w)))).
  { intros [= -> ->]. split; [exact N|left]. repeat split; auto. }
  destruct (w_pending w) as [p|] eqn:Ep; [|apply SAME; now symmetry].
  destruct (w_enabled w); cbn [negb] in H; [|apply SAME; now symmetry].
  match type of H with (if ?b then _ else _) = _ => destruct b end; [|apply SAME; now symmetry].
  match type of H with (let '(_, _) := ent_write ?x _ _ _ _ in _) = _ => set (w2 := x) in * end.
  assert (A2 : hnodup (w_insts w2) /\ same_regs w w2).
  { subst w2. destruct (q_hist (w_qos w)); [split; [exact N|intros x; reflexivity]|].
    destruct (find_inst _ _) as [s|]; [|split; [exact N|intros x; reflexivity]].
    destruct (_ =? _); [|split; [exact N|intros x; reflexivity]].
    destruct (pop_front_reg (set_pending w None) (hof w (pd_key p))) as [Mh Sr].
    split; [unfold hnodup; now rewrite Mh|exact Sr]. }
  destruct A2 as [N2 S2].
  destruct (ent_write w2 _ _ _ _) as [w3 c] eqn:E. injection H as <- <-.
  destruct (ent_write_reg _ _ _ _ _ _ _ E N2) as (N3 & A & B).
  destruct (ent_write_spec _ _ _ _ _ _ _ E) as (_ & P & _).
  split; [exact N3|right]. exists p, c. repeat split; auto.
  - rewrite P. subst w2. destruct (q_hist (w_qos w)); [reflexivity|].
    destruct (find_inst _ _) as [s|]; [|reflexivity]. destruct (_ =? _); [|reflexivity].
    destruct (pop_front_spec (set_pending w None) (hof w (pd_key p))) as (_ & Pp & _). now rewrite Pp.
  - intros x. destruct (Z.eq_dec c 0) as [->|Hc].
    + rewrite (A eq_refl x). cbn [Z.eqb andb]. now rewrite S2.
    + rewrite (B Hc). apply Z.eqb_neq in Hc. rewrite Hc. cbn [andb orb]. apply S2.
Qed.
