(* Structural facts about the writer model shared by the C27 and C28 proofs. *)
From DustDDS Require Import Base.Machine WriterHist.WriterModel.
Open Scope Z_scope.

Ltac wsimpl := cbn [w_enabled w_keyed w_qos w_last_sn w_insts w_changes w_proxies w_pending
  set_enabled set_last_sn set_insts set_changes set_proxies set_pending fst snd].
Tactic Notation "wsimpl" "in" hyp(H) := cbn [w_enabled w_keyed w_qos w_last_sn w_insts w_changes w_proxies w_pending
  set_enabled set_last_sn set_insts set_changes set_proxies set_pending fst snd] in H.

(* ---------------------------------------------------------------- has_inst *)
Lemma has_inst_app h l i : has_inst h (l ++ [i]) = has_inst h l || (i_h i =? h).
Proof. unfold has_inst. rewrite existsb_app. cbn [existsb]. now rewrite orb_false_r. Qed.

Lemma has_inst_upd h' h f l :
  (forall i, i_h (f i) = i_h i) -> has_inst h' (upd_inst h f l) = has_inst h' l.
Proof.
  intros Hf. induction l as [|i t IH]; cbn [upd_inst]; [reflexivity|].
  destruct (i_h i =? h); unfold has_inst in *; cbn [existsb]; [now rewrite Hf|now rewrite IH].
Qed.

Lemma has_inst_find h l : has_inst h l = true <-> exists s, find_inst h l = Some s.
Proof.
  unfold has_inst, find_inst. induction l as [|i t IH]; cbn [existsb find].
  - split; [discriminate|intros [s Hs]; discriminate].
  - destruct (i_h i =? h); cbn [orb]; [split; eauto|exact IH].
Qed.
Lemma find_inst_h h l s : find_inst h l = Some s -> i_h s = h.
Proof. unfold find_inst. intros H. apply find_some in H. destruct H as [_ H]. now apply Z.eqb_eq in H. Qed.
Lemma has_inst_false_find h l : has_inst h l = false -> find_inst h l = None.
Proof.
  intros H. destruct (find_inst h l) eqn:E; [|reflexivity].
  assert (has_inst h l = true) by (apply has_inst_find; eauto). congruence.
Qed.

(* -------------------------------------------------------------- ent_write *)
(* fields that ent_write never touches, and what it does to the instance handles *)
Record same_frame (w w' : writer) : Prop := mkFrame {
  fr_enabled : w_enabled w' = w_enabled w;
  fr_keyed : w_keyed w' = w_keyed w;
  fr_qos : w_qos w' = w_qos w
}.
Lemma same_frame_refl w : same_frame w w.
Proof. now constructor. Qed.
Lemma same_frame_trans a b c : same_frame a b -> same_frame b c -> same_frame a c.
Proof. intros [] []. constructor; congruence. Qed.

Lemma inst_for_write_spec h l :
  has_inst h (inst_for_write h l) = true /\
  (forall x, has_inst x l = true -> has_inst x (inst_for_write h l) = true) /\
  (forall x, has_inst x (inst_for_write h l) = true -> has_inst x l = true \/ x = h).
Proof.
  unfold inst_for_write. destruct (has_inst h l) eqn:Eh; [auto|].
  repeat split.
  - rewrite has_inst_app. cbn [i_h]. rewrite Z.eqb_refl. apply orb_true_r.
  - intros x Hx. rewrite has_inst_app, Hx. reflexivity.
  - intros x Hx. rewrite has_inst_app in Hx. cbn [i_h] in Hx.
    apply orb_true_iff in Hx. destruct Hx as [Hx|Hx]; [now left|right].
    apply Z.eqb_eq in Hx. congruence.
Qed.

Lemma record_sample_h ts sn i : i_h (record_sample ts sn i) = i_h i.
Proof. reflexivity. Qed.

(* a refused write changes nothing at all *)
Lemma ent_write_refused w h ts now slot w' c :
  ent_write w h ts now slot = (w', c) -> c <> 0 -> w' = w /\ c = E_OUT_OF_RESOURCES.
Proof.
  unfold ent_write. destruct (inst_refused _ _ _); [intros [= <- <-]; auto|].
  destruct (mspi_hit _ _ _); [intros [= <- <-]; auto|]. destruct (ms_hit _ _); [intros [= <- <-]; auto|].
  destruct (expired _ _ _); intros [= <- <-] H; contradiction.
Qed.

Lemma ent_write_spec w h ts now slot w' c :
  ent_write w h ts now slot = (w', c) ->
  same_frame w w' /\ w_pending w' = w_pending w /\
  (c = 0 \/ c = E_OUT_OF_RESOURCES) /\
  (forall x, has_inst x (w_insts w) = true -> has_inst x (w_insts w') = true) /\
  (forall x, has_inst x (w_insts w') = true -> has_inst x (w_insts w) = true \/ x = h) /\
  (c = 0 -> has_inst h (w_insts w') = true).
Proof.
  unfold ent_write. intros H.
  assert (R : forall P : Prop, (w', c) = (w, E_OUT_OF_RESOURCES) -> (
    same_frame w w' /\ w_pending w' = w_pending w /\ (c = 0 \/ c = E_OUT_OF_RESOURCES) /\
    (forall x, has_inst x (w_insts w) = true -> has_inst x (w_insts w') = true) /\
    (forall x, has_inst x (w_insts w') = true -> has_inst x (w_insts w) = true \/ x = h) /\
    (c = 0 -> has_inst h (w_insts w') = true))).
  { intros _ [= -> ->]. repeat split; auto. intros; discriminate. }
  destruct (inst_refused _ _ _); [apply (R True); now symmetry|].
  destruct (mspi_hit _ _ _); [apply (R True); now symmetry|].
  destruct (ms_hit _ _); [apply (R True); now symmetry|].
  destruct (inst_for_write_spec h (w_insts w)) as (C & A & B).
  destruct (expired (w_qos w) ts now); injection H as <- <-; wsimpl; (repeat split; auto);
    try (intros x; rewrite has_inst_upd by apply record_sample_h; auto);
    try (intros _; rewrite has_inst_upd by apply record_sample_h; auto).
Qed.

(* ---------------------------------------------------------------- pop_front *)
Lemma pop_front_spec w h :
  same_frame w (pop_front w h) /\ w_pending (pop_front w h) = w_pending w /\
  w_last_sn (pop_front w h) = w_last_sn w /\
  (forall x, has_inst x (w_insts (pop_front w h)) = has_inst x (w_insts w)).
Proof.
  unfold pop_front. destruct (find_inst h (w_insts w)) as [s|]; [|repeat split; auto].
  destruct (i_samples s); [repeat split; auto|].
  wsimpl. repeat split; auto. intros x. now rewrite has_inst_upd.
Qed.

(* ------------------------------------------------- handles of the instance records *)
Definition hmono (w w' : writer) : Prop :=
  forall x, has_inst x (w_insts w) = true -> has_inst x (w_insts w') = true.
Definition hsub (w w' : writer) (h : Z) : Prop :=
  forall x, has_inst x (w_insts w') = true -> has_inst x (w_insts w) = true \/ x = h.
Definition hsame (w w' : writer) : Prop :=
  forall x, has_inst x (w_insts w') = has_inst x (w_insts w).
(* the parked write concerns an existing instance *)
Definition pend_ok (w : writer) : Prop :=
  forall p, w_pending w = Some p -> has_inst (hof w (pd_key p)) (w_insts w) = true.

Lemma hsame_refl w : hsame w w. Proof. intros x; reflexivity. Qed.
Lemma hsame_mono w w' : hsame w w' -> hmono w w'.
Proof. intros H x Hx. now rewrite H. Qed.
Lemma hsame_sub w w' h : hsame w w' -> hsub w w' h.
Proof. intros H x Hx. left. now rewrite <- H. Qed.
Lemma hsame_trans a b c : hsame a b -> hsame b c -> hsame a c.
Proof. intros H1 H2 x. now rewrite H2, H1. Qed.

Lemma hof_frame w w' k : same_frame w w' -> hof w' k = hof w k.
Proof. intros [_ Hk _]. unfold hof. now rewrite Hk. Qed.

Lemma smallest_full_has d h l sn : smallest_full d h l = Some sn -> has_inst h l = true.
Proof.
  unfold smallest_full. destruct (find_inst h l) eqn:E; [|discriminate].
  intros _. apply has_inst_find. eauto.
Qed.

Definition write_reply (r : rsl) : Prop :=
  r = ROk \/ r = RErr E_OUT_OF_RESOURCES \/ r = RErr E_ERROR \/ r = RBlocked.

Lemma rsl_of_code_ok c : rsl_of_code c = ROk -> c = 0.
Proof. unfold rsl_of_code. destruct (c =? 0) eqn:E; [intros _; now apply Z.eqb_eq|discriminate]. Qed.

Lemma go_spec w0 h ts now slot w' r :
  (let '(w'', c) := ent_write w0 h ts now slot in (w'', rsl_of_code c)) = (w', r) ->
  same_frame w0 w' /\ w_pending w' = w_pending w0 /\ hmono w0 w' /\ hsub w0 w' h /\
  (r = ROk -> has_inst h (w_insts w') = true) /\
  (r = ROk \/ r = RErr E_OUT_OF_RESOURCES).
Proof.
  destruct (ent_write w0 h ts now slot) as [w'' c] eqn:E. intros [= <- <-].
  destruct (ent_write_spec _ _ _ _ _ _ _ E) as (F & P & Cc & A & B & C).
  refine (conj F (conj P (conj A (conj B (conj _ _))))).
  - intros Hr. apply C. now apply rsl_of_code_ok.
  - destruct Cc as [-> | ->]; [now left|now right].
Qed.

Lemma pend_ok_keep w w' :
  same_frame w w' -> hmono w w' -> w_pending w' = w_pending w -> pend_ok w -> pend_ok w'.
Proof.
  intros F M P H p Hp. rewrite (hof_frame _ _ _ F). apply M. apply H. congruence.
Qed.

Lemma svc_write_spec now w slot k ts w' r :
  svc_write now w slot k ts = (w', r) ->
  same_frame w w' /\ hmono w w' /\ hsub w w' (hof w k) /\
  (r = ROk -> has_inst (hof w k) (w_insts w') = true) /\
  (w_enabled w = false -> r = RErr E_NOT_ENABLED /\ w' = w) /\
  (w_enabled w = true -> write_reply r) /\
  (pend_ok w -> pend_ok w') /\
  (r <> ROk -> r <> RErr E_OUT_OF_RESOURCES -> w_insts w' = w_insts w).
Proof.
  unfold svc_write. destruct (w_enabled w) eqn:En; cbn [negb].
  2:{ intros [= <- <-]. repeat split; auto using same_frame_refl; try discriminate.
      - intros x; auto. - intros x; auto. }
  set (h := hof w k).
  assert (DIRECT : (let '(w'', c) := ent_write w h ts now slot in (w'', rsl_of_code c)) = (w', r) ->
     same_frame w w' /\ hmono w w' /\ hsub w w' h /\
     (r = ROk -> has_inst h (w_insts w') = true) /\
     (true = false -> r = RErr E_NOT_ENABLED /\ w' = w) /\ (true = true -> write_reply r) /\
     (pend_ok w -> pend_ok w') /\
     (r <> ROk -> r <> RErr E_OUT_OF_RESOURCES -> w_insts w' = w_insts w)).
  { intros H. destruct (go_spec _ _ _ _ _ _ _ H) as (F & P & M & S & C & R).
    repeat split; auto; try discriminate; try (destruct F; assumption).
    - intros _. unfold write_reply. destruct R as [-> | ->]; auto.
    - apply pend_ok_keep; auto.
    - intros N1 N2. destruct R; congruence. }
  destruct (q_hist (w_qos w)) as [|d]; [exact DIRECT|].
  destruct (smallest_full d h (w_insts w)) as [sn|] eqn:Es; [|exact DIRECT].
  destruct (q_reliable (w_qos w) && negb (acked w sn)).
  - destruct (w_pending w) as [p|] eqn:Ep.
    + intros [= <- <-]. repeat split; auto using same_frame_refl; try discriminate.
      * intros x; auto. * intros x; auto.
      * intros _. unfold write_reply. auto.
    + intros [= <- <-]. wsimpl. repeat split; auto; try discriminate.
      * intros x; auto. * intros x; auto.
      * intros _. unfold write_reply. auto.
      * intros _ p. wsimpl. intros [= <-]. cbn [pd_key]. unfold hof. wsimpl.
        fold (hof w k). fold h. eapply smallest_full_has; eauto.
  - intros H. destruct (pop_front_spec w h) as (F0 & P0 & _ & S0).
    destruct (go_spec _ _ _ _ _ _ _ H) as (F & P & M & S & C & R).
    assert (FF : same_frame w w') by (eapply same_frame_trans; eauto).
    assert (MM : hmono w w') by (intros x Hx; apply M; now rewrite S0).
    repeat split; auto; try discriminate; try (destruct FF; assumption).
    + intros x Hx. destruct (S x Hx) as [Hb| ->]; [left; now rewrite <- S0|now right].
    + intros _. unfold write_reply. destruct R as [-> | ->]; auto.
    + apply pend_ok_keep; auto. congruence.
    + intros N1 N2. destruct R; congruence.
Qed.

(* ------------------------------------------------------------ worker tail *)
Lemma remove_stale_spec now w :
  same_frame w (remove_stale now w) /\ hsame w (remove_stale now w) /\
  w_pending (remove_stale now w) = w_pending w /\ w_insts (remove_stale now w) = w_insts w /\
  w_last_sn (remove_stale now w) = w_last_sn w.
Proof.
  unfold remove_stale. destruct (q_lifespan (w_qos w)); wsimpl;
    repeat split; auto; intros x; reflexivity.
Qed.

Lemma check_timeout_spec now w w' d :
  check_timeout now w = (w', d) ->
  same_frame w w' /\ w_insts w' = w_insts w /\ w_changes w' = w_changes w /\
  w_last_sn w' = w_last_sn w /\
  (w_pending w' = w_pending w \/ w_pending w' = None).
Proof.
  unfold check_timeout. destruct (w_pending w) as [p|] eqn:Ep.
  - destruct (pd_exp p) as [e|].
    + destruct (e <=? now); intros [= <- <-]; wsimpl; repeat split; auto.
    + intros [= <- <-]. repeat split; auto.
  - intros [= <- <-]. repeat split; auto.
Qed.

Lemma process_pending_spec now w w' d :
  process_pending now w = (w', d) -> pend_ok w ->
  same_frame w w' /\ hsame w w' /\ (w_pending w' = w_pending w \/ w_pending w' = None).
Proof.
  unfold process_pending. intros H Hp.
  destruct (w_pending w) as [p|] eqn:Ep.
  2:{ injection H as <- <-. repeat split; auto using same_frame_refl, hsame_refl. }
  destruct (w_enabled w); cbn [negb] in H.
  2:{ injection H as <- <-. repeat split; auto using same_frame_refl, hsame_refl. }
  set (h := hof w (pd_key p)) in *.
  assert (Hh : has_inst h (w_insts w) = true) by (apply Hp; exact Ep).
  match type of H with (if ?b then _ else _) = _ => destruct b end.
  2:{ injection H as <- <-. repeat split; auto using same_frame_refl, hsame_refl. }
  set (w1 := set_pending w None) in *.
  match type of H with (let '(_, _) := ent_write ?x _ _ _ _ in _) = _ => set (w2 := x) in * end.
  assert (F2 : same_frame w w2 /\ hsame w w2 /\ w_pending w2 = None).
  { subst w2. destruct (q_hist (w_qos w)) as [|dd].
    - subst w1. wsimpl. repeat split; auto; try (intros x; reflexivity).
    - destruct (find_inst h (w_insts w1)) as [s|].
      + destruct (zlen (i_samples s) =? dd).
        * destruct (pop_front_spec w1 h) as (F0 & P0 & _ & S0). subst w1.
          refine (conj _ (conj _ _)); [destruct F0; constructor; assumption|intros x; now rewrite S0|now rewrite P0].
        * subst w1. wsimpl. repeat split; auto; try (intros x; reflexivity).
      + subst w1. wsimpl. repeat split; auto; try (intros x; reflexivity). }
  destruct F2 as (F2 & S2 & P2).
  destruct (ent_write w2 h (pd_ts p) now (pd_slot p)) as [w3 c] eqn:E.
  injection H as <- <-.
  destruct (ent_write_spec _ _ _ _ _ _ _ E) as (F & P & Cc & A & B & C).
  repeat split; try (destruct F2, F; congruence).
  - intros x. destruct (has_inst x (w_insts w3)) eqn:E3.
    + destruct (B x E3) as [Hb| ->]; [now rewrite <- S2|now symmetry].
    + destruct (has_inst x (w_insts w)) eqn:E0; [|reflexivity].
      rewrite <- S2 in E0. apply A in E0. congruence.
  - right. congruence.
Qed.

Lemma tail_spec now w w' d :
  tail now w = (w', d) -> pend_ok w ->
  same_frame w w' /\ hsame w w' /\ pend_ok w'.
Proof.
  unfold tail. intros H Hp.
  destruct (remove_stale_spec now w) as (F1 & S1 & P1 & I1 & _).
  destruct (check_timeout now (remove_stale now w)) as [w2 d1] eqn:E2.
  destruct (process_pending now w2) as [w3 d2] eqn:E3. injection H as <- <-.
  destruct (check_timeout_spec _ _ _ _ E2) as (F2 & I2 & _ & _ & P2).
  assert (Hp2 : pend_ok w2).
  { intros p Hq. destruct P2 as [P2|P2]; [|congruence].
    rewrite I2, I1. rewrite (hof_frame _ _ _ F2), (hof_frame _ _ _ F1). apply Hp. congruence. }
  destruct (process_pending_spec _ _ _ _ E3 Hp2) as (F3 & S3 & P3).
  assert (S02 : hsame w w2) by (intros x; now rewrite I2, I1).
  repeat split.
  - destruct F1, F2, F3; congruence. - destruct F1, F2, F3; congruence.
  - destruct F1, F2, F3; congruence.
  - eapply hsame_trans; eauto.
  - intros p Hq. destruct P3 as [P3|P3]; [|congruence].
    rewrite (hof_frame _ _ _ F3). rewrite S3. apply Hp2. congruence.
Qed.

Lemma catch_up_spec now w w' d :
  catch_up now w = (w', d) -> pend_ok w ->
  same_frame w w' /\ hsame w w' /\ pend_ok w'.
Proof.
  unfold catch_up. intros H Hp.
  destruct (check_timeout_spec _ _ _ _ H) as (F & I & _ & _ & P).
  repeat split; try (destruct F; assumption).
  - intros x. now rewrite I.
  - intros p Hq. destruct P as [P|P]; [|congruence].
    rewrite I, (hof_frame _ _ _ F). apply Hp. congruence.
Qed.
