(* Model of the DCPS data writer (C27, C28, writer half of C19).  Definitions only.

   Sources (transcribed branch by branch):
     dds/src/dcps/dcps_domain_participant/data_writer_entity.rs   DataWriterEntity
         write_w_timestamp / dispose_w_timestamp / register_w_timestamp / unregister_w_timestamp
     dds/src/dcps/dcps_domain_participant/writer_methods.rs
         register_instance / unregister_instance / lookup_instance / write_w_timestamp /
         dispose_w_timestamp / enable_data_writer / process_pending_write_samples /
         check_pending_writer_sample_timeout
     dds/src/dcps/dcps_domain_participant/discovery_methods.rs    remove_stale_writer_samples
     dds/src/rtps/stateful_writer.rs   add_change / remove_change / is_change_acknowledged /
         add_matched_reader / delete_matched_reader / on_acknack_submessage_received (ack state only)
     dds/src/rtps/reader_proxy.rs      acked_changes_set / unacked_changes
     dds/src/dds_async/domain_participant_factory.rs   the worker loop: one mail (or one timer
         wake-up), then remove_stale_writer_samples; check_pending_writer_sample_timeout;
         process_pending_write_samples

   Conventions: times are Z nanoseconds (the saturating (sec,nanosec) arithmetic is C14's
   subject); an instance handle is the Z whose little-endian 16 bytes are the handle (for the
   one-byte key of the harness type the handle IS the key value; a keyless type has the single
   handle 0); sequence numbers are i64 without overflow (2^63 writes are out of reach). *)
From DustDDS Require Import Base.Machine.
Open Scope Z_scope.

(* DdsError codes as printed by the harness (err_code) *)
Definition E_ERROR : Z := 1.
Definition E_BAD_PARAMETER : Z := 3.
Definition E_OUT_OF_RESOURCES : Z := 5.
Definition E_NOT_ENABLED : Z := 6.
Definition E_TIMEOUT : Z := 10.
Definition E_ILLEGAL_OPERATION : Z := 12.

(* ------------------------------------------------------------------ QoS *)
Inductive hist : Type := KeepAll | KeepLast (depth : Z).   (* depth : u32 *)

(* Length: None = Unlimited, Some v = Limited(v : i32) *)
Record qos : Type := mkQos {
  q_hist : hist;
  q_reliable : bool;
  q_max_samples : option Z;
  q_max_instances : option Z;
  q_mspi : option Z;              (* max_samples_per_instance *)
  q_lifespan : option Z;          (* None = Infinite *)
  q_mbt : option Z;               (* reliability.max_blocking_time, None = Infinite *)
  q_autodispose : bool            (* writer_data_lifecycle.autodispose_unregistered_instances *)
}.

(* `v as usize` for v : i32 *)
Definition usize_of_i32 (v : Z) : Z := if v <? 0 then v + two64 else v.
(* `len < Length` (impl PartialOrd<Length> for usize) *)
Definition len_lt (n : Z) (l : option Z) : bool :=
  match l with None => true | Some v => n <? usize_of_i32 v end.

(* DataWriterQos::is_consistent (the part that concerns history and resource limits) *)
Definition length_lt (a b : option Z) : bool :=     (* impl PartialOrd for Length: a < b *)
  match a, b with
  | None, _ => false
  | Some _, None => true
  | Some x, Some y => x <? y
  end.
Definition qos_consistent (q : qos) : bool :=
  negb (length_lt (q_max_samples q) (q_mspi q)) &&
  match q_hist q with
  | KeepLast d => negb (d =? 0) &&
                  match q_mspi q with None => true | Some m => negb (usize_of_i32 m <? d) end
  | KeepAll => true
  end.

(* ---------------------------------------------------------------- state *)
(* RegisteredInstanceInfo; i_reg = `registered`: false once unregister_instance was called and
   for the record a first write pushes before it succeeds (the record itself is kept because its
   samples count against the resource limits) *)
Record inst : Type := mkInst { i_h : Z; i_lwt : option Z; i_samples : list Z; i_reg : bool }.

(* CacheChange of the RTPS history; c_slot is ghost: the number of the write call that produced
   an ALIVE change (its payload in the harness), -1 for dispose/unregister changes *)
Definition K_ALIVE : Z := 0.
Definition K_DISPOSED : Z := 1.
Definition K_UNREGISTERED : Z := 2.
Definition K_DISPOSED_UNREGISTERED : Z := 3.
Record change : Type := mkCh { c_sn : Z; c_kind : Z; c_h : Z; c_ts : Z; c_slot : Z }.

(* RtpsReaderProxy: only what the writer-side KEEP_LAST logic reads *)
Record proxy : Type := mkPx { p_id : Z; p_rel : bool; p_acked : Z; p_count : Z }.

(* PendingWriteSample (the reply sender is the slot number) *)
Record pend : Type := mkPend { pd_slot : Z; pd_key : Z; pd_ts : Z; pd_exp : option Z }.

Record writer : Type := mkW {
  w_enabled : bool;
  w_keyed : bool;                 (* TopicKind::WithKey *)
  w_qos : qos;
  w_last_sn : Z;
  w_insts : list inst;            (* registered_instance_info, storage order *)
  w_changes : list change;        (* transport_writer.changes, storage order *)
  w_proxies : list proxy;         (* transport_writer.matched_readers *)
  w_pending : option pend
}.

Definition init (keyed enabled : bool) (q : qos) : writer :=
  mkW enabled keyed q 0 [] [] [] None.

Definition set_enabled (w : writer) (b : bool) : writer :=
  mkW b (w_keyed w) (w_qos w) (w_last_sn w) (w_insts w) (w_changes w) (w_proxies w) (w_pending w).
Definition set_last_sn (w : writer) (x : Z) : writer :=
  mkW (w_enabled w) (w_keyed w) (w_qos w) x (w_insts w) (w_changes w) (w_proxies w) (w_pending w).
Definition set_insts (w : writer) (x : list inst) : writer :=
  mkW (w_enabled w) (w_keyed w) (w_qos w) (w_last_sn w) x (w_changes w) (w_proxies w) (w_pending w).
Definition set_changes (w : writer) (x : list change) : writer :=
  mkW (w_enabled w) (w_keyed w) (w_qos w) (w_last_sn w) (w_insts w) x (w_proxies w) (w_pending w).
Definition set_proxies (w : writer) (x : list proxy) : writer :=
  mkW (w_enabled w) (w_keyed w) (w_qos w) (w_last_sn w) (w_insts w) (w_changes w) x (w_pending w).
Definition set_pending (w : writer) (x : option pend) : writer :=
  mkW (w_enabled w) (w_keyed w) (w_qos w) (w_last_sn w) (w_insts w) (w_changes w) (w_proxies w) x.

(* get_instance_handle_from_key_holder_data: the key holder of a keyless type is empty *)
Definition hof (w : writer) (k : Z) : Z := if w_keyed w then k else 0.

Definition has_inst (h : Z) (l : list inst) : bool := existsb (fun i => i_h i =? h) l.
Definition find_inst (h : Z) (l : list inst) : option inst := find (fun i => i_h i =? h) l.
(* iter_mut().find(..) followed by an update of that element *)
Fixpoint upd_inst (h : Z) (f : inst -> inst) (l : list inst) : list inst :=
  match l with
  | [] => []
  | i :: t => if i_h i =? h then f i :: t else i :: upd_inst h f t
  end.
(* iter_mut().find(|x| x.instance_handle == h && x.registered) followed by an update *)
Fixpoint upd_reg (h : Z) (f : inst -> inst) (l : list inst) : list inst :=
  match l with
  | [] => []
  | i :: t => if (i_h i =? h) && i_reg i then f i :: t else i :: upd_reg h f t
  end.
(* .any(|x| x.instance_handle == h && x.registered) *)
Definition is_reg (h : Z) (l : list inst) : bool := existsb (fun i => (i_h i =? h) && i_reg i) l.
Definition zlen {A} (l : list A) : Z := Z.of_nat (length l).
Definition total_samples (l : list inst) : Z := fold_left (fun acc i => acc + zlen (i_samples i)) l 0.

(* RtpsStatefulWriter::is_change_acknowledged *)
Definition acked (w : writer) (sn : Z) : bool :=
  negb (existsb (fun p => p_rel p && (p_acked p <? sn)) (w_proxies w)).
(* RtpsStatefulWriter::remove_change *)
Definition remove_change (sn : Z) (l : list change) : list change :=
  filter (fun c => negb (c_sn c =? sn)) l.

(* ------------------------------------------- DataWriterEntity::write_w_timestamp *)
(* the samples recorded for an instance (none if there is no record):
   .find(..).map(|s| s.samples.len()).unwrap_or(0) *)
Definition samples_of (h : Z) (l : list inst) : list Z :=
  match find_inst h l with Some s => i_samples s | None => [] end.

(* All resource limits are tested before anything is stored. *)
(* is_new_instance && !(len < max_instances) *)
Definition inst_refused (q : qos) (h : Z) (l : list inst) : bool :=
  negb (has_inst h l) && negb (len_lt (zlen l) (q_max_instances q)).
(* the max_samples_per_instance test; skipped when KEEP_LAST(depth) already guarantees it *)
Definition mspi_hit (q : qos) (h : Z) (l : list inst) : bool :=
  match q_mspi q with
  | Some m =>
    match q_hist q with
    | KeepLast d => if wrap_i32 d <=? m then false else usize_of_i32 m <=? zlen (samples_of h l)
    | KeepAll => usize_of_i32 m <=? zlen (samples_of h l)
    end
  | None => false
  end.
(* the max_samples test *)
Definition ms_hit (q : qos) (l : list inst) : bool :=
  match q_max_samples q with
  | Some ms => usize_of_i32 ms <=? total_samples l
  | None => false
  end.
(* the resource-limit rule of write_w_timestamp: a new instance when max_instances records exist,
   or max_samples_per_instance samples of the instance, or max_samples samples in total *)
Definition would_exceed (q : qos) (h : Z) (l : list inst) : bool :=
  inst_refused q h l || mspi_hit q h l || ms_hit q l.

(* the record of a new instance is pushed only now, not yet registered *)
Definition inst_for_write (h : Z) (l : list inst) : list inst :=
  if has_inst h l then l else l ++ [mkInst h None [] false].
(* last_write_time update, samples.push_back(sn), registered = true *)
Definition record_sample (ts sn : Z) (i : inst) : inst :=
  mkInst (i_h i)
         (match i_lwt i with
          | Some l => if l <? ts then Some ts else Some l
          | None => Some ts end)
         (i_samples i ++ [sn])
         true.
(* lifespan early return: sample_timestamp - now + lifespan <= 0 *)
Definition expired (q : qos) (ts now : Z) : bool :=
  match q_lifespan q with
  | Some ls => ts - now + ls <=? 0
  | None => false
  end.

(* returns the new state and 0 (Ok) or the error code *)
Definition ent_write (w : writer) (h ts now slot : Z) : writer * Z :=
  let q := w_qos w in
  if inst_refused q h (w_insts w) then (w, E_OUT_OF_RESOURCES) else
  if mspi_hit q h (w_insts w) then (w, E_OUT_OF_RESOURCES) else
  if ms_hit q (w_insts w) then (w, E_OUT_OF_RESOURCES) else
  let insts1 := inst_for_write h (w_insts w) in
  let sn := w_last_sn w + 1 in
  let w2 := set_insts (set_last_sn w sn) (upd_inst h (record_sample ts sn) insts1) in
  (* the sequence number is already recorded in the instance when the lifespan test returns *)
  if expired q ts now then (w2, 0)
  else (set_changes w2 (w_changes w ++ [mkCh sn K_ALIVE h ts slot]), 0).

(* ------------------------------ the KEEP_LAST front of writer_methods::write_w_timestamp *)
(* Some(front) iff the instance exists and holds exactly `depth` samples *)
Definition smallest_full (d : Z) (h : Z) (l : list inst) : option Z :=
  match find_inst h l with
  | Some s => if zlen (i_samples s) =? d then hd_error (i_samples s) else None
  | None => None
  end.
(* s.samples.pop_front() and transport_writer.remove_change(front) *)
Definition pop_front (w : writer) (h : Z) : writer :=
  match find_inst h (w_insts w) with
  | Some s =>
    match i_samples s with
    | sn :: rest =>
      set_changes (set_insts w (upd_inst h (fun i => mkInst (i_h i) (i_lwt i) (tl (i_samples i)) (i_reg i)) (w_insts w)))
                  (remove_change sn (w_changes w))
    | [] => w
    end
  | None => w
  end.

(* result of one API call *)
Inductive rsl : Type :=
| ROk
| RErr (c : Z)
| RHandle (h : option Z)      (* register_instance / lookup_instance: Ok(Some h) / Ok(None) *)
| RBlocked.                   (* write: no reply yet (the sample is parked in pending_write_sample) *)

Definition rsl_of_code (c : Z) : rsl := if c =? 0 then ROk else RErr c.

(* DcpsDomainParticipant::write_w_timestamp *)
Definition svc_write (now : Z) (w : writer) (slot k ts : Z) : writer * rsl :=
  if negb (w_enabled w) then (w, RErr E_NOT_ENABLED) else
  let h := hof w k in
  let go (w' : writer) := let '(w'', c) := ent_write w' h ts now slot in (w'', rsl_of_code c) in
  match q_hist (w_qos w) with
  | KeepLast d =>
    match smallest_full d h (w_insts w) with
    | Some sn =>
      if q_reliable (w_qos w) && negb (acked w sn) then
        match w_pending w with
        | Some _ => (w, RErr E_ERROR)
        | None =>
          (set_pending w (Some (mkPend slot k ts
                                 (match q_mbt (w_qos w) with Some t => Some (now + t) | None => None end))),
           RBlocked)
        end
      else go (pop_front w h)
    | None => go w
    end
  | KeepAll => go w
  end.

(* DataWriterEntity::register_w_timestamp *)
Definition svc_register (w : writer) (k ts : Z) : writer * rsl :=
  if negb (w_enabled w) then (w, RErr E_NOT_ENABLED) else
  if negb (w_keyed w) then (w, RErr E_ILLEGAL_OPERATION) else
  let h := hof w k in
  if has_inst h (w_insts w) then
    (set_insts w (upd_inst h (fun i => mkInst (i_h i) (Some ts) (i_samples i) true) (w_insts w)), RHandle (Some h))
  else if len_lt (zlen (w_insts w)) (q_max_instances (w_qos w)) then
    (set_insts w (w_insts w ++ [mkInst h (Some ts) [] true]), RHandle (Some h))
  else (w, RErr E_OUT_OF_RESOURCES).

(* DataWriterEntity::unregister_w_timestamp / dispose_w_timestamp: the instance must have a
   record that is registered; unregister clears `registered` *)
Definition svc_unreg_or_dispose (kind : Z) (keep_reg : bool) (w : writer) (k ts : Z) : writer * rsl :=
  if negb (w_enabled w) then (w, RErr E_NOT_ENABLED) else
  if negb (w_keyed w) then (w, RErr E_ILLEGAL_OPERATION) else
  let h := hof w k in
  if is_reg h (w_insts w) then
    let insts' := upd_reg h (fun i => mkInst (i_h i) None (i_samples i) (keep_reg && i_reg i)) (w_insts w) in
    let sn := w_last_sn w + 1 in
    (set_changes (set_insts (set_last_sn w sn) insts') (w_changes w ++ [mkCh sn kind h ts (-1)]), ROk)
  else (w, RErr E_BAD_PARAMETER).
Definition svc_unregister (w : writer) (k ts : Z) : writer * rsl :=
  svc_unreg_or_dispose (if q_autodispose (w_qos w) then K_DISPOSED_UNREGISTERED else K_UNREGISTERED) false w k ts.
Definition svc_dispose (w : writer) (k ts : Z) : writer * rsl :=
  svc_unreg_or_dispose K_DISPOSED true w k ts.

(* DcpsDomainParticipant::lookup_instance (no topic-kind test in the code) *)
Definition svc_lookup (w : writer) (k : Z) : rsl :=
  if negb (w_enabled w) then RErr E_NOT_ENABLED else
  let h := hof w k in
  RHandle (if is_reg h (w_insts w) then Some h else None).

(* ------------------------------------------------------- worker-loop tail *)
(* a completed parked write: (slot, 0 | error code, completion time) *)
Definition done : Type := (Z * Z * Z)%type.

(* remove_stale_writer_samples *)
Definition remove_stale (now : Z) (w : writer) : writer :=
  match q_lifespan (w_qos w) with
  | Some ls => set_changes w (filter (fun c => now <? c_ts c + ls) (w_changes w))
  | None => w
  end.

(* check_pending_writer_sample_timeout *)
Definition check_timeout (now : Z) (w : writer) : writer * list done :=
  match w_pending w with
  | Some p =>
    match pd_exp p with
    | Some e => if e <=? now then (set_pending w None, [(pd_slot p, E_TIMEOUT, e)]) else (w, [])
    | None => (w, [])
    end
  | None => (w, [])
  end.

(* process_pending_write_samples *)
Definition process_pending (now : Z) (w : writer) : writer * list done :=
  match w_pending w with
  | Some p =>
    if negb (w_enabled w) then (w, []) else
    let h := hof w (pd_key p) in
    let can_write :=
      match q_hist (w_qos w) with
      | KeepLast d =>
        match smallest_full d h (w_insts w) with
        | Some sn => negb (q_reliable (w_qos w)) || acked w sn
        | None => true
        end
      | KeepAll => true
      end in
    if can_write then
      let w1 := set_pending w None in
      let w2 :=
        match q_hist (w_qos w) with
        | KeepLast d =>
          match find_inst h (w_insts w1) with
          | Some s => if zlen (i_samples s) =? d then pop_front w1 h else w1
          | None => w1
          end
        | KeepAll => w1
        end in
      let '(w3, c) := ent_write w2 h (pd_ts p) now (pd_slot p) in
      (w3, [(pd_slot p, c, now)])
    else (w, [])
  | None => (w, [])
  end.

Definition tail (now : Z) (w : writer) : writer * list done :=
  let w1 := remove_stale now w in
  let '(w2, d1) := check_timeout now w1 in
  let '(w3, d2) := process_pending now w2 in
  (w3, d1 ++ d2).

(* ------------------------------------------------------------ RTPS events *)
(* add_matched_reader: a new proxy has acknowledged nothing; an existing one is replaced *)
Fixpoint put_proxy (p : proxy) (l : list proxy) : list proxy :=
  match l with
  | [] => [p]
  | x :: t => if p_id x =? p_id p then p :: t else x :: put_proxy p t
  end.
(* on_acknack_submessage_received: only a reliable proxy and a fresh count are accepted;
   acked_changes_set(base - 1) never lowers the acknowledged number *)
Definition on_acknack (r base count : Z) (l : list proxy) : list proxy :=
  map (fun p =>
    if (p_id p =? r) && p_rel p && (p_count p <? count)
    then mkPx (p_id p) (p_rel p) (Z.max (p_acked p) (base - 1)) count
    else p) l.

(* --------------------------------------------------------------- events *)
Inductive op : Type :=
| OEnable
| ORegister (k ts : Z)
| OUnregister (k ts : Z)
| ODispose (k ts : Z)
| OLookup (k : Z)
| OWrite (slot k ts : Z)
| OAck (r base count : Z)           (* ACKNACK of reader r handed to the writer *)
| OMatch (r : Z) (reliable : bool)  (* add_matched_reader *)
| OUnmatch (r : Z)                  (* delete_matched_reader *)
| OTick.                            (* timer wake-up of the worker, no mail *)

Record ev : Type := mkEv { e_now : Z; e_op : op }.

(* immediate reply of the API call (None for RTPS events and ticks) and the parked writes that
   completed while this event was processed *)
Record out : Type := mkOut { o_imm : option rsl; o_done : list done }.

(* the mail itself *)
Definition apply_op (now : Z) (w : writer) (o : op) : writer * option rsl * list done :=
  match o with
  | OEnable => (set_enabled w true, Some ROk, [])
  | ORegister k ts => let '(w', r) := svc_register w k ts in (w', Some r, [])
  | OUnregister k ts => let '(w', r) := svc_unregister w k ts in (w', Some r, [])
  | ODispose k ts => let '(w', r) := svc_dispose w k ts in (w', Some r, [])
  | OLookup k => (w, Some (svc_lookup w k), [])
  | OWrite slot k ts => let '(w', r) := svc_write now w slot k ts in (w', Some r, [])
  | OAck r base count =>
    (* the ACKNACK handler ends with process_pending_write_samples *)
    let '(w', d) := process_pending now (set_proxies w (on_acknack r base count (w_proxies w))) in
    (w', None, d)
  | OMatch r rel => (set_proxies w (put_proxy (mkPx r rel 0 0) (w_proxies w)), None, [])
  | OUnmatch r => (set_proxies w (filter (fun p => negb (p_id p =? r)) (w_proxies w)), None, [])
  | OTick => (w, None, [])
  end.

(* The worker sleeps at most until the expiration of the parked write, so if the expiration
   lies before `now` it has already woken up at that instant (no mail can have arrived in
   between: mail is an event) and answered Timeout. *)
Definition catch_up (now : Z) (w : writer) : writer * list done := check_timeout now w.

Definition step (w : writer) (e : ev) : writer * out :=
  let now := e_now e in
  let '(w0, d0) := catch_up now w in
  let '(w1, imm, d1) := apply_op now w0 (e_op e) in
  let '(w2, d2) := tail now w1 in
  (w2, mkOut imm (d0 ++ d1 ++ d2)).

Fixpoint run (w : writer) (l : list ev) : writer * list out :=
  match l with
  | [] => (w, [])
  | e :: t => let '(w1, o) := step w e in let '(w2, os) := run w1 t in (w2, o :: os)
  end.
Definition run_state (w : writer) (l : list ev) : writer := fold_left (fun s e => fst (step s e)) l w.

(* slots of the ALIVE changes of the RTPS history (what a late-joining TRANSIENT_LOCAL reader is sent) *)
Definition alive_slots (w : writer) : list Z :=
  map c_slot (filter (fun c => c_kind c =? K_ALIVE) (w_changes w)).
