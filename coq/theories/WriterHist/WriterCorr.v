(* Correspondence vocabulary shared by C27 and C28: one case = one scenario of the simulator
   (writer configuration, the events the writer saw with the implementation's observed replies,
   and optionally what a late-joining TRANSIENT_LOCAL reader received).  The model and the
   oracles are evaluated inside Coq. *)
From DustDDS Require Export Base.Machine WriterHist.WriterModel.
Open Scope Z_scope.

Record W_case : Type := mkWC {
  wc_created : bool;                  (* create_datawriter succeeded (false: InconsistentPolicy, no events) *)
  wc_keyed : bool;
  wc_enabled0 : bool;                 (* enabled at creation (autoenable_created_entities) *)
  wc_qos : qos;
  wc_evs : list (ev * out);           (* events + the implementation's replies *)
  wc_hist : option (list Z);          (* sequence numbers sent to a late-joining TRANSIENT_LOCAL reader, sorted *)
  wc_recv : option (list Z)           (* slots received by the matched KEEP_ALL reliable reader at the end, sorted *)
}.

(* ------------------------------------------------------------ equalities *)
Definition optZ_eqb (a b : option Z) : bool :=
  match a, b with Some x, Some y => x =? y | None, None => true | _, _ => false end.
Definition rsl_eqb (a b : rsl) : bool :=
  match a, b with
  | ROk, ROk => true
  | RErr x, RErr y => x =? y
  | RHandle x, RHandle y => optZ_eqb x y
  | RBlocked, RBlocked => true
  | _, _ => false
  end.
Definition orsl_eqb (a b : option rsl) : bool :=
  match a, b with Some x, Some y => rsl_eqb x y | None, None => true | _, _ => false end.
Definition done_eqb (a b : done) : bool :=
  let '(s1, c1, t1) := a in let '(s2, c2, t2) := b in (s1 =? s2) && (c1 =? c2) && (t1 =? t2).
Fixpoint list_eqb {A} (eqb : A -> A -> bool) (x y : list A) : bool :=
  match x, y with
  | [], [] => true
  | a :: x', b :: y' => eqb a b && list_eqb eqb x' y'
  | _, _ => false
  end.
Definition out_eqb (a b : out) : bool :=
  orsl_eqb (o_imm a) (o_imm b) && list_eqb done_eqb (o_done a) (o_done b).

Fixpoint insert_sorted (x : Z) (l : list Z) : list Z :=
  match l with
  | [] => [x]
  | y :: t => if x <=? y then x :: l else y :: insert_sorted x t
  end.
Definition sortZ (l : list Z) : list Z := fold_right insert_sorted [] l.

(* ---------------------------------------------------------- model vs. code *)
Definition case_init (c : W_case) : writer := init (wc_keyed c) (wc_enabled0 c) (wc_qos c).

Definition W_model_ok (c : W_case) : bool :=
  Bool.eqb (qos_consistent (wc_qos c)) (wc_created c) &&
  let '(w, outs) := run (case_init c) (map fst (wc_evs c)) in
  list_eqb out_eqb outs (map snd (wc_evs c)) &&
  match wc_hist c with
  | Some l => list_eqb Z.eqb (sortZ (map c_sn (w_changes w))) l
  | None => true
  end.

(* ------------------------------------------------- C28: the documented contract *)
Definition mem (h : Z) (l : list Z) : bool := existsb (Z.eqb h) l.
Definition rem (h : Z) (l : list Z) : list Z := filter (fun x => negb (x =? h)) l.
Definition add (h : Z) (l : list Z) : list Z := if mem h l then l else h :: l.

(* Specification-level state, computed from the replies only:
   g_reg   instances registered by a successful register_instance or write and not unregistered since;
   g_park  the instance of the write that is parked at the moment (it registers its instance
           when it is finally answered Ok). *)
Record ghost : Type := mkG { g_en : bool; g_reg : list Z; g_park : option Z }.

Definition khandle (keyed : bool) (k : Z) : Z := if keyed then k else 0.

Definition is_write_reply (r : rsl) : bool :=
  match r with
  | ROk | RBlocked => true
  | RErr c => (c =? E_OUT_OF_RESOURCES) || (c =? E_ERROR) || (c =? E_TIMEOUT)
  | RHandle _ => false
  end.

(* does the reply of this call honour the contract? *)
Definition c28_check (keyed : bool) (g : ghost) (o : op) (r : option rsl) : bool :=
  match o, r with
  | OEnable, Some x => rsl_eqb x ROk
  | ORegister k _, Some x =>
    if negb (g_en g) then rsl_eqb x (RErr E_NOT_ENABLED)
    else if negb keyed then rsl_eqb x (RErr E_ILLEGAL_OPERATION)
    else rsl_eqb x (RHandle (Some k)) ||
         (negb (mem k (g_reg g)) && rsl_eqb x (RErr E_OUT_OF_RESOURCES))
  | OLookup k, Some x =>
    if negb (g_en g) then rsl_eqb x (RErr E_NOT_ENABLED)
    else let h := khandle keyed k in
         rsl_eqb x (RHandle (if mem h (g_reg g) then Some h else None))
  | OUnregister k _, Some x | ODispose k _, Some x =>
    if negb (g_en g) then rsl_eqb x (RErr E_NOT_ENABLED)
    else if negb keyed then rsl_eqb x (RErr E_ILLEGAL_OPERATION)
    else if mem k (g_reg g)
         then rsl_eqb x ROk || rsl_eqb x (RErr E_TIMEOUT) || rsl_eqb x (RErr E_OUT_OF_RESOURCES)
         else rsl_eqb x (RErr E_BAD_PARAMETER)
  | OWrite _ _ _, Some x =>
    if negb (g_en g) then rsl_eqb x (RErr E_NOT_ENABLED) else is_write_reply x
  | OAck _ _ _, None | OMatch _ _, None | OUnmatch _, None | OTick, None => true
  | _, _ => false
  end.

(* a completion answers the parked write: Ok registers its instance *)
Definition g_complete (g : ghost) (d : done) : ghost :=
  let '(_, c, _) := d in
  match g_park g with
  | Some h => mkG (g_en g) (if c =? 0 then add h (g_reg g) else g_reg g) None
  | None => g
  end.
(* the call itself *)
Definition g_call (keyed : bool) (g : ghost) (o : op) (r : option rsl) : ghost :=
  match o, r with
  | OEnable, Some ROk => mkG true (g_reg g) (g_park g)
  | ORegister k _, Some (RHandle (Some _)) => mkG (g_en g) (add (khandle keyed k) (g_reg g)) (g_park g)
  | OWrite _ k _, Some ROk => mkG (g_en g) (add (khandle keyed k) (g_reg g)) (g_park g)
  | OWrite _ k _, Some RBlocked => mkG (g_en g) (g_reg g) (Some (khandle keyed k))
  | OUnregister k _, Some ROk => mkG (g_en g) (rem (khandle keyed k) (g_reg g)) (g_park g)
  | _, _ => g
  end.
(* One event.  Only one write can be parked, so a write that is parked while another one was
   parked before the event means the first completion of the event (a Timeout at the expiration
   that already lay in the past) came before the call; all other completions come after it. *)
Definition c28_next (keyed : bool) (g : ghost) (o : op) (out : out) : ghost :=
  match g_park g, o_imm out, o_done out with
  | Some _, Some RBlocked, d :: ds =>
    fold_left g_complete ds (g_call keyed (g_complete g d) o (o_imm out))
  | _, _, ds => fold_left g_complete ds (g_call keyed g o (o_imm out))
  end.

(* replies that break the contract (true = broken), in order *)
Fixpoint c28_walk (keyed : bool) (g : ghost) (l : list (ev * out)) : list bool :=
  match l with
  | [] => []
  | (e, o) :: t =>
    negb (c28_check keyed g (e_op e) (o_imm o)) :: c28_walk keyed (c28_next keyed g (e_op e) o) t
  end.

(* the specification-level state after a trace *)
Fixpoint c28_ghost (keyed : bool) (g : ghost) (l : list (ev * out)) : ghost :=
  match l with
  | [] => g
  | (e, o) :: t => c28_ghost keyed (c28_next keyed g (e_op e) o) t
  end.

Definition ghost0 (c : W_case) : ghost := mkG (wc_enabled0 c) [] None.

(* writer half of C19 on the observations: a refused call stores nothing.  Every successful
   write / dispose / unregister_instance takes the next sequence number, so the history shown to a
   late joiner may only contain numbers up to the count of successful calls. *)
Definition successes (l : list (ev * out)) : Z :=
  fold_left (fun acc eo =>
    acc +
    (match e_op (fst eo), o_imm (snd eo) with
     | OWrite _ _ _, Some ROk | ODispose _ _, Some ROk | OUnregister _ _, Some ROk => 1
     | _, _ => 0 end) +
    zlen (filter (fun d => let '(_, c, _) := d in c =? 0) (o_done (snd eo)))) l 0.
Definition hist_ok (c : W_case) : bool :=
  match wc_hist c with
  | Some l => forallb (fun sn => (1 <=? sn) && (sn <=? successes (wc_evs c))) l
  | None => true
  end.

Definition C28_model_ok (c : W_case) : bool := W_model_ok c.
Definition C28_oracle_ok (c : W_case) : bool :=
  negb (existsb (fun b => b) (c28_walk (wc_keyed c) (ghost0 c) (wc_evs c))) && hist_ok c.
(* no recorded deviation is left *)
Definition C28_known (c : W_case) : N := 0%N.

(* ------------------------------- C27: RELIABLE KEEP_LAST writers block, never drop *)
(* issue time and key of every write, by slot *)
Definition writes_of (l : list (ev * out)) : list (Z * (Z * Z)) :=
  flat_map (fun eo => match e_op (fst eo) with
                      | OWrite s k _ => [(s, (k, e_now (fst eo)))]
                      | _ => [] end) l.
Fixpoint assoc {B} (x : Z) (l : list (Z * B)) : option B :=
  match l with
  | [] => None
  | (y, b) :: t => if y =? x then Some b else assoc x t
  end.
(* all completions of parked writes *)
Definition dones_of (l : list (ev * out)) : list done := flat_map (fun eo => o_done (snd eo)) l.
(* slots whose write was answered Ok (at once or later), in the order of the answers; each of
   them takes the next sequence number (C27 scenarios contain no dispose / unregister) *)
Definition ok_slots (l : list (ev * out)) : list Z :=
  flat_map (fun eo =>
    (match e_op (fst eo), o_imm (snd eo) with
     | OWrite s _ _, Some ROk => [s]
     | _, _ => [] end) ++
    flat_map (fun d => let '(s, c, _) := d in if c =? 0 then [s] else []) (o_done (snd eo))) l.
Definition blocked_slots (l : list (ev * out)) : list Z :=
  flat_map (fun eo => match e_op (fst eo), o_imm (snd eo) with
                      | OWrite s _ _, Some RBlocked => [s]
                      | _, _ => [] end) l.
Definition last_time (l : list (ev * out)) : Z := fold_left (fun acc eo => Z.max acc (e_now (fst eo))) l 0.

Definition POKE : Z := 50000000.   (* the worker wakes up at least every 50 ms *)

(* (1) replies: a write on an enabled writer is answered Ok, OutOfResources, or parked *)
Definition c27_reply_ok (r : rsl) : bool :=
  match r with
  | ROk | RBlocked => true
  | RErr c => c =? E_OUT_OF_RESOURCES
  | RHandle _ => false
  end.
(* the recorded deviation: a second write that has to wait is answered Error at once *)
Definition c27_reply_second_blocked (r : rsl) : bool :=
  match r with RErr c => c =? E_ERROR | _ => false end.

(* (2) completions: a parked write is answered Ok before its blocking time is over, or Timeout
   when it is over (not earlier, and at the latest one worker period later) *)
Definition c27_done_ok (mbt : option Z) (ws : list (Z * (Z * Z))) (d : done) : bool :=
  let '(s, c, t) := d in
  match assoc s ws with
  | Some (_, t0) =>
    if c =? E_TIMEOUT then
      match mbt with Some m => (t0 + m <=? t) && (t <=? t0 + m + POKE) | None => false end
    else if (c =? 0) || (c =? E_OUT_OF_RESOURCES) then
      (t0 <=? t) && match mbt with Some m => t <=? t0 + m + POKE | None => true end
    else false
  | None => false
  end.

(* (2b) a parked write is answered Ok at the very moment an ACKNACK (or the removal of a matched
   reader) makes the replaced sample acknowledged by everybody: the completion is reported by that
   event and stamped with its time.  Like (2) this looks only at simulated clock times, never at
   the source timestamps of the samples. *)
Definition c27_ok_when_acked (l : list (ev * out)) : bool :=
  forallb (fun eo =>
    forallb (fun d => let '(_, c, t) := d in
                      if c =? 0
                      then (t =? e_now (fst eo)) &&
                           match e_op (fst eo) with OAck _ _ _ | OUnmatch _ => true | _ => false end
                      else true) (o_done (snd eo))) l.

(* (3) a parked write is answered once the blocking time has passed *)
Definition c27_answered (mbt : option Z) (l : list (ev * out)) : bool :=
  let ws := writes_of l in
  let ds := dones_of l in
  forallb (fun s =>
    existsb (fun d => let '(s', _, _) := d in s' =? s) ds ||
    match mbt, assoc s ws with
    | Some m, Some (_, t0) => last_time l <? t0 + m + POKE
    | _, _ => true
    end) (blocked_slots l).

(* (4) what the matched reliable KEEP_ALL reader finally received is exactly what was answered Ok:
   nothing answered Ok was dropped, nothing answered Timeout / Error was stored *)
Definition c27_recv_ok (c : W_case) : bool :=
  match wc_recv c with
  | Some r => list_eqb Z.eqb (sortZ (ok_slots (wc_evs c))) r
  | None => true
  end.

(* (5) depth: the history shown to a late joiner holds at most depth samples per instance.
   The k-th write answered Ok has sequence number k. *)
Fixpoint nth_key (ws : list (Z * (Z * Z))) (oks : list Z) (sn : Z) (i : Z) : option Z :=
  match oks with
  | [] => None
  | s :: t => if i =? sn then option_map fst (assoc s ws) else nth_key ws t sn (i + 1)
  end.
Definition c27_depth_ok (c : W_case) : bool :=
  match wc_hist c, q_hist (wc_qos c) with
  | Some hs, KeepLast d =>
    let ws := writes_of (wc_evs c) in
    let oks := ok_slots (wc_evs c) in
    let keys := map (fun sn => nth_key ws oks sn 1) hs in
    forallb (fun k => match k with
                      | Some _ => zlen (filter (fun k' => optZ_eqb k k') keys) <=? d
                      | None => false end) keys
  | _, _ => true
  end.

Definition c27_replies (l : list (ev * out)) : list rsl :=
  flat_map (fun eo => match e_op (fst eo), o_imm (snd eo) with
                      | OWrite _ _ _, Some r => [r]
                      | _, _ => [] end) l.

Definition C27_model_ok (c : W_case) : bool := W_model_ok c.
Definition C27_oracle_ok (c : W_case) : bool :=
  forallb c27_reply_ok (c27_replies (wc_evs c)) &&
  forallb (c27_done_ok (q_mbt (wc_qos c)) (writes_of (wc_evs c))) (dones_of (wc_evs c)) &&
  c27_ok_when_acked (wc_evs c) &&
  c27_answered (q_mbt (wc_qos c)) (wc_evs c) &&
  c27_recv_ok c &&
  c27_depth_ok c &&
  (* a KEEP_LAST(0) writer cannot be created *)
  match q_hist (wc_qos c) with KeepLast 0 => negb (wc_created c) | _ => true end.
(* class 1: the only thing wrong are second-blocked-write Error replies *)
Definition C27_known (c : W_case) : N :=
  if forallb (c27_done_ok (q_mbt (wc_qos c)) (writes_of (wc_evs c))) (dones_of (wc_evs c)) &&
     c27_ok_when_acked (wc_evs c) &&
     c27_answered (q_mbt (wc_qos c)) (wc_evs c) && c27_recv_ok c && c27_depth_ok c &&
     match q_hist (wc_qos c) with KeepLast 0 => negb (wc_created c) | _ => true end &&
     forallb (fun r => c27_reply_ok r || c27_reply_second_blocked r) (c27_replies (wc_evs c))
  then 1%N else 0%N.
