(* C28: the instance-management calls of the data writer honour their documented contract
   for every sequence of events, outside two recorded classes (which are witnessed). *)
From DustDDS Require Import Base.Machine WriterHist.WriterModel WriterHist.WriterFacts WriterHist.WriterCorr
  WriterHist.WriterLimits.
Open Scope Z_scope.

(* ------------------------------------------------------------ finite sets *)
Lemma mem_add h x l : mem h (add x l) = (h =? x) || mem h l.
Proof.
  unfold add. destruct (mem x l) eqn:E.
  - destruct (h =? x) eqn:Ex; [|reflexivity]. apply Z.eqb_eq in Ex. subst. now rewrite E.
  - unfold mem. cbn [existsb]. reflexivity.
Qed.
Lemma mem_rem h x l : mem h (rem x l) = negb (h =? x) && mem h l.
Proof.
  unfold mem, rem. induction l as [|y t IH]; cbn [filter existsb]; [now rewrite andb_false_r|].
  destruct (y =? x) eqn:Ey; cbn [negb].
  - rewrite IH. apply Z.eqb_eq in Ey. subst y.
    destruct (h =? x) eqn:Eh; cbn [negb andb orb]; reflexivity.
  - cbn [existsb]. rewrite IH. destruct (h =? y) eqn:Ehy; cbn [orb].
    + apply Z.eqb_eq in Ehy. subst y. now rewrite Ey.
    + reflexivity.
Qed.

(* ---------------------------------------------------------- the invariant *)
Record Inv (keyed : bool) (w : writer) (g : ghost) : Prop := mkInv {
  inv_keyed : w_keyed w = keyed;
  inv_en : g_en g = w_enabled w;
  inv_reg : forall h, mem h (g_reg g) = true -> has_inst h (w_insts w) = true;
  inv_cover : forall h, has_inst h (w_insts w) = true ->
                        mem h (g_reg g) || mem h (g_st1 g) || mem h (g_st2 g) = true;
  inv_pend : pend_ok w
}.

Lemma Inv_init keyed en q : Inv keyed (init keyed en q) (mkG en [] [] []).
Proof. constructor; cbn; auto; try discriminate; intros p; discriminate. Qed.

(* transformations that change neither the instance handles nor the flags *)
Lemma Inv_silent keyed w w' g :
  same_frame w w' -> hsame w w' -> pend_ok w' -> Inv keyed w g -> Inv keyed w' g.
Proof.
  intros F S P [Ik Ie Ir Ic _]. destruct F as [Fe Fk _].
  constructor; try congruence.
  - intros h Hh. rewrite S. auto.
  - intros h Hh. rewrite S in Hh. auto.
  - exact P.
Qed.

Lemma khandle_hof keyed w k : w_keyed w = keyed -> khandle keyed k = hof w k.
Proof. intros <-. reflexivity. Qed.

Lemma cover_class keyed g o k :
  op_key o = Some k ->
  mem (khandle keyed k) (g_reg g) = false ->
  mem (khandle keyed k) (g_reg g) || mem (khandle keyed k) (g_st1 g) || mem (khandle keyed k) (g_st2 g) = true ->
  c28_class keyed g o <> 0%N.
Proof.
  intros Ho Hr Hc. unfold c28_class. rewrite Ho. rewrite Hr in Hc. cbn [orb] in Hc.
  destruct (mem (khandle keyed k) (g_st1 g)); [discriminate|].
  cbn [orb] in Hc. rewrite Hc. discriminate.
Qed.

Lemma rsl_eqb_refl r : rsl_eqb r r = true.
Proof. destruct r as [|c|[h|]|]; cbn; auto using Z.eqb_refl. Qed.

(* the ghost after a successful register / write of handle h *)
Lemma Inv_registered keyed w w' g h :
  Inv keyed w g -> same_frame w w' -> hmono w w' -> hsub w w' h ->
  has_inst h (w_insts w') = true -> pend_ok w' ->
  Inv keyed w' (mkG (g_en g) (add h (g_reg g)) (rem h (g_st1 g)) (rem h (g_st2 g))).
Proof.
  intros [Ik Ie Ir Ic _] [Fe Fk _] M S Hh P.
  constructor; cbn [g_en g_reg g_st1 g_st2]; try congruence.
  - intros x. rewrite mem_add. intros Hx. apply orb_true_iff in Hx.
    destruct Hx as [Hx|Hx]; [apply Z.eqb_eq in Hx; now subst|auto].
  - intros x Hx. rewrite mem_add, !mem_rem.
    destruct (x =? h) eqn:E; [reflexivity|]. cbn [negb andb orb].
    destruct (S x Hx) as [Hb|Hb]; [auto|]. apply Z.eqb_neq in E. contradiction.
  - exact P.
Qed.

(* ------------------------------------------------------- one mail, one reply *)
Lemma apply_op_ok keyed now w g o w' imm d :
  Inv keyed w g -> apply_op now w o = (w', imm, d) ->
  (c28_check keyed g o imm = true \/ c28_class keyed g o <> 0%N) /\
  Inv keyed w' (c28_next keyed g o imm).
Proof.
  intros I H. pose proof I as [Ik Ie Ir Ic Ip].
  destruct o as [|k ts|k ts|k ts|k|slot k ts|r base count|r rel|r|]; cbn [apply_op] in H.
  - (* enable *)
    injection H as <- <- <-. split; [left; reflexivity|]. cbn [c28_next].
    constructor; cbn [g_en g_reg g_st1 g_st2]; wsimpl; auto.
  - (* register *)
    destruct (svc_register w k ts) as [w1 r] eqn:E. injection H as <- <- <-.
    unfold svc_register in E. cbn [c28_check c28_next].
    destruct (w_enabled w) eqn:En; cbn [negb] in *;
      [assert (Eg : negb (g_en g) = false) by (rewrite Ie; try rewrite En; reflexivity)
      |assert (Eg : negb (g_en g) = true) by (rewrite Ie; try rewrite En; reflexivity)]; rewrite Eg.
    2:{ injection E as <- <-. split; [left; apply rsl_eqb_refl|exact I]. }
    destruct keyed; rewrite Ik in E; cbn [negb] in *.
    2:{ injection E as <- <-. split; [left; apply rsl_eqb_refl|exact I]. }
    assert (Hk : hof w k = k) by (unfold hof; now rewrite Ik).
    rewrite Hk in E.
    destruct (has_inst k (w_insts w)) eqn:Eh.
    + injection E as <- <-. split; [left; cbn; now rewrite Z.eqb_refl|].
      cbn [khandle].
      apply Inv_registered with (w := w); auto.
      * constructor; reflexivity.
      * intros x Hx. wsimpl. now rewrite has_inst_upd.
      * intros x Hx. wsimpl in Hx. rewrite has_inst_upd in Hx by reflexivity. now left.
      * wsimpl. now rewrite has_inst_upd.
      * intros p Hp. wsimpl in Hp. unfold hof. wsimpl. rewrite has_inst_upd by reflexivity.
        apply Ip. exact Hp.
    + destruct (len_lt (zlen (w_insts w)) (q_max_instances (w_qos w))).
      * injection E as <- <-. split; [left; cbn; now rewrite Z.eqb_refl|].
        cbn [khandle].
        apply Inv_registered with (w := w); auto.
        -- constructor; reflexivity.
        -- intros x Hx. wsimpl. rewrite has_inst_app, Hx. reflexivity.
        -- intros x Hx. wsimpl in Hx. rewrite has_inst_app in Hx. cbn [i_h] in Hx.
           apply orb_true_iff in Hx. destruct Hx as [Hx|Hx]; [now left|right].
           apply Z.eqb_eq in Hx. congruence.
        -- wsimpl. rewrite has_inst_app. cbn [i_h]. rewrite Z.eqb_refl. apply orb_true_r.
        -- intros p Hp. wsimpl in Hp. unfold hof. wsimpl. rewrite has_inst_app.
           apply orb_true_iff. left. apply Ip. exact Hp.
      * injection E as <- <-. split; [|exact I]. left.
        assert (Hm : mem k (g_reg g) = false).
        { destruct (mem k (g_reg g)) eqn:Em; [|reflexivity]. apply Ir in Em. congruence. }
        rewrite Hm. cbn. reflexivity.
  - (* unregister *)
    destruct (svc_unregister w k ts) as [w1 r] eqn:E. injection H as <- <- <-.
    unfold svc_unregister, svc_unreg_or_dispose in E. cbn [c28_check c28_next].
    destruct (w_enabled w) eqn:En; cbn [negb] in *;
      [assert (Eg : negb (g_en g) = false) by (rewrite Ie; try rewrite En; reflexivity)
      |assert (Eg : negb (g_en g) = true) by (rewrite Ie; try rewrite En; reflexivity)]; rewrite Eg.
    2:{ injection E as <- <-. split; [left; apply rsl_eqb_refl|exact I]. }
    destruct keyed; rewrite Ik in E; cbn [negb] in *.
    2:{ injection E as <- <-. split; [left; apply rsl_eqb_refl|exact I]. }
    assert (Hk : hof w k = k) by (unfold hof; now rewrite Ik).
    rewrite Hk in E.
    destruct (has_inst k (w_insts w)) eqn:Eh.
    + injection E as <- <-. split.
      * destruct (mem k (g_reg g)) eqn:Em; [left; reflexivity|right].
        apply cover_class with (k := k); [reflexivity| |]; cbn [khandle]; auto.
      * cbn [khandle].
        constructor; cbn [g_en g_reg g_st1 g_st2]; wsimpl; auto; try congruence.
        -- intros x. rewrite mem_rem. intros Hx. apply andb_true_iff in Hx.
           rewrite has_inst_upd by reflexivity. apply Ir. tauto.
        -- intros x. rewrite has_inst_upd by reflexivity. intros Hx.
           rewrite mem_rem, mem_add, mem_rem.
           destruct (x =? k) eqn:Ex; cbn [negb andb orb]; [try reflexivity; try apply orb_true_r|].
           apply Ic in Hx. exact Hx.
        -- intros p Hp. wsimpl in Hp. unfold hof. wsimpl. rewrite has_inst_upd by reflexivity.
           apply Ip. exact Hp.
    + injection E as <- <-. split; [|exact I]. left.
      assert (Hm : mem k (g_reg g) = false).
      { destruct (mem k (g_reg g)) eqn:Em; [|reflexivity]. apply Ir in Em. congruence. }
      rewrite Hm. reflexivity.
  - (* dispose *)
    destruct (svc_dispose w k ts) as [w1 r] eqn:E. injection H as <- <- <-.
    unfold svc_dispose, svc_unreg_or_dispose in E. cbn [c28_check c28_next].
    destruct (w_enabled w) eqn:En; cbn [negb] in *;
      [assert (Eg : negb (g_en g) = false) by (rewrite Ie; try rewrite En; reflexivity)
      |assert (Eg : negb (g_en g) = true) by (rewrite Ie; try rewrite En; reflexivity)]; rewrite Eg.
    2:{ injection E as <- <-. split; [left; apply rsl_eqb_refl|exact I]. }
    destruct keyed; rewrite Ik in E; cbn [negb] in *.
    2:{ injection E as <- <-. split; [left; apply rsl_eqb_refl|exact I]. }
    assert (Hk : hof w k = k) by (unfold hof; now rewrite Ik).
    rewrite Hk in E.
    destruct (has_inst k (w_insts w)) eqn:Eh.
    + injection E as <- <-. split.
      * destruct (mem k (g_reg g)) eqn:Em; [left; reflexivity|right].
        apply cover_class with (k := k); [reflexivity| |]; cbn [khandle]; auto.
      * apply Inv_silent with (w := w); auto.
        -- constructor; reflexivity.
        -- intros x. wsimpl. now rewrite has_inst_upd.
        -- intros p Hp. wsimpl in Hp. unfold hof. wsimpl. rewrite has_inst_upd by reflexivity.
           apply Ip. exact Hp.
    + injection E as <- <-. split; [|exact I]. left.
      assert (Hm : mem k (g_reg g) = false).
      { destruct (mem k (g_reg g)) eqn:Em; [|reflexivity]. apply Ir in Em. congruence. }
      rewrite Hm. reflexivity.
  - (* lookup *)
    injection H as <- <- <-. split; [|exact I].
    unfold svc_lookup. cbn [c28_check].
    destruct (w_enabled w) eqn:En; cbn [negb];
      [assert (Eg : negb (g_en g) = false) by (rewrite Ie; try rewrite En; reflexivity)
      |assert (Eg : negb (g_en g) = true) by (rewrite Ie; try rewrite En; reflexivity)]; rewrite Eg;
      [|left; apply rsl_eqb_refl].
    rewrite (khandle_hof keyed w k Ik). set (h := hof w k).
    destruct (has_inst h (w_insts w)) eqn:Eh, (mem h (g_reg g)) eqn:Em.
    + left. apply rsl_eqb_refl.
    + right. apply cover_class with (k := k); [reflexivity| |];
        rewrite (khandle_hof keyed w k Ik); fold h; auto.
    + apply Ir in Em. congruence.
    + left. apply rsl_eqb_refl.
  - (* write *)
    destruct (svc_write now w slot k ts) as [w1 r] eqn:E. injection H as <- <- <-.
    destruct (svc_write_spec _ _ _ _ _ _ _ E) as (F & M & S & Hok & Hne & Hen & Hp & Hsame).
    cbn [c28_check].
    split.
    + left. destruct (w_enabled w) eqn:En; cbn [negb];
      [assert (Eg : negb (g_en g) = false) by (rewrite Ie; try rewrite En; reflexivity)
      |assert (Eg : negb (g_en g) = true) by (rewrite Ie; try rewrite En; reflexivity)]; rewrite Eg.
      * destruct (Hen eq_refl) as [-> | [-> | [-> | ->]]]; reflexivity.
      * destruct (Hne eq_refl) as [-> _]. reflexivity.
    + cbn [c28_next]. rewrite (khandle_hof keyed w k Ik). set (h := hof w k) in *.
      assert (SILENT : w_insts w1 = w_insts w -> Inv keyed w1 g).
      { intros Hs. apply Inv_silent with (w := w); auto. intros x. now rewrite Hs. }
      destruct r as [|c|hh|].
      * apply Inv_registered with (w := w); auto.
      * destruct ((c =? E_OUT_OF_RESOURCES) && negb (mem h (g_reg g)) && negb (mem h (g_st1 g))) eqn:Ec.
        -- apply andb_true_iff in Ec. destruct Ec as [Ec E3]. apply andb_true_iff in Ec.
           destruct Ec as [E1 E2]. destruct F as [Fe Fk _].
           constructor; cbn [g_en g_reg g_st1 g_st2]; try congruence; auto.
           intros x Hx. rewrite mem_add. destruct (S x Hx) as [Hb| ->].
           ++ apply Ic in Hb. apply orb_true_iff in Hb. destruct Hb as [Hb|Hb].
              ** rewrite Hb. reflexivity.
              ** rewrite Hb. rewrite !orb_true_r. reflexivity.
           ++ rewrite Z.eqb_refl. cbn [orb]. apply orb_true_r.
        -- destruct (c =? E_OUT_OF_RESOURCES) eqn:E5.
           ++ (* refused, but the handle is already known to the ghost *)
              cbn [andb] in Ec. destruct F as [Fe Fk _].
              constructor; try congruence; auto.
              intros x Hx. destruct (S x Hx) as [Hb| ->]; [auto|].
              apply andb_false_iff in Ec. destruct Ec as [Ec|Ec]; apply negb_false_iff in Ec; rewrite Ec;
                [reflexivity|rewrite orb_true_r; reflexivity].
           ++ apply SILENT. apply Hsame; [discriminate|]. intros [= ->]. discriminate.
      * apply SILENT. apply Hsame; discriminate.
      * apply SILENT. apply Hsame; discriminate.
  - (* acknack *)
    destruct (process_pending now _) as [w1 dd] eqn:E. injection H as <- <- <-.
    split; [left; reflexivity|]. cbn [c28_next].
    set (w0 := set_proxies w (on_acknack r base count (w_proxies w))) in *.
    assert (P0 : pend_ok w0) by (intros p Hp; apply Ip; exact Hp).
    destruct (process_pending_spec _ _ _ _ E P0) as (F & S & Pd).
    assert (I0 : Inv keyed w0 g).
    { apply Inv_silent with (w := w); auto; [constructor; reflexivity|intros x; reflexivity]. }
    apply Inv_silent with (w := w0); auto.
    intros p Hp. destruct Pd as [Pd|Pd]; [|congruence].
    rewrite (hof_frame _ _ _ F), S. apply P0. congruence.
  - injection H as <- <- <-. split; [left; reflexivity|]. cbn [c28_next].
    apply Inv_silent with (w := w); auto;
      try (constructor; reflexivity); try (intros x; reflexivity); try (intros p Hp; apply Ip; exact Hp).
  - injection H as <- <- <-. split; [left; reflexivity|]. cbn [c28_next].
    apply Inv_silent with (w := w); auto;
      try (constructor; reflexivity); try (intros x; reflexivity); try (intros p Hp; apply Ip; exact Hp).
  - injection H as <- <- <-. split; [left; reflexivity|exact I].
Qed.

(* ------------------------------------------------------------ one event *)
Lemma step_ok keyed w g e w' o :
  Inv keyed w g -> step w e = (w', o) ->
  (c28_check keyed g (e_op e) (o_imm o) = true \/ c28_class keyed g (e_op e) <> 0%N) /\
  Inv keyed w' (c28_next keyed g (e_op e) (o_imm o)).
Proof.
  intros I H. unfold step in H.
  destruct (catch_up (e_now e) w) as [w0 d0] eqn:E0.
  destruct (apply_op (e_now e) w0 (e_op e)) as [[w1 imm] d1] eqn:E1.
  destruct (tail (e_now e) w1) as [w2 d2] eqn:E2.
  injection H as <- <-. cbn [o_imm].
  destruct (catch_up_spec _ _ _ _ E0 (inv_pend _ _ _ I)) as (F0 & S0 & P0).
  assert (I0 : Inv keyed w0 g) by (eapply Inv_silent; eauto).
  destruct (apply_op_ok _ _ _ _ _ _ _ _ I0 E1) as [C I1].
  split; [exact C|].
  destruct (tail_spec _ _ _ _ E2 (inv_pend _ _ _ I1)) as (F2 & S2 & P2).
  eapply Inv_silent; eauto.
Qed.

(* the model's own trace, in the shape of a correspondence case *)
Definition model_trace (w : writer) (evs : list ev) : list (ev * out) := combine evs (snd (run w evs)).

Lemma run_cons w e t :
  run w (e :: t) = let '(w1, o) := step w e in let '(w2, os) := run w1 t in (w2, o :: os).
Proof. reflexivity. Qed.

Lemma walk_ok keyed evs : forall w g,
  Inv keyed w g -> ~ In 0%N (c28_walk keyed g (model_trace w evs)).
Proof.
  induction evs as [|e t IH]; intros w g I; [intros []|].
  unfold model_trace. rewrite run_cons.
  destruct (step w e) as [w1 o] eqn:Es. destruct (run w1 t) as [w2 os] eqn:Er.
  cbn [snd combine c28_walk].
  destruct (step_ok _ _ _ _ _ _ I Es) as [C I1].
  specialize (IH w1 _ I1). unfold model_trace in IH. rewrite Er in IH. cbn [snd] in IH.
  destruct (c28_check keyed g (e_op e) (o_imm o)) eqn:Ec; [exact IH|].
  intros [Hin|Hin]; [|exact (IH Hin)].
  destruct C as [C|C]; [discriminate|]. apply C. exact Hin.
Qed.

(* Every reply of the model that breaks the contract belongs to a recorded class. *)
Theorem contract_outside_known_classes keyed enabled q evs :
  ~ In 0%N (c28_walk keyed (mkG enabled [] [] []) (model_trace (init keyed enabled q) evs)).
Proof. apply walk_ok. apply Inv_init. Qed.

(* in terms of the correspondence functions: a model-generated case is accepted by the
   oracle or classified as known *)
Definition model_case (keyed enabled : bool) (q : qos) (evs : list ev) : W_case :=
  mkWC keyed enabled q (model_trace (init keyed enabled q) evs) None None.

Theorem oracle_or_known keyed enabled q evs :
  C28_oracle_ok (model_case keyed enabled q evs) = true \/
  C28_known (model_case keyed enabled q evs) <> 0%N.
Proof.
  pose proof (contract_outside_known_classes keyed enabled q evs) as H.
  unfold C28_oracle_ok, C28_known, model_case, ghost0, hist_ok. cbn [wc_keyed wc_enabled0 wc_evs wc_hist].
  destruct (c28_walk keyed (mkG enabled [] [] []) (model_trace (init keyed enabled q) evs)) as [|c l] eqn:E;
    [now left|right].
  destruct (existsb (N.eqb 0) (c :: l)) eqn:Ex.
  - apply existsb_exists in Ex. destruct Ex as (x & Hx & Hx0). apply N.eqb_eq in Hx0. subst x. contradiction.
  - cbn [hd]. intros ->. apply H. now left.
Qed.

(* ------------------------------------------------ the state after a trace *)
Lemma run_inv keyed evs : forall w g,
  Inv keyed w g -> Inv keyed (fst (run w evs)) (c28_ghost keyed g (model_trace w evs)).
Proof.
  induction evs as [|e t IH]; intros w g I; [exact I|].
  unfold model_trace. rewrite run_cons.
  destruct (step w e) as [w1 o] eqn:Es. destruct (run w1 t) as [w2 os] eqn:Er.
  cbn [fst snd combine c28_ghost].
  destruct (step_ok _ _ _ _ _ _ I Es) as [_ I1].
  specialize (IH w1 _ I1). unfold model_trace in IH. rewrite Er in IH. exact IH.
Qed.

Lemma rsl_eqb_eq a b : rsl_eqb a b = true -> a = b.
Proof.
  destruct a as [|x|[x|]|], b as [|y|[y|]|]; cbn; try discriminate; auto;
    intros H; apply Z.eqb_eq in H; congruence.
Qed.

Section AfterTrace.
  Variables (keyed enabled : bool) (q : qos) (evs : list ev).
  Let w := fst (run (init keyed enabled q) evs).
  Let g := c28_ghost keyed (mkG enabled [] [] []) (model_trace (init keyed enabled q) evs).

  Lemma after_inv : Inv keyed w g.
  Proof. apply run_inv. apply Inv_init. Qed.

  (* lookup_instance returns the handle exactly for registered instances *)
  Lemma lookup_iff_registered k :
    g_en g = true ->
    mem (khandle keyed k) (g_st1 g) = false -> mem (khandle keyed k) (g_st2 g) = false ->
    svc_lookup w k = RHandle (if mem (khandle keyed k) (g_reg g) then Some (khandle keyed k) else None).
  Proof.
    intros En H1 H2.
    destruct (apply_op_ok keyed 0 w g (OLookup k) w (Some (svc_lookup w k)) [] after_inv eq_refl) as [[C|C] _].
    - cbn [c28_check] in C. rewrite En in C. cbn [negb] in C. now apply rsl_eqb_eq.
    - exfalso. apply C. unfold c28_class. cbn [op_key]. now rewrite H1, H2.
  Qed.

  (* dispose / unregister_instance of an instance that is not registered: BadParameter, no effect *)
  Lemma unknown_instance_bad_parameter k ts :
    g_en g = true -> keyed = true ->
    mem k (g_reg g) = false -> mem k (g_st1 g) = false -> mem k (g_st2 g) = false ->
    svc_unregister w k ts = (w, RErr E_BAD_PARAMETER) /\ svc_dispose w k ts = (w, RErr E_BAD_PARAMETER).
  Proof.
    intros En Hk H0 H1 H2. pose proof after_inv as I.
    assert (Hn : has_inst k (w_insts w) = false).
    { destruct (has_inst k (w_insts w)) eqn:E; [|reflexivity].
      apply (inv_cover _ _ _ I) in E. rewrite H0, H1, H2 in E. discriminate. }
    unfold svc_unregister, svc_dispose, svc_unreg_or_dispose.
    rewrite <- (inv_en _ _ _ I), En. cbn [negb].
    rewrite (inv_keyed _ _ _ I), Hk. cbn [negb].
    unfold hof. rewrite (inv_keyed _ _ _ I), Hk, Hn. split; reflexivity.
  Qed.
End AfterTrace.

(* ------------------------------------------------ statements about any state *)
(* register_instance is idempotent: a second call returns the same handle, which is the handle of
   the key, and changes nothing but the instance's last_write_time *)
Definition forget_lwt (w : writer) : writer :=
  set_insts w (map (fun i => mkInst (i_h i) None (i_samples i)) (w_insts w)).

Lemma map_upd_lwt h f l :
  (forall i, i_h (f i) = i_h i /\ i_samples (f i) = i_samples i) ->
  map (fun i => mkInst (i_h i) None (i_samples i)) (upd_inst h f l) =
  map (fun i => mkInst (i_h i) None (i_samples i)) l.
Proof.
  intros Hf. induction l as [|i t IH]; cbn [upd_inst map]; [reflexivity|].
  destruct (i_h i =? h); cbn [map]; [|now rewrite IH].
  destruct (Hf i) as [-> ->]. reflexivity.
Qed.

Lemma register_idempotent w k ts1 ts2 w1 h :
  svc_register w k ts1 = (w1, RHandle (Some h)) ->
  h = k /\
  exists w2, svc_register w1 k ts2 = (w2, RHandle (Some h)) /\ forget_lwt w2 = forget_lwt w1.
Proof.
  unfold svc_register.
  destruct (w_enabled w) eqn:En; cbn [negb]; [|discriminate].
  destruct (w_keyed w) eqn:Ek; cbn [negb]; [|discriminate].
  assert (Hk : hof w k = k) by (unfold hof; now rewrite Ek). rewrite Hk.
  assert (SECOND : forall l, has_inst k l = true ->
     let w1 := set_insts w l in
     exists w2, svc_register w1 k ts2 = (w2, RHandle (Some k)) /\ forget_lwt w2 = forget_lwt w1).
  { intros l Hl w1'. unfold svc_register. subst w1'. wsimpl. rewrite En, Ek. cbn [negb].
    unfold hof. wsimpl. rewrite Ek, Hl. eexists. split; [reflexivity|].
    unfold forget_lwt. wsimpl. rewrite map_upd_lwt; [reflexivity|]. intros i. split; reflexivity. }
  destruct (has_inst k (w_insts w)) eqn:Eh.
  - intros [= <- <-]. split; [reflexivity|]. apply SECOND. now rewrite has_inst_upd.
  - destruct (len_lt (zlen (w_insts w)) (q_max_instances (w_qos w))); [|discriminate].
    intros [= <- <-]. split; [reflexivity|]. apply SECOND.
    rewrite has_inst_app. cbn [i_h]. rewrite Z.eqb_refl. apply orb_true_r.
Qed.

(* instance operations on a keyless type: IllegalOperation, no effect *)
Lemma keyless_illegal_operation w k ts :
  w_enabled w = true -> w_keyed w = false ->
  svc_register w k ts = (w, RErr E_ILLEGAL_OPERATION) /\
  svc_unregister w k ts = (w, RErr E_ILLEGAL_OPERATION) /\
  svc_dispose w k ts = (w, RErr E_ILLEGAL_OPERATION).
Proof.
  intros En Ek. unfold svc_register, svc_unregister, svc_dispose, svc_unreg_or_dispose.
  rewrite En, Ek. cbn [negb]. repeat split.
Qed.

(* every operation on a writer that is not enabled: NotEnabled, no effect *)
Lemma not_enabled_everywhere w now slot k ts :
  w_enabled w = false ->
  svc_register w k ts = (w, RErr E_NOT_ENABLED) /\
  svc_unregister w k ts = (w, RErr E_NOT_ENABLED) /\
  svc_dispose w k ts = (w, RErr E_NOT_ENABLED) /\
  svc_lookup w k = RErr E_NOT_ENABLED /\
  svc_write now w slot k ts = (w, RErr E_NOT_ENABLED).
Proof.
  intros En. unfold svc_register, svc_unregister, svc_dispose, svc_unreg_or_dispose, svc_lookup, svc_write.
  rewrite En. cbn [negb]. repeat split.
Qed.

(* ---- which states are enabled / keyed: the flags along a run ---- *)
Lemma step_flags w e w' o :
  step w e = (w', o) -> pend_ok w ->
  w_keyed w' = w_keyed w /\ w_qos w' = w_qos w /\ pend_ok w' /\ hmono w w' /\
  w_enabled w' = (w_enabled w || match e_op e with OEnable => true | _ => false end).
Proof.
  intros H P. unfold step in H.
  destruct (catch_up (e_now e) w) as [w0 d0] eqn:E0.
  destruct (apply_op (e_now e) w0 (e_op e)) as [[w1 imm] d1] eqn:E1.
  destruct (tail (e_now e) w1) as [w2 d2] eqn:E2. injection H as <- <-.
  destruct (catch_up_spec _ _ _ _ E0 P) as ([Fe0 Fk0 Fq0] & S0 & P0).
  assert (A : w_keyed w1 = w_keyed w0 /\ w_qos w1 = w_qos w0 /\ pend_ok w1 /\ hmono w0 w1 /\
              w_enabled w1 = (w_enabled w0 || match e_op e with OEnable => true | _ => false end)).
  { destruct (e_op e) as [|k ts|k ts|k ts|k|slot k ts|r base count|r rel|r|]; cbn [apply_op] in E1.
    - injection E1 as <- <- <-. wsimpl. rewrite orb_true_r. repeat split; auto; try (intros x; auto; fail).
    - destruct (svc_register w0 k ts) as [wx rx] eqn:E. injection E1 as <- <- <-.
      rewrite orb_false_r. unfold svc_register in E.
      destruct (w_enabled w0) eqn:En0; cbn [negb] in E; [|injection E as <- <-; repeat split; auto; try (intros x; auto; fail)].
      destruct (w_keyed w0) eqn:Ek; cbn [negb] in E; [|injection E as <- <-; repeat split; auto; try (intros x; auto; fail)].
      destruct (has_inst (hof w0 k) (w_insts w0)).
      + injection E as <- <-. wsimpl. repeat split; auto.
        * intros p Hp. wsimpl in Hp. unfold hof. wsimpl. rewrite has_inst_upd by reflexivity. now apply P0.
        * intros x Hx. wsimpl. now rewrite has_inst_upd.
      + destruct (len_lt _ _); injection E as <- <-; wsimpl; repeat split; auto; try (intros x; auto; fail).
        * intros p Hp. wsimpl in Hp. unfold hof. wsimpl. rewrite has_inst_app. apply orb_true_iff. left. now apply P0.
        * intros x Hx. wsimpl. rewrite has_inst_app, Hx. reflexivity.
    - destruct (svc_unregister w0 k ts) as [wx rx] eqn:E. injection E1 as <- <- <-.
      rewrite orb_false_r. unfold svc_unregister, svc_unreg_or_dispose in E.
      destruct (w_enabled w0) eqn:En0; cbn [negb] in E; [|injection E as <- <-; repeat split; auto; try (intros x; auto; fail)].
      destruct (w_keyed w0) eqn:Ek; cbn [negb] in E; [|injection E as <- <-; repeat split; auto; try (intros x; auto; fail)].
      destruct (has_inst (hof w0 k) (w_insts w0)); injection E as <- <-; wsimpl; repeat split; auto; try (intros x; auto; fail).
      * intros p Hp. wsimpl in Hp. unfold hof. wsimpl. rewrite has_inst_upd by reflexivity. now apply P0.
      * intros x Hx. wsimpl. now rewrite has_inst_upd.
    - destruct (svc_dispose w0 k ts) as [wx rx] eqn:E. injection E1 as <- <- <-.
      rewrite orb_false_r. unfold svc_dispose, svc_unreg_or_dispose in E.
      destruct (w_enabled w0) eqn:En0; cbn [negb] in E; [|injection E as <- <-; repeat split; auto; try (intros x; auto; fail)].
      destruct (w_keyed w0) eqn:Ek; cbn [negb] in E; [|injection E as <- <-; repeat split; auto; try (intros x; auto; fail)].
      destruct (has_inst (hof w0 k) (w_insts w0)); injection E as <- <-; wsimpl; repeat split; auto; try (intros x; auto; fail).
      * intros p Hp. wsimpl in Hp. unfold hof. wsimpl. rewrite has_inst_upd by reflexivity. now apply P0.
      * intros x Hx. wsimpl. now rewrite has_inst_upd.
    - injection E1 as <- <- <-. rewrite orb_false_r. repeat split; auto; try (intros x; auto; fail).
    - destruct (svc_write (e_now e) w0 slot k ts) as [wx rx] eqn:E. injection E1 as <- <- <-.
      destruct (svc_write_spec _ _ _ _ _ _ _ E) as ([Fe Fk Fq] & M & _ & _ & _ & _ & Hp & _).
      rewrite orb_false_r. repeat split; auto.
    - destruct (process_pending (e_now e) _) as [wx dx] eqn:E. injection E1 as <- <- <-.
      set (wa := set_proxies w0 _) in *.
      assert (Pa : pend_ok wa) by (intros p Hp; now apply P0).
      destruct (process_pending_spec _ _ _ _ E Pa) as ([Fe Fk Fq] & S & Pd).
      rewrite orb_false_r. repeat split; auto.
      + intros p Hp. destruct Pd as [Pd|Pd]; [|congruence].
        unfold hof. rewrite Fk. rewrite S. apply Pa. congruence.
      + intros x Hx. rewrite S. exact Hx.
    - injection E1 as <- <- <-. rewrite orb_false_r. wsimpl. repeat split; auto;
        try (intros x; auto; fail); try (intros p Hp; now apply P0).
    - injection E1 as <- <- <-. rewrite orb_false_r. wsimpl. repeat split; auto;
        try (intros x; auto; fail); try (intros p Hp; now apply P0).
    - injection E1 as <- <- <-. rewrite orb_false_r. repeat split; auto; try (intros x; auto; fail). }
  destruct A as (Ak & Aq & Ap & Am & Ae).
  destruct (tail_spec _ _ _ _ E2 Ap) as ([Fe2 Fk2 Fq2] & S2 & P2).
  repeat split; try congruence; try exact P2.
  intros x Hx. rewrite S2. apply Am. now rewrite S0.
Qed.

Lemma run_flags evs : forall w, pend_ok w ->
  let w' := fst (run w evs) in
  w_keyed w' = w_keyed w /\ w_qos w' = w_qos w /\ pend_ok w' /\ hmono w w' /\
  w_enabled w' = (w_enabled w || existsb (fun e => match e_op e with OEnable => true | _ => false end) evs).
Proof.
  induction evs as [|e t IH]; intros w P.
  - cbn. rewrite orb_false_r. repeat split; auto; try (intros x; auto; fail).
  - rewrite run_cons. destruct (step w e) as [w1 o] eqn:Es. destruct (run w1 t) as [w2 os] eqn:Er.
    cbn [fst existsb].
    destruct (step_flags _ _ _ _ Es P) as (K1 & Q1 & P1 & M1 & E1).
    specialize (IH w1 P1). rewrite Er in IH. cbn [fst] in IH. destruct IH as (K2 & Q2 & P2 & M2 & E2).
    refine (conj _ (conj _ (conj P2 (conj _ _)))); try congruence.
    + intros x Hx. apply M2, M1, Hx.
    + rewrite E2, E1. now rewrite orb_assoc.
Qed.

Lemma pend_ok_init keyed enabled q : pend_ok (init keyed enabled q).
Proof. intros p; discriminate. Qed.

(* the topic kind never changes; a writer is enabled iff it was created enabled or enable was called *)
Lemma flags_after keyed enabled q evs :
  let w := fst (run (init keyed enabled q) evs) in
  w_keyed w = keyed /\
  w_enabled w = (enabled || existsb (fun e => match e_op e with OEnable => true | _ => false end) evs).
Proof.
  destruct (run_flags evs (init keyed enabled q) (pend_ok_init _ _ _)) as (K & _ & _ & _ & E).
  split; assumption.
Qed.

(* once an instance has a record, register_instance returns its handle after any further events *)
Lemma register_stays w k evs ts :
  pend_ok w -> w_enabled w = true -> w_keyed w = true -> has_inst k (w_insts w) = true ->
  snd (svc_register (fst (run w evs)) k ts) = RHandle (Some k).
Proof.
  intros P En Ek Hk. destruct (run_flags evs w P) as (K & _ & _ & M & E).
  unfold svc_register. rewrite E, En, K, Ek. cbn [orb negb].
  unfold hof. rewrite K, Ek. rewrite (M k Hk). reflexivity.
Qed.

(* ------------------------------------------ writer half of C19, service level *)
(* the QoS a writer can be created with: is_consistent, limits that are real i32 counts *)
Definition qos_wf (q : qos) : Prop :=
  qos_consistent q = true /\
  (forall m, q_mspi q = Some m -> 0 <= m <= i32_max) /\
  (forall ms, q_max_samples q = Some ms -> 0 <= ms).

Lemma pop_front_total w h s sn rest :
  find_inst h (w_insts w) = Some s -> i_samples s = sn :: rest ->
  total_samples (w_insts (pop_front w h)) = total_samples (w_insts w) - 1.
Proof.
  intros Hf Hs. unfold pop_front. rewrite Hf, Hs. wsimpl.
  rewrite (upd_inst_total _ _ _ _ Hf). cbn [i_samples]. rewrite Hs. cbn [tl]. rewrite zlen_cons. lia.
Qed.

(* after the KEEP_LAST replacement made room, the write cannot be refused *)
Lemma no_refusal_after_pop w h d s sn rest ts now slot :
  Lim w -> qos_wf (w_qos w) -> q_hist (w_qos w) = KeepLast d ->
  find_inst h (w_insts w) = Some s -> i_samples s = sn :: rest -> zlen (i_samples s) = d ->
  snd (ent_write (pop_front w h) h ts now slot) = 0.
Proof.
  intros L (Hc & Hm & Hms) Hq Hf Hs Hd.
  rewrite ent_write_refused_iff.
  destruct (pop_front_spec w h) as ([_ _ Fq] & _ & _ & Sh).
  assert (Hh : has_inst h (w_insts (pop_front w h)) = true).
  { rewrite Sh. apply has_inst_find. eauto. }
  unfold would_exceed. rewrite Fq, Hh, Hq. cbn [negb andb orb].
  assert (M : match q_mspi (w_qos w) with
              | Some m => if wrap_i32 d <=? m then false
                          else usize_of_i32 m <=? zlen (samples_of h (w_insts (pop_front w h)))
              | None => false end = false).
  { destruct (q_mspi (w_qos w)) as [m|] eqn:Em; [|reflexivity].
    destruct (Hm m eq_refl) as [Hm0 Hm1].
    unfold qos_consistent in Hc. rewrite Hq, Em in Hc. apply andb_true_iff in Hc. destruct Hc as [_ Hc].
    apply negb_true_iff, Z.ltb_ge in Hc. rewrite usize_nonneg in Hc by exact Hm0.
    assert (Hd0 : 0 <= d) by (rewrite <- Hd; apply zlen_nonneg).
    assert (W : wrap_i32 d = d).
    { unfold wrap_i32, two32. unfold i32_max in Hm1. rewrite Z.mod_small by lia. lia. }
    rewrite W. destruct (d <=? m) eqn:E; [reflexivity|apply Z.leb_gt in E; lia]. }
  rewrite M. cbn [orb].
  destruct (q_max_samples (w_qos w)) as [ms|] eqn:Ems; [|reflexivity].
  specialize (Hms ms eq_refl).
  rewrite (pop_front_total w h s sn rest Hf Hs).
  destruct L as [_ Lt _]. unfold opt_le, nonneg_lim in Lt. rewrite Ems in Lt.
  destruct (0 <=? ms) eqn:E0; [|apply Z.leb_gt in E0; lia].
  rewrite usize_nonneg by exact Hms.
  destruct (ms <=? total_samples (w_insts w) - 1) eqn:E; [apply Z.leb_le in E; lia|reflexivity].
Qed.

Lemma svc_write_refused_stores_nothing now w slot k ts w' :
  Lim w -> qos_wf (w_qos w) ->
  svc_write now w slot k ts = (w', RErr E_OUT_OF_RESOURCES) ->
  w_changes w' = w_changes w /\ w_last_sn w' = w_last_sn w /\
  (forall x, samples_of x (w_insts w') = samples_of x (w_insts w)) /\
  w_pending w' = w_pending w /\
  (has_inst (hof w k) (w_insts w) = true -> w' = w).
Proof.
  intros L WF H. unfold svc_write in H.
  destruct (w_enabled w); cbn [negb] in H; [|discriminate].
  set (h := hof w k) in *.
  assert (DIRECT : (let '(w'', c) := ent_write w h ts now slot in (w'', rsl_of_code c)) = (w', RErr E_OUT_OF_RESOURCES) ->
     w_changes w' = w_changes w /\ w_last_sn w' = w_last_sn w /\
     (forall x, samples_of x (w_insts w') = samples_of x (w_insts w)) /\
     w_pending w' = w_pending w /\ (has_inst h (w_insts w) = true -> w' = w)).
  { destruct (ent_write w h ts now slot) as [w'' c] eqn:E. intros [= <- Hc].
    assert (c <> 0) by (intros ->; discriminate).
    destruct (ent_write_refused_stores_nothing _ _ _ _ _ _ _ E H0) as (A & B & C & _ & _ & P & S).
    repeat split; auto. }
  destruct (q_hist (w_qos w)) as [|d] eqn:Hq; [exact (DIRECT H)|].
  destruct (smallest_full d h (w_insts w)) as [sn|] eqn:Es; [|exact (DIRECT H)].
  destruct (smallest_full_inv _ _ _ _ Es) as (s & rest & Hf & Hs & Hd).
  destruct (q_reliable (w_qos w) && negb (acked w sn)).
  - destruct (w_pending w); discriminate.
  - exfalso. pose proof (no_refusal_after_pop w h d s sn rest ts now slot L WF Hq Hf Hs Hd) as N.
    destruct (ent_write (pop_front w h) h ts now slot) as [w'' c]. cbn [snd] in N. subst c.
    discriminate.
Qed.

(* ------------------------------------------------------------ witnesses *)
Definition q_plain : qos := mkQos KeepAll true None None None None (Some 100000000) true.
Definition ev0 (o : op) : ev := mkEv 1000000000 o.

(* D31: after unregister_instance the instance is still found, and can be unregistered again *)
Lemma lookup_after_unregister_refuted :
  let evs := [ev0 (ORegister 1 0); ev0 (OUnregister 1 0)] in
  let w := fst (run (init true true q_plain) evs) in
  let g := c28_ghost true (mkG true [] [] []) (model_trace (init true true q_plain) evs) in
  mem 1 (g_reg g) = false /\ svc_lookup w 1 = RHandle (Some 1) /\
  snd (svc_unregister w 1 0) = ROk /\ snd (svc_dispose w 1 0) = ROk.
Proof. vm_compute. repeat split. Qed.

(* a write refused with OutOfResources registers its instance *)
Definition q_tight : qos := mkQos KeepAll true (Some 1) (Some 2) (Some 1) None (Some 100000000) true.
Lemma refused_write_registers_instance :
  let w := fst (run (init true true q_tight) [ev0 (OWrite 0 1 0)]) in
  let '(w', r) := svc_write 1000000000 w 1 2 0 in
  svc_lookup w 2 = RHandle None /\ r = RErr E_OUT_OF_RESOURCES /\
  svc_lookup w' 2 = RHandle (Some 2) /\ w_changes w' = w_changes w.
Proof. vm_compute. repeat split. Qed.

(* ------------------------------------- the statements in their published form *)
Lemma register_forever keyed enabled q evs0 k ts0 evs ts :
  let w0 := fst (run (init keyed enabled q) evs0) in
  forall w1, svc_register w0 k ts0 = (w1, RHandle (Some k)) ->
  snd (svc_register (fst (run w1 evs)) k ts) = RHandle (Some k).
Proof.
  intros w0 w1 H.
  destruct (run_flags evs0 (init keyed enabled q) (pend_ok_init _ _ _)) as (K0 & _ & P0 & _ & _).
  fold w0 in K0, P0.
  assert (A : pend_ok w1 /\ w_enabled w1 = true /\ w_keyed w1 = true /\ has_inst k (w_insts w1) = true).
  { unfold svc_register in H.
    destruct (w_enabled w0) eqn:En; cbn [negb] in H; [|discriminate].
    destruct (w_keyed w0) eqn:Ek; cbn [negb] in H; [|discriminate].
    assert (Hk : hof w0 k = k) by (unfold hof; now rewrite Ek). rewrite Hk in H.
    destruct (has_inst k (w_insts w0)) eqn:Eh.
    - injection H as <-. wsimpl. repeat split; auto.
      + intros p Hp. wsimpl in Hp. unfold hof. wsimpl. rewrite has_inst_upd by reflexivity. now apply P0.
      + now rewrite has_inst_upd.
    - destruct (len_lt _ _); [|discriminate]. injection H as <-. wsimpl. repeat split; auto.
      + intros p Hp. wsimpl in Hp. unfold hof. wsimpl. rewrite has_inst_app. apply orb_true_iff. left. now apply P0.
      + rewrite has_inst_app. cbn [i_h]. rewrite Z.eqb_refl. apply orb_true_r. }
  destruct A as (P1 & E1 & K1 & H1). now apply register_stays.
Qed.

Lemma keyless_after enabled q evs k ts :
  let w := fst (run (init false enabled q) evs) in
  w_enabled w = true ->
  svc_register w k ts = (w, RErr E_ILLEGAL_OPERATION) /\
  svc_unregister w k ts = (w, RErr E_ILLEGAL_OPERATION) /\
  svc_dispose w k ts = (w, RErr E_ILLEGAL_OPERATION).
Proof.
  intros w En. apply keyless_illegal_operation; [exact En|].
  apply (proj1 (flags_after false enabled q evs)).
Qed.

Lemma not_enabled_before_enable keyed q evs now slot k ts :
  (forall e, In e evs -> e_op e <> OEnable) ->
  let w := fst (run (init keyed false q) evs) in
  svc_register w k ts = (w, RErr E_NOT_ENABLED) /\
  svc_unregister w k ts = (w, RErr E_NOT_ENABLED) /\
  svc_dispose w k ts = (w, RErr E_NOT_ENABLED) /\
  svc_lookup w k = RErr E_NOT_ENABLED /\
  svc_write now w slot k ts = (w, RErr E_NOT_ENABLED).
Proof.
  intros Hn w. apply not_enabled_everywhere.
  destruct (flags_after keyed false q evs) as [_ E]. fold w in E. rewrite E. cbn [orb].
  destruct (existsb _ evs) eqn:Ex; [|reflexivity].
  apply existsb_exists in Ex. destruct Ex as (e & He & Hop).
  specialize (Hn e He). destruct (e_op e); congruence.
Qed.

Lemma qos_after keyed enabled q evs : w_qos (fst (run (init keyed enabled q) evs)) = q.
Proof. destruct (run_flags evs (init keyed enabled q) (pend_ok_init _ _ _)) as (_ & Q & _). exact Q. Qed.

Lemma svc_write_refused_after_trace keyed enabled q evs now slot k ts w' :
  qos_consistent q = true ->
  (forall m, q_mspi q = Some m -> 0 <= m <= i32_max) ->
  (forall ms, q_max_samples q = Some ms -> 0 <= ms) ->
  let w := fst (run (init keyed enabled q) evs) in
  svc_write now w slot k ts = (w', RErr E_OUT_OF_RESOURCES) ->
  w_changes w' = w_changes w /\ w_last_sn w' = w_last_sn w /\
  (forall x, samples_of x (w_insts w') = samples_of x (w_insts w)) /\
  w_pending w' = w_pending w /\
  (has_inst (hof w k) (w_insts w) = true -> w' = w).
Proof.
  intros Hc Hm Hms w H. apply (svc_write_refused_stores_nothing now w slot k ts w'); auto.
  - apply limits_invariant.
  - unfold qos_wf, w. rewrite qos_after. auto.
Qed.

Lemma limits_after_trace keyed enabled q evs :
  let w := fst (run (init keyed enabled q) evs) in
  (forall i, In i (w_insts w) -> opt_le (zlen (i_samples i)) (inst_bound q)) /\
  opt_le (total_samples (w_insts w)) (nonneg_lim (q_max_samples q)) /\
  opt_le (zlen (w_insts w)) (nonneg_lim (q_max_instances q)).
Proof.
  intros w. destruct (limits_invariant keyed enabled q evs) as [A B C]. fold w in A, B, C.
  unfold w in *. rewrite qos_after in *. auto.
Qed.
