(* C28: the instance-management calls of the data writer honour their documented contract
   for every sequence of events, outside two recorded classes (which are witnessed). *)
From DustDDS Require Import Base.Machine WriterHist.WriterModel WriterHist.WriterFacts WriterHist.WriterCorr.
Open Scope Z_scope.

(* ------------------------------------------------------------ finite sets *)
Lemma mem_add h x l : mem h (add x l) = (h =? x) || mem h l.
Proof.
  unfold add. destruct (mem x l) eqn:E.
  - destruct (h =? x) eqn:Ex; [|reflexivity]. apply Z.eqb_eq in Ex. subst. now rewrite E.
  - unfold mem. cbn [existsb]. reflexivity.
Qed.
Lemma mem_rem h x l : mem h (rem x l) = negb (h =? x) && mem h l.
Proof.
  unfold mem, rem. induction l as [|y t IH]; cbn [filter existsb]; [now rewrite andb_false_r|].
  destruct (y =? x) eqn:Ey; cbn [negb].
  - rewrite IH. apply Z.eqb_eq in Ey. subst y.
    destruct (h =? x) eqn:Eh; cbn [negb andb orb]; reflexivity.
  - cbn [existsb]. rewrite IH. destruct (h =? y) eqn:Ehy; cbn [orb].
    + apply Z.eqb_eq in Ehy. subst y. rewrite Z.eqb_sym in Ey. now rewrite Ey.
    + reflexivity.
Qed.

(* ---------------------------------------------------------- the invariant *)
Record Inv (keyed : bool) (w : writer) (g : ghost) : Prop := mkInv {
  inv_keyed : w_keyed w = keyed;
  inv_en : g_en g = w_enabled w;
  inv_reg : forall h, mem h (g_reg g) = true -> has_inst h (w_insts w) = true;
  inv_cover : forall h, has_inst h (w_insts w) = true ->
                        mem h (g_reg g) || mem h (g_st1 g) || mem h (g_st2 g) = true;
  inv_pend : pend_ok w
}.

Lemma Inv_init keyed en q : Inv keyed (init keyed en q) (mkG en [] [] []).
Proof. constructor; cbn; auto; try discriminate. intros p; discriminate. Qed.

(* transformations that change neither the instance handles nor the flags *)
Lemma Inv_silent keyed w w' g :
  same_frame w w' -> hsame w w' -> pend_ok w' -> Inv keyed w g -> Inv keyed w' g.
Proof.
  intros F S P [Ik Ie Ir Ic _]. destruct F as [Fe Fk _ _].
  constructor; try congruence.
  - intros h Hh. rewrite S. auto.
  - intros h Hh. rewrite S in Hh. auto.
  - exact P.
Qed.

Lemma khandle_hof keyed w k : w_keyed w = keyed -> khandle keyed k = hof w k.
Proof. intros <-. reflexivity. Qed.

Lemma cover_class keyed g o k :
  op_key o = Some k ->
  mem (khandle keyed k) (g_reg g) = false ->
  mem (khandle keyed k) (g_reg g) || mem (khandle keyed k) (g_st1 g) || mem (khandle keyed k) (g_st2 g) = true ->
  c28_class keyed g o <> 0%N.
Proof.
  intros Ho Hr Hc. unfold c28_class. rewrite Ho. rewrite Hr in Hc. cbn [orb] in Hc.
  destruct (mem (khandle keyed k) (g_st1 g)); [discriminate|].
  cbn [orb] in Hc. rewrite Hc. discriminate.
Qed.

Lemma rsl_eqb_refl r : rsl_eqb r r = true.
Proof. destruct r as [|c|[h|]|]; cbn; auto using Z.eqb_refl. Qed.

(* the ghost after a successful register / write of handle h *)
Lemma Inv_registered keyed w w' g h :
  Inv keyed w g -> same_frame w w' -> hmono w w' -> hsub w w' h ->
  has_inst h (w_insts w') = true -> pend_ok w' ->
  Inv keyed w' (mkG (g_en g) (add h (g_reg g)) (rem h (g_st1 g)) (rem h (g_st2 g))).
Proof.
  intros [Ik Ie Ir Ic _] [Fe Fk _ _] M S Hh P.
  constructor; cbn [g_en g_reg g_st1 g_st2]; try congruence.
  - intros x. rewrite mem_add. intros Hx. apply orb_true_iff in Hx.
    destruct Hx as [Hx|Hx]; [apply Z.eqb_eq in Hx; now subst|auto].
  - intros x Hx. rewrite mem_add, !mem_rem.
    destruct (x =? h) eqn:E; [reflexivity|]. cbn [negb andb orb].
    destruct (S x Hx) as [Hb|Hb]; [auto|]. apply Z.eqb_neq in E. contradiction.
  - exact P.
Qed.

(* ------------------------------------------------------- one mail, one reply *)
Lemma apply_op_ok keyed now w g o w' imm d :
  Inv keyed w g -> apply_op now w o = (w', imm, d) ->
  (c28_check keyed g o imm = true \/ c28_class keyed g o <> 0%N) /\
  Inv keyed w' (c28_next keyed g o imm).
Proof.
  intros I H. pose proof I as [Ik Ie Ir Ic Ip].
  destruct o as [|k ts|k ts|k ts|k|slot k ts|r base count|r rel|r|]; cbn [apply_op] in H.
  - (* enable *)
    injection H as <- <- <-. split; [left; reflexivity|]. cbn [c28_next].
    constructor; cbn [g_en g_reg g_st1 g_st2]; wsimpl; auto.
  - (* register *)
    destruct (svc_register w k ts) as [w1 r] eqn:E. injection H as <- <- <-.
    unfold svc_register in E. cbn [c28_check c28_next].
    rewrite Ie. destruct (w_enabled w) eqn:En; cbn [negb] in *.
    2:{ injection E as <- <-. split; [left; apply rsl_eqb_refl|exact I]. }
    rewrite <- Ik. destruct (w_keyed w) eqn:Ek; cbn [negb] in *.
    2:{ injection E as <- <-. split; [left; apply rsl_eqb_refl|exact I]. }
    assert (Hk : hof w k = k) by (unfold hof; now rewrite Ek).
    rewrite Hk in E.
    assert (Kh : khandle keyed k = k) by (rewrite <- Ik; reflexivity).
    destruct (has_inst k (w_insts w)) eqn:Eh.
    + injection E as <- <-. split; [left; cbn; now rewrite Z.eqb_refl|].
      rewrite <- Ik, Ek in *. cbn [khandle].
      apply Inv_registered with (w := w); auto.
      * constructor; reflexivity.
      * intros x Hx. wsimpl. now rewrite has_inst_upd.
      * intros x Hx. wsimpl in Hx. rewrite has_inst_upd in Hx by reflexivity. now left.
      * wsimpl. now rewrite has_inst_upd.
      * intros p Hp. wsimpl in Hp. unfold hof. wsimpl. rewrite has_inst_upd by reflexivity.
        apply Ip. exact Hp.
    + destruct (len_lt (zlen (w_insts w)) (q_max_instances (w_qos w))).
      * injection E as <- <-. split; [left; cbn; now rewrite Z.eqb_refl|].
        rewrite <- Ik, Ek in *. cbn [khandle].
        apply Inv_registered with (w := w); auto.
        -- constructor; reflexivity.
        -- intros x Hx. wsimpl. rewrite has_inst_app, Hx. reflexivity.
        -- intros x Hx. wsimpl in Hx. rewrite has_inst_app in Hx. cbn [i_h] in Hx.
           apply orb_true_iff in Hx. destruct Hx as [Hx|Hx]; [now left|right].
           apply Z.eqb_eq in Hx. congruence.
        -- wsimpl. rewrite has_inst_app. cbn [i_h]. rewrite Z.eqb_refl. apply orb_true_r.
        -- intros p Hp. wsimpl in Hp. unfold hof. wsimpl. rewrite has_inst_app.
           apply orb_true_iff. left. apply Ip. exact Hp.
      * injection E as <- <-. split; [|exact I]. left.
        assert (Hm : mem k (g_reg g) = false).
        { destruct (mem k (g_reg g)) eqn:Em; [|reflexivity]. apply Ir in Em. congruence. }
        rewrite Hm. cbn. reflexivity.
  - (* unregister *)
    destruct (svc_unregister w k ts) as [w1 r] eqn:E. injection H as <- <- <-.
    unfold svc_unregister, svc_unreg_or_dispose in E. cbn [c28_check c28_next].
    rewrite Ie. destruct (w_enabled w) eqn:En; cbn [negb] in *.
    2:{ injection E as <- <-. split; [left; apply rsl_eqb_refl|exact I]. }
    rewrite <- Ik. destruct (w_keyed w) eqn:Ek; cbn [negb] in *.
    2:{ injection E as <- <-. split; [left; apply rsl_eqb_refl|exact I]. }
    assert (Hk : hof w k = k) by (unfold hof; now rewrite Ek).
    rewrite Hk in E.
    destruct (has_inst k (w_insts w)) eqn:Eh.
    + injection E as <- <-. split.
      * destruct (mem k (g_reg g)) eqn:Em; [left; reflexivity|right].
        apply cover_class with (k := k); [reflexivity| |]; rewrite <- Ik, Ek; cbn [khandle]; auto.
      * rewrite <- Ik, Ek. cbn [khandle].
        constructor; cbn [g_en g_reg g_st1 g_st2]; wsimpl; auto.
        -- intros x. rewrite mem_rem. intros Hx. apply andb_true_iff in Hx.
           rewrite has_inst_upd by reflexivity. apply Ir. tauto.
        -- intros x. rewrite has_inst_upd by reflexivity. intros Hx.
           rewrite mem_rem, mem_add, mem_rem.
           destruct (x =? k) eqn:Ex; cbn [negb andb orb]; [apply orb_true_r|].
           apply Ic in Hx. exact Hx.
        -- intros p Hp. wsimpl in Hp. unfold hof. wsimpl. rewrite has_inst_upd by reflexivity.
           apply Ip. exact Hp.
    + injection E as <- <-. split; [|exact I]. left.
      assert (Hm : mem k (g_reg g) = false).
      { destruct (mem k (g_reg g)) eqn:Em; [|reflexivity]. apply Ir in Em. congruence. }
      rewrite Hm. reflexivity.
  - (* dispose *)
    destruct (svc_dispose w k ts) as [w1 r] eqn:E. injection H as <- <- <-.
    unfold svc_dispose, svc_unreg_or_dispose in E. cbn [c28_check c28_next].
    rewrite Ie. destruct (w_enabled w) eqn:En; cbn [negb] in *.
    2:{ injection E as <- <-. split; [left; apply rsl_eqb_refl|exact I]. }
    rewrite <- Ik. destruct (w_keyed w) eqn:Ek; cbn [negb] in *.
    2:{ injection E as <- <-. split; [left; apply rsl_eqb_refl|exact I]. }
    assert (Hk : hof w k = k) by (unfold hof; now rewrite Ek).
    rewrite Hk in E.
    destruct (has_inst k (w_insts w)) eqn:Eh.
    + injection E as <- <-. split.
      * destruct (mem k (g_reg g)) eqn:Em; [left; reflexivity|right].
        apply cover_class with (k := k); [reflexivity| |]; rewrite <- Ik, Ek; cbn [khandle]; auto.
      * apply Inv_silent with (w := w); auto.
        -- constructor; reflexivity.
        -- intros x. wsimpl. now rewrite has_inst_upd.
        -- intros p Hp. wsimpl in Hp. unfold hof. wsimpl. rewrite has_inst_upd by reflexivity.
           apply Ip. exact Hp.
    + injection E as <- <-. split; [|exact I]. left.
      assert (Hm : mem k (g_reg g) = false).
      { destruct (mem k (g_reg g)) eqn:Em; [|reflexivity]. apply Ir in Em. congruence. }
      rewrite Hm. reflexivity.
  - (* lookup *)
    injection H as <- <- <-. split; [|exact I].
    unfold svc_lookup. cbn [c28_check]. rewrite Ie.
    destruct (w_enabled w); cbn [negb]; [|left; apply rsl_eqb_refl].
    rewrite (khandle_hof keyed w k Ik). set (h := hof w k).
    destruct (has_inst h (w_insts w)) eqn:Eh, (mem h (g_reg g)) eqn:Em.
    + left. apply rsl_eqb_refl.
    + right. apply cover_class with (k := k); [reflexivity| |];
        rewrite (khandle_hof keyed w k Ik); fold h; auto.
    + apply Ir in Em. congruence.
    + left. apply rsl_eqb_refl.
  - (* write *)
    destruct (svc_write now w slot k ts) as [w1 r] eqn:E. injection H as <- <- <-.
    destruct (svc_write_spec _ _ _ _ _ _ _ E) as (F & M & S & Hok & Hne & Hen & Hp & Hsame).
    cbn [c28_check]. rewrite Ie. rewrite (khandle_hof keyed w k Ik) in *.
    split.
    + left. destruct (w_enabled w) eqn:En; cbn [negb].
      * destruct (Hen eq_refl) as [-> | [-> | [-> | ->]]]; reflexivity.
      * destruct (Hne eq_refl) as [-> _]. reflexivity.
    + cbn [c28_next]. rewrite (khandle_hof keyed w k Ik). set (h := hof w k) in *.
      assert (SILENT : w_insts w1 = w_insts w -> Inv keyed w1 g).
      { intros Hs. apply Inv_silent with (w := w); auto. intros x. now rewrite Hs. }
      destruct r as [|c|hh|].
      * apply Inv_registered with (w := w); auto.
      * destruct ((c =? E_OUT_OF_RESOURCES) && negb (mem h (g_reg g)) && negb (mem h (g_st1 g))) eqn:Ec.
        -- apply andb_true_iff in Ec. destruct Ec as [Ec E3]. apply andb_true_iff in Ec.
           destruct Ec as [E1 E2]. destruct F as [Fe Fk _ _].
           constructor; cbn [g_en g_reg g_st1 g_st2]; try congruence; auto.
           intros x Hx. rewrite mem_add. destruct (S x Hx) as [Hb| ->].
           ++ apply Ic in Hb. apply orb_true_iff in Hb. destruct Hb as [Hb|Hb].
              ** rewrite Hb. reflexivity.
              ** rewrite Hb. rewrite !orb_true_r. reflexivity.
           ++ rewrite Z.eqb_refl. cbn [orb]. apply orb_true_r.
        -- destruct (c =? E_OUT_OF_RESOURCES) eqn:E5.
           ++ (* refused, but the handle is already known to the ghost *)
              cbn [andb] in Ec. destruct F as [Fe Fk _ _].
              constructor; try congruence; auto.
              intros x Hx. destruct (S x Hx) as [Hb| ->]; [auto|].
              apply andb_false_iff in Ec. destruct Ec as [Ec|Ec]; apply negb_false_iff in Ec; rewrite Ec;
                [reflexivity|rewrite orb_true_r; reflexivity].
           ++ apply SILENT. apply Hsame; [discriminate|]. intros [= ->]. discriminate.
      * apply SILENT. apply Hsame; discriminate.
      * apply SILENT. apply Hsame; discriminate.
  - (* acknack *)
    destruct (process_pending now _) as [w1 dd] eqn:E. injection H as <- <- <-.
    split; [left; reflexivity|]. cbn [c28_next].
    set (w0 := set_proxies w (on_acknack r base count (w_proxies w))) in *.
    assert (P0 : pend_ok w0) by (intros p Hp; apply Ip; exact Hp).
    destruct (process_pending_spec _ _ _ _ E P0) as (F & S & Pd).
    assert (I0 : Inv keyed w0 g).
    { apply Inv_silent with (w := w); auto; [constructor; reflexivity|apply hsame_refl]. }
    apply Inv_silent with (w := w0); auto.
    intros p Hp. destruct Pd as [Pd|Pd]; [|congruence].
    rewrite (hof_frame _ _ _ F), S. apply P0. congruence.
  - injection H as <- <- <-. split; [left; reflexivity|]. cbn [c28_next].
    apply Inv_silent with (w := w); auto; [constructor; reflexivity|apply hsame_refl|].
    intros p Hp; apply Ip; exact Hp.
  - injection H as <- <- <-. split; [left; reflexivity|]. cbn [c28_next].
    apply Inv_silent with (w := w); auto; [constructor; reflexivity|apply hsame_refl|].
    intros p Hp; apply Ip; exact Hp.
  - injection H as <- <- <-. split; [left; reflexivity|exact I].
Qed.
