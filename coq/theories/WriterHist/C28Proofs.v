(* C28: the instance-management calls of the data writer honour their documented contract
   for every sequence of events. *)
From DustDDS Require Import Base.Machine WriterHist.WriterModel WriterHist.WriterFacts WriterHist.WriterCorr
  WriterHist.WriterLimits WriterHist.WriterReg.
Open Scope Z_scope.

(* ------------------------------------------------------------ finite sets *)
Lemma mem_add h x l : mem h (add x l) = (h =? x) || mem h l.
Proof.
  unfold add. destruct (mem x l) eqn:E.
  - destruct (h =? x) eqn:Ex; [|reflexivity]. apply Z.eqb_eq in Ex. subst. now rewrite E.
  - unfold mem. cbn [existsb]. reflexivity.
Qed.
Lemma mem_rem h x l : mem h (rem x l) = negb (h =? x) && mem h l.
Proof.
  unfold mem, rem. induction l as [|y t IH]; cbn [filter existsb]; [now rewrite andb_false_r|].
  destruct (y =? x) eqn:Ey; cbn [negb].
  - rewrite IH. apply Z.eqb_eq in Ey. subst y.
    destruct (h =? x) eqn:Eh; cbn [negb andb orb]; reflexivity.
  - cbn [existsb]. rewrite IH. destruct (h =? y) eqn:Ehy; cbn [orb].
    + apply Z.eqb_eq in Ehy. subst y. now rewrite Ey.
    + reflexivity.
Qed.

(* ---------------------------------------------------------- the invariant *)
(* the specification-level state agrees with the `registered` flags and the pending slot *)
Record Inv (keyed : bool) (w : writer) (g : ghost) : Prop := mkInv {
  inv_keyed : w_keyed w = keyed;
  inv_en : g_en g = w_enabled w;
  inv_nodup : hnodup (w_insts w);
  inv_reg : forall h, mem h (g_reg g) = is_reg h (w_insts w);
  inv_park : g_park g = option_map (fun p => hof w (pd_key p)) (w_pending w);
  inv_pend : pend_ok w
}.

Lemma Inv_init keyed en q : Inv keyed (init keyed en q) (mkG en [] None).
Proof. constructor; cbn; auto; try constructor. intros p; discriminate. Qed.

Lemma khandle_hof keyed w k : w_keyed w = keyed -> khandle keyed k = hof w k.
Proof. intros <-. reflexivity. Qed.

Lemma rsl_eqb_refl r : rsl_eqb r r = true.
Proof. destruct r as [|c|[h|]|]; cbn; auto using Z.eqb_refl. Qed.
Lemma rsl_eqb_eq a b : rsl_eqb a b = true -> a = b.
Proof.
  destruct a as [|x|[x|]|], b as [|y|[y|]|]; cbn; try discriminate; auto;
    intros H; apply Z.eqb_eq in H; congruence.
Qed.

(* generic re-establishment of the invariant *)
Lemma Inv_intro keyed w w' g g' :
  Inv keyed w g ->
  w_keyed w' = w_keyed w -> g_en g' = w_enabled w' -> hnodup (w_insts w') ->
  (forall h, mem h (g_reg g') = is_reg h (w_insts w')) ->
  g_park g' = option_map (fun p => hof w (pd_key p)) (w_pending w') ->
  pend_ok w' -> Inv keyed w' g'.
Proof.
  intros [Ik _ _ _ _ _] Hk He Hn Hr Hp Hpo. constructor; auto; [congruence|].
  rewrite Hp. destruct (w_pending w'); [|reflexivity]. cbn [option_map]. unfold hof. now rewrite Hk.
Qed.

(* ------------------------------------------------ completions of the parked write *)
Lemma Inv_check_timeout keyed now w w' g d :
  Inv keyed w g -> check_timeout now w = (w', d) ->
  Inv keyed w' (fold_left g_complete d g) /\
  (d = [] \/ exists s e, d = [(s, E_TIMEOUT, e)] /\ g_park g <> None /\ w_pending w' = None).
Proof.
  intros I H. pose proof I as [Ik Ie In Ir Ip Ipo].
  destruct (check_timeout_reg _ _ _ _ H) as (Hi & Hen & Hk & [[-> Hp]|(p & e & Hp & -> & Hp')]).
  - split; [|now left]. cbn [fold_left].
    refine (Inv_intro keyed w w' g g I Hk _ _ _ _ _).
    + congruence.
    + now rewrite Hi.
    + intros h. now rewrite Hi.
    + now rewrite Hp.
    + intros q Hq. rewrite Hi. unfold hof. rewrite Hk. apply Ipo. congruence.
  - split; [|right; exists (pd_slot p), e; repeat split; auto; rewrite Ip, Hp; discriminate].
    cbn [fold_left g_complete]. rewrite Ip, Hp. cbn [option_map].
    replace (E_TIMEOUT =? 0) with false by reflexivity.
    refine (Inv_intro keyed w w' g _ I Hk _ _ _ _ _); cbn [g_en g_reg g_park].
    + congruence.
    + now rewrite Hi.
    + intros h. now rewrite Hi.
    + now rewrite Hp'.
    + intros q Hq. congruence.
Qed.

Lemma Inv_process_pending keyed now w w' g d :
  Inv keyed w g -> process_pending now w = (w', d) ->
  Inv keyed w' (fold_left g_complete d g) /\ (g_park g = None -> d = []).
Proof.
  intros I H. pose proof I as [Ik Ie In Ir Ip Ipo].
  destruct (process_pending_spec _ _ _ _ H Ipo) as ([Fe Fk _] & S & _).
  destruct (process_pending_reg _ _ _ _ H In) as (N' & [(-> & Hp & Sr)|(p & c & Hp & -> & Hp' & Hr)]).
  - split; [|auto]. cbn [fold_left].
    refine (Inv_intro keyed w w' g g I Fk _ N' _ _ _).
    + congruence.
    + intros h. now rewrite Sr.
    + now rewrite Hp.
    + intros q Hq. unfold hof. rewrite Fk. rewrite S. apply Ipo. congruence.
  - split; [|rewrite Ip, Hp; discriminate].
    cbn [fold_left g_complete]. rewrite Ip, Hp. cbn [option_map].
    refine (Inv_intro keyed w w' g _ I Fk _ N' _ _ _); cbn [g_en g_reg g_park].
    + congruence.
    + intros h. rewrite Hr. destruct (c =? 0); cbn [andb orb]; [rewrite mem_add, Ir; reflexivity|apply Ir].
    + now rewrite Hp'.
    + intros q Hq. congruence.
Qed.

(* ------------------------------------------------------- one mail, one reply *)
Lemma negb_en keyed w g : Inv keyed w g -> negb (g_en g) = negb (w_enabled w).
Proof. intros I. now rewrite (inv_en _ _ _ I). Qed.

Lemma apply_op_ok keyed now w g o w' imm d :
  Inv keyed w g -> apply_op now w o = (w', imm, d) ->
  c28_check keyed g o imm = true /\
  Inv keyed w' (fold_left g_complete d (g_call keyed g o imm)) /\
  (imm = Some RBlocked -> g_park g = None).
Proof.
  intros I H. pose proof I as [Ik Ie In Ir Ip Ipo].
  assert (NB : forall r : rsl, r <> RBlocked -> Some r = Some RBlocked -> g_park g = None)
    by (intros r Hr [= ->]; contradiction).
  destruct o as [|k ts|k ts|k ts|k|slot k ts|r base count|r rel|r|]; cbn [apply_op] in H.
  - (* enable *)
    injection H as <- <- <-. cbn [fold_left g_call c28_check]. split; [reflexivity|]. split; [|discriminate].
    apply (Inv_intro _ w _ g _ I); cbn [g_en g_reg g_park]; wsimpl; auto; try congruence.
  - (* register *)
    destruct (svc_register w k ts) as [w1 r] eqn:E. injection H as <- <- <-.
    unfold svc_register in E. cbn [c28_check fold_left]. rewrite (negb_en _ _ _ I).
    destruct (w_enabled w) eqn:En; cbn [negb] in *.
    2:{ injection E as <- <-. split; [apply rsl_eqb_refl|]. split; [exact I|discriminate]. }
    destruct keyed; rewrite Ik in E; cbn [negb] in *.
    2:{ injection E as <- <-. split; [apply rsl_eqb_refl|]. split; [exact I|discriminate]. }
    assert (Hk : hof w k = k) by (unfold hof; now rewrite Ik). rewrite Hk in E.
    destruct (has_inst k (w_insts w)) eqn:Eh.
    + injection E as <- <-. split; [cbn; now rewrite Z.eqb_refl|]. split; [|discriminate].
      cbn [g_call khandle].
      apply (Inv_intro _ w _ g _ I); cbn [g_en g_reg g_park]; wsimpl; auto; try congruence.
      * unfold hnodup. now rewrite map_h_upd_inst.
      * intros h. rewrite mem_add, Ir. symmetry. apply is_reg_upd_set; [intros i; split; reflexivity|exact Eh].
      * intros p Hp. unfold hof. wsimpl. rewrite has_inst_upd by reflexivity. now apply Ipo.
    + destruct (len_lt (zlen (w_insts w)) (q_max_instances (w_qos w))).
      * injection E as <- <-. split; [cbn; now rewrite Z.eqb_refl|]. split; [|discriminate].
        cbn [g_call khandle].
        apply (Inv_intro _ w _ g _ I); cbn [g_en g_reg g_park]; wsimpl; auto; try congruence.
        -- now apply hnodup_push.
        -- intros h. rewrite mem_add, Ir, is_reg_app. cbn [i_h i_reg]. rewrite andb_true_r, orb_comm.
           now rewrite (Z.eqb_sym k h).
        -- intros p Hp. unfold hof. wsimpl. rewrite has_inst_app. apply orb_true_iff. left. now apply Ipo.
      * injection E as <- <-. split; [|split; [exact I|discriminate]].
        assert (Hm : mem k (g_reg g) = false).
        { rewrite Ir. destruct (is_reg k (w_insts w)) eqn:Em; [|reflexivity]. apply is_reg_has in Em. congruence. }
        rewrite Hm. cbn. reflexivity.
  - (* unregister *)
    destruct (svc_unregister w k ts) as [w1 r] eqn:E. injection H as <- <- <-.
    unfold svc_unregister, svc_unreg_or_dispose in E. cbn [c28_check fold_left]. rewrite (negb_en _ _ _ I).
    destruct (w_enabled w) eqn:En; cbn [negb] in *.
    2:{ injection E as <- <-. split; [apply rsl_eqb_refl|]. split; [exact I|discriminate]. }
    destruct keyed; rewrite Ik in E; cbn [negb] in *.
    2:{ injection E as <- <-. split; [apply rsl_eqb_refl|]. split; [exact I|discriminate]. }
    assert (Hk : hof w k = k) by (unfold hof; now rewrite Ik). rewrite Hk in E. rewrite Ir.
    destruct (is_reg k (w_insts w)) eqn:Eh; injection E as <- <-.
    + split; [reflexivity|]. split; [|discriminate]. cbn [g_call khandle].
      apply (Inv_intro _ w _ g _ I); cbn [g_en g_reg g_park]; wsimpl; auto; try congruence.
      * unfold hnodup. now rewrite map_h_upd_reg.
      * intros h. rewrite mem_rem, Ir. symmetry. apply is_reg_updreg_clear; [intros i; split; reflexivity|exact In].
      * intros p Hp. unfold hof. wsimpl. rewrite has_inst_in, map_h_upd_reg by reflexivity.
        apply has_inst_in. now apply Ipo.
    + split; [reflexivity|]. split; [exact I|discriminate].
  - (* dispose *)
    destruct (svc_dispose w k ts) as [w1 r] eqn:E. injection H as <- <- <-.
    unfold svc_dispose, svc_unreg_or_dispose in E. cbn [c28_check fold_left]. rewrite (negb_en _ _ _ I).
    destruct (w_enabled w) eqn:En; cbn [negb] in *.
    2:{ injection E as <- <-. split; [apply rsl_eqb_refl|]. split; [exact I|discriminate]. }
    destruct keyed; rewrite Ik in E; cbn [negb] in *.
    2:{ injection E as <- <-. split; [apply rsl_eqb_refl|]. split; [exact I|discriminate]. }
    assert (Hk : hof w k = k) by (unfold hof; now rewrite Ik). rewrite Hk in E. rewrite Ir.
    destruct (is_reg k (w_insts w)) eqn:Eh; injection E as <- <-.
    + split; [reflexivity|]. split; [|discriminate]. cbn [g_call].
      apply (Inv_intro _ w _ g _ I); wsimpl; auto; try congruence.
      * unfold hnodup. now rewrite map_h_upd_reg.
      * intros h. rewrite Ir. symmetry. apply is_reg_updreg_keep. intros i Hi. rewrite Hi. split; reflexivity.
      * intros p Hp. unfold hof. wsimpl. rewrite has_inst_in, map_h_upd_reg by reflexivity.
        apply has_inst_in. now apply Ipo.
    + split; [reflexivity|]. split; [exact I|discriminate].
  - (* lookup *)
    injection H as <- <- <-. cbn [fold_left g_call]. split; [|split; [exact I|]].
    2:{ intros [= Hx]. unfold svc_lookup in Hx. destruct (negb (w_enabled w)); discriminate. }
    unfold svc_lookup. cbn [c28_check]. rewrite (negb_en _ _ _ I).
    destruct (w_enabled w); cbn [negb]; [|apply rsl_eqb_refl].
    rewrite (khandle_hof keyed w k Ik), Ir. apply rsl_eqb_refl.
  - (* write *)
    destruct (svc_write now w slot k ts) as [w1 r] eqn:E. injection H as <- <- <-.
    destruct (svc_write_spec _ _ _ _ _ _ _ E) as ([Fe Fk _] & M & S & Hok & Hne & Hen & Hp & Hsame).
    destruct (svc_write_reg _ _ _ _ _ _ _ E In) as (N' & Rok & Rno & Pb & Pnb).
    cbn [c28_check fold_left]. rewrite (negb_en _ _ _ I). split.
    { destruct (w_enabled w) eqn:En; cbn [negb].
      - destruct (Hen eq_refl) as [-> | [-> | [-> | ->]]]; reflexivity.
      - destruct (Hne eq_refl) as [-> _]. reflexivity. }
    split.
    2:{ intros [= ->]. destruct (Pb eq_refl) as [Hpn _]. now rewrite Ip, Hpn. }
    destruct r as [|c|hh|]; cbn [g_call]; rewrite ?(khandle_hof keyed w k Ik).
    + refine (Inv_intro keyed w w1 g _ I Fk _ N' _ _ (Hp Ipo)); cbn [g_en g_reg g_park]; try congruence.
      * intros h. rewrite mem_add, Ir. symmetry. apply (Rok eq_refl).
      * rewrite Ip. f_equal. symmetry. apply Pnb. discriminate.
    + refine (Inv_intro keyed w w1 g _ I Fk _ N' _ _ (Hp Ipo)); try congruence.
      * intros h. rewrite Ir. symmetry. apply Rno. discriminate.
      * rewrite Ip. f_equal. symmetry. apply Pnb. discriminate.
    + refine (Inv_intro keyed w w1 g _ I Fk _ N' _ _ (Hp Ipo)); try congruence.
      * intros h. rewrite Ir. symmetry. apply Rno. discriminate.
      * rewrite Ip. f_equal. symmetry. apply Pnb. discriminate.
    + destruct (Pb eq_refl) as (Hpn & p & Hp1 & Hpk).
      refine (Inv_intro keyed w w1 g _ I Fk _ N' _ _ (Hp Ipo)); cbn [g_en g_reg g_park]; try congruence.
      * intros h. rewrite Ir. symmetry. apply Rno. discriminate.
      * rewrite Hp1. cbn [option_map]. now rewrite Hpk.
  - (* acknack *)
    destruct (process_pending now _) as [w1 dd] eqn:E. injection H as <- <- <-.
    split; [reflexivity|]. split; [|discriminate]. cbn [g_call].
    set (w0 := set_proxies w (on_acknack r base count (w_proxies w))) in *.
    assert (I0 : Inv keyed w0 g).
    { apply (Inv_intro keyed w w0 g g I); auto; intros p Hp; now apply Ipo. }
    apply (Inv_process_pending keyed now w0 w1 g dd I0 E).
  - injection H as <- <- <-. split; [reflexivity|]. split; [|discriminate]. cbn [fold_left g_call].
    apply (Inv_intro keyed w _ g g I); wsimpl; auto; intros p Hp; now apply Ipo.
  - injection H as <- <- <-. split; [reflexivity|]. split; [|discriminate]. cbn [fold_left g_call].
    apply (Inv_intro keyed w _ g g I); wsimpl; auto; intros p Hp; now apply Ipo.
  - injection H as <- <- <-. split; [reflexivity|]. split; [exact I|discriminate].
Qed.

(* ------------------------------------------------------------ one event *)
Lemma g_timeout g s e :
  g_complete g (s, E_TIMEOUT, e) = match g_park g with Some _ => mkG (g_en g) (g_reg g) None | None => g end.
Proof. unfold g_complete. destruct (g_park g); reflexivity. Qed.

Lemma g_call_commute keyed g o imm s e :
  imm <> Some RBlocked -> g_park g <> None ->
  g_call keyed (g_complete g (s, E_TIMEOUT, e)) o imm = g_complete (g_call keyed g o imm) (s, E_TIMEOUT, e).
Proof.
  intros Hb Hp. rewrite !g_timeout. destruct (g_park g) as [h|] eqn:Ep; [|contradiction].
  destruct o as [|k ts|k ts|k ts|k|slot k ts|r base count|r rel|r|]; cbn [g_call g_en g_reg g_park];
    try (destruct imm as [[|c|[hh|]|]|]; cbn [g_park g_en g_reg]; try rewrite Ep; try reflexivity; contradiction).
Qed.

Lemma check_timeout_indep keyed g o imm s e :
  c28_check keyed (g_complete g (s, E_TIMEOUT, e)) o imm = c28_check keyed g o imm.
Proof. rewrite g_timeout. destruct (g_park g); reflexivity. Qed.

Lemma step_ok keyed w g e w' o :
  Inv keyed w g -> step w e = (w', o) ->
  c28_check keyed g (e_op e) (o_imm o) = true /\ Inv keyed w' (c28_next keyed g (e_op e) o).
Proof.
  intros I H. unfold step in H.
  destruct (catch_up (e_now e) w) as [w0 d0] eqn:E0.
  destruct (apply_op (e_now e) w0 (e_op e)) as [[w1 imm] d1] eqn:E1.
  destruct (tail (e_now e) w1) as [w2 d2] eqn:E2.
  injection H as <- <-. cbn [o_imm o_done].
  unfold catch_up in E0. destruct (Inv_check_timeout _ _ _ _ _ _ I E0) as [I0 D0].
  destruct (apply_op_ok _ _ _ _ _ _ _ _ I0 E1) as (C & I1 & B1).
  (* the tail *)
  unfold tail in E2.
  destruct (check_timeout (e_now e) (remove_stale (e_now e) w1)) as [wa da] eqn:Ea.
  destruct (process_pending (e_now e) wa) as [wb db] eqn:Eb. injection E2 as <- <-.
  set (g1 := fold_left g_complete d1 (g_call keyed (fold_left g_complete d0 g) (e_op e) imm)) in *.
  assert (Ir1 : Inv keyed (remove_stale (e_now e) w1) g1).
  { destruct (remove_stale_spec (e_now e) w1) as ([Fe Fk _] & S & P & Hi & _).
    pose proof I1 as [Ik Ie In Ir Ip Ipo].
    refine (Inv_intro keyed w1 _ g1 g1 I1 Fk _ _ _ _ _).
    - congruence. - now rewrite Hi. - intros h. now rewrite Hi. - now rewrite P.
    - intros p Hp. rewrite Hi. unfold hof. rewrite Fk. apply Ipo. congruence. }
  destruct (Inv_check_timeout _ _ _ _ _ _ Ir1 Ea) as [Ia _].
  destruct (Inv_process_pending _ _ _ _ _ _ Ia Eb) as [Ib _].
  (* the sequential ghost is c28_next *)
  assert (SEQ : c28_next keyed g (e_op e) (mkOut imm (d0 ++ d1 ++ (da ++ db))) =
                fold_left g_complete db (fold_left g_complete da g1)).
  { unfold c28_next. cbn [o_imm o_done]. subst g1.
    destruct D0 as [-> | (s & t & -> & Hpk & Hp0)].
    - cbn [app fold_left]. cbn [fold_left] in B1.
      destruct (g_park g) as [h|] eqn:Ep.
      + destruct imm as [[|c|hh|]|]; try (rewrite !fold_left_app; reflexivity).
        specialize (B1 eq_refl). discriminate.
      + rewrite !fold_left_app. reflexivity.
    - cbn [app fold_left]. destruct (g_park g) as [h|] eqn:Ep; [|contradiction].
      destruct imm as [[|c|hh|]|];
        try (cbn [fold_left]; rewrite g_call_commute by (try discriminate; rewrite Ep; discriminate);
             rewrite !fold_left_app; reflexivity).
      rewrite !fold_left_app. reflexivity. }
  rewrite SEQ. split; [|exact Ib].
  destruct D0 as [-> | (s & t & -> & _)]; [exact C|].
  cbn [fold_left] in C. now rewrite check_timeout_indep in C.
Qed.

(* the model's own trace, in the shape of a correspondence case *)
Definition model_trace (w : writer) (evs : list ev) : list (ev * out) := combine evs (snd (run w evs)).

Lemma run_cons w e t :
  run w (e :: t) = let '(w1, o) := step w e in let '(w2, os) := run w1 t in (w2, o :: os).
Proof. reflexivity. Qed.

Lemma walk_ok keyed evs : forall w g,
  Inv keyed w g -> existsb (fun b => b) (c28_walk keyed g (model_trace w evs)) = false.
Proof.
  induction evs as [|e t IH]; intros w g I; [reflexivity|].
  unfold model_trace. rewrite run_cons.
  destruct (step w e) as [w1 o] eqn:Es. destruct (run w1 t) as [w2 os] eqn:Er.
  cbn [snd combine c28_walk existsb].
  destruct (step_ok _ _ _ _ _ _ I Es) as [C I1]. rewrite C. cbn [negb orb].
  specialize (IH w1 _ I1). unfold model_trace in IH. now rewrite Er in IH.
Qed.

(* For every run, every reply of the model honours the contract. *)
Theorem contract_for_all_runs keyed enabled q evs :
  existsb (fun b => b) (c28_walk keyed (mkG enabled [] None) (model_trace (init keyed enabled q) evs)) = false.
Proof. apply walk_ok. apply Inv_init. Qed.

Definition model_case (keyed enabled : bool) (q : qos) (evs : list ev) : W_case :=
  mkWC (qos_consistent q) keyed enabled q (model_trace (init keyed enabled q) evs) None None.

Theorem model_case_accepted keyed enabled q evs : C28_oracle_ok (model_case keyed enabled q evs) = true.
Proof.
  unfold C28_oracle_ok, model_case, ghost0, hist_ok. cbn [wc_keyed wc_enabled0 wc_evs wc_hist].
  now rewrite contract_for_all_runs.
Qed.

(* ------------------------------------------------ the state after a trace *)
Lemma run_inv keyed evs : forall w g,
  Inv keyed w g -> Inv keyed (fst (run w evs)) (c28_ghost keyed g (model_trace w evs)).
Proof.
  induction evs as [|e t IH]; intros w g I; [exact I|].
  unfold model_trace. rewrite run_cons.
  destruct (step w e) as [w1 o] eqn:Es. destruct (run w1 t) as [w2 os] eqn:Er.
  cbn [fst snd combine c28_ghost].
  destruct (step_ok _ _ _ _ _ _ I Es) as [_ I1].
  specialize (IH w1 _ I1). unfold model_trace in IH. rewrite Er in IH. exact IH.
Qed.

Section AfterTrace.
  Variables (keyed enabled : bool) (q : qos) (evs : list ev).
  Let w := fst (run (init keyed enabled q) evs).
  Let g := c28_ghost keyed (mkG enabled [] None) (model_trace (init keyed enabled q) evs).

  Lemma after_inv : Inv keyed w g.
  Proof. apply run_inv. apply Inv_init. Qed.

  (* lookup_instance returns the handle exactly for registered instances *)
  Lemma lookup_iff_registered k :
    g_en g = true ->
    svc_lookup w k = RHandle (if mem (khandle keyed k) (g_reg g) then Some (khandle keyed k) else None).
  Proof.
    intros En.
    destruct (apply_op_ok keyed 0 w g (OLookup k) w (Some (svc_lookup w k)) [] after_inv eq_refl) as [C _].
    cbn [c28_check] in C. rewrite En in C. cbn [negb] in C. now apply rsl_eqb_eq.
  Qed.

  (* dispose / unregister_instance of an instance that is not registered: BadParameter, no effect *)
  Lemma unknown_instance_bad_parameter k ts :
    g_en g = true -> keyed = true -> mem k (g_reg g) = false ->
    svc_unregister w k ts = (w, RErr E_BAD_PARAMETER) /\ svc_dispose w k ts = (w, RErr E_BAD_PARAMETER).
  Proof.
    intros En Hk H0. pose proof after_inv as I.
    unfold svc_unregister, svc_dispose, svc_unreg_or_dispose.
    rewrite <- (inv_en _ _ _ I), En. cbn [negb].
    rewrite (inv_keyed _ _ _ I), Hk. cbn [negb].
    unfold hof. rewrite (inv_keyed _ _ _ I), Hk, <- (inv_reg _ _ _ I), H0. split; reflexivity.
  Qed.

  (* unregister_instance really unregisters: afterwards the instance is unknown again *)
  Lemma unregister_then_unknown k ts w1 :
    svc_unregister w k ts = (w1, ROk) ->
    forall ts', svc_lookup w1 k = RHandle None /\
                svc_unregister w1 k ts' = (w1, RErr E_BAD_PARAMETER) /\
                svc_dispose w1 k ts' = (w1, RErr E_BAD_PARAMETER).
  Proof.
    intros H ts'. pose proof after_inv as I. pose proof I as [Ik Ie In Ir Ip Ipo].
    unfold svc_unregister, svc_unreg_or_dispose in H.
    destruct (w_enabled w) eqn:En; cbn [negb] in H; [|discriminate].
    destruct (w_keyed w) eqn:Ek; cbn [negb] in H; [|discriminate].
    assert (Hk : hof w k = k) by (unfold hof; now rewrite Ek). rewrite Hk in H.
    destruct (is_reg k (w_insts w)) eqn:Er; [|discriminate]. injection H as <-.
    match goal with |- context [set_insts _ ?l] => set (l1 := l) end.
    assert (Hn : is_reg k l1 = false).
    { subst l1. rewrite is_reg_updreg_clear; [now rewrite Z.eqb_refl|intros i; split; reflexivity|exact In]. }
    unfold svc_lookup, svc_unregister, svc_dispose, svc_unreg_or_dispose, hof. wsimpl.
    rewrite En, Ek. cbn [negb]. rewrite Hn. repeat split.
  Qed.
End AfterTrace.

(* ------------------------------------------------ statements about any state *)
(* register_instance is idempotent: a second call returns the same handle, which is the handle of
   the key, and changes nothing but the instance's last_write_time *)
Definition forget_lwt (w : writer) : writer :=
  set_insts w (map (fun i => mkInst (i_h i) None (i_samples i) (i_reg i)) (w_insts w)).

Lemma map_upd_lwt h ts l s :
  find_inst h l = Some s -> i_reg s = true ->
  map (fun i => mkInst (i_h i) None (i_samples i) (i_reg i))
      (upd_inst h (fun i => mkInst (i_h i) (Some ts) (i_samples i) true) l) =
  map (fun i => mkInst (i_h i) None (i_samples i) (i_reg i)) l.
Proof.
  unfold find_inst. induction l as [|i t IH]; cbn [find upd_inst map]; [discriminate|].
  destruct (i_h i =? h); cbn [map].
  - intros [= <-] Hr. cbn [i_h i_samples i_reg]. now rewrite Hr.
  - intros Hf Hr. now rewrite (IH Hf Hr).
Qed.

Lemma register_idempotent w k ts1 ts2 w1 h :
  svc_register w k ts1 = (w1, RHandle (Some h)) ->
  h = k /\
  exists w2, svc_register w1 k ts2 = (w2, RHandle (Some h)) /\ forget_lwt w2 = forget_lwt w1.
Proof.
  unfold svc_register.
  destruct (w_enabled w) eqn:En; cbn [negb]; [|discriminate].
  destruct (w_keyed w) eqn:Ek; cbn [negb]; [|discriminate].
  assert (Hk : hof w k = k) by (unfold hof; now rewrite Ek). rewrite Hk.
  assert (SECOND : forall l s, find_inst k l = Some s -> i_reg s = true ->
     let w1 := set_insts w l in
     exists w2, svc_register w1 k ts2 = (w2, RHandle (Some k)) /\ forget_lwt w2 = forget_lwt w1).
  { intros l s Hl Hr w1'. unfold svc_register. subst w1'. wsimpl. rewrite En, Ek. cbn [negb].
    unfold hof. wsimpl. rewrite Ek.
    assert (Hh : has_inst k l = true) by (apply has_inst_find; eauto). rewrite Hh.
    eexists. split; [reflexivity|].
    unfold forget_lwt. wsimpl. now rewrite (map_upd_lwt k ts2 l s Hl Hr). }
  destruct (has_inst k (w_insts w)) eqn:Eh.
  - intros [= <- <-]. split; [reflexivity|].
    destruct (proj1 (has_inst_find _ _) Eh) as [s0 Hs0].
    eapply SECOND; [rewrite find_upd_same by reflexivity; rewrite Hs0; reflexivity|reflexivity].
  - destruct (len_lt (zlen (w_insts w)) (q_max_instances (w_qos w))); [|discriminate].
    intros [= <- <-]. split; [reflexivity|].
    eapply SECOND; [apply find_inst_app_new; [exact Eh|reflexivity]|reflexivity].
Qed.

(* instance operations on a keyless type: IllegalOperation, no effect *)
Lemma keyless_illegal_operation w k ts :
  w_enabled w = true -> w_keyed w = false ->
  svc_register w k ts = (w, RErr E_ILLEGAL_OPERATION) /\
  svc_unregister w k ts = (w, RErr E_ILLEGAL_OPERATION) /\
  svc_dispose w k ts = (w, RErr E_ILLEGAL_OPERATION).
Proof.
  intros En Ek. unfold svc_register, svc_unregister, svc_dispose, svc_unreg_or_dispose.
  rewrite En, Ek. cbn [negb]. repeat split.
Qed.

(* every operation on a writer that is not enabled: NotEnabled, no effect *)
Lemma not_enabled_everywhere w now slot k ts :
  w_enabled w = false ->
  svc_register w k ts = (w, RErr E_NOT_ENABLED) /\
  svc_unregister w k ts = (w, RErr E_NOT_ENABLED) /\
  svc_dispose w k ts = (w, RErr E_NOT_ENABLED) /\
  svc_lookup w k = RErr E_NOT_ENABLED /\
  svc_write now w slot k ts = (w, RErr E_NOT_ENABLED).
Proof.
  intros En. unfold svc_register, svc_unregister, svc_dispose, svc_unreg_or_dispose, svc_lookup, svc_write.
  rewrite En. cbn [negb]. repeat split.
Qed.

Lemma has_inst_updreg x h f l : (forall i, i_h (f i) = i_h i) -> has_inst x (upd_reg h f l) = has_inst x l.
Proof.
  intros Hf. destruct (has_inst x l) eqn:E.
  - apply has_inst_in. rewrite map_h_upd_reg by exact Hf. now apply has_inst_in.
  - destruct (has_inst x (upd_reg h f l)) eqn:E2; [|reflexivity].
    apply has_inst_in in E2. rewrite map_h_upd_reg in E2 by exact Hf. apply has_inst_in in E2. congruence.
Qed.

(* ---- which states are enabled / keyed: the flags along a run ---- *)
Lemma step_flags w e w' o :
  step w e = (w', o) -> pend_ok w ->
  w_keyed w' = w_keyed w /\ w_qos w' = w_qos w /\ pend_ok w' /\ hmono w w' /\
  w_enabled w' = (w_enabled w || match e_op e with OEnable => true | _ => false end).
Proof.
  intros H P. unfold step in H.
  destruct (catch_up (e_now e) w) as [w0 d0] eqn:E0.
  destruct (apply_op (e_now e) w0 (e_op e)) as [[w1 imm] d1] eqn:E1.
  destruct (tail (e_now e) w1) as [w2 d2] eqn:E2. injection H as <- <-.
  destruct (catch_up_spec _ _ _ _ E0 P) as ([Fe0 Fk0 Fq0] & S0 & P0).
  assert (A : w_keyed w1 = w_keyed w0 /\ w_qos w1 = w_qos w0 /\ pend_ok w1 /\ hmono w0 w1 /\
              w_enabled w1 = (w_enabled w0 || match e_op e with OEnable => true | _ => false end)).
  { destruct (e_op e) as [|k ts|k ts|k ts|k|slot k ts|r base count|r rel|r|]; cbn [apply_op] in E1.
    - injection E1 as <- <- <-. wsimpl. rewrite orb_true_r. repeat split; auto; try (intros x; auto; fail).
    - destruct (svc_register w0 k ts) as [wx rx] eqn:E. injection E1 as <- <- <-.
      rewrite orb_false_r. unfold svc_register in E.
      destruct (w_enabled w0) eqn:En0; cbn [negb] in E; [|injection E as <- <-; repeat split; auto; try (intros x; auto; fail)].
      destruct (w_keyed w0) eqn:Ek; cbn [negb] in E; [|injection E as <- <-; repeat split; auto; try (intros x; auto; fail)].
      destruct (has_inst (hof w0 k) (w_insts w0)).
      + injection E as <- <-. wsimpl. repeat split; auto.
        * intros p Hp. wsimpl in Hp. unfold hof. wsimpl. rewrite has_inst_upd by reflexivity. now apply P0.
        * intros x Hx. wsimpl. now rewrite has_inst_upd.
      + destruct (len_lt _ _); injection E as <- <-; wsimpl; repeat split; auto; try (intros x; auto; fail).
        * intros p Hp. wsimpl in Hp. unfold hof. wsimpl. rewrite has_inst_app. apply orb_true_iff. left. now apply P0.
        * intros x Hx. wsimpl. rewrite has_inst_app, Hx. reflexivity.
    - destruct (svc_unregister w0 k ts) as [wx rx] eqn:E. injection E1 as <- <- <-.
      rewrite orb_false_r. unfold svc_unregister, svc_unreg_or_dispose in E.
      destruct (w_enabled w0) eqn:En0; cbn [negb] in E; [|injection E as <- <-; repeat split; auto; try (intros x; auto; fail)].
      destruct (w_keyed w0) eqn:Ek; cbn [negb] in E; [|injection E as <- <-; repeat split; auto; try (intros x; auto; fail)].
      destruct (is_reg (hof w0 k) (w_insts w0)); injection E as <- <-; wsimpl; repeat split; auto; try (intros x; auto; fail).
      * intros p Hp. wsimpl in Hp. unfold hof. wsimpl. rewrite has_inst_updreg by reflexivity. now apply P0.
      * intros x Hx. wsimpl. now rewrite has_inst_updreg.
    - destruct (svc_dispose w0 k ts) as [wx rx] eqn:E. injection E1 as <- <- <-.
      rewrite orb_false_r. unfold svc_dispose, svc_unreg_or_dispose in E.
      destruct (w_enabled w0) eqn:En0; cbn [negb] in E; [|injection E as <- <-; repeat split; auto; try (intros x; auto; fail)].
      destruct (w_keyed w0) eqn:Ek; cbn [negb] in E; [|injection E as <- <-; repeat split; auto; try (intros x; auto; fail)].
      destruct (is_reg (hof w0 k) (w_insts w0)); injection E as <- <-; wsimpl; repeat split; auto; try (intros x; auto; fail).
      * intros p Hp. wsimpl in Hp. unfold hof. wsimpl. rewrite has_inst_updreg by reflexivity. now apply P0.
      * intros x Hx. wsimpl. now rewrite has_inst_updreg.
    - injection E1 as <- <- <-. rewrite orb_false_r. repeat split; auto; try (intros x; auto; fail).
    - destruct (svc_write (e_now e) w0 slot k ts) as [wx rx] eqn:E. injection E1 as <- <- <-.
      destruct (svc_write_spec _ _ _ _ _ _ _ E) as ([Fe Fk Fq] & M & _ & _ & _ & _ & Hp & _).
      rewrite orb_false_r. repeat split; auto.
    - destruct (process_pending (e_now e) _) as [wx dx] eqn:E. injection E1 as <- <- <-.
      set (wa := set_proxies w0 _) in *.
      assert (Pa : pend_ok wa) by (intros p Hp; now apply P0).
      destruct (process_pending_spec _ _ _ _ E Pa) as ([Fe Fk Fq] & S & Pd).
      rewrite orb_false_r. repeat split; auto.
      + intros p Hp. destruct Pd as [Pd|Pd]; [|congruence].
        unfold hof. rewrite Fk. rewrite S. apply Pa. congruence.
      + intros x Hx. rewrite S. exact Hx.
    - injection E1 as <- <- <-. rewrite orb_false_r. wsimpl. repeat split; auto;
        try (intros x; auto; fail); try (intros p Hp; now apply P0).
    - injection E1 as <- <- <-. rewrite orb_false_r. wsimpl. repeat split; auto;
        try (intros x; auto; fail); try (intros p Hp; now apply P0).
    - injection E1 as <- <- <-. rewrite orb_false_r. repeat split; auto; try (intros x; auto; fail). }
  destruct A as (Ak & Aq & Ap & Am & Ae).
  destruct (tail_spec _ _ _ _ E2 Ap) as ([Fe2 Fk2 Fq2] & S2 & P2).
  repeat split; try congruence; try exact P2.
  intros x Hx. rewrite S2. apply Am. now rewrite S0.
Qed.

Lemma run_flags evs : forall w, pend_ok w ->
  let w' := fst (run w evs) in
  w_keyed w' = w_keyed w /\ w_qos w' = w_qos w /\ pend_ok w' /\ hmono w w' /\
  w_enabled w' = (w_enabled w || existsb (fun e => match e_op e with OEnable => true | _ => false end) evs).
Proof.
  induction evs as [|e t IH]; intros w P.
  - cbn. rewrite orb_false_r. repeat split; auto; try (intros x; auto; fail).
  - rewrite run_cons. destruct (step w e) as [w1 o] eqn:Es. destruct (run w1 t) as [w2 os] eqn:Er.
    cbn [fst existsb].
    destruct (step_flags _ _ _ _ Es P) as (K1 & Q1 & P1 & M1 & E1).
    specialize (IH w1 P1). rewrite Er in IH. cbn [fst] in IH. destruct IH as (K2 & Q2 & P2 & M2 & E2).
    refine (conj _ (conj _ (conj P2 (conj _ _)))); try congruence.
    + intros x Hx. apply M2, M1, Hx.
    + rewrite E2, E1. now rewrite orb_assoc.
Qed.

Lemma pend_ok_init keyed enabled q : pend_ok (init keyed enabled q).
Proof. intros p; discriminate. Qed.

(* the topic kind never changes; a writer is enabled iff it was created enabled or enable was called *)
Lemma flags_after keyed enabled q evs :
  let w := fst (run (init keyed enabled q) evs) in
  w_keyed w = keyed /\
  w_enabled w = (enabled || existsb (fun e => match e_op e with OEnable => true | _ => false end) evs).
Proof.
  destruct (run_flags evs (init keyed enabled q) (pend_ok_init _ _ _)) as (K & _ & _ & _ & E).
  split; assumption.
Qed.

(* once an instance has a record, register_instance returns its handle after any further events *)
Lemma register_stays w k evs ts :
  pend_ok w -> w_enabled w = true -> w_keyed w = true -> has_inst k (w_insts w) = true ->
  snd (svc_register (fst (run w evs)) k ts) = RHandle (Some k).
Proof.
  intros P En Ek Hk. destruct (run_flags evs w P) as (K & _ & _ & M & E).
  unfold svc_register. rewrite E, En, K, Ek. cbn [orb negb].
  unfold hof. rewrite K, Ek. rewrite (M k Hk). reflexivity.
Qed.

(* ------------------------------------------ writer half of C19, service level *)
(* the QoS a writer can be created with: is_consistent, limits that are real i32 counts *)
Definition qos_wf (q : qos) : Prop :=
  qos_consistent q = true /\
  (forall m, q_mspi q = Some m -> 0 <= m <= i32_max) /\
  (forall ms, q_max_samples q = Some ms -> 0 <= ms).

Lemma pop_front_total w h s sn rest :
  find_inst h (w_insts w) = Some s -> i_samples s = sn :: rest ->
  total_samples (w_insts (pop_front w h)) = total_samples (w_insts w) - 1.
Proof.
  intros Hf Hs. unfold pop_front. rewrite Hf, Hs. wsimpl.
  rewrite (upd_inst_total _ _ _ _ Hf). cbn [i_samples]. rewrite Hs. cbn [tl]. rewrite zlen_cons. lia.
Qed.

(* after the KEEP_LAST replacement made room, the write cannot be refused *)
Lemma no_refusal_after_pop w h d s sn rest ts now slot :
  Lim w -> qos_wf (w_qos w) -> q_hist (w_qos w) = KeepLast d ->
  find_inst h (w_insts w) = Some s -> i_samples s = sn :: rest -> zlen (i_samples s) = d ->
  snd (ent_write (pop_front w h) h ts now slot) = 0.
Proof.
  intros L (Hc & Hm & Hms) Hq Hf Hs Hd.
  rewrite ent_write_refused_iff.
  destruct (pop_front_spec w h) as ([_ _ Fq] & _ & _ & Sh).
  assert (Hh : has_inst h (w_insts (pop_front w h)) = true).
  { rewrite Sh. apply has_inst_find. eauto. }
  unfold would_exceed, inst_refused, mspi_hit, ms_hit. rewrite Fq, Hh, Hq. cbn [negb andb orb].
  assert (M : match q_mspi (w_qos w) with
              | Some m => if wrap_i32 d <=? m then false
                          else usize_of_i32 m <=? zlen (samples_of h (w_insts (pop_front w h)))
              | None => false end = false).
  { destruct (q_mspi (w_qos w)) as [m|] eqn:Em; [|reflexivity].
    destruct (Hm m eq_refl) as [Hm0 Hm1].
    unfold qos_consistent in Hc. rewrite Hq, Em in Hc. apply andb_true_iff in Hc. destruct Hc as [_ Hc].
    apply andb_true_iff in Hc. destruct Hc as [_ Hc].
    apply negb_true_iff, Z.ltb_ge in Hc. rewrite usize_nonneg in Hc by exact Hm0.
    assert (Hd0 : 0 <= d) by (rewrite <- Hd; apply zlen_nonneg).
    assert (W : wrap_i32 d = d).
    { unfold wrap_i32, two32. unfold i32_max in Hm1. rewrite Z.mod_small by lia. lia. }
    rewrite W. destruct (d <=? m) eqn:E; [reflexivity|apply Z.leb_gt in E; lia]. }
  rewrite M. cbn [orb].
  destruct (q_max_samples (w_qos w)) as [ms|] eqn:Ems; [|reflexivity].
  specialize (Hms ms eq_refl).
  rewrite (pop_front_total w h s sn rest Hf Hs).
  destruct L as [_ Lt _]. unfold opt_le, nonneg_lim in Lt. rewrite Ems in Lt.
  destruct (0 <=? ms) eqn:E0; [|apply Z.leb_gt in E0; lia].
  rewrite usize_nonneg by exact Hms.
  destruct (ms <=? total_samples (w_insts w) - 1) eqn:E; [apply Z.leb_le in E; lia|reflexivity].
Qed.

Lemma svc_write_refused_stores_nothing now w slot k ts w' :
  Lim w -> qos_wf (w_qos w) ->
  svc_write now w slot k ts = (w', RErr E_OUT_OF_RESOURCES) -> w' = w.
Proof.
  intros L WF H. unfold svc_write in H.
  destruct (w_enabled w); cbn [negb] in H; [|discriminate].
  set (h := hof w k) in *.
  assert (DIRECT : (let '(w'', c) := ent_write w h ts now slot in (w'', rsl_of_code c)) = (w', RErr E_OUT_OF_RESOURCES) -> w' = w).
  { destruct (ent_write w h ts now slot) as [w'' c] eqn:E. intros [= <- Hc].
    assert (c <> 0) by (intros ->; discriminate).
    eapply ent_write_refused_stores_nothing; eauto. }
  destruct (q_hist (w_qos w)) as [|d] eqn:Hq; [exact (DIRECT H)|].
  destruct (smallest_full d h (w_insts w)) as [sn|] eqn:Es; [|exact (DIRECT H)].
  destruct (smallest_full_inv _ _ _ _ Es) as (s & rest & Hf & Hs & Hd).
  destruct (q_reliable (w_qos w) && negb (acked w sn)).
  - destruct (w_pending w); discriminate.
  - exfalso. pose proof (no_refusal_after_pop w h d s sn rest ts now slot L WF Hq Hf Hs Hd) as N.
    destruct (ent_write (pop_front w h) h ts now slot) as [w'' c]. cbn [snd] in N. subst c.
    discriminate.
Qed.


Definition q_plain : qos := mkQos KeepAll true None None None None (Some 100000000) true.
Definition ev0 (o : op) : ev := mkEv 1000000000 o.
Definition q_tight : qos := mkQos KeepAll true (Some 1) (Some 2) (Some 1) None (Some 100000000) true.

(* a writer can only be created with a consistent QoS, and that means depth >= 1 *)
Lemma consistent_depth_positive q d : qos_consistent q = true -> q_hist q = KeepLast d -> 0 <= d -> 1 <= d.
Proof.
  unfold qos_consistent. intros H Hq Hd. rewrite Hq in H. apply andb_true_iff in H. destruct H as [_ H].
  apply andb_true_iff in H. destruct H as [H _]. apply negb_true_iff, Z.eqb_neq in H. lia.
Qed.

(* ------------------------------------- the statements in their published form *)
Lemma register_forever keyed enabled q evs0 k ts0 evs ts :
  let w0 := fst (run (init keyed enabled q) evs0) in
  forall w1, svc_register w0 k ts0 = (w1, RHandle (Some k)) ->
  snd (svc_register (fst (run w1 evs)) k ts) = RHandle (Some k).
Proof.
  intros w0 w1 H.
  destruct (run_flags evs0 (init keyed enabled q) (pend_ok_init _ _ _)) as (K0 & _ & P0 & _ & _).
  fold w0 in K0, P0.
  assert (A : pend_ok w1 /\ w_enabled w1 = true /\ w_keyed w1 = true /\ has_inst k (w_insts w1) = true).
  { unfold svc_register in H.
    destruct (w_enabled w0) eqn:En; cbn [negb] in H; [|discriminate].
    destruct (w_keyed w0) eqn:Ek; cbn [negb] in H; [|discriminate].
    assert (Hk : hof w0 k = k) by (unfold hof; now rewrite Ek). rewrite Hk in H.
    destruct (has_inst k (w_insts w0)) eqn:Eh.
    - injection H as <-. wsimpl. repeat split; auto.
      + intros p Hp. wsimpl in Hp. unfold hof. wsimpl. rewrite has_inst_upd by reflexivity. now apply P0.
      + now rewrite has_inst_upd.
    - destruct (len_lt _ _); [|discriminate]. injection H as <-. wsimpl. repeat split; auto.
      + intros p Hp. wsimpl in Hp. unfold hof. wsimpl. rewrite has_inst_app. apply orb_true_iff. left. now apply P0.
      + rewrite has_inst_app. cbn [i_h]. rewrite Z.eqb_refl. apply orb_true_r. }
  destruct A as (P1 & E1 & K1 & H1). now apply register_stays.
Qed.

Lemma keyless_after enabled q evs k ts :
  let w := fst (run (init false enabled q) evs) in
  w_enabled w = true ->
  svc_register w k ts = (w, RErr E_ILLEGAL_OPERATION) /\
  svc_unregister w k ts = (w, RErr E_ILLEGAL_OPERATION) /\
  svc_dispose w k ts = (w, RErr E_ILLEGAL_OPERATION).
Proof.
  intros w En. apply keyless_illegal_operation; [exact En|].
  apply (proj1 (flags_after false enabled q evs)).
Qed.

Lemma not_enabled_before_enable keyed q evs now slot k ts :
  (forall e, In e evs -> e_op e <> OEnable) ->
  let w := fst (run (init keyed false q) evs) in
  svc_register w k ts = (w, RErr E_NOT_ENABLED) /\
  svc_unregister w k ts = (w, RErr E_NOT_ENABLED) /\
  svc_dispose w k ts = (w, RErr E_NOT_ENABLED) /\
  svc_lookup w k = RErr E_NOT_ENABLED /\
  svc_write now w slot k ts = (w, RErr E_NOT_ENABLED).
Proof.
  intros Hn w. apply not_enabled_everywhere.
  destruct (flags_after keyed false q evs) as [_ E]. fold w in E. rewrite E. cbn [orb].
  destruct (existsb _ evs) eqn:Ex; [|reflexivity].
  apply existsb_exists in Ex. destruct Ex as (e & He & Hop).
  specialize (Hn e He). destruct (e_op e); congruence.
Qed.

Lemma qos_after keyed enabled q evs : w_qos (fst (run (init keyed enabled q) evs)) = q.
Proof. destruct (run_flags evs (init keyed enabled q) (pend_ok_init _ _ _)) as (_ & Q & _). exact Q. Qed.

Lemma svc_write_refused_after_trace keyed enabled q evs now slot k ts w' :
  qos_consistent q = true ->
  (forall m, q_mspi q = Some m -> 0 <= m <= i32_max) ->
  (forall ms, q_max_samples q = Some ms -> 0 <= ms) ->
  let w := fst (run (init keyed enabled q) evs) in
  svc_write now w slot k ts = (w', RErr E_OUT_OF_RESOURCES) -> w' = w.
Proof.
  intros Hc Hm Hms w H. apply (svc_write_refused_stores_nothing now w slot k ts w'); auto.
  - apply limits_invariant.
  - unfold qos_wf, w. rewrite qos_after. auto.
Qed.

Lemma limits_after_trace keyed enabled q evs :
  let w := fst (run (init keyed enabled q) evs) in
  (forall i, In i (w_insts w) -> opt_le (zlen (i_samples i)) (inst_bound q)) /\
  opt_le (total_samples (w_insts w)) (nonneg_lim (q_max_samples q)) /\
  opt_le (zlen (w_insts w)) (nonneg_lim (q_max_instances q)).
Proof.
  intros w. destruct (limits_invariant keyed enabled q evs) as [A B C]. fold w in A, B, C.
  unfold w in *. rewrite qos_after in *. auto.
Qed.
