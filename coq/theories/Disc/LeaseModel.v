(* C17 — participant discovery, domain isolation, ignore and lease expiry of ONE local
   participant.  Definitions only.  Time is Z nanoseconds (Time/Duration arithmetic is C14).

   Sources (dds/src/dcps/dcps_domain_participant):
   - discovery_methods.rs add_discovered_participant (domain id / domain tag / already discovered /
     ignored predicate; DiscoveredParticipantInfo { lease_duration, last_communication_timestamp: now })
   - discovery_methods.rs remove_discovered_participant (discovered_participant_list.retain(key != handle))
   - discovery_methods.rs remove_stale_participants
       (`while let Some(h) = list.iter().find_map(|x| now - x.last > x.lease) { remove(h) }`)
   - discovery_methods.rs process_discovered_participants_detector_cache_change
       (valid data -> add_discovered_participant; otherwise remove_discovered_participant)
   - builtin_data_reader.rs process_cache_changes, communication_methods.rs
       process_user_defined_received_cache_changes (every cache change of a writer whose guid prefix
       is in discovered_participant_list sets last_communication_timestamp = now, first match)
   - participant_methods.rs ignore_participant (BTreeSet insert; already ignored => nothing;
       otherwise remove_discovered_participant)
   - dds_async/domain_participant_factory.rs worker loop: every iteration (message or timer,
       at most 50 ms apart) runs the cache processing and then remove_stale_participants(now) *)
From DustDDS Require Export Base.Machine.
Open Scope Z_scope.

(* an SPDP announcement: participant key (guid prefix), PID_DOMAIN_ID (optional on the wire),
   domain tag (a number stands for the string), lease duration in ns *)
Record ann : Type := mkAnn { a_key : Z; a_dom : option Z; a_tag : Z; a_lease : Z }.

(* DiscoveredParticipantInfo; d_dom/d_tag are ghost copies of the announcement that created
   the entry (the code keeps dds_participant_data, locators, lease and last only) *)
Record dinfo : Type := mkInfo { d_key : Z; d_lease : Z; d_last : Z; d_dom : option Z; d_tag : Z }.

Record pst : Type := mkP { p_disc : list dinfo; p_ign : list Z }.
Definition pst0 : pst := mkP [] [].

Record pcfg : Type := mkCfg { c_dom : Z; c_tag : Z }.

Definition dkeys (l : list dinfo) : list Z := map d_key l.
Definition zmem (k : Z) (l : list Z) : bool := existsb (Z.eqb k) l.

(* is_domain_id_matching && is_domain_tag_matching *)
Definition accepts (c : pcfg) (a : ann) : bool :=
  match a_dom a with Some d => d =? c_dom c | None => true end && (a_tag a =? c_tag c).

(* `iter_mut().find(|x| x.guid_prefix == prefix)` then `last = now` *)
Fixpoint refresh (k now : Z) (l : list dinfo) : list dinfo :=
  match l with
  | [] => []
  | d :: t => if d_key d =? k then mkInfo (d_key d) (d_lease d) now (d_dom d) (d_tag d) :: t
              else d :: refresh k now t
  end.

Definition retain_not (k : Z) (l : list dinfo) : list dinfo := filter (fun d => negb (d_key d =? k)) l.

Definition add_discovered (c : pcfg) (a : ann) (now : Z) (s : pst) : pst :=
  if accepts c a && negb (zmem (a_key a) (dkeys (p_disc s))) && negb (zmem (a_key a) (p_ign s))
  then mkP (p_disc s ++ [mkInfo (a_key a) (a_lease a) now (a_dom a) (a_tag a)]) (p_ign s)
  else s.

Definition stale (now : Z) (d : dinfo) : bool := d_lease d <? now - d_last d.

(* the `while let` loop of remove_stale_participants; fuel = length + 1 is never exhausted *)
Fixpoint stale_loop (fuel : nat) (now : Z) (l : list dinfo) : list dinfo :=
  match fuel with
  | O => l
  | S f => match find (stale now) l with
           | Some d => stale_loop f now (retain_not (d_key d) l)
           | None => l
           end
  end.
Definition remove_stale (now : Z) (s : pst) : pst :=
  mkP (stale_loop (S (length (p_disc s))) now (p_disc s)) (p_ign s).

Inductive pev : Type :=
| ESpdp (a : ann)      (* SPDP DATA received: cache change (refresh) + add_discovered_participant *)
| EData (k : Z)        (* any other accepted DATA of participant k (SEDP, user data): refresh *)
| EDispose (k : Z)     (* SPDP dispose/unregister of k *)
| EIgnore (k : Z)      (* ignore_participant(k) *)
| EWake.               (* timer wake without input *)

Definition apply_ev (c : pcfg) (e : pev) (now : Z) (s : pst) : pst :=
  match e with
  | ESpdp a => add_discovered c a now (mkP (refresh (a_key a) now (p_disc s)) (p_ign s))
  | EData k => mkP (refresh k now (p_disc s)) (p_ign s)
  | EDispose k => mkP (retain_not k (p_disc s)) (p_ign s)
  | EIgnore k => if zmem k (p_ign s) then s else mkP (retain_not k (p_disc s)) (k :: p_ign s)
  | EWake => s
  end.

(* one worker iteration at time `now` *)
Definition pstep (c : pcfg) (s : pst) (en : pev * Z) : pst :=
  remove_stale (snd en) (apply_ev c (fst en) (snd en) s).

Definition prun (c : pcfg) (s : pst) (l : list (pev * Z)) : pst := fold_left (pstep c) l s.

(* the event concerns participant k *)
Definition touches (k : Z) (e : pev) : bool :=
  match e with
  | ESpdp a => a_key a =? k
  | EData q | EDispose q | EIgnore q => q =? k
  | EWake => false
  end.
Definition removes (k : Z) (e : pev) : bool :=
  match e with EDispose q | EIgnore q => q =? k | _ => false end.
