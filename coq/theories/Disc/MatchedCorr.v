(* Correspondence vocabulary for C16: one case = one simulated scenario seen from one local
   DataWriter (side Wr) or DataReader (side Rd): the discovery actions that reached the local
   participant, interleaved with what the real stack answered (matched status, matched list,
   destinations of the datagrams of a write). *)
From DustDDS Require Export Base.Machine Disc.MatchedModel.
Open Scope Z_scope.

Inductive item : Type :=
| IA (a : act)                              (* discovery action (not ARead) *)
| IRead (o : status)                        (* get_*_matched_status and its reply *)
| IList (l : list key)                      (* get_matched_subscriptions/publications reply, storage order *)
| IDst (alive : list Z) (l : list key).     (* write; remote readers addressed by DATA/HEARTBEAT/GAP
                                               ((p,-1) = unknown reader of participant p); only
                                               participants in `alive` are visible on the simulated wire *)

Record C16_case : Type := mkC16 {
  c_side : side;
  c_topic : Z;          (* topic of the local endpoint *)
  c_dl : Z;             (* deadline period of the local endpoint, ns; -1 = infinite *)
  c_items : list item
}.

(* DurationKind order: every finite value < Infinite *)
Definition dle (a b : Z) : bool := if b <? 0 then true else if a <? 0 then false else a <=? b.
(* get_discovered_reader_incompatible_qos_policy_list: writer.deadline > reader.deadline;
   get_discovered_writer_incompatible_qos_policy_list: reader.deadline < writer.deadline;
   (all other policies are equal in the generated scenarios) + the topic-name filter *)
Definition compat_of (c : C16_case) (d : ep) : bool :=
  (e_topic d =? c_topic c) &&
  match c_side c with Wr => dle (c_dl c) (e_dl d) | Rd => dle (e_dl d) (c_dl c) end.

Definition status_eqb (a b : status) : bool :=
  match a, b with (a1, a2, a3, a4), (b1, b2, b3, b4) => (a1 =? b1) && (a2 =? b2) && (a3 =? b3) && (a4 =? b4) end.
Fixpoint keys_eqb (a b : list key) : bool :=
  match a, b with
  | [], [] => true
  | x :: a', y :: b' => key_eqb x y && keys_eqb a' b'
  | _, _ => false
  end.
Definition subset (a b : list key) : bool := forallb (fun k => existsb (key_eqb k) b) a.
Definition set_eqb (a b : list key) : bool := subset a b && subset b a.

(* the proxies that can put a datagram on the simulated wire *)
Definition wire_dsts (alive : list Z) (s : st) : list key :=
  map x_key (filter (fun x => x_loc x && existsb (Z.eqb (fst (x_key x))) alive) (prox s)).
(* an unknown-reader destination (p,-1) stands for any reader of p *)
Definition dst_in (l : list key) (k : key) : bool :=
  existsb (fun x => if snd k =? -1 then fst x =? fst k else key_eqb x k) l.

Section Run.
  Variable compat : ep -> bool.

  (* the model against the observations *)
  Fixpoint model_items (s : st) (l : list item) : bool :=
    match l with
    | [] => true
    | IA a :: t => model_items (fst (step compat s a)) t
    | IRead o :: t =>
        let (s1, o') := read s in
        status_eqb o o' && model_items (process compat s1) t
    | IList ks :: t => keys_eqb ks (keys (matched s)) && model_items (process compat s) t
    | IDst alive ks :: t =>
        forallb (dst_in (wire_dsts alive s)) ks &&
        forallb (fun k => existsb (fun x => dst_in [x] k || key_eqb x k) ks) (wire_dsts alive s) &&
        model_items (process compat s) t
    end.

  (* the property on the observations *)
  Fixpoint oracle_items (i : ideal) (l : list item) : bool :=
    match l with
    | [] => true
    | IA a :: t => oracle_items (fst (istep compat i a)) t
    | IRead o :: t =>
        match istep compat i ARead with
        | (i1, Some o') => status_eqb o o' && oracle_items i1 t
        | (i1, None) => false
        end
    | IList ks :: t => set_eqb ks (i_keys i) && oracle_items i t
    | IDst _ ks :: t => forallb (dst_in (i_keys i)) ks && oracle_items i t
    end.

  Definition acts_of (l : list item) : list act :=
    flat_map (fun x => match x with IA a => [a] | IRead _ => [ARead] | _ => [ATick] end) l.
End Run.

Definition C16_model_ok (c : C16_case) : bool :=
  model_items (compat_of c) st0 (c_items c).

Definition C16_oracle_ok (c : C16_case) : bool :=
  oracle_items (compat_of c) ideal0 (c_items c).

(* no known defect class (the four classes of the first version are fixed: commits 63bcd2c,
   34a7046, 6603216, 9eb0989) *)
Definition C16_known (c : C16_case) : N := 0%N.
