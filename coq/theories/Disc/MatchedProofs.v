(* C16 — proofs about the matched-endpoint bookkeeping model (MatchedModel.v). *)
From DustDDS Require Import Base.Machine Disc.MatchedModel.
Open Scope Z_scope.

(* ------------------------------------------------------------------ decidable equalities *)
Lemma key_eqb_eq : forall a b, key_eqb a b = true <-> a = b.
Proof.
  intros [a1 a2] [b1 b2]; unfold key_eqb; cbn [fst snd].
  rewrite andb_true_iff, !Z.eqb_eq. split; [intros [-> ->]; reflexivity | intros H; inversion H; auto].
Qed.
Lemma key_eqb_refl : forall a, key_eqb a a = true.
Proof. intros; apply key_eqb_eq; reflexivity. Qed.
Lemma key_eqb_neq : forall a b, key_eqb a b = false <-> a <> b.
Proof.
  intros a b; split.
  - intros H E; apply key_eqb_eq in E; congruence.
  - intros H; destruct (key_eqb a b) eqn:E; auto. apply key_eqb_eq in E; contradiction.
Qed.
Lemma key_eqb_sym : forall a b, key_eqb a b = key_eqb b a.
Proof.
  intros a b; destruct (key_eqb a b) eqn:E.
  - apply key_eqb_eq in E; subst; symmetry; apply key_eqb_refl.
  - symmetry; apply key_eqb_neq; apply key_eqb_neq in E; congruence.
Qed.
Lemma ep_eqb_eq : forall a b, ep_eqb a b = true <-> a = b.
Proof.
  intros [a1 a2 a3 a4 a5] [b1 b2 b3 b4 b5]; unfold ep_eqb; cbn [e_p e_e e_topic e_dl e_ud].
  rewrite !andb_true_iff, !Z.eqb_eq. split.
  - intros [[[[-> ->] ->] ->] ->]; reflexivity.
  - intros H; inversion H; auto.
Qed.
Lemma ep_eqb_refl : forall a, ep_eqb a a = true.
Proof. intros; apply ep_eqb_eq; reflexivity. Qed.

Lemma has_ep_In : forall d l, has_ep d l = true <-> In d l.
Proof.
  intros d l; unfold has_ep; rewrite existsb_exists; split.
  - intros [x [Hin E]]; apply ep_eqb_eq in E; subst; assumption.
  - intros H; exists d; split; [assumption | apply ep_eqb_refl].
Qed.
Lemma has_key_In : forall k l, has_key k l = true <-> In k (keys l).
Proof.
  intros k l; unfold has_key, keys; rewrite existsb_exists, in_map_iff; split.
  - intros [x [Hin E]]; apply key_eqb_eq in E; exists x; auto.
  - intros [x [E Hin]]; exists x; split; [assumption | apply key_eqb_eq; assumption].
Qed.
Lemma has_key_false : forall k l, has_key k l = false <-> ~ In k (keys l).
Proof.
  intros k l; split.
  - intros H C; apply has_key_In in C; congruence.
  - intros H; destruct (has_key k l) eqn:E; auto. apply has_key_In in E; contradiction.
Qed.
Lemma kmem_In : forall k l, kmem k l = true <-> In k l.
Proof.
  intros k l; unfold kmem; rewrite existsb_exists; split.
  - intros [x [Hin E]]; apply key_eqb_eq in E; subst; assumption.
  - intros H; exists k; split; [assumption | apply key_eqb_refl].
Qed.
Lemma kmem_has_key : forall k l, kmem k (keys l) = has_key k l.
Proof.
  intros k l; destruct (has_key k l) eqn:E.
  - apply kmem_In, has_key_In; assumption.
  - destruct (kmem k (keys l)) eqn:F; auto. apply kmem_In, has_key_In in F; congruence.
Qed.

Lemma zlen_app1 : forall {A} (l : list A) x, zlen (l ++ [x]) = zlen l + 1.
Proof. intros; unfold zlen; rewrite app_length; cbn [length]; lia. Qed.
Lemma zlen_map : forall {A B} (f : A -> B) l, zlen (map f l) = zlen l.
Proof. intros; unfold zlen; rewrite map_length; reflexivity. Qed.

(* ------------------------------------------------------------------ upsert / remove_key *)
Lemma keys_upsert_in : forall d l, In (ekey d) (keys l) -> keys (upsert d l) = keys l.
Proof.
  intros d l; induction l as [|x t IH]; cbn [upsert keys map In]; [tauto|].
  intros H; destruct (key_eqb (ekey x) (ekey d)) eqn:E.
  - apply key_eqb_eq in E; cbn [map]; rewrite E; reflexivity.
  - cbn [map]; f_equal. apply IH. destruct H as [H|H]; [apply key_eqb_neq in E; contradiction | assumption].
Qed.
Lemma keys_upsert_notin : forall d l, ~ In (ekey d) (keys l) -> keys (upsert d l) = keys l ++ [ekey d].
Proof.
  intros d l; induction l as [|x t IH]; cbn [upsert keys map In app]; [reflexivity|].
  intros H; destruct (key_eqb (ekey x) (ekey d)) eqn:E.
  - apply key_eqb_eq in E; tauto.
  - cbn [map]; f_equal. apply IH; tauto.
Qed.
Lemma In_upsert_self : forall d l, In d (upsert d l).
Proof.
  intros d l; induction l as [|x t IH]; cbn [upsert]; [left; reflexivity|].
  destruct (key_eqb (ekey x) (ekey d)); [left; reflexivity | right; assumption].
Qed.
Lemma In_upsert_other : forall d l e, ekey e <> ekey d -> (In e (upsert d l) <-> In e l).
Proof.
  intros d l e Hne; induction l as [|x t IH]; cbn [upsert In].
  - split; [intros [H|[]]; subst; contradiction | tauto].
  - destruct (key_eqb (ekey x) (ekey d)) eqn:E; cbn [In].
    + apply key_eqb_eq in E. split; (intros [H|H]; [subst; exfalso; congruence | right; assumption]).
    + rewrite IH; tauto.
Qed.
Lemma In_upsert_inv : forall d l e, In e (upsert d l) -> e = d \/ (In e l /\ ekey e <> ekey d) \/ In e l.
Proof.
  intros d l e; induction l as [|x t IH]; cbn [upsert In].
  - intros [H|[]]; auto.
  - destruct (key_eqb (ekey x) (ekey d)) eqn:E; cbn [In].
    + intros [H|H]; auto.
    + intros [H|H]; auto. destruct (IH H) as [H1|[H1|H1]]; auto. right; left; tauto.
Qed.
Lemma upsert_split : forall d l, NoDup (keys l) ->
  exists l1 l2, upsert d l = l1 ++ d :: l2 /\
    (forall e, In e (l1 ++ l2) -> ekey e <> ekey d /\ In e l).
Proof.
  intros d l; induction l as [|x t IH]; cbn [upsert keys map]; intros ND.
  - exists [], []; split; [reflexivity | cbn; tauto].
  - inversion ND as [|? ? Hx ND']; subst.
    destruct (key_eqb (ekey x) (ekey d)) eqn:E.
    + apply key_eqb_eq in E. exists [], t; split; [reflexivity|].
      cbn [app]; intros e He; split; [|right; assumption].
      intros C; apply Hx; rewrite E, <- C; apply in_map; assumption.
    + destruct (IH ND') as [l1 [l2 [E1 H]]]. exists (x :: l1), l2; split.
      * rewrite E1; reflexivity.
      * cbn [app In]; intros e [He|He].
        -- subst; split; [apply key_eqb_neq; assumption | left; reflexivity].
        -- destruct (H e He); split; [assumption | right; assumption].
Qed.

Lemma filter_all : forall {A} (f : A -> bool) l, (forall x, In x l -> f x = true) -> filter f l = l.
Proof.
  intros A f l; induction l as [|x t IH]; cbn [filter]; intros H; [reflexivity|].
  rewrite (H x (or_introl eq_refl)); f_equal; apply IH; intros y Hy; apply H; right; assumption.
Qed.
Lemma In_remove_key : forall k l e, In e (remove_key k l) -> In e l.
Proof.
  intros k l e; induction l as [|x t IH]; cbn [remove_key In]; [tauto|].
  destruct (key_eqb (ekey x) k); cbn [In]; tauto.
Qed.
Lemma In_remove_key_other : forall k l e, ekey e <> k -> In e l -> In e (remove_key k l).
Proof.
  intros k l e Hne; induction l as [|x t IH]; cbn [remove_key In]; [tauto|].
  destruct (key_eqb (ekey x) k) eqn:E; cbn [In].
  - apply key_eqb_eq in E; intros [H|H]; [subst; contradiction | assumption].
  - tauto.
Qed.
Lemma keys_remove_key : forall k l, NoDup (keys l) -> keys (remove_key k l) = krem k (keys l).
Proof.
  intros k l; induction l as [|x t IH]; cbn [remove_key keys map krem filter]; [reflexivity|].
  intros ND; inversion ND as [|? ? Hx ND']; subst.
  destruct (key_eqb (ekey x) k) eqn:E; cbn [negb map].
  - apply key_eqb_eq in E; subst.
    symmetry; fold (krem (ekey x) (map ekey t)).
    unfold krem; apply filter_all; intros y Hy.
    apply negb_true_iff, key_eqb_neq; intros ->; contradiction.
  - f_equal; apply IH; assumption.
Qed.
Lemma krem_notin : forall k l, ~ In k l -> krem k l = l.
Proof.
  intros k l H; unfold krem; apply filter_all; intros y Hy.
  apply negb_true_iff, key_eqb_neq; intros ->; contradiction.
Qed.
Lemma In_krem : forall k l x, In x (krem k l) <-> In x l /\ x <> k.
Proof.
  intros; unfold krem; rewrite filter_In, negb_true_iff, key_eqb_neq; tauto.
Qed.
Lemma NoDup_filter : forall {A} (f : A -> bool) l, NoDup l -> NoDup (filter f l).
Proof.
  intros A f l; induction l as [|x t IH]; cbn [filter]; intros ND; [constructor|].
  inversion ND; subst. destruct (f x); [constructor; [rewrite filter_In; tauto | auto] | auto].
Qed.
Lemma zlen_remove_key : forall k l, In k (keys l) -> zlen (remove_key k l) = zlen l - 1.
Proof.
  intros k l; induction l as [|x t IH]; cbn [remove_key keys map In]; [tauto|].
  destruct (key_eqb (ekey x) k) eqn:E.
  - intros _; unfold zlen; cbn [length]; lia.
  - intros [H|H]; [apply key_eqb_neq in E; contradiction|].
    unfold zlen in *; cbn [length]; specialize (IH H); lia.
Qed.
Lemma zlen_upsert_in : forall d l, In (ekey d) (keys l) -> zlen (upsert d l) = zlen l.
Proof. intros d l H; rewrite <- (zlen_map ekey), <- (zlen_map ekey l); fold (keys (upsert d l)); fold (keys l); rewrite keys_upsert_in; auto. Qed.
Lemma zlen_upsert_notin : forall d l, ~ In (ekey d) (keys l) -> zlen (upsert d l) = zlen l + 1.
Proof. intros d l H; rewrite <- (zlen_map ekey), <- (zlen_map ekey l); fold (keys (upsert d l)); fold (keys l); rewrite keys_upsert_notin, zlen_app1; auto. Qed.

Lemma keys_retain_prefix : forall p l,
  keys (retain_not_prefix p l) = filter (fun k => negb (fst k =? p)) (keys l).
Proof.
  intros p l; induction l as [|x t IH]; cbn [retain_not_prefix filter keys map]; [reflexivity|].
  cbn [ekey fst]. destruct (e_p x =? p); cbn [negb map]; [apply IH | f_equal; apply IH].
Qed.

(* proxies *)
Lemma pkeys_upsert_in : forall x l, In (x_key x) (map x_key l) -> map x_key (upsert_proxy x l) = map x_key l.
Proof.
  intros x l; induction l as [|y t IH]; cbn [upsert_proxy map In]; [tauto|].
  intros H; destruct (key_eqb (x_key y) (x_key x)) eqn:E.
  - apply key_eqb_eq in E; cbn [map]; rewrite E; reflexivity.
  - cbn [map]; f_equal; apply IH. destruct H as [H|H]; [apply key_eqb_neq in E; contradiction | assumption].
Qed.
Lemma pkeys_upsert_notin : forall x l, ~ In (x_key x) (map x_key l) -> map x_key (upsert_proxy x l) = map x_key l ++ [x_key x].
Proof.
  intros x l; induction l as [|y t IH]; cbn [upsert_proxy map In app]; [reflexivity|].
  intros H; destruct (key_eqb (x_key y) (x_key x)) eqn:E.
  - apply key_eqb_eq in E; tauto.
  - cbn [map]; f_equal; apply IH; tauto.
Qed.
Lemma map_filter_parallel : forall {A B C} (f : A -> C) (g : B -> C) (P : C -> bool) l1 l2,
  map f l1 = map g l2 -> map f (filter (fun a => P (f a)) l1) = map g (filter (fun b => P (g b)) l2).
Proof.
  intros A B C f g P l1; induction l1 as [|a t IH]; intros [|b u]; cbn [map filter]; try discriminate; auto.
  intros H; injection H as H1 H2. rewrite H1. destruct (P (g b)); cbn [map]; [rewrite H1; f_equal|]; apply IH; assumption.
Qed.
Lemma pkeys_del_proxy_raw : forall k px,
  map x_key (del_proxy k px) = krem k (map x_key px).
Proof.
  intros k px; unfold del_proxy, krem; induction px as [|x t IH]; cbn [filter map]; [reflexivity|].
  destruct (key_eqb (x_key x) k); cbn [negb map]; [apply IH | f_equal; apply IH].
Qed.
Lemma pkeys_del_proxy : forall k m px, map x_key px = keys m -> NoDup (keys m) ->
  map x_key (del_proxy k px) = keys (remove_key k m).
Proof.
  intros k m px H ND. rewrite keys_remove_key by assumption. rewrite pkeys_del_proxy_raw, H; reflexivity.
Qed.

Lemma NoDup_keys_inj : forall l a b, NoDup (keys l) -> In a l -> In b l -> ekey a = ekey b -> a = b.
Proof.
  intros l; induction l as [|x t IH]; cbn [keys map In]; intros a b ND Ha Hb E; [tauto|].
  inversion ND as [|? ? Hx ND']; subst.
  destruct Ha as [Ha|Ha], Hb as [Hb|Hb]; subst; auto.
  - exfalso; apply Hx; rewrite E; apply in_map; assumption.
  - exfalso; apply Hx; rewrite <- E; apply in_map; assumption.
Qed.
Lemma NoDup_keys_filter : forall (f : ep -> bool) l, NoDup (keys l) -> NoDup (keys (filter f l)).
Proof.
  intros f l; induction l as [|x t IH]; cbn [filter keys map]; intros ND; [constructor|].
  inversion ND as [|? ? Hx ND']; subst. destruct (f x); cbn [map]; [|auto].
  constructor; [|auto]. intros C; apply Hx. unfold keys in C; apply in_map_iff in C.
  destruct C as [y [E Hy]]; apply filter_In in Hy; rewrite <- E; apply in_map; tauto.
Qed.
Lemma NoDup_snoc : forall (l : list key) k, NoDup l -> ~ In k l -> NoDup (l ++ [k]).
Proof.
  intros l k; induction l as [|x t IH]; cbn [app In]; intros ND H.
  - constructor; [intros [] | constructor].
  - inversion ND as [|? ? Hx ND']; subst. constructor.
    + rewrite in_app_iff; cbn [In]; intros [C|[C|[]]]; [contradiction | subst; tauto].
    + apply IH; tauto.
Qed.
Lemma NoDup_keys_upsert : forall d l, NoDup (keys l) -> NoDup (keys (upsert d l)).
Proof.
  intros d l ND. destruct (has_key (ekey d) l) eqn:H; [apply has_key_In in H | apply has_key_false in H].
  - rewrite keys_upsert_in; assumption.
  - rewrite keys_upsert_notin by assumption. apply NoDup_snoc; assumption.
Qed.
Lemma In_upsert_cases : forall d l e, NoDup (keys l) -> In e (upsert d l) ->
  e = d \/ (In e l /\ ekey e <> ekey d).
Proof.
  intros d l e ND H. destruct (upsert_split d l ND) as [l1 [l2 [E Hs]]].
  rewrite E in H. apply in_app_or in H. destruct H as [H|[H|H]]; auto.
  - right. destruct (Hs e (in_or_app _ _ _ (or_introl H))); tauto.
  - right. destruct (Hs e (in_or_app _ _ _ (or_intror H))); tauto.
Qed.
Lemma In_remove_key_neq : forall k l e, NoDup (keys l) -> In e (remove_key k l) -> ekey e <> k.
Proof.
  intros k l e ND H C. subst k. assert (Hk : In (ekey e) (keys (remove_key (ekey e) l))) by (unfold keys; apply in_map; assumption).
  rewrite keys_remove_key in Hk by assumption. apply In_krem in Hk; tauto.
Qed.

Section Refine.
  Variable compat : ep -> bool.

  Notation po := (process_one compat).
  Notation proc := (process compat).

  Definition synced (s : st) (e : ep) : Prop :=
    (compat e = true -> In e (matched s)) /\ (compat e = false -> ~ In (ekey e) (keys (matched s))).

  Record InvC (s : st) (i : ideal) : Prop := mkInvC {
    c_nd_disc : NoDup (keys (disc s));
    c_sync : forall d, In d (disc s) -> compat d = true -> In d (matched s);
    c_in_disc : forall m, In m (matched s) -> In m (disc s);
    c_compat : forall m, In m (matched s) -> compat m = true;
    c_nd_m : NoDup (keys (matched s));
    c_keys : keys (matched s) = i_keys i;
    c_cur : cur s = zlen (matched s);
    c_total : total s = i_total i;
    c_total_ch : total_ch s = i_total i - i_rt i;
    c_cur_ch : cur_ch s = zlen (matched s) - i_rc i }.

  Definition InvP (s : st) : Prop := map x_key (prox s) = keys (matched s).

  Definition Inv (s : st) (i : ideal) : Prop := InvC s i /\ InvP s.

  Lemma inv_synced : forall s i e, InvC s i -> In e (disc s) -> synced s e.
  Proof.
    intros s i e I He; split.
    - apply (c_sync _ _ I); assumption.
    - intros Hc C. unfold keys in C; apply in_map_iff in C. destruct C as [m [E Hm]].
      assert (m = e) by (apply (NoDup_keys_inj (disc s)); auto using (c_nd_disc _ _ I), (c_in_disc _ _ I)).
      subst. rewrite (c_compat _ _ I e Hm) in Hc; discriminate.
  Qed.

  Lemma po_synced : forall s e, synced s e -> po s e = s.
  Proof.
    intros s e [H1 H2]; unfold process_one. destruct (compat e) eqn:Hc.
    - assert (H : has_ep e (matched s) = true) by (apply has_ep_In; auto). rewrite H; reflexivity.
    - destruct (has_ep e (matched s)) eqn:H; [reflexivity|].
      unfold unmatch. assert (Hk : has_key (ekey e) (matched s) = false) by (apply has_key_false; auto).
      rewrite Hk. reflexivity.
  Qed.

  Lemma fold_synced : forall l s, (forall e, In e l -> synced s e) -> fold_left po l s = s.
  Proof.
    intros l; induction l as [|x t IH]; cbn [fold_left]; intros s H; [reflexivity|].
    rewrite po_synced by (apply H; left; reflexivity). apply IH; intros e He; apply H; right; assumption.
  Qed.

  Lemma process_id : forall s i, InvC s i -> proc s = s.
  Proof. intros s i I; unfold process; apply fold_synced; intros e He; eapply inv_synced; eauto. Qed.

  (* ---------------------------------------------------------------- ADisc *)
  Lemma step_disc : forall s i d, Inv s i ->
    Inv (proc (set_disc s (upsert d (disc s)))) (fst (istep compat i (ADisc d))).
  Proof.
    intros s i d [I P].
    pose proof (c_nd_disc _ _ I) as NDd. pose proof (c_nd_m _ _ I) as NDm.
    destruct (upsert_split d (disc s) NDd) as [l1 [l2 [E Hs]]].
    set (s1 := set_disc s (upsert d (disc s))).
    assert (Hm1 : matched s1 = matched s) by reflexivity.
    assert (Sy : forall e, In e (l1 ++ l2) -> synced s1 e).
    { intros e He. destruct (Hs e He) as [_ Hin]. destruct (inv_synced s i e I Hin) as [A1 A2]. split; assumption. }
    unfold process. change (disc s1) with (upsert d (disc s)). rewrite E, fold_left_app. cbn [fold_left].
    rewrite (fold_synced l1 s1) by (intros e He; apply Sy, in_or_app; left; assumption).
    (* the one effective step *)
    assert (Main : Inv (po s1 d) (fst (istep compat i (ADisc d))) /\ disc (po s1 d) = upsert d (disc s)).
    { unfold process_one. rewrite Hm1. cbn [istep].
      assert (Kk : kmem (ekey d) (i_keys i) = has_key (ekey d) (matched s))
        by (rewrite <- (c_keys _ _ I); apply kmem_has_key).
      assert (SyncOther : forall e, In e (upsert d (disc s)) -> e <> d -> In e (disc s) /\ ekey e <> ekey d).
      { intros e He Hne. destruct (In_upsert_cases d (disc s) e NDd He); tauto. }
      destruct (has_ep d (matched s)) eqn:Hep.
      - (* already matched with identical data *)
        apply has_ep_In in Hep. pose proof (c_compat _ _ I d Hep) as Hc. rewrite Hc.
        assert (Hk : has_key (ekey d) (matched s) = true) by (apply has_key_In, in_map; assumption).
        rewrite Kk, Hk. cbn [fst]. split; [|reflexivity]. split; [|exact P].
        constructor; try (cbn; first [apply (c_nd_m _ _ I) | apply (c_keys _ _ I) | apply (c_cur _ _ I) | apply (c_total _ _ I) | apply (c_total_ch _ _ I) | apply (c_cur_ch _ _ I) | apply (c_compat _ _ I)]; fail).
        + cbn. apply NoDup_keys_upsert; assumption.
        + cbn. intros e He Hce. destruct (ep_eqb e d) eqn:Eed; [apply ep_eqb_eq in Eed; subst; assumption|].
          assert (e <> d) by (intros ->; rewrite ep_eqb_refl in Eed; discriminate).
          destruct (SyncOther e He H). apply (c_sync _ _ I); assumption.
        + cbn. intros m Hm. destruct (ep_eqb m d) eqn:Emd; [apply ep_eqb_eq in Emd; subst; apply In_upsert_self|].
          assert (Hne : ekey m <> ekey d).
          { intros C. assert (m = d) by (apply (NoDup_keys_inj (matched s)); auto). subst. rewrite ep_eqb_refl in Emd; discriminate. }
          apply In_upsert_other; [assumption | apply (c_in_disc _ _ I); assumption].
      - destruct (compat d) eqn:Hc.
        + (* compatible, new data *)
          destruct (has_key (ekey d) (matched s)) eqn:Hk.
          * (* QoS update of a matched endpoint *)
            rewrite ?Kk, ?Hk. cbn [fst]. apply has_key_In in Hk. split; [|reflexivity]. split.
            -- constructor; cbn.
               ++ apply NoDup_keys_upsert; assumption.
               ++ intros e He Hce. destruct (ep_eqb e d) eqn:Eed; [apply ep_eqb_eq in Eed; subst; apply In_upsert_self|].
                  assert (e <> d) by (intros ->; rewrite ep_eqb_refl in Eed; discriminate).
                  destruct (SyncOther e He H). apply In_upsert_other; [assumption | apply (c_sync _ _ I); assumption].
               ++ intros m Hm. destruct (In_upsert_cases d (matched s) m NDm Hm) as [->|[Hm' Hne]]; [apply In_upsert_self|].
                  apply In_upsert_other; [assumption | apply (c_in_disc _ _ I); assumption].
               ++ intros m Hm. destruct (In_upsert_cases d (matched s) m NDm Hm) as [->|[Hm' Hne]]; [assumption | apply (c_compat _ _ I); assumption].
               ++ rewrite keys_upsert_in; assumption.
               ++ rewrite keys_upsert_in by assumption. apply (c_keys _ _ I).
               ++ reflexivity.
               ++ rewrite (c_total _ _ I); lia.
               ++ rewrite (c_total_ch _ _ I); lia.
               ++ rewrite (c_cur_ch _ _ I), zlen_upsert_in by assumption; lia.
            -- unfold InvP; cbn. rewrite keys_upsert_in by assumption.
               rewrite pkeys_upsert_in; [exact P|]. cbn [x_key]. rewrite P; assumption.
          * (* a new match *)
            rewrite ?Kk, ?Hk. cbn [fst]. apply has_key_false in Hk. split; [|reflexivity]. split.
            -- constructor; cbn.
               ++ apply NoDup_keys_upsert; assumption.
               ++ intros e He Hce. destruct (ep_eqb e d) eqn:Eed; [apply ep_eqb_eq in Eed; subst; apply In_upsert_self|].
                  assert (e <> d) by (intros ->; rewrite ep_eqb_refl in Eed; discriminate).
                  destruct (SyncOther e He H). apply In_upsert_other; [assumption | apply (c_sync _ _ I); assumption].
               ++ intros m Hm. destruct (In_upsert_cases d (matched s) m NDm Hm) as [->|[Hm' Hne]]; [apply In_upsert_self|].
                  apply In_upsert_other; [assumption | apply (c_in_disc _ _ I); assumption].
               ++ intros m Hm. destruct (In_upsert_cases d (matched s) m NDm Hm) as [->|[Hm' Hne]]; [assumption | apply (c_compat _ _ I); assumption].
               ++ rewrite keys_upsert_notin by assumption. apply NoDup_snoc; assumption.
               ++ rewrite keys_upsert_notin by assumption. rewrite (c_keys _ _ I); reflexivity.
               ++ reflexivity.
               ++ rewrite (c_total _ _ I); lia.
               ++ rewrite (c_total_ch _ _ I); lia.
               ++ rewrite (c_cur_ch _ _ I), zlen_upsert_notin by assumption; lia.
            -- unfold InvP; cbn. rewrite keys_upsert_notin by assumption.
               rewrite pkeys_upsert_notin; [rewrite P; reflexivity|]. cbn [x_key]. rewrite P; assumption.
        + (* incompatible *)
          destruct (has_key (ekey d) (matched s)) eqn:Hk.
          * (* a matched endpoint became incompatible *)
            unfold unmatch. rewrite Hm1, Hk. cbn [fst]. apply has_key_In in Hk. split; [|reflexivity]. split.
            -- constructor; cbn.
               ++ apply NoDup_keys_upsert; assumption.
               ++ intros e He Hce. assert (e <> d) by (intros ->; congruence).
                  destruct (SyncOther e He H). apply In_remove_key_other; [assumption | apply (c_sync _ _ I); assumption].
               ++ intros m Hm. pose proof (In_remove_key_neq _ _ _ NDm Hm). apply In_remove_key in Hm.
                  apply In_upsert_other; [assumption | apply (c_in_disc _ _ I); assumption].
               ++ intros m Hm. apply In_remove_key in Hm. apply (c_compat _ _ I); assumption.
               ++ rewrite keys_remove_key by assumption. apply NoDup_filter; assumption.
               ++ rewrite keys_remove_key by assumption. rewrite (c_keys _ _ I); reflexivity.
               ++ reflexivity.
               ++ rewrite (c_total _ _ I); lia.
               ++ rewrite (c_total_ch _ _ I); lia.
               ++ rewrite (c_cur_ch _ _ I), zlen_remove_key by assumption; lia.
            -- unfold InvP; cbn. apply pkeys_del_proxy; [exact P | assumption].
          * (* nothing to do *)
            assert (Es : unmatch (ekey d) s1 = s1) by (unfold unmatch; rewrite Hm1, Hk; reflexivity).
            rewrite Es. cbn [fst]. apply has_key_false in Hk. split; [|reflexivity]. split; [|exact P].
            constructor; cbn; try (first [apply (c_nd_m _ _ I) | apply (c_cur _ _ I) | apply (c_total _ _ I) | apply (c_total_ch _ _ I) | apply (c_cur_ch _ _ I) | apply (c_compat _ _ I)]; fail).
            -- apply NoDup_keys_upsert; assumption.
            -- intros e He Hce. assert (e <> d) by (intros ->; congruence).
               destruct (SyncOther e He H). apply (c_sync _ _ I); assumption.
            -- intros m Hm. apply In_upsert_other; [|apply (c_in_disc _ _ I); assumption].
               intros C; apply Hk; rewrite <- C; apply in_map; assumption.
            -- rewrite krem_notin; [apply (c_keys _ _ I) | rewrite <- (c_keys _ _ I); assumption]. }
    destruct Main as [Main Ed].
    rewrite fold_synced; [exact Main|].
    intros e He. eapply inv_synced; [exact (proj1 Main)|]. rewrite Ed, E. apply in_or_app; right; right; assumption.
  Qed.

  (* ---------------------------------------------------------------- AGone *)
  Lemma step_gone : forall s i k, Inv s i ->
    Inv (proc (unmatch k (set_disc s (retain_not_key k (disc s))))) (fst (istep compat i (AGone k))).
  Proof.
    intros s i k [I P].
    pose proof (c_nd_disc _ _ I) as NDd. pose proof (c_nd_m _ _ I) as NDm.
    set (s1 := set_disc s (retain_not_key k (disc s))).
    assert (Main : Inv (unmatch k s1) (fst (istep compat i (AGone k)))).
    { unfold unmatch. change (matched s1) with (matched s). cbn [istep fst].
      destruct (has_key k (matched s)) eqn:Hk.
      - apply has_key_In in Hk. split.
        + constructor; cbn.
          * apply NoDup_keys_filter; assumption.
          * intros e He Hce. unfold retain_not_key in He; apply filter_In in He. destruct He as [He Hne].
            apply negb_true_iff, key_eqb_neq in Hne. apply In_remove_key_other; [assumption | apply (c_sync _ _ I); assumption].
          * intros m Hm. pose proof (In_remove_key_neq _ _ _ NDm Hm) as Hne. apply In_remove_key in Hm.
            unfold retain_not_key; apply filter_In; split; [apply (c_in_disc _ _ I); assumption|].
            apply negb_true_iff, key_eqb_neq; assumption.
          * intros m Hm. apply In_remove_key in Hm. apply (c_compat _ _ I); assumption.
          * rewrite keys_remove_key by assumption. apply NoDup_filter; assumption.
          * rewrite keys_remove_key by assumption. rewrite (c_keys _ _ I); reflexivity.
          * reflexivity.
          * rewrite (c_total _ _ I); lia.
          * rewrite (c_total_ch _ _ I); lia.
          * rewrite (c_cur_ch _ _ I), zlen_remove_key by assumption; lia.
        + unfold InvP; cbn. apply pkeys_del_proxy; [exact P | assumption].
      - apply has_key_false in Hk. split; [|exact P].
        constructor; cbn; try (first [apply (c_nd_m _ _ I) | apply (c_cur _ _ I) | apply (c_total _ _ I) | apply (c_total_ch _ _ I) | apply (c_cur_ch _ _ I) | apply (c_compat _ _ I)]; fail).
        + apply NoDup_keys_filter; assumption.
        + intros e He Hce. unfold retain_not_key in He; apply filter_In in He. apply (c_sync _ _ I); tauto.
        + intros m Hm. unfold retain_not_key; apply filter_In; split; [apply (c_in_disc _ _ I); assumption|].
          apply negb_true_iff, key_eqb_neq. intros C; apply Hk; rewrite <- C; unfold keys; apply in_map; assumption.
        + rewrite krem_notin; [apply (c_keys _ _ I) | rewrite <- (c_keys _ _ I); assumption]. }
    rewrite (process_id _ _ (proj1 Main)). exact Main.
  Qed.

  (* ---------------------------------------------------------------- participant removal *)
  Lemma del_proxies_prefix : forall p m px, map x_key px = keys m ->
    map x_key (del_proxies_of p m px) = keys (retain_not_prefix p m).
  Proof.
    intros p m px H.
    assert (E : del_proxies_of p m px = filter (fun x => negb (fst (x_key x) =? p)) px).
    { unfold del_proxies_of. apply filter_ext_in. intros x Hx. f_equal.
      assert (Hk : In (x_key x) (keys m)) by (rewrite <- H; apply in_map; assumption).
      destruct (fst (x_key x) =? p) eqn:Ep.
      - apply existsb_exists. unfold keys in Hk; apply in_map_iff in Hk. destruct Hk as [d [Ed Hd]].
        exists d; split; [assumption|]. rewrite Ed, key_eqb_refl, andb_true_r.
        rewrite <- Ed in Ep; exact Ep.
      - destruct (existsb _ m) eqn:Ex; [|reflexivity]. apply existsb_exists in Ex.
        destruct Ex as [d [Hd Ed]]. apply andb_true_iff in Ed. destruct Ed as [E1 E2].
        apply key_eqb_eq in E2. rewrite <- E2 in Ep. cbn [ekey fst] in Ep. congruence. }
    rewrite E. unfold keys, retain_not_prefix. apply (map_filter_parallel x_key ekey (fun k => negb (fst k =? p))). exact H.
  Qed.

  Lemma inv_remove_part : forall s i p, Inv s i ->
    Inv (remove_part p s)
        (mkIdeal (filter (fun k => negb (fst k =? p)) (i_keys i)) (i_total i) (i_rt i) (i_rc i)).
  Proof.
    intros s i p [I P].
    pose proof (c_nd_disc _ _ I) as NDd. pose proof (c_nd_m _ _ I) as NDm.
    unfold remove_part. cbn [parts disc matched prox total total_ch cur cur_ch set_parts].
    split.
    - constructor; cbn.
      + apply NoDup_keys_filter; assumption.
      + intros e He Hce. unfold retain_not_prefix in *; apply filter_In in He. apply filter_In; split; [apply (c_sync _ _ I); tauto | tauto].
      + intros m Hm. unfold retain_not_prefix in *; apply filter_In in Hm. apply filter_In; split; [apply (c_in_disc _ _ I); tauto | tauto].
      + intros m Hm. unfold retain_not_prefix in Hm; apply filter_In in Hm. apply (c_compat _ _ I); tauto.
      + apply NoDup_keys_filter; assumption.
      + rewrite keys_retain_prefix, (c_keys _ _ I); reflexivity.
      + reflexivity.
      + apply (c_total _ _ I).
      + apply (c_total_ch _ _ I).
      + rewrite (c_cur_ch _ _ I); lia.
    - unfold InvP; cbn. apply del_proxies_prefix. exact P.
  Qed.

  Lemma inv_set_parts : forall s i l, Inv s i -> Inv (set_parts s l) i.
  Proof.
    intros s i l [I P]; split; [|exact P].
    constructor; cbn; first [apply (c_nd_disc _ _ I) | apply (c_sync _ _ I) | apply (c_in_disc _ _ I) | apply (c_nd_m _ _ I) | apply (c_keys _ _ I) | apply (c_cur _ _ I) | apply (c_total _ _ I) | apply (c_total_ch _ _ I) | apply (c_cur_ch _ _ I) | apply (c_compat _ _ I)].
  Qed.

  (* ---------------------------------------------------------------- one step *)
  Lemma step_refines : forall s i a, Inv s i ->
    Inv (fst (step compat s a)) (fst (istep compat i a)) /\
    snd (step compat s a) = snd (istep compat i a).
  Proof.
    intros s i a I. destruct a as [p|d|k|p|p| |].
    - (* APart *) cbn [step istep fst snd]. split; [|reflexivity].
      set (l := if existsb (Z.eqb p) (parts s) then parts s else parts s ++ [p]).
      pose proof (inv_set_parts s i l I) as I1. rewrite (process_id _ _ (proj1 I1)). exact I1.
    - (* ADisc *) cbn [step fst snd]. split; [apply step_disc; assumption|].
      cbn [istep]. destruct (compat d); [destruct (kmem _ _)|]; reflexivity.
    - (* AGone *) cbn [step fst snd]. split; [apply step_gone; assumption | reflexivity].
    - (* APartGone *) cbn [step istep fst snd]. split; [|reflexivity].
      pose proof (inv_remove_part s i p I) as I1.
      rewrite (process_id _ _ (proj1 I1)). exact I1.
    - (* AStale *) cbn [step istep fst snd]. split; [|reflexivity].
      rewrite (process_id _ _ (proj1 I)). exact (inv_remove_part s i p I).
    - (* ATick *) cbn [step istep fst snd]. split; [|reflexivity]. rewrite (process_id _ _ (proj1 I)). exact I.
    - (* ARead *) destruct I as [I P]. cbn [step read istep fst snd].
      assert (I1 : Inv (mkSt (parts s) (disc s) (matched s) (prox s) (total s) 0 (cur s) 0)
                      (mkIdeal (i_keys i) (i_total i) (i_total i) (zlen (i_keys i)))).
      { split; [|exact P]. constructor; cbn; try first [apply (c_nd_disc _ _ I) | apply (c_sync _ _ I) | apply (c_in_disc _ _ I) | apply (c_nd_m _ _ I) | apply (c_keys _ _ I) | apply (c_cur _ _ I) | apply (c_total _ _ I) | apply (c_compat _ _ I)].
        - lia.
        - rewrite <- (c_keys _ _ I); unfold keys; rewrite zlen_map; lia. }
      rewrite (process_id _ _ (proj1 I1)). split; [exact I1|].
      rewrite (c_total _ _ I), (c_total_ch _ _ I), (c_cur _ _ I), (c_cur_ch _ _ I), <- (c_keys _ _ I); unfold keys; rewrite zlen_map. reflexivity.
  Qed.

  Theorem run_refines : forall l s i, Inv s i ->
    Inv (fst (run compat s l)) (fst (irun compat i l)) /\
    snd (run compat s l) = snd (irun compat i l).
  Proof.
    intros l; induction l as [|a t IH]; intros s i I; cbn [run irun].
    - split; [exact I | reflexivity].
    - destruct (step_refines s i a I) as [I1 O1].
      destruct (step compat s a) as [s1 o1] eqn:Es. destruct (istep compat i a) as [i1 o1'] eqn:Ei.
      cbn [fst snd] in *. destruct (IH s1 i1 I1) as [I2 O2].
      destruct (run compat s1 t) as [s2 os] eqn:Er. destruct (irun compat i1 t) as [i2 os'] eqn:Eir.
      cbn [fst snd] in *. split; [exact I2|]. subst. reflexivity.
  Qed.

  Lemma inv0 : Inv st0 ideal0.
  Proof. split; [constructor; cbn; try constructor; try tauto; try reflexivity | reflexivity]. Qed.
End Refine.

(* ------------------------------------------------------------------ the pinned statements *)
Theorem counts_track_matched_set : forall compat acts,
  let r := run compat st0 acts in
  let ir := irun compat ideal0 acts in
  snd r = snd ir /\ keys (matched (fst r)) = i_keys (fst ir) /\ cur (fst r) = zlen (matched (fst r)) /\
  total (fst r) = i_total (fst ir) /\ NoDup (keys (matched (fst r))) /\
  map x_key (prox (fst r)) = keys (matched (fst r)).
Proof.
  intros compat acts. destruct (run_refines compat acts st0 ideal0 (inv0 compat)) as [[I P] O].
  cbv zeta. repeat split.
  - exact O.
  - apply (c_keys _ _ _ I).
  - apply (c_cur _ _ _ I).
  - apply (c_total _ _ _ I).
  - apply (c_nd_m _ _ _ I).
  - exact P.
Qed.

(* the same at every point of a history (prefix closed): after any prefix the current state agrees *)
Corollary current_count_is_length : forall compat acts,
  cur (fst (run compat st0 acts)) = zlen (matched (fst (run compat st0 acts))).
Proof. intros compat acts. apply (counts_track_matched_set compat acts). Qed.

Lemma spec_read_and_match : forall compat i d,
  snd (istep compat i ARead) =
    Some (i_total i, i_total i - i_rt i, zlen (i_keys i), zlen (i_keys i) - i_rc i) /\
  i_rt (fst (istep compat i ARead)) = i_total i /\
  i_rc (fst (istep compat i ARead)) = zlen (i_keys i) /\
  (compat d = true -> kmem (ekey d) (i_keys i) = false ->
     i_keys (fst (istep compat i (ADisc d))) = i_keys i ++ [ekey d] /\
     i_total (fst (istep compat i (ADisc d))) = i_total i + 1) /\
  (compat d = true -> kmem (ekey d) (i_keys i) = true -> fst (istep compat i (ADisc d)) = i).
Proof.
  intros compat i d; cbn [istep fst snd i_rt i_rc].
  split; [reflexivity|]. split; [reflexivity|]. split; [reflexivity|]. split.
  - intros Hc Hk; rewrite Hc, Hk; cbn; split; reflexivity.
  - intros Hc Hk; rewrite Hc, Hk; reflexivity.
Qed.

(* regression examples: the four histories that used to break the property (QoS update of a matched
   endpoint, update to incompatible QoS, participant expiry, deletion) and a mixed history
   (reader deadline >= 10 is compatible) *)
Definition wcompat (d : ep) : bool := 10 <=? e_dl d.
Definition w_r : ep := mkEp 1 7 0 20 0.

Example regression_histories :
  snd (run wcompat st0 [APart 1; ADisc w_r; ARead; ADisc (mkEp 1 7 0 20 5); ARead]) = [(1, 1, 1, 1); (1, 0, 1, 0)] /\
  snd (run wcompat st0 [APart 1; ADisc w_r; ARead; ADisc (mkEp 1 7 0 5 0); ARead]) = [(1, 1, 1, 1); (1, 0, 0, -1)] /\
  snd (run wcompat st0 [APart 1; ADisc w_r; ARead; AStale 1; ATick; ARead]) = [(1, 1, 1, 1); (1, 0, 0, -1)] /\
  prox (fst (run wcompat st0 [APart 1; ADisc w_r; AGone (1, 7)])) = [] /\
  snd (run wcompat st0 [APart 1; APart 2; ADisc w_r; ADisc (mkEp 2 3 0 30 1); ADisc (mkEp 2 4 0 5 1); ARead;
                        AGone (2, 3); AGone (2, 4); APartGone 2; ARead]) = [(2, 2, 2, 2); (2, 0, 1, -1)].
Proof. repeat split; vm_compute; reflexivity. Qed.
