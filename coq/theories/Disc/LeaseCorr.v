(* Correspondence vocabulary for C17: one case = one simulated scenario; for every
   participant of the scenario (the "observer") the sequence of worker iterations that concern
   discovery, with the simulated time of each, and the replies of get_discovered_participants. *)
From DustDDS Require Export Base.Machine Disc.LeaseModel.
Open Scope Z_scope.

Inductive litem : Type :=
| LEv (p : nat) (e : pev) (now : Z)  (* participant p handles a datagram / API call at time now *)
| LWake (now : Z) (spins : Z)        (* the clock was set to `now` and the worker (one task for all participants)
                                        ran; observed number of 1 ns clock bumps it needed: it busy-loops on a
                                        zero delay while some now - last = lease exactly *)
| LObs (p : nat) (l : list Z)        (* get_discovered_participants of p, storage order *)
| LDel (p : nat).                    (* delete_participant(p): its state is gone *)

Record C17_case : Type := mkC17 {
  k_parts : list (Z * Z * Z);        (* (key, domain id, tag) of participant 0, 1, ... *)
  k_items : list litem
}.

Definition cfg_of (x : Z * Z * Z) : pcfg := mkCfg (snd (fst x)) (snd x).

(* a timer wake at `now`: remove_stale in every participant; while some remaining entry has exactly
   now - last = lease the worker spins (time_until_stale_participant = 0, `>` not yet true) until the
   clock moves by 1 ns *)
Fixpoint wake_loop (fuel : nat) (now : Z) (ss : list pst) : list pst * Z :=
  let ss1 := map (remove_stale now) ss in
  match fuel with
  | O => (ss1, 0)
  | S f => if existsb (fun s => existsb (fun d => now - d_last d =? d_lease d) (p_disc s)) ss1
           then let (ss2, n) := wake_loop f (now + 1) ss1 in (ss2, n + 1)
           else (ss1, 0)
  end.

Fixpoint upd {A} (n : nat) (f : A -> A) (l : list A) : list A :=
  match l, n with
  | [], _ => []
  | x :: t, O => f x :: t
  | x :: t, S m => x :: upd m f t
  end.

Fixpoint zs_eqb (a b : list Z) : bool :=
  match a, b with
  | [], [] => true
  | x :: a', y :: b' => (x =? y) && zs_eqb a' b'
  | _, _ => false
  end.

Definition total_entries (ss : list pst) : nat := fold_right (fun s n => (length (p_disc s) + n)%nat) O ss.

Fixpoint model_items (cs : list pcfg) (ss : list pst) (l : list litem) : bool :=
  match l with
  | [] => true
  | LEv p e now :: t =>
      model_items cs (upd p (fun s => pstep (nth p cs (mkCfg 0 0)) s (e, now)) ss) t
  | LWake now n :: t =>
      let (ss1, n') := wake_loop (S (total_entries ss)) now ss in (n =? n') && model_items cs ss1 t
  | LObs p ks :: t => zs_eqb ks (dkeys (p_disc (nth p ss pst0))) && model_items cs ss t
  | LDel p :: t => model_items cs (upd p (fun _ => pst0) ss) t
  end.

Definition C17_model_ok (c : C17_case) : bool :=
  model_items (map cfg_of (k_parts c)) (map (fun _ => pst0) (k_parts c)) (k_items c).

(* ------------------------------------------------------------------ the property on the observations.
   Specification state of an observer: who must currently be in its list, with lease and time of
   the last communication (set semantics, independent of the storage order and loops of the code) *)
Record sp : Type := mkSp { sp_known : list (Z * Z * Z); (* key, lease, last *) sp_ign : list Z }.
Definition sp0 : sp := mkSp [] [].
Definition sp_keys (s : sp) : list Z := map (fun x => fst (fst x)) (sp_known s).
Definition sp_expire (now : Z) (s : sp) : sp :=
  mkSp (filter (fun x => negb (snd (fst x) <? now - snd x)) (sp_known s)) (sp_ign s).
Definition sp_touch (k now : Z) (s : sp) : sp :=
  mkSp (map (fun x => if fst (fst x) =? k then (fst x, now) else x) (sp_known s)) (sp_ign s).
Definition sp_drop (k : Z) (s : sp) : sp :=
  mkSp (filter (fun x => negb (fst (fst x) =? k)) (sp_known s)) (sp_ign s).

Definition sp_step (c : pcfg) (e : pev) (now : Z) (s : sp) : sp :=
  sp_expire now
    match e with
    | ESpdp a =>
        let s1 := sp_touch (a_key a) now s in
        if accepts c a && negb (zmem (a_key a) (sp_keys s1)) && negb (zmem (a_key a) (sp_ign s1))
        then mkSp (sp_known s1 ++ [(a_key a, a_lease a, now)]) (sp_ign s1) else s1
    | EData k => sp_touch k now s
    | EDispose k => sp_drop k s
    | EIgnore k => mkSp (sp_known (sp_drop k s)) (k :: sp_ign s)
    | EWake => s
    end.

Definition same_set (a b : list Z) : bool :=
  forallb (fun x => zmem x b) a && forallb (fun x => zmem x a) b.

(* isolation against the scenario's participant table *)
Definition iso_ok (parts : list (Z * Z * Z)) (c : pcfg) (k : Z) : bool :=
  existsb (fun x => (fst (fst x) =? k) && (snd (fst x) =? c_dom c) && (snd x =? c_tag c)) parts.

Fixpoint oracle_items (parts : list (Z * Z * Z)) (ss : list sp) (l : list litem) : bool :=
  match l with
  | [] => true
  | LEv p e now :: t =>
      oracle_items parts (upd p (sp_step (cfg_of (nth p parts (0, 0, 0))) e now) ss) t
  | LWake now n :: t => oracle_items parts (map (sp_expire (now + n)) ss) t
  | LObs p ks :: t =>
      let c := cfg_of (nth p parts (0, 0, 0)) in
      let s := nth p ss sp0 in
      forallb (iso_ok parts c) ks &&                      (* only same domain id and tag *)
      forallb (fun k => negb (zmem k (sp_ign s))) ks &&   (* never an ignored participant *)
      same_set ks (sp_keys s) &&                          (* discovered iff announced and lease not expired *)
      oracle_items parts ss t
  | LDel p :: t => oracle_items parts (upd p (fun _ => sp0) ss) t
  end.

Definition C17_oracle_ok (c : C17_case) : bool :=
  oracle_items (k_parts c) (map (fun _ => sp0) (k_parts c)) (k_items c).

Definition C17_known (c : C17_case) : N := 0%N.
