(* Proofs about the parameter-list model: primitives, parameter framing, iterator,
   generic table round trip, unknown parameters. *)
From DustDDS Require Import Base.Machine Disc.PlModel.
From Coq Require Import Lia ZArith List Bool.
Import ListNotations.
Open Scope Z_scope.
Ltac Zify.zify_post_hook ::= Z.div_mod_to_equations.

(* ------------------------------------------------------------------ lists and lengths *)
Lemma blen_nonneg : forall l, 0 <= blen l.
Proof. intros; unfold blen; lia. Qed.
Lemma blen_nil : blen [] = 0. Proof. reflexivity. Qed.
Lemma blen_cons : forall b l, blen (b :: l) = 1 + blen l.
Proof. intros; unfold blen; cbn [length]; lia. Qed.
Lemma blen_app : forall a b, blen (a ++ b) = blen a + blen b.
Proof. intros; unfold blen; rewrite app_length; lia. Qed.
Lemma blen_zeros : forall n, 0 <= n -> blen (zeros n) = n.
Proof. intros; unfold blen, zeros; rewrite repeat_length; lia. Qed.
Lemma zeros_0 : zeros 0 = [].
Proof. reflexivity. Qed.
Lemma blen_0_nil : forall l, blen l = 0 -> l = [].
Proof. intros [|x l] H; [reflexivity|]. rewrite blen_cons in H. pose proof (blen_nonneg l). lia. Qed.

Lemma take_app_exact : forall a b, take (blen a) (a ++ b) = a.
Proof.
  intros; unfold take, blen. rewrite Nat2Z.id.
  rewrite firstn_app, Nat.sub_diag, firstn_all; cbn [firstn]; apply app_nil_r.
Qed.
Lemma drop_app_exact : forall a b, drop (blen a) (a ++ b) = b.
Proof.
  intros; unfold drop, blen. rewrite Nat2Z.id.
  rewrite skipn_app, Nat.sub_diag, skipn_all; reflexivity.
Qed.
Lemma take_app_n : forall n a b, blen a = n -> take n (a ++ b) = a.
Proof. intros; subst; apply take_app_exact. Qed.
Lemma drop_app_n : forall n a b, blen a = n -> drop n (a ++ b) = b.
Proof. intros; subst; apply drop_app_exact. Qed.
Lemma take_0 : forall l, take 0 l = [].
Proof. reflexivity. Qed.
Lemma drop_0 : forall l, drop 0 l = l.
Proof. reflexivity. Qed.

Lemma shorter_spec : forall l n, shorter l n = (blen l <? n).
Proof.
  induction l as [|x l IH]; intros n; cbn [shorter].
  - reflexivity.
  - rewrite blen_cons. destruct (n <=? 0) eqn:E.
    + symmetry. apply Z.ltb_ge. pose proof (blen_nonneg l). lia.
    + rewrite IH. destruct (blen l <? n - 1) eqn:F; symmetry.
      * apply Z.ltb_lt. lia.
      * apply Z.ltb_ge. lia.
Qed.
Lemma shorter_app_false : forall a b n, blen a = n -> shorter (a ++ b) n = false.
Proof. intros. rewrite shorter_spec, blen_app. apply Z.ltb_ge. pose proof (blen_nonneg b). lia. Qed.

(* ------------------------------------------------------------------ integers <-> bytes *)
Lemma blen_le_bytes : forall n v, blen (le_bytes n v) = Z.of_nat n.
Proof. induction n; intros; cbn [le_bytes]; [reflexivity|]. rewrite blen_cons, IHn. lia. Qed.

Lemma le_val_le_bytes : forall n v, le_val (le_bytes n v) = v mod 256 ^ Z.of_nat n.
Proof.
  induction n; intros v.
  - cbn. rewrite Z.mod_1_r. reflexivity.
  - cbn [le_bytes le_val]. rewrite IHn.
    replace (Z.of_nat (S n)) with (1 + Z.of_nat n) by lia.
    rewrite Z.pow_add_r by lia. change (256 ^ 1) with 256.
    rewrite Z.rem_mul_r by (try lia; apply Z.pow_pos_nonneg; lia). lia.
Qed.
Lemma le_val_le_bytes_small : forall n v, 0 <= v < 256 ^ Z.of_nat n -> le_val (le_bytes n v) = v.
Proof. intros. rewrite le_val_le_bytes. apply Z.mod_small; assumption. Qed.

Lemma bytes_ok_le_bytes : forall n v, bytes_ok (le_bytes n v).
Proof.
  induction n; intros; cbn [le_bytes]; constructor; [|apply IHn].
  unfold byte_ok. pose proof (Z.mod_pos_bound v 256). lia.
Qed.

(* ------------------------------------------------------------------ reader / writer pairing
   (w, r) round-trips a: reading what w wrote at the same position returns a, consumes
   exactly those bytes and leaves the rest. *)
Definition wr_rd {A} (w : wr) (r : rdr A) (a : A) : Prop :=
  forall pos rest, r (pos, w pos ++ rest) = Ok (a, (pos + blen (w pos), rest)).

Lemma wr_rd_bind : forall {A B} (w1 w2 : wr) (r1 : rdr A) (k : A -> rdr B) a b,
  wr_rd w1 r1 a -> wr_rd w2 (k a) b -> wr_rd (w1 +++ w2) (rbind r1 k) b.
Proof.
  intros A B w1 w2 r1 k a b H1 H2 pos rest. unfold wseq, rbind.
  rewrite <- app_assoc, H1. rewrite H2. rewrite blen_app. f_equal. f_equal. f_equal. lia.
Qed.
Lemma wr_rd_ext : forall {A} (w w' : wr) (r : rdr A) a,
  (forall pos, w pos = w' pos) -> wr_rd w r a -> wr_rd w' r a.
Proof. intros A w w' r a E H pos rest. rewrite <- E. apply H. Qed.
Lemma wseq_nil_r : forall (w : wr) pos, (w +++ w_raw []) pos = w pos.
Proof. intros. unfold wseq, w_raw. apply app_nil_r. Qed.
Lemma wr_rd_ret : forall {A} (a : A), wr_rd (w_raw []) (rret a) a.
Proof. intros A a pos rest. unfold w_raw, rret. cbn [app]. rewrite blen_nil. f_equal. f_equal. f_equal. lia. Qed.
(* a reader that ends with a pure post-processing step *)
Lemma wr_rd_map : forall {A B} (w : wr) (r : rdr A) (f : A -> B) a,
  wr_rd w r a -> wr_rd w (x <~ r ;; rret (f x)) (f a).
Proof. intros A B w r f a H pos rest. unfold rbind, rret. rewrite H. reflexivity. Qed.

Lemma wr_rd_bytes : forall ned n b, blen b = n -> wr_rd (w_raw b) (r_bytes ned n) b.
Proof.
  intros ned n b Hn pos rest. unfold w_raw, r_bytes.
  rewrite (shorter_app_false b rest n Hn), (take_app_n n b rest Hn), (drop_app_n n b rest Hn), Hn. reflexivity.
Qed.
Lemma wr_rd_u8 : forall ned v, wr_rd (w_u8 v) (r_u8 ned) v.
Proof. intros ned v pos rest. unfold w_u8, w_raw, r_u8. cbn [app]. reflexivity. Qed.
Lemma wr_rd_pad : forall ned a, 0 < a -> wr_rd (w_pad a) (r_align ned a) tt.
Proof.
  intros ned a Ha pos rest. unfold w_pad, r_align.
  assert (Hk : 0 <= (- pos) mod a) by (apply Z.mod_pos_bound; lia).
  rewrite (shorter_app_false (zeros ((- pos) mod a)) rest ((- pos) mod a)) by (apply blen_zeros; assumption).
  rewrite (drop_app_n _ _ rest (blen_zeros _ Hk)), (blen_zeros _ Hk). reflexivity.
Qed.
Lemma wr_rd_uint : forall ned (n : nat) v, (0 < n)%nat -> 0 <= v < 256 ^ Z.of_nat n ->
  wr_rd (w_pad (Z.of_nat n) +++ w_raw (le_bytes n v)) (r_uint ned false (Z.of_nat n)) v.
Proof.
  intros ned n v Hn Hv. unfold r_uint.
  eapply wr_rd_bind; [apply wr_rd_pad; lia|].
  apply (wr_rd_ext (w_raw (le_bytes n v) +++ w_raw [])); [apply wseq_nil_r|].
  eapply wr_rd_bind; [apply wr_rd_bytes, blen_le_bytes|].
  unfold int_val. rewrite (le_val_le_bytes_small n v Hv). apply wr_rd_ret.
Qed.

(* ------------------------------------------------------------------ machine integers *)
Lemma wrap_i32_u32 : forall v, in_i32 v -> wrap_i32 (wrap_u32 v) = v.
Proof. unfold in_i32, i32_min, i32_max, wrap_i32, wrap_u32, two32. intros. lia. Qed.
Lemma wrap_u32_range : forall v, 0 <= wrap_u32 v < 256 ^ 4.
Proof. intros. unfold wrap_u32, two32. change (256 ^ 4) with 4294967296. apply Z.mod_pos_bound. lia. Qed.
Lemma wrap_u32_small : forall v, in_u32 v -> wrap_u32 v = v.
Proof. unfold in_u32, u32_max, wrap_u32, two32. intros. apply Z.mod_small. lia. Qed.
Lemma wrap_u32_i32 : forall v, in_u32 v -> wrap_u32 (wrap_i32 v) = v.
Proof. unfold in_u32, u32_max, wrap_i32, wrap_u32, two32. intros. lia. Qed.
Lemma wrap_i16_u16 : forall v, -32768 <= v <= 32767 -> wrap_i16 (wrap_u16 v) = v.
Proof. unfold wrap_i16, wrap_u16. intros. lia. Qed.
Lemma wrap_u16_range : forall v, 0 <= wrap_u16 v < 256 ^ 2.
Proof. intros. unfold wrap_u16. change (256 ^ 2) with 65536. apply Z.mod_pos_bound. lia. Qed.
Lemma wrap_u16_small : forall v, 0 <= v <= 65535 -> wrap_u16 v = v.
Proof. unfold wrap_u16. intros. apply Z.mod_small. lia. Qed.

Lemma wr_rd_u16 : forall ned v, 0 <= v <= 65535 -> wr_rd (w_u16 v) (r_u16 ned false) v.
Proof. intros. unfold w_u16, r_u16. apply (wr_rd_uint ned 2 v); [lia|]. change (256 ^ Z.of_nat 2) with 65536. lia. Qed.
Lemma wr_rd_u32 : forall ned v, in_u32 v -> wr_rd (w_u32 v) (r_u32 ned false) v.
Proof.
  intros ned v H. unfold w_u32, r_u32. apply (wr_rd_uint ned 4 v); [lia|].
  change (256 ^ Z.of_nat 4) with 4294967296. unfold in_u32, u32_max in H. lia.
Qed.
Lemma wr_rd_i32 : forall ned v, in_i32 v -> wr_rd (w_u32 (wrap_u32 v)) (r_i32 ned false) v.
Proof.
  intros ned v H. unfold r_i32.
  rewrite <- (wrap_i32_u32 v H) at 2.
  apply (wr_rd_map (w_u32 (wrap_u32 v)) (r_uint ned false 4) wrap_i32 (wrap_u32 v)).
  apply (wr_rd_uint ned 4); [lia|]. apply wrap_u32_range.
Qed.
Lemma wr_rd_i16 : forall ned v, -32768 <= v <= 32767 -> wr_rd (w_u16 (wrap_u16 v)) (r_i16 ned false) v.
Proof.
  intros ned v H. unfold r_i16.
  rewrite <- (wrap_i16_u16 v H) at 2.
  apply (wr_rd_map (w_u16 (wrap_u16 v)) (r_uint ned false 2) wrap_i16 (wrap_u16 v)).
  apply (wr_rd_uint ned 2); [lia|]. apply wrap_u16_range.
Qed.
Lemma wr_rd_xbool : forall b, wr_rd (w_bool b) x_r_bool b.
Proof. intros b pos rest. destruct b; reflexivity. Qed.
Lemma wr_rd_cbool : forall b, wr_rd (w_bool b) cdr_r_bool b.
Proof. intros b pos rest. destruct b; reflexivity. Qed.

(* strings: length + 1 must fit u32 (any String that fits a parameter does) *)
Lemma wr_rd_xstring : forall s, utf8_valid s = true -> blen s + 1 <= u32_max ->
  wr_rd (x_w_string s) (x_r_string false) s.
Proof.
  intros s Hu Hl. unfold x_w_string, x_r_string.
  assert (Hr : in_u32 (blen s + 1)) by (unfold in_u32; pose proof (blen_nonneg s); lia).
  rewrite (wrap_u32_small _ Hr).
  eapply wr_rd_bind; [apply wr_rd_u32; exact Hr|].
  replace (Z.max 0 (blen s + 1 - 1)) with (blen s) by (pose proof (blen_nonneg s); lia).
  eapply wr_rd_bind; [apply wr_rd_bytes; reflexivity|].
  apply (wr_rd_ext (w_u8 0 +++ w_raw [])); [intros; apply wseq_nil_r|].
  eapply wr_rd_bind; [apply wr_rd_u8|]. rewrite Hu. apply wr_rd_ret.
Qed.
Lemma wr_rd_cstring : forall s, utf8_valid s = true -> blen s + 1 <= u32_max ->
  wr_rd (cdr_w_string s) (cdr_r_string false) s.
Proof.
  intros s Hu Hl. unfold cdr_w_string, cdr_r_string.
  assert (Hr : in_u32 (blen s + 1)) by (unfold in_u32; pose proof (blen_nonneg s); lia).
  rewrite (wrap_u32_small _ Hr).
  eapply wr_rd_bind; [apply wr_rd_u32; exact Hr|].
  assert (E : (blen s + 1 =? 0) = false) by (apply Z.eqb_neq; pose proof (blen_nonneg s); lia).
  rewrite E. replace (blen s + 1 - 1) with (blen s) by lia.
  eapply wr_rd_bind; [apply wr_rd_bytes; reflexivity|].
  apply (wr_rd_ext (w_u8 0 +++ w_raw [])); [intros; apply wseq_nil_r|].
  eapply wr_rd_bind; [apply wr_rd_u8|]. rewrite Hu. apply wr_rd_ret.
Qed.

(* sequences *)
Lemma r_seq_f_ok : forall {A} (w : A -> wr) (elem : rdr A) (l : list A) (fuel : nat) pos rest,
  (forall a, In a l -> wr_rd (w a) elem a) -> (length l <= fuel)%nat ->
  r_seq_f fuel elem (Z.of_nat (length l)) (pos, w_list w l pos ++ rest)
  = Ok (l, (pos + blen (w_list w l pos), rest)).
Proof.
  intros A w elem l. induction l as [|a l IH]; intros fuel pos rest Hok Hf.
  - destruct fuel; cbn; rewrite Z.add_0_r; reflexivity.
  - destruct fuel as [|f]; [cbn in Hf; lia|].
    cbn [r_seq_f]. replace (Z.of_nat (length (a :: l)) <=? 0) with false
      by (symmetry; apply Z.leb_gt; cbn [length]; lia).
    cbn [w_list]. unfold wseq. rewrite <- app_assoc.
    rewrite (Hok a (or_introl eq_refl)).
    replace (Z.of_nat (length (a :: l)) - 1) with (Z.of_nat (length l)) by (cbn [length]; lia).
    rewrite IH; [|intros; apply Hok; right; assumption|cbn [length] in Hf; lia].
    rewrite blen_app. f_equal. f_equal. f_equal. lia.
Qed.
Lemma length_w_list_ge : forall {A} (w : A -> wr) (l : list A) pos,
  (forall a p, In a l -> 1 <= blen (w a p)) -> Z.of_nat (length l) <= blen (w_list w l pos).
Proof.
  intros A w l. induction l as [|a l IH]; intros pos H.
  - cbn. lia.
  - cbn [w_list length]. unfold wseq. rewrite blen_app.
    pose proof (H a pos (or_introl eq_refl)).
    pose proof (IH (pos + blen (w a pos)) (fun x p Hx => H x p (or_intror Hx))). lia.
Qed.
Lemma wr_rd_seq : forall {A} (w : A -> wr) (elem : rdr A) (l : list A),
  (forall a, In a l -> wr_rd (w a) elem a) -> (forall a p, In a l -> 1 <= blen (w a p)) ->
  wr_rd (w_list w l) (r_seq elem (Z.of_nat (length l))) l.
Proof.
  intros A w elem l Hok Hlen pos rest. unfold r_seq. cbn [snd].
  apply r_seq_f_ok; [assumption|].
  pose proof (length_w_list_ge w l pos Hlen). rewrite app_length. unfold blen in H. lia.
Qed.

(* ------------------------------------------------------------------ parameter framing *)

Lemma blen_padv : forall v, blen (padv v) = padded_len (blen v).
Proof.
  intros. unfold padv, padded_len. rewrite blen_app, blen_zeros; [reflexivity|].
  apply Z.mod_pos_bound; lia.
Qed.
Lemma blen_padv_mod4 : forall v, blen (padv v) mod 4 = 0.
Proof. intros. rewrite blen_padv. unfold padded_len. pose proof (blen_nonneg v). lia. Qed.
Lemma blen_enc16 : forall be x, blen (enc16 be x) = 2.
Proof. intros [|] x; reflexivity. Qed.
Lemma blen_param_bytes : forall be pid v, blen (param_bytes be pid v) = 4 + blen v.
Proof. intros. unfold param_bytes. rewrite !blen_app, !blen_enc16. lia. Qed.

Lemma w_u16_aligned : forall v pos, pos mod 2 = 0 -> w_u16 v pos = le_bytes 2 v.
Proof.
  intros. unfold w_u16, wseq, w_pad, w_raw.
  replace ((- pos) mod 2) with 0 by lia. reflexivity.
Qed.

Lemma write_cdr_parameter_eq : forall buf pid (w : wr),
  blen buf mod 4 = 0 ->
  write_cdr_parameter buf pid w = buf ++ param_bytes false pid (padv (w (blen buf + 4))).
Proof.
  intros buf pid w Hb. unfold write_cdr_parameter.
  assert (E0 : (w_u16 (wrap_u16 pid) +++ w_u16 0) (blen buf) = le_bytes 2 (wrap_u16 pid) ++ [0; 0]).
  { unfold wseq. rewrite (w_u16_aligned _ (blen buf)) by lia.
    rewrite blen_le_bytes. rewrite w_u16_aligned by (change (Z.of_nat 2) with 2; lia). reflexivity. }
  rewrite E0.
  set (V := w (blen (buf ++ le_bytes 2 (wrap_u16 pid) ++ [0; 0]))).
  assert (Ep : blen (buf ++ le_bytes 2 (wrap_u16 pid) ++ [0; 0]) = blen buf + 4).
  { rewrite !blen_app, blen_le_bytes. reflexivity. }
  assert (EV : V = w (blen buf + 4)) by (unfold V; rewrite Ep; reflexivity).
  rewrite Ep.
  assert (Epad : (- blen ((buf ++ le_bytes 2 (wrap_u16 pid) ++ [0; 0]) ++ V)) mod 4 = (- blen V) mod 4).
  { rewrite blen_app, Ep. pose proof (blen_nonneg V). lia. }
  rewrite Epad.
  replace (blen (((buf ++ le_bytes 2 (wrap_u16 pid) ++ [0; 0]) ++ V) ++ zeros ((- blen V) mod 4)) - (blen buf + 4))
    with (blen (padv V)).
  2:{ unfold padv. rewrite !blen_app, blen_le_bytes. change (blen [0; 0]) with 2. change (Z.of_nat 2) with 2. lia. }
  unfold patch2.
  replace (blen buf + 4 - 2) with (blen (buf ++ le_bytes 2 (wrap_u16 pid))) by (rewrite blen_app, blen_le_bytes; lia).
  replace (((buf ++ le_bytes 2 (wrap_u16 pid) ++ [0; 0]) ++ V) ++ zeros ((- blen V) mod 4))
    with ((buf ++ le_bytes 2 (wrap_u16 pid)) ++ ([0; 0] ++ padv V)).
  2:{ unfold padv. rewrite <- !app_assoc. reflexivity. }
  rewrite take_app_exact.
  replace (blen (buf ++ le_bytes 2 (wrap_u16 pid)) + 2) with (blen ((buf ++ le_bytes 2 (wrap_u16 pid)) ++ [0; 0]))
    by (rewrite (blen_app _ [0; 0]); reflexivity).
  rewrite (app_assoc (buf ++ le_bytes 2 (wrap_u16 pid)) [0; 0] (padv V)).
  rewrite drop_app_exact.
  unfold param_bytes, enc16. rewrite EV, <- !app_assoc. reflexivity.
Qed.

Lemma write_cdr_parameter_aligned : forall buf pid (w : wr),
  blen buf mod 4 = 0 -> blen (write_cdr_parameter buf pid w) mod 4 = 0.
Proof.
  intros. rewrite write_cdr_parameter_eq by assumption.
  rewrite blen_app, blen_param_bytes. pose proof (blen_padv_mod4 (w (blen buf + 4))). lia.
Qed.

(* ------------------------------------------------------------------ one iterator step *)
Lemma le_bytes_2 : forall x, le_bytes 2 x = [x mod 256; (x / 256) mod 256].
Proof. reflexivity. Qed.
Lemma le_val_2 : forall x, 0 <= x < 65536 -> x mod 256 + 256 * ((x / 256) mod 256 + 256 * 0) = x.
Proof. intros. lia. Qed.

(* in either endianness *)
Lemma pl_next_param : forall be pid v rest, pid_ok pid -> blen v <= 65535 ->
  pl_next be (param_bytes be pid v ++ rest) = PItem pid v rest.
Proof.
  intros be pid v rest [Hr Hn1] Hl. unfold param_bytes, enc16. rewrite !le_bytes_2.
  pose proof (blen_nonneg v) as Hv0.
  assert (E1 : forall x, 0 <= x < 65536 -> int_val be (if be then rev [x mod 256; (x / 256) mod 256] else [x mod 256; (x / 256) mod 256]) = x).
  { intros x Hx. destruct be; cbn [rev app int_val le_val]; apply le_val_2; assumption. }
  assert (Hp : 0 <= wrap_u16 pid < 65536) by (pose proof (wrap_u16_range pid); change (256 ^ 2) with 65536 in *; lia).
  assert (Hlen : 0 <= wrap_u16 (blen v) < 65536) by (pose proof (wrap_u16_range (blen v)); change (256 ^ 2) with 65536 in *; lia).
  pose proof (E1 _ Hp) as Ep. pose proof (E1 _ Hlen) as El.
  destruct be; cbn [rev app] in *; cbn [pl_next]; rewrite Ep, El;
    rewrite (wrap_i16_u16 pid Hr), (wrap_u16_small (blen v)) by lia;
    replace (pid =? 1) with false by (symmetry; apply Z.eqb_neq; assumption);
    rewrite (shorter_app_false v rest (blen v) eq_refl); cbn [orb];
    rewrite take_app_exact, drop_app_exact; reflexivity.
Qed.
Lemma pl_next_sentinel : forall junk, pl_next false ([1; 0; 0; 0] ++ junk) = PEnd.
Proof. intros junk; reflexivity. Qed.

(* ------------------------------------------------------------------ fuel is irrelevant *)
Lemma length_skipn_le : forall {A} n (l : list A), (length (skipn n l) <= length l)%nat.
Proof. intros. rewrite skipn_length. lia. Qed.
Lemma pl_next_shorter : forall be d p v rest,
  pl_next be d = PItem p v rest -> (length rest + 4 <= length d)%nat.
Proof.
  intros be d p v rest H. unfold pl_next in H.
  destruct d as [|b0 [|b1 [|b2 [|b3 r0]]]]; try discriminate.
  destruct ((wrap_i16 (int_val be [b0; b1]) =? 1) || shorter r0 (int_val be [b2; b3])); [discriminate|].
  inversion H; subst. unfold drop. pose proof (length_skipn_le (Z.to_nat (int_val be [b2; b3])) r0).
  cbn [length]. lia.
Qed.
Lemma pl_seek_f_fuel : forall f1 f2 be pid d,
  (length d < f1)%nat -> (length d < f2)%nat -> pl_seek_f f1 be pid d = pl_seek_f f2 be pid d.
Proof.
  induction f1 as [|f1 IH]; intros f2 be pid d H1 H2; [lia|].
  destruct f2 as [|f2]; [lia|]. cbn [pl_seek_f].
  destruct (pl_next be d) as [| |p v rest] eqn:E; try reflexivity.
  destruct (p =? pid); [reflexivity|].
  pose proof (pl_next_shorter _ _ _ _ _ E). apply IH; lia.
Qed.
Lemma pl_all_f_fuel : forall {A} f1 f2 be pid (dec : bytes -> res A) d,
  (length d < f1)%nat -> (length d < f2)%nat -> pl_all_f f1 be pid dec d = pl_all_f f2 be pid dec d.
Proof.
  intros A. induction f1 as [|f1 IH]; intros f2 be pid dec d H1 H2; [lia|].
  destruct f2 as [|f2]; [lia|]. cbn [pl_all_f].
  destruct (pl_next be d) as [| |p v rest] eqn:E; try reflexivity.
  pose proof (pl_next_shorter _ _ _ _ _ E).
  rewrite (IH f2 be pid dec rest) by lia. reflexivity.
Qed.

Lemma pl_seek_step : forall be pid d,
  pl_seek_body be pid d = match pl_next be d with
                     | PEnd => Ok None
                     | PErr e => Err e
                     | PItem p v rest => if p =? pid then Ok (Some v) else pl_seek_body be pid rest
                     end.
Proof.
  intros. unfold pl_seek_body at 1. cbn [pl_seek_f].
  destruct (pl_next be d) as [| |p v rest] eqn:E; try reflexivity.
  destruct (p =? pid); [reflexivity|].
  pose proof (pl_next_shorter _ _ _ _ _ E). unfold pl_seek_body. apply pl_seek_f_fuel; lia.
Qed.
Lemma pl_all_step : forall {A} be pid (dec : bytes -> res A) d,
  pl_all_body be pid dec d = match pl_next be d with
                        | PEnd => Ok []
                        | PErr e => Err e
                        | PItem p v rest =>
                            if p =? pid then a <- dec v ;; l <- pl_all_body be pid dec rest ;; Ok (a :: l)
                            else pl_all_body be pid dec rest
                        end.
Proof.
  intros. unfold pl_all_body at 1. cbn [pl_all_f].
  destruct (pl_next be d) as [| |p v rest] eqn:E; try reflexivity.
  pose proof (pl_next_shorter _ _ _ _ _ E). unfold pl_all_body.
  rewrite (pl_all_f_fuel (length d) (S (length rest)) be pid dec rest) by lia. reflexivity.
Qed.

(* ------------------------------------------------------------------ iterating over well-formed parameters *)
Lemma params_bytes_app : forall be a b, params_bytes be (a ++ b) = params_bytes be a ++ params_bytes be b.
Proof. intros be. induction a as [|it a IH]; intros; cbn [params_bytes app]; [reflexivity|]. rewrite IH, app_assoc. reflexivity. Qed.
Lemma matches_app : forall pid a b, matches pid (a ++ b) = matches pid a ++ matches pid b.
Proof.
  induction a as [|it a IH]; intros; cbn [matches app]; [reflexivity|].
  destruct (fst it =? pid); rewrite IH; reflexivity.
Qed.

Lemma pl_seek_items : forall be pid items tail, Forall item_ok items ->
  pl_seek_body be pid (params_bytes be items ++ tail)
  = match matches pid items with v :: _ => Ok (Some v) | [] => pl_seek_body be pid tail end.
Proof.
  intros be pid items tail H. induction H as [|it items [Hp Hl] _ IH]; cbn [params_bytes matches app].
  - reflexivity.
  - rewrite pl_seek_step, <- app_assoc, (pl_next_param _ _ _ _ Hp Hl).
    destruct (fst it =? pid); [reflexivity|]. exact IH.
Qed.
Lemma pl_all_items : forall {A} be pid (dec : bytes -> res A) items tail, Forall item_ok items ->
  pl_all_body be pid dec (params_bytes be items ++ tail)
  = (x <- mapM dec (matches pid items) ;; y <- pl_all_body be pid dec tail ;; Ok (x ++ y)).
Proof.
  intros A be pid dec items tail H. induction H as [|it items [Hp Hl] _ IH]; cbn [params_bytes matches app].
  - cbn [mapM bind]. destruct (pl_all_body be pid dec tail); reflexivity.
  - rewrite pl_all_step, <- app_assoc, (pl_next_param _ _ _ _ Hp Hl).
    destruct (fst it =? pid); [|exact IH].
    cbn [mapM]. rewrite IH. destruct (dec (snd it)); cbn [bind]; try reflexivity.
    destruct (mapM dec (matches pid items)); cbn [bind]; try reflexivity.
    destruct (pl_all_body be pid dec tail); reflexivity.
Qed.
Lemma pl_seek_sentinel : forall pid junk, pl_seek_body false pid ([1; 0; 0; 0] ++ junk) = Ok None.
Proof. intros. rewrite pl_seek_step, pl_next_sentinel. reflexivity. Qed.
Lemma pl_all_sentinel : forall {A} pid (dec : bytes -> res A) junk, pl_all_body false pid dec ([1; 0; 0; 0] ++ junk) = Ok [].
Proof. intros. rewrite pl_all_step, pl_next_sentinel. reflexivity. Qed.

(* ------------------------------------------------------------------ into_bytes as a list of parameters *)
Lemma write_vals_eq : forall pid (vs : list wr) buf,
  (forall v, In v vs -> periodic v) -> blen buf mod 4 = 0 ->
  fold_left (fun b' v => write_cdr_parameter b' pid v) vs buf
    = buf ++ params_bytes false (map (fun v : wr => (pid, padv (v 0))) vs)
  /\ blen (fold_left (fun b' v => write_cdr_parameter b' pid v) vs buf) mod 4 = 0.
Proof.
  intros pid vs. induction vs as [|v vs IH]; intros buf Hp Hb; cbn [fold_left map params_bytes].
  - rewrite app_nil_r. split; [reflexivity|assumption].
  - destruct (IH (write_cdr_parameter buf pid v)) as [E A].
    + intros; apply Hp; right; assumption.
    + apply write_cdr_parameter_aligned; assumption.
    + split; [|exact A]. rewrite E, write_cdr_parameter_eq by assumption.
      cbn [fst snd]. rewrite (Hp v (or_introl eq_refl) (blen buf + 4)) by lia.
      rewrite <- app_assoc. reflexivity.
Qed.
Lemma write_rows_eq : forall {R} (wt : list (wrow R)) (r : R) buf,
  (forall row v, In row wt -> In v (w_emit row r) -> periodic v) -> blen buf mod 4 = 0 ->
  write_rows wt r buf = buf ++ params_bytes false (items_of wt r) /\ blen (write_rows wt r buf) mod 4 = 0.
Proof.
  intros R wt r. unfold write_rows, items_of.
  induction wt as [|row wt IH]; intros buf Hp Hb; cbn [fold_left flat_map params_bytes].
  - rewrite app_nil_r. split; [reflexivity|assumption].
  - destruct (write_vals_eq (w_pid row) (w_emit row r) buf) as [E A];
      [intros; apply (Hp row); [left; reflexivity|assumption]|assumption|].
    destruct (IH (fold_left (fun b' v => write_cdr_parameter b' (w_pid row) v) (w_emit row r) buf)) as [E' A'];
      [intros row' v' Hr Hv; apply (Hp row'); [right; assumption|assumption]|exact A|].
    split; [|exact A']. rewrite E', E, params_bytes_app, <- app_assoc. reflexivity.
Qed.

(* header, the parameters of the table, sentinel *)
Lemma tbl_into_bytes_eq : forall {R} (wt : list (wrow R)) (r : R),
  (forall row v, In row wt -> In v (w_emit row r) -> periodic v) ->
  tbl_into_bytes wt r = PL_HEADER ++ params_bytes false (items_of wt r) ++ [1; 0; 0; 0].
Proof.
  intros R wt r Hp. unfold tbl_into_bytes, write_sentinel.
  destruct (write_rows_eq wt r PL_HEADER Hp eq_refl) as [E A].
  assert (S : (w_u16 1 +++ w_u16 0) (blen (write_rows wt r PL_HEADER)) = [1; 0; 0; 0]).
  { unfold wseq. rewrite (w_u16_aligned 1) by lia. rewrite w_u16_aligned; [reflexivity|].
    change (blen (le_bytes 2 1)) with 2. lia. }
  rewrite S, E, <- app_assoc. reflexivity.
Qed.

Lemma matches_map_same : forall pid (vs : list wr),
  matches pid (map (fun v : wr => (pid, padv (v 0))) vs) = map (fun v : wr => padv (v 0)) vs.
Proof. induction vs as [|v vs IH]; cbn [map matches fst snd]; [reflexivity|]. rewrite Z.eqb_refl, IH. reflexivity. Qed.
Lemma matches_map_other : forall pid p (vs : list wr), p <> pid ->
  matches pid (map (fun v : wr => (p, padv (v 0))) vs) = [].
Proof.
  intros pid p vs H. induction vs as [|v vs IH]; cbn [map matches fst snd]; [reflexivity|].
  replace (p =? pid) with false by (symmetry; apply Z.eqb_neq; assumption). exact IH.
Qed.
Lemma matches_items_absent : forall {R} (wt : list (wrow R)) (r : R) pid,
  ~ In pid (map w_pid wt) -> matches pid (items_of wt r) = [].
Proof.
  intros R wt r pid. unfold items_of. induction wt as [|row wt IH]; intros H; cbn [flat_map]; [reflexivity|].
  rewrite matches_app, matches_map_other, IH; [reflexivity| |].
  - intros C; apply H; right; exact C.
  - intros C; apply H; left; exact C.
Qed.
Lemma matches_items_of : forall {R} (wt : list (wrow R)) (r : R) pid,
  NoDup (map w_pid wt) -> matches pid (items_of wt r) = emitted wt r pid.
Proof.
  intros R wt r pid. unfold items_of, emitted.
  induction wt as [|row wt IH]; intros H; cbn [flat_map find map]; [reflexivity|].
  inversion H as [|x l Hni Hnd]; subst. rewrite matches_app.
  destruct (w_pid row =? pid) eqn:E.
  - apply Z.eqb_eq in E. subst pid. rewrite matches_map_same.
    fold (items_of wt r). rewrite (matches_items_absent wt r (w_pid row) Hni), app_nil_r. reflexivity.
  - apply Z.eqb_neq in E. rewrite (matches_map_other pid (w_pid row) _ E). cbn [app]. apply IH; assumption.
Qed.

Lemma tbl_fits_items : forall {R} (wt : list (wrow R)) (r : R),
  Forall (fun row => pid_ok (w_pid row)) wt -> tbl_fits wt r -> Forall item_ok (items_of wt r).
Proof.
  intros R wt r. unfold tbl_fits, tbl_fitsb, items_of.
  induction wt as [|row wt IH]; intros Hp Hf; cbn [flat_map]; [constructor|].
  inversion Hp; subst. cbn [forallb] in Hf. apply andb_prop in Hf. destruct Hf as [Hf1 Hf2].
  apply Forall_app. split; [|apply IH; assumption].
  apply Forall_forall. intros it Hit. apply in_map_iff in Hit. destruct Hit as [v [Ev Hv]]. subst it.
  split; [assumption|]. cbn [snd]. rewrite blen_padv.
  rewrite forallb_forall in Hf1. apply Z.leb_le. apply Hf1. assumption.
Qed.

(* a 4-byte header followed by anything *)
Lemma pl_hdr_app4 : forall hdr rest, blen hdr = 4 -> pl_hdr (hdr ++ rest) = pl_hdr hdr.
Proof.
  intros hdr rest H. destruct hdr as [|a [|b [|c [|d [|x hdr]]]]]; cbn in H; try lia. reflexivity.
Qed.
Lemma drop4_app4 : forall hdr rest, blen hdr = 4 -> drop 4 (hdr ++ rest) = rest.
Proof. intros. apply drop_app_n. assumption. Qed.

Lemma bind_ok_r : forall {A} (x : res A), (a <- x ;; Ok a) = x.
Proof. destruct x; reflexivity. Qed.

Theorem seek_into_bytes : forall {R} (wt : list (wrow R)) (r : R) pid,
  table_ok wt r ->
  seek_to_pid (tbl_into_bytes wt r) pid = Ok (hd_error (emitted wt r pid)).
Proof.
  intros R wt r pid [Hnd Hp Hper Hf]. unfold seek_to_pid, pl_seek.
  rewrite (tbl_into_bytes_eq wt r Hper), (pl_hdr_app4 PL_HEADER _ eq_refl), (drop4_app4 PL_HEADER _ eq_refl).
  cbn [PL_HEADER pl_hdr nth hdr_endianness snd Z.eqb Pos.eqb bind].
  rewrite pl_seek_items by (apply tbl_fits_items; assumption).
  rewrite (matches_items_of wt r pid Hnd).
  destruct (emitted wt r pid); [|reflexivity].
  change [1; 0; 0; 0] with ([1; 0; 0; 0] ++ []). apply pl_seek_sentinel.
Qed.

Theorem get_list_into_bytes : forall {R A} (wt : list (wrow R)) (r : R) pid (dec : bool -> rdr A),
  table_ok wt r ->
  get_list dec (tbl_into_bytes wt r) pid = mapM (fun v => run (dec false) v) (emitted wt r pid).
Proof.
  intros R A wt r pid dec [Hnd Hp Hper Hf]. unfold get_list, pl_all.
  rewrite (tbl_into_bytes_eq wt r Hper), (pl_hdr_app4 PL_HEADER _ eq_refl), (drop4_app4 PL_HEADER _ eq_refl).
  cbn [PL_HEADER pl_hdr nth hdr_endianness snd Z.eqb Pos.eqb bind].
  rewrite pl_all_items by (apply tbl_fits_items; assumption).
  rewrite (matches_items_of wt r pid Hnd).
  change [1; 0; 0; 0] with ([1; 0; 0; 0] ++ []). rewrite pl_all_sentinel.
  destruct (mapM (fun v => run (dec false) v) (emitted wt r pid)); cbn [bind]; try reflexivity.
  rewrite app_nil_r. reflexivity.
Qed.

Lemma pl_new_ge4 : forall hdr rest, blen hdr = 4 -> pl_new (hdr ++ rest) = Ok tt.
Proof.
  intros hdr rest H. unfold pl_new. rewrite blen_app, H. pose proof (blen_nonneg rest).
  replace (4 + blen rest <? 4) with false by (symmetry; apply Z.ltb_ge; lia). reflexivity.
Qed.
Lemma pl_new_into_bytes : forall {R} (wt : list (wrow R)) (r : R),
  (forall row v, In row wt -> In v (w_emit row r) -> periodic v) -> pl_new (tbl_into_bytes wt r) = Ok tt.
Proof. intros. rewrite tbl_into_bytes_eq by assumption. apply pl_new_ge4. reflexivity. Qed.

(* ------------------------------------------------------------------ the generic round trip *)
Lemma run_reader_into_bytes : forall {R A} (wt : list (wrow R)) (r : R) pid (rd : reader A) a,
  table_ok wt r -> reader_ok (emitted wt r pid) rd a ->
  run_reader pid rd (tbl_into_bytes wt r) = Ok a.
Proof.
  intros R A wt r pid rd a Hok Hr. destruct rd as [k|X dec k]; cbn [run_reader reader_ok] in *.
  - rewrite (seek_into_bytes wt r pid Hok).
    rewrite (tbl_into_bytes_eq wt r (tk_periodic _ _ Hok)), (pl_hdr_app4 PL_HEADER _ eq_refl). exact Hr.
  - destruct Hr as [l [E1 E2]]. rewrite (get_list_into_bytes wt r pid dec Hok), E1. cbn [bind]. rewrite E2. reflexivity.
Qed.

Lemma read_rows_into_bytes : forall {R} (wt : list (wrow R)) (r : R) (rt : list rrow) (t : tuple_of rt),
  table_ok wt r -> rows_read_back wt r rt t -> read_rows rt (tbl_into_bytes wt r) = Ok t.
Proof.
  intros R wt r rt. induction rt as [|row rt IH]; intros t Hok Hr; cbn [read_rows rows_read_back tuple_of] in *.
  - destruct t. reflexivity.
  - destruct t as [a t']. cbn [fst snd] in Hr. destruct Hr as [Ha Ht].
    rewrite (run_reader_into_bytes wt r _ _ a Hok Ha). cbn [bind].
    rewrite (IH t' Hok Ht). reflexivity.
Qed.

(* pl_roundtrip: for ANY pair of tables - distinct, valid pids on the write side, values that
   are position independent modulo 4 and fit 65535 bytes once padded, and readers that give
   the field back from the values emitted under their pid - decoding the encoding of r
   yields the record built from the fields of r. *)
Theorem pl_roundtrip : forall {R} (wt : list (wrow R)) (rt : list rrow) (build : tuple_of rt -> R)
                              (r : R) (t : tuple_of rt),
  table_ok wt r -> rows_read_back wt r rt t ->
  tbl_from_bytes rt build (tbl_into_bytes wt r) = Ok (build t).
Proof.
  intros R wt rt build r t Hok Hr. unfold tbl_from_bytes.
  rewrite (pl_new_into_bytes wt r (tk_periodic _ _ Hok)). cbn [bind].
  rewrite (read_rows_into_bytes wt r rt t Hok Hr). reflexivity.
Qed.

(* ------------------------------------------------------------------ unknown parameters are ignored *)
Lemma matches_snoc_other : forall pid ps u, fst u <> pid -> matches pid (ps ++ [u]) = matches pid ps.
Proof.
  intros. rewrite matches_app. cbn [matches].
  replace (fst u =? pid) with false by (symmetry; apply Z.eqb_neq; assumption). apply app_nil_r.
Qed.

Lemma run_reader_unknown : forall {A} pid (rd : reader A) be hdr ps u tail,
  blen hdr = 4 -> hdr_endianness (pl_hdr hdr) = Ok be -> Forall item_ok ps -> item_ok u -> fst u <> pid ->
  run_reader pid rd (hdr ++ params_bytes be (ps ++ [u]) ++ tail) = run_reader pid rd (hdr ++ params_bytes be ps ++ tail).
Proof.
  intros A pid rd be hdr ps u tail Hh He Hps Hu Hpid.
  assert (Hall : Forall item_ok (ps ++ [u])) by (apply Forall_app; split; [assumption|constructor; [assumption|constructor]]).
  assert (Es : seek_to_pid (hdr ++ params_bytes be (ps ++ [u]) ++ tail) pid = seek_to_pid (hdr ++ params_bytes be ps ++ tail) pid).
  { unfold seek_to_pid, pl_seek. rewrite !(pl_hdr_app4 hdr _ Hh), !(drop4_app4 hdr _ Hh), He. cbn [bind].
    rewrite (pl_seek_items be pid (ps ++ [u]) tail Hall), (pl_seek_items be pid ps tail Hps).
    rewrite (matches_snoc_other pid ps u Hpid). reflexivity. }
  destruct rd as [k|X dec k]; cbn [run_reader].
  - rewrite Es, !(pl_hdr_app4 hdr _ Hh). reflexivity.
  - unfold get_list, pl_all. rewrite !(pl_hdr_app4 hdr _ Hh), !(drop4_app4 hdr _ Hh), He. cbn [bind].
    rewrite (pl_all_items be pid _ (ps ++ [u]) tail Hall), (pl_all_items be pid _ ps tail Hps).
    rewrite (matches_snoc_other pid ps u Hpid). reflexivity.
Qed.

(* unknown_pids_ignored: in a received list - big or little endian, as its header hdr says - a
   parameter whose pid is read by no row of the table (unassigned, vendor specific >= 0x8000 i.e.
   negative as i16, PID_PAD, ...) can be inserted after ANY prefix ps of well-formed parameters
   - hence anywhere before the sentinel - without changing the result of from_bytes, whatever
   follows (tail). *)
Theorem unknown_pids_ignored : forall {R} (rt : list rrow) (build : tuple_of rt -> R) be hdr ps u tail,
  blen hdr = 4 -> hdr_endianness (pl_hdr hdr) = Ok be -> Forall item_ok ps -> item_ok u ->
  (forall row, In row rt -> r_pid row <> fst u) ->
  tbl_from_bytes rt build (hdr ++ params_bytes be (ps ++ [u]) ++ tail)
  = tbl_from_bytes rt build (hdr ++ params_bytes be ps ++ tail).
Proof.
  intros R rt build be hdr ps u tail Hh He Hps Hu Hrows. unfold tbl_from_bytes.
  rewrite !(pl_new_ge4 hdr _ Hh). cbn [bind].
  assert (Er : read_rows rt (hdr ++ params_bytes be (ps ++ [u]) ++ tail) = read_rows rt (hdr ++ params_bytes be ps ++ tail)).
  { clear build. induction rt as [|row rt IH]; cbn [read_rows]; [reflexivity|].
    rewrite (run_reader_unknown (r_pid row) (r_reader row) be hdr ps u tail Hh He Hps Hu) by
      (intros C; apply (Hrows row (or_introl eq_refl)); symmetry; exact C).
    rewrite IH by (intros row' Hr; apply Hrows; right; exact Hr). reflexivity. }
  rewrite Er. reflexivity.
Qed.

(* ------------------------------------------------------------------ totality (no panic) *)
Definition rdr_total {A} (m : rdr A) : Prop := forall s p, m s <> Panic p.
Definition res_total {A} (r : res A) : Prop := forall p, r <> Panic p.

Lemma total_ret : forall {A} (a : A), rdr_total (rret a).
Proof. intros A a s p. discriminate. Qed.
Lemma total_fail : forall {A} e, rdr_total (@rfail A e).
Proof. intros A e s p. discriminate. Qed.
Lemma total_bind : forall {A B} (m : rdr A) (k : A -> rdr B),
  rdr_total m -> (forall a, rdr_total (k a)) -> rdr_total (rbind m k).
Proof.
  intros A B m k Hm Hk s p. unfold rbind. destruct (m s) as [[a s']|e|q] eqn:E.
  - apply Hk. - discriminate. - exfalso. exact (Hm s q E).
Qed.
Lemma total_bytes : forall ned n, rdr_total (r_bytes ned n).
Proof. intros ned n [pos rest] p. unfold r_bytes. destruct (shorter rest n); discriminate. Qed.
Lemma total_align : forall ned a, rdr_total (r_align ned a).
Proof. intros ned a [pos rest] p. unfold r_align. destruct (shorter rest ((- pos) mod a)); discriminate. Qed.
Lemma total_u8 : forall ned, rdr_total (r_u8 ned).
Proof. intros ned [pos [|b t]] p; discriminate. Qed.
Lemma total_uint : forall ned be n, rdr_total (r_uint ned be n).
Proof.
  intros. unfold r_uint. apply total_bind; [apply total_align|]. intros _.
  apply total_bind; [apply total_bytes|]. intros. apply total_ret.
Qed.
Lemma total_u16 : forall ned be, rdr_total (r_u16 ned be). Proof. intros; apply total_uint. Qed.
Lemma total_u32 : forall ned be, rdr_total (r_u32 ned be). Proof. intros; apply total_uint. Qed.
Lemma total_i16 : forall ned be, rdr_total (r_i16 ned be).
Proof. intros. unfold r_i16. apply total_bind; [apply total_uint|]. intros; apply total_ret. Qed.
Lemma total_i32 : forall ned be, rdr_total (r_i32 ned be).
Proof. intros. unfold r_i32. apply total_bind; [apply total_uint|]. intros; apply total_ret. Qed.
Lemma total_xbool : rdr_total x_r_bool.
Proof.
  unfold x_r_bool. apply total_bind; [apply total_u8|]. intros b.
  destruct (b =? 0); [apply total_ret|]. destruct (b =? 1); [apply total_ret|apply total_fail].
Qed.
Lemma total_cbool : rdr_total cdr_r_bool.
Proof. unfold cdr_r_bool. apply total_bind; [apply total_u8|]. intros; apply total_ret. Qed.
Lemma total_xstring : forall be, rdr_total (x_r_string be).
Proof.
  intros. unfold x_r_string. apply total_bind; [apply total_u32|]. intros len.
  apply total_bind; [apply total_bytes|]. intros s.
  apply total_bind; [apply total_u8|]. intros _.
  destruct (utf8_valid s); [apply total_ret|apply total_fail].
Qed.
Lemma total_cstring : forall be, rdr_total (cdr_r_string be).
Proof.
  intros. unfold cdr_r_string. apply total_bind; [apply total_u32|]. intros len.
  destruct (len =? 0); [apply total_fail|].
  apply total_bind; [apply total_bytes|]. intros s.
  apply total_bind; [apply total_u8|]. intros _.
  destruct (utf8_valid s); [apply total_ret|apply total_fail].
Qed.
Lemma total_seq_f : forall {A} (elem : rdr A) fuel count, rdr_total elem -> rdr_total (r_seq_f fuel elem count).
Proof.
  intros A elem fuel. induction fuel as [|f IH]; intros count He s p; cbn [r_seq_f].
  - destruct (count <=? 0); discriminate.
  - destruct (count <=? 0); [discriminate|].
    destruct (elem s) as [[a s']|e|q] eqn:E; [|discriminate|exfalso; exact (He s q E)].
    destruct (r_seq_f f elem (count - 1) s') as [[l s'']|e|q] eqn:E2; [discriminate|discriminate|].
    exfalso. exact (IH (count - 1) He s' q E2).
Qed.
Lemma total_seq : forall {A} (elem : rdr A) count, rdr_total elem -> rdr_total (r_seq elem count).
Proof. intros A elem count He s p. unfold r_seq. apply total_seq_f. assumption. Qed.
Lemma total_run : forall {A} (m : rdr A) v, rdr_total m -> res_total (run m v).
Proof. intros A m v H p. unfold run. destruct (m (0, v)) as [[a s]|e|q] eqn:E; [discriminate|discriminate|]. exfalso. exact (H _ q E). Qed.

Lemma total_pl_seek_f : forall fuel be pid d, res_total (pl_seek_f fuel be pid d).
Proof.
  induction fuel as [|f IH]; intros be pid d p; cbn [pl_seek_f]; [discriminate|].
  destruct (pl_next be d) as [| |q v rest]; try discriminate.
  destruct (q =? pid); [discriminate|apply IH].
Qed.
Lemma total_seek_to_pid : forall d pid, res_total (seek_to_pid d pid).
Proof.
  intros d pid p. unfold seek_to_pid. destruct (hdr_endianness (pl_hdr d)) as [be|e|q] eqn:E; cbn [bind].
  - unfold pl_seek, pl_seek_body. apply total_pl_seek_f. - discriminate.
  - unfold hdr_endianness in E. destruct (snd (pl_hdr d) =? 2); [discriminate|]. destruct (snd (pl_hdr d) =? 3); discriminate.
Qed.
Lemma total_hdr_endianness : forall h, res_total (hdr_endianness h).
Proof. intros h p. unfold hdr_endianness. destruct (snd h =? 2); [discriminate|]. destruct (snd h =? 3); discriminate. Qed.
Lemma total_pl_all_f : forall {A} fuel be pid (dec : bytes -> res A) d,
  (forall v, res_total (dec v)) -> res_total (pl_all_f fuel be pid dec d).
Proof.
  intros A fuel. induction fuel as [|f IH]; intros be pid dec d Hd p; cbn [pl_all_f]; [discriminate|].
  destruct (pl_next be d) as [| |q v rest]; try discriminate.
  destruct (q =? pid); [|apply IH; assumption].
  destruct (dec v) as [a|e|q'] eqn:E; cbn [bind]; [|discriminate|exfalso; exact (Hd v q' E)].
  destruct (pl_all_f f be pid dec rest) as [l|e|q'] eqn:E2; cbn [bind]; [discriminate|discriminate|].
  exfalso. exact (IH be pid dec rest Hd q' E2).
Qed.

(* a reader that cannot panic, whatever the parameter list *)
Definition seek_k_total {A} (k : seek_k A) : Prop := forall h sr, res_total sr -> res_total (k h sr).
Definition reader_total {A} (rd : reader A) : Prop :=
  match rd with
  | RSeek k => seek_k_total k
  | RList X dec k => forall be, rdr_total (dec be)
  end.
Definition xdec_total {A} (d : xdec A) : Prop := forall be v, res_total (d be v).

Lemma total_run_reader : forall {A} pid (rd : reader A) d, reader_total rd -> res_total (run_reader pid rd d).
Proof.
  intros A pid rd d H p. destruct rd as [k|X dec k]; cbn [run_reader reader_total] in *.
  - apply H. apply total_seek_to_pid.
  - unfold get_list. destruct (hdr_endianness (pl_hdr d)) as [be|e|q] eqn:E; cbn [bind].
    + destruct (pl_all be pid (fun v => run (dec be) v) d) as [l|e|q] eqn:E2; cbn [bind]; [discriminate|discriminate|].
      exfalso. unfold pl_all, pl_all_body in E2. revert E2. apply total_pl_all_f. intros v. apply total_run. apply H.
    + discriminate.
    + exfalso. exact (total_hdr_endianness _ q E).
Qed.

Lemma total_k_optional : forall {A} (dec : bool -> rdr A) d, (forall be, rdr_total (dec be)) -> seek_k_total (k_optional dec d).
Proof.
  intros A dec d H h sr Hsr p. unfold k_optional. destruct sr as [[v|]|e|q]; cbn [bind]; try discriminate.
  - destruct (hdr_endianness h) as [be|e|q] eqn:E; cbn [bind]; [apply total_run, H|discriminate|exfalso; exact (total_hdr_endianness _ q E)].
  - exfalso. exact (Hsr q eq_refl).
Qed.
Lemma total_k_non_optional : forall {A} (dec : bool -> rdr A), (forall be, rdr_total (dec be)) -> seek_k_total (k_non_optional dec).
Proof.
  intros A dec H h sr Hsr p. unfold k_non_optional. destruct sr as [[v|]|e|q]; cbn [bind]; try discriminate.
  - destruct (hdr_endianness h) as [be|e|q] eqn:E; cbn [bind]; [apply total_run, H|discriminate|exfalso; exact (total_hdr_endianness _ q E)].
  - exfalso. exact (Hsr q eq_refl).
Qed.
Lemma total_k_ok : forall {A} (k : seek_k A), seek_k_total k -> seek_k_total (k_ok k).
Proof.
  intros A k H h sr Hsr p. unfold k_ok. destruct (k h sr) as [a|e|q] eqn:E; [discriminate|discriminate|].
  exfalso. exact (H h sr Hsr q E).
Qed.
Lemma total_x_rep : forall h, res_total (x_rep h).
Proof. intros h p. unfold x_rep. destruct (fst h =? 0); [|discriminate]. destruct (snd h =? 2); [discriminate|]. destruct (snd h =? 3); discriminate. Qed.
Lemma total_x2_rep : forall h, res_total (x2_rep h).
Proof. intros h p. unfold x2_rep. destruct (fst h =? 0); [|discriminate]. destruct (snd h =? 2); [discriminate|]. destruct (snd h =? 3); discriminate. Qed.
Lemma total_k_optional_x : forall {A} (dec : xdec A) d, xdec_total dec -> seek_k_total (k_optional_x dec d).
Proof.
  intros A dec d H h sr Hsr p. unfold k_optional_x. destruct sr as [[v|]|e|q]; cbn [bind]; try discriminate.
  - destruct (x_rep h) as [be|e|q] eqn:E; cbn [bind]; [|discriminate|exfalso; exact (total_x_rep _ q E)].
    destruct (dec be v) as [s|e|q] eqn:E2; cbn [bind]; [discriminate|discriminate|exfalso; exact (H be v q E2)].
  - exfalso. exact (Hsr q eq_refl).
Qed.
Lemma total_k_non_optional_x : forall {A} (dec : xdec A), xdec_total dec -> seek_k_total (k_non_optional_x dec).
Proof.
  intros A dec H h sr Hsr p. unfold k_non_optional_x. destruct sr as [[v|]|e|q]; cbn [bind]; try discriminate.
  - destruct (x_rep h) as [be|e|q] eqn:E; cbn [bind]; [|discriminate|exfalso; exact (total_x_rep _ q E)].
    destruct (dec be v) as [[a|]|e|q] eqn:E2; cbn [bind]; [discriminate|discriminate|discriminate|exfalso; exact (H be v q E2)].
  - exfalso. exact (Hsr q eq_refl).
Qed.
Lemma total_k_optional_x2 : forall {A} (dec : xdec A), xdec_total dec -> seek_k_total (k_optional_x2 dec).
Proof.
  intros A dec H h sr Hsr p. unfold k_optional_x2. destruct sr as [[v|]|e|q]; cbn [bind]; try discriminate.
  - destruct (x2_rep h) as [be|e|q] eqn:E; cbn [bind]; [apply H|discriminate|exfalso; exact (total_x2_rep _ q E)].
  - exfalso. exact (Hsr q eq_refl).
Qed.
Lemma total_k_unwrap_or_none : forall {A} (k : seek_k (option A)), seek_k_total k -> seek_k_total (k_unwrap_or_none k).
Proof.
  intros A k H h sr Hsr p. unfold k_unwrap_or_none. destruct (k h sr) as [a|e|q] eqn:E; [discriminate|discriminate|].
  exfalso. exact (H h sr Hsr q E).
Qed.

(* a panic of from_bytes is the panic of one of its rows *)
Lemma read_rows_panic : forall rt d p, read_rows rt d = Panic p ->
  Exists (fun row => run_reader (r_pid row) (r_reader row) d = Panic p) rt.
Proof.
  induction rt as [|row rt IH]; intros d p H; cbn [read_rows] in H; [discriminate|].
  destruct (run_reader (r_pid row) (r_reader row) d) as [a|e|q] eqn:E; cbn [bind] in H.
  - destruct (read_rows rt d) as [l|e|q] eqn:E2; cbn [bind] in H; try discriminate.
    apply Exists_cons_tl. apply IH. rewrite E2. inversion H. reflexivity.
  - discriminate.
  - apply Exists_cons_hd. inversion H. subst. exact E.
Qed.
Lemma tbl_from_bytes_panic : forall {R} rt (build : tuple_of rt -> R) d p,
  tbl_from_bytes rt build d = Panic p ->
  Exists (fun row => run_reader (r_pid row) (r_reader row) d = Panic p) rt.
Proof.
  intros R rt build d p H. unfold tbl_from_bytes in H.
  destruct (pl_new d) as [u|e|q] eqn:E; cbn [bind] in H; [|discriminate|].
  - destruct (read_rows rt d) as [t|e|q] eqn:E2; cbn [bind] in H; try discriminate.
    apply read_rows_panic. rewrite E2. inversion H. reflexivity.
  - unfold pl_new in E. destruct (blen d <? 4); discriminate.
Qed.
Theorem tbl_from_bytes_total : forall {R} rt (build : tuple_of rt -> R),
  Forall (fun row => reader_total (r_reader row)) rt -> forall d p, tbl_from_bytes rt build d <> Panic p.
Proof.
  intros R rt build H d p C. apply tbl_from_bytes_panic in C. apply Exists_exists in C.
  destruct C as [row [Hin Hp]]. rewrite Forall_forall in H.
  exact (total_run_reader (r_pid row) (r_reader row) d (H row Hin) p Hp).
Qed.

(* the same, with the side condition as "the pid is not one the table reads" *)
Corollary unknown_pids_ignored_tbl : forall {R} (rt : list rrow) (build : tuple_of rt -> R) be hdr ps u tail,
  blen hdr = 4 -> hdr_endianness (pl_hdr hdr) = Ok be -> Forall item_ok ps -> item_ok u ->
  ~ In (fst u) (map r_pid rt) ->
  tbl_from_bytes rt build (hdr ++ params_bytes be (ps ++ [u]) ++ tail)
  = tbl_from_bytes rt build (hdr ++ params_bytes be ps ++ tail).
Proof.
  intros R rt build be hdr ps u tail Hh He Hps Hu Hni. apply unknown_pids_ignored; try assumption.
  intros row Hin E. apply Hni. rewrite <- E. apply in_map. assumption.
Qed.

Lemma rows_nil : forall {R} (wt : list (wrow R)) (r : R), rows_read_back wt r [] tt.
Proof. intros. exact I. Qed.
Lemma rows_cons : forall {R} (wt : list (wrow R)) (r : R) pid ty (rd : reader ty) (t : list rrow) (a : ty) (rest : tuple_of t),
  reader_ok (emitted wt r pid) rd a -> rows_read_back wt r t rest ->
  rows_read_back wt r (mkrrow pid ty rd :: t) (a, rest).
Proof. intros. cbn [rows_read_back r_pid r_reader fst snd]. auto. Qed.
