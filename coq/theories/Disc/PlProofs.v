(* Proofs about the parameter-list model. *)
From DustDDS Require Import Base.Machine Disc.PlModel.
Open Scope Z_scope.

Lemma blen_nonneg : forall l, 0 <= blen l.
Proof. intros; unfold blen; lia. Qed.
