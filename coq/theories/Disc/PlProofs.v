(* Proofs about the parameter-list model: primitives, parameter framing, iterator,
   generic table round trip, unknown parameters. *)
From DustDDS Require Import Base.Machine Disc.PlModel.
From Coq Require Import Lia ZArith List Bool.
Import ListNotations.
Open Scope Z_scope.
Ltac Zify.zify_post_hook ::= Z.div_mod_to_equations.

(* ------------------------------------------------------------------ lists and lengths *)
Lemma blen_nonneg : forall l, 0 <= blen l.
Proof. intros; unfold blen; lia. Qed.
Lemma blen_nil : blen [] = 0. Proof. reflexivity. Qed.
Lemma blen_cons : forall b l, blen (b :: l) = 1 + blen l.
Proof. intros; unfold blen; cbn [length]; lia. Qed.
Lemma blen_app : forall a b, blen (a ++ b) = blen a + blen b.
Proof. intros; unfold blen; rewrite app_length; lia. Qed.
Lemma blen_zeros : forall n, 0 <= n -> blen (zeros n) = n.
Proof. intros; unfold blen, zeros; rewrite repeat_length; lia. Qed.
Lemma zeros_0 : zeros 0 = [].
Proof. reflexivity. Qed.
Lemma blen_0_nil : forall l, blen l = 0 -> l = [].
Proof. intros [|x l] H; [reflexivity|]. rewrite blen_cons in H. pose proof (blen_nonneg l). lia. Qed.

Lemma take_app_exact : forall a b, take (blen a) (a ++ b) = a.
Proof.
  intros; unfold take, blen. rewrite Nat2Z.id.
  rewrite firstn_app, Nat.sub_diag, firstn_all; cbn [firstn]; apply app_nil_r.
Qed.
Lemma drop_app_exact : forall a b, drop (blen a) (a ++ b) = b.
Proof.
  intros; unfold drop, blen. rewrite Nat2Z.id.
  rewrite skipn_app, Nat.sub_diag, skipn_all; reflexivity.
Qed.
Lemma take_app_n : forall n a b, blen a = n -> take n (a ++ b) = a.
Proof. intros; subst; apply take_app_exact. Qed.
Lemma drop_app_n : forall n a b, blen a = n -> drop n (a ++ b) = b.
Proof. intros; subst; apply drop_app_exact. Qed.
Lemma take_0 : forall l, take 0 l = [].
Proof. reflexivity. Qed.
Lemma drop_0 : forall l, drop 0 l = l.
Proof. reflexivity. Qed.

Lemma shorter_spec : forall l n, shorter l n = (blen l <? n).
Proof.
  induction l as [|x l IH]; intros n; cbn [shorter].
  - reflexivity.
  - rewrite blen_cons. destruct (n <=? 0) eqn:E.
    + symmetry. apply Z.ltb_ge. pose proof (blen_nonneg l). lia.
    + rewrite IH. destruct (blen l <? n - 1) eqn:F; symmetry.
      * apply Z.ltb_lt. lia.
      * apply Z.ltb_ge. lia.
Qed.
Lemma shorter_app_false : forall a b n, blen a = n -> shorter (a ++ b) n = false.
Proof. intros. rewrite shorter_spec, blen_app. apply Z.ltb_ge. pose proof (blen_nonneg b). lia. Qed.

(* ------------------------------------------------------------------ integers <-> bytes *)
Lemma blen_le_bytes : forall n v, blen (le_bytes n v) = Z.of_nat n.
Proof. induction n; intros; cbn [le_bytes]; [reflexivity|]. rewrite blen_cons, IHn. lia. Qed.

Lemma le_val_le_bytes : forall n v, le_val (le_bytes n v) = v mod 256 ^ Z.of_nat n.
Proof.
  induction n; intros v.
  - cbn. rewrite Z.mod_1_r. reflexivity.
  - cbn [le_bytes le_val]. rewrite IHn.
    replace (Z.of_nat (S n)) with (1 + Z.of_nat n) by lia.
    rewrite Z.pow_add_r by lia. change (256 ^ 1) with 256.
    rewrite Z.rem_mul_r by (try lia; apply Z.pow_pos_nonneg; lia). lia.
Qed.
Lemma le_val_le_bytes_small : forall n v, 0 <= v < 256 ^ Z.of_nat n -> le_val (le_bytes n v) = v.
Proof. intros. rewrite le_val_le_bytes. apply Z.mod_small; assumption. Qed.

Lemma bytes_ok_le_bytes : forall n v, bytes_ok (le_bytes n v).
Proof.
  induction n; intros; cbn [le_bytes]; constructor; [|apply IHn].
  unfold byte_ok. pose proof (Z.mod_pos_bound v 256). lia.
Qed.

(* ------------------------------------------------------------------ reader / writer pairing
   (w, r) round-trips a: reading what w wrote at the same position returns a, consumes
   exactly those bytes and leaves the rest. *)
Definition wr_rd {A} (w : wr) (r : rdr A) (a : A) : Prop :=
  forall pos rest, r (pos, w pos ++ rest) = Ok (a, (pos + blen (w pos), rest)).

Lemma wr_rd_bind : forall {A B} (w1 w2 : wr) (r1 : rdr A) (k : A -> rdr B) a b,
  wr_rd w1 r1 a -> wr_rd w2 (k a) b -> wr_rd (w1 +++ w2) (rbind r1 k) b.
Proof.
  intros A B w1 w2 r1 k a b H1 H2 pos rest. unfold wseq, rbind.
  rewrite <- app_assoc, H1. rewrite H2. rewrite blen_app. f_equal. f_equal. f_equal. lia.
Qed.
Lemma wr_rd_ret : forall {A} (a : A), wr_rd (w_raw []) (rret a) a.
Proof. intros A a pos rest. unfold w_raw, rret. cbn [app]. rewrite blen_nil. f_equal. f_equal. f_equal. lia. Qed.
(* a reader that ends with a pure post-processing step *)
Lemma wr_rd_map : forall {A B} (w : wr) (r : rdr A) (f : A -> B) a,
  wr_rd w r a -> wr_rd w (x <~ r ;; rret (f x)) (f a).
Proof. intros A B w r f a H pos rest. unfold rbind, rret. rewrite H. reflexivity. Qed.

Lemma wr_rd_bytes : forall ned n b, blen b = n -> wr_rd (w_raw b) (r_bytes ned n) b.
Proof.
  intros ned n b Hn pos rest. unfold w_raw, r_bytes.
  rewrite (shorter_app_false b rest n Hn), (take_app_n n b rest Hn), (drop_app_n n b rest Hn), Hn. reflexivity.
Qed.
Lemma wr_rd_u8 : forall ned v, wr_rd (w_u8 v) (r_u8 ned) v.
Proof. intros ned v pos rest. unfold w_u8, w_raw, r_u8. cbn [app]. reflexivity. Qed.
Lemma wr_rd_pad : forall ned a, 0 < a -> wr_rd (w_pad a) (r_align ned a) tt.
Proof.
  intros ned a Ha pos rest. unfold w_pad, r_align.
  assert (Hk : 0 <= (- pos) mod a) by (apply Z.mod_pos_bound; lia).
  rewrite (shorter_app_false (zeros ((- pos) mod a)) rest ((- pos) mod a)) by (apply blen_zeros; assumption).
  rewrite (drop_app_n _ _ rest (blen_zeros _ Hk)), (blen_zeros _ Hk). reflexivity.
Qed.
Lemma wr_rd_uint : forall ned (n : nat) v, (0 < n)%nat -> 0 <= v < 256 ^ Z.of_nat n ->
  wr_rd (w_pad (Z.of_nat n) +++ w_raw (le_bytes n v)) (r_uint ned false (Z.of_nat n)) v.
Proof.
  intros ned n v Hn Hv. unfold r_uint.
  eapply wr_rd_bind; [apply wr_rd_pad; lia|].
  replace (w_raw (le_bytes n v)) with (w_raw (le_bytes n v) +++ w_raw []).
  2:{ unfold wseq, w_raw. apply FunctionalExtensionality.functional_extensionality. intros. apply app_nil_r. }
  eapply wr_rd_bind; [apply wr_rd_bytes, blen_le_bytes|].
  unfold int_val. rewrite (le_val_le_bytes_small n v Hv). apply wr_rd_ret.
Qed.
