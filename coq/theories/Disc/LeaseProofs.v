(* C17 — proofs about the participant discovery / lease model (LeaseModel.v). *)
From DustDDS Require Import Base.Machine Disc.LeaseModel.
Open Scope Z_scope.

(* ------------------------------------------------------------------ lists *)
Lemma zmem_In : forall k l, zmem k l = true <-> In k l.
Proof.
  intros k l; unfold zmem; rewrite existsb_exists; split.
  - intros [x [H E]]; apply Z.eqb_eq in E; subst; assumption.
  - intros H; exists k; split; [assumption | apply Z.eqb_refl].
Qed.
Lemma zmem_false : forall k l, zmem k l = false <-> ~ In k l.
Proof.
  intros k l; split.
  - intros H C; apply zmem_In in C; congruence.
  - intros H; destruct (zmem k l) eqn:E; auto; apply zmem_In in E; contradiction.
Qed.

Lemma dkeys_refresh : forall k now l, dkeys (refresh k now l) = dkeys l.
Proof.
  intros k now l; induction l as [|d t IH]; cbn [refresh dkeys map]; [reflexivity|].
  destruct (d_key d =? k); cbn [map d_key]; [reflexivity | f_equal; apply IH].
Qed.
Lemma In_refresh_other : forall k now l d, d_key d <> k -> (In d (refresh k now l) <-> In d l).
Proof.
  intros k now l d Hne; induction l as [|x t IH]; cbn [refresh In]; [tauto|].
  destruct (d_key x =? k) eqn:E; cbn [In].
  - apply Z.eqb_eq in E. split; (intros [H|H]; [subst; cbn [d_key] in *; exfalso; congruence | right; assumption]).
  - rewrite IH; tauto.
Qed.
(* every entry after a refresh comes from an entry with the same key, lease and ghost fields *)
Lemma In_refresh_inv : forall k now l d, In d (refresh k now l) ->
  exists d0, In d0 l /\ d_key d0 = d_key d /\ d_lease d0 = d_lease d /\ d_dom d0 = d_dom d /\ d_tag d0 = d_tag d /\
             (d_last d = d_last d0 \/ (d_key d = k /\ d_last d = now)).
Proof.
  intros k now l d; induction l as [|x t IH]; cbn [refresh In]; [tauto|].
  destruct (d_key x =? k) eqn:E; cbn [In].
  - apply Z.eqb_eq in E. intros [H|H].
    + exists x; subst d; cbn; repeat split; auto.
    + exists d; repeat split; auto.
  - intros [H|H]; [exists x; subst; repeat split; auto|].
    destruct (IH H) as [d0 [H0 R]]; exists d0; split; [right; assumption | exact R].
Qed.
Lemma refresh_hit : forall k now l d, In d l -> d_key d = k -> NoDup (dkeys l) ->
  In (mkInfo (d_key d) (d_lease d) now (d_dom d) (d_tag d)) (refresh k now l).
Proof.
  intros k now l d; induction l as [|x t IH]; cbn [refresh In dkeys map]; [tauto|].
  intros Hin Hk ND; inversion ND as [|? ? Hx ND']; subst.
  destruct Hin as [->|Hin].
  - rewrite Z.eqb_refl; left; reflexivity.
  - destruct (d_key x =? d_key d) eqn:E.
    + apply Z.eqb_eq in E. exfalso; apply Hx; rewrite E; apply in_map; assumption.
    + right; apply IH; auto.
Qed.

Lemma In_retain_not : forall k l d, In d (retain_not k l) <-> In d l /\ d_key d <> k.
Proof. intros; unfold retain_not; rewrite filter_In, negb_true_iff, Z.eqb_neq; tauto. Qed.

Lemma NoDup_dkeys_filter : forall (f : dinfo -> bool) l, NoDup (dkeys l) -> NoDup (dkeys (filter f l)).
Proof.
  intros f l; induction l as [|x t IH]; cbn [filter dkeys map]; intros ND; [constructor|].
  inversion ND as [|? ? Hx ND']; subst. destruct (f x); cbn [map]; [|auto].
  constructor; [|auto]. intros C; apply Hx. unfold dkeys in C; apply in_map_iff in C.
  destruct C as [y [E Hy]]; apply filter_In in Hy; rewrite <- E; apply in_map; tauto.
Qed.
Lemma NoDup_dkeys_inj : forall l a b, NoDup (dkeys l) -> In a l -> In b l -> d_key a = d_key b -> a = b.
Proof.
  intros l; induction l as [|x t IH]; cbn [dkeys map In]; intros a b ND Ha Hb E; [tauto|].
  inversion ND as [|? ? Hx ND']; subst.
  destruct Ha as [Ha|Ha], Hb as [Hb|Hb]; subst; auto.
  - exfalso; apply Hx; rewrite E; apply in_map; assumption.
  - exfalso; apply Hx; rewrite <- E; apply in_map; assumption.
Qed.
Lemma NoDup_snocZ : forall (l : list Z) k, NoDup l -> ~ In k l -> NoDup (l ++ [k]).
Proof.
  intros l k; induction l as [|x t IH]; cbn [app In]; intros ND H.
  - constructor; [intros [] | constructor].
  - inversion ND as [|? ? Hx ND']; subst. constructor.
    + rewrite in_app_iff; cbn [In]; intros [C|[C|[]]]; [contradiction | subst; tauto].
    + apply IH; tauto.
Qed.
Lemma filter_length_le : forall {A} (f : A -> bool) l, (length (filter f l) <= length l)%nat.
Proof. intros A f l; induction l as [|x t IH]; cbn [filter length]; [lia|]. destruct (f x); cbn [length]; lia. Qed.
Lemma filter_length_lt : forall {A} (f : A -> bool) l x, In x l -> f x = false -> (length (filter f l) < length l)%nat.
Proof.
  intros A f l; induction l as [|y t IH]; cbn [filter length In]; intros x Hin Hf; [tauto|].
  destruct Hin as [->|Hin].
  - rewrite Hf. pose proof (filter_length_le f t); lia.
  - specialize (IH x Hin Hf). destruct (f y); cbn [length]; lia.
Qed.
Lemma filter_filter_absorb : forall {A} (f g : A -> bool) l,
  (forall x, In x l -> g x = false -> f x = false) -> filter f (filter g l) = filter f l.
Proof.
  intros A f g l; induction l as [|x t IH]; cbn [filter]; intros H; [reflexivity|].
  destruct (g x) eqn:Eg; cbn [filter].
  - destruct (f x); [f_equal|]; apply IH; intros y Hy; apply H; right; assumption.
  - rewrite (H x (or_introl eq_refl) Eg). apply IH; intros y Hy; apply H; right; assumption.
Qed.
Lemma filter_id : forall {A} (f : A -> bool) l, (forall x, In x l -> f x = true) -> filter f l = l.
Proof.
  intros A f l; induction l as [|x t IH]; cbn [filter]; intros H; [reflexivity|].
  rewrite (H x (or_introl eq_refl)); f_equal; apply IH; intros y Hy; apply H; right; assumption.
Qed.

(* ------------------------------------------------------------------ the `while let` loop is a filter *)
Lemma stale_loop_filter : forall fuel now l, NoDup (dkeys l) -> (length l < fuel)%nat ->
  stale_loop fuel now l = filter (fun d => negb (stale now d)) l.
Proof.
  induction fuel as [|f IH]; intros now l ND Hlen; [lia|]. cbn [stale_loop].
  destruct (find (stale now) l) as [d|] eqn:Ef.
  - apply find_some in Ef. destruct Ef as [Hin Hst].
    assert (Hlt : (length (retain_not (d_key d) l) < length l)%nat).
    { unfold retain_not. apply (filter_length_lt _ l d Hin). rewrite Z.eqb_refl; reflexivity. }
    rewrite IH; [| apply NoDup_dkeys_filter; assumption | lia].
    unfold retain_not. apply filter_filter_absorb.
    intros x Hx Hg. apply negb_false_iff, Z.eqb_eq in Hg.
    assert (x = d) by (apply (NoDup_dkeys_inj l); auto). subst. rewrite Hst; reflexivity.
  - symmetry; apply filter_id. intros x Hx. apply negb_true_iff.
    destruct (stale now x) eqn:E; [|reflexivity]. pose proof (find_none _ _ Ef x Hx); congruence.
Qed.

Lemma remove_stale_filter : forall now s, NoDup (dkeys (p_disc s)) ->
  remove_stale now s = mkP (filter (fun d => negb (stale now d)) (p_disc s)) (p_ign s).
Proof. intros now s ND; unfold remove_stale; rewrite stale_loop_filter; [reflexivity | assumption | lia]. Qed.

(* ------------------------------------------------------------------ well-formed states *)
Section Inv.
  Variable c : pcfg.

  Definition ghost_ok (d : dinfo) : Prop :=
    (d_dom d = None \/ d_dom d = Some (c_dom c)) /\ d_tag d = c_tag c.

  Record WF (s : pst) : Prop := mkWF {
    wf_nodup : NoDup (dkeys (p_disc s));
    wf_ghost : forall d, In d (p_disc s) -> ghost_ok d;
    wf_ign : forall k, In k (p_ign s) -> ~ In k (dkeys (p_disc s)) }.

  Lemma wf0 : WF pst0.
  Proof. constructor; cbn; [constructor | tauto | tauto]. Qed.

  Lemma accepts_ghost : forall a, accepts c a = true ->
    (a_dom a = None \/ a_dom a = Some (c_dom c)) /\ a_tag a = c_tag c.
  Proof.
    intros a H; unfold accepts in H; apply andb_true_iff in H; destruct H as [H1 H2].
    apply Z.eqb_eq in H2. split; [|assumption].
    destruct (a_dom a) as [x|]; [right; apply Z.eqb_eq in H1; subst; reflexivity | left; reflexivity].
  Qed.

  Lemma wf_apply : forall s e now, WF s -> WF (apply_ev c e now s).
  Proof.
    intros s e now W. destruct W as [ND G I]. destruct e as [a|k|k|k|]; cbn [apply_ev].
    - (* ESpdp *)
      unfold add_discovered; cbn [p_disc p_ign]. rewrite dkeys_refresh.
      assert (W1 : WF (mkP (refresh (a_key a) now (p_disc s)) (p_ign s))).
      { constructor; cbn [p_disc p_ign].
        - rewrite dkeys_refresh; assumption.
        - intros d Hd. destruct (In_refresh_inv _ _ _ _ Hd) as [d0 [H0 [_ [_ [Ed [Et _]]]]]].
          destruct (G d0 H0) as [G1 G2]. unfold ghost_ok. rewrite <- Ed, <- Et; split; assumption.
        - intros k Hk. rewrite dkeys_refresh. apply I; assumption. }
      destruct (accepts c a && negb (zmem (a_key a) (dkeys (p_disc s))) && negb (zmem (a_key a) (p_ign s))) eqn:E; [|exact W1].
      apply andb_true_iff in E. destruct E as [E E3]. apply andb_true_iff in E. destruct E as [E1 E2].
      apply negb_true_iff, zmem_false in E2. apply negb_true_iff, zmem_false in E3.
      destruct W1 as [ND1 G1 I1]. cbn [p_disc p_ign] in *. constructor; cbn [p_disc p_ign].
      + unfold dkeys; rewrite map_app; cbn [map d_key]. apply NoDup_snocZ; [exact ND1|].
        fold (dkeys (refresh (a_key a) now (p_disc s))). rewrite dkeys_refresh; assumption.
      + intros d Hd. apply in_app_or in Hd. destruct Hd as [Hd|[<-|[]]]; [apply G1; assumption|].
        unfold ghost_ok; cbn. apply accepts_ghost; assumption.
      + intros k Hk. unfold dkeys; rewrite map_app, in_app_iff; cbn [map d_key In].
        intros [C|[C|[]]]; [apply (I1 k Hk); exact C | subst; contradiction].
    - (* EData *)
      constructor; cbn [p_disc p_ign].
      + rewrite dkeys_refresh; assumption.
      + intros d Hd. destruct (In_refresh_inv _ _ _ _ Hd) as [d0 [H0 [_ [_ [Ed [Et _]]]]]].
        destruct (G d0 H0) as [G1 G2]. unfold ghost_ok. rewrite <- Ed, <- Et; split; assumption.
      + intros q Hq. rewrite dkeys_refresh. apply I; assumption.
    - (* EDispose *)
      constructor; cbn [p_disc p_ign].
      + apply NoDup_dkeys_filter; assumption.
      + intros d Hd. apply In_retain_not in Hd. apply G; tauto.
      + intros q Hq C. apply (I q Hq). unfold dkeys in *; apply in_map_iff in C. destruct C as [x [E Hx]].
        apply In_retain_not in Hx. rewrite <- E; apply in_map; tauto.
    - (* EIgnore *)
      destruct (zmem k (p_ign s)) eqn:E; [constructor; assumption|].
      constructor; cbn [p_disc p_ign].
      + apply NoDup_dkeys_filter; assumption.
      + intros d Hd. apply In_retain_not in Hd. apply G; tauto.
      + intros q [<-|Hq] C; unfold dkeys in C; apply in_map_iff in C; destruct C as [x [E' Hx]]; apply In_retain_not in Hx.
        * tauto.
        * apply (I q Hq). rewrite <- E'; apply in_map; tauto.
    - constructor; assumption.
  Qed.

  Lemma wf_remove_stale : forall s now, WF s -> WF (remove_stale now s).
  Proof.
    intros s now [ND G I]. rewrite remove_stale_filter by assumption. constructor; cbn [p_disc p_ign].
    - apply NoDup_dkeys_filter; assumption.
    - intros d Hd; apply filter_In in Hd; apply G; tauto.
    - intros k Hk C. apply (I k Hk). unfold dkeys in *; apply in_map_iff in C. destruct C as [x [E Hx]].
      apply filter_In in Hx. rewrite <- E; apply in_map; tauto.
  Qed.

  Lemma wf_step : forall s en, WF s -> WF (pstep c s en).
  Proof. intros s en W; unfold pstep; apply wf_remove_stale, wf_apply; assumption. Qed.

  Lemma wf_run : forall l s, WF s -> WF (prun c s l).
  Proof. induction l as [|en t IH]; intros s W; cbn [prun fold_left]; [assumption | apply IH, wf_step; assumption]. Qed.

  (* ---------------------------------------------------------------- isolation *)
  Theorem isolation : forall evs d, In d (p_disc (prun c pst0 evs)) ->
    (d_dom d = None \/ d_dom d = Some (c_dom c)) /\ d_tag d = c_tag c.
  Proof. intros evs d H. exact (wf_ghost _ (wf_run evs pst0 wf0) d H). Qed.

  (* only announcements that pass the predicate are ever stored *)
  Lemma refused_never_added : forall s a now, accepts c a = false ->
    dkeys (p_disc (apply_ev c (ESpdp a) now s)) = dkeys (p_disc s).
  Proof.
    intros s a now H; cbn [apply_ev]; unfold add_discovered. rewrite H; cbn [andb p_disc]. apply dkeys_refresh.
  Qed.

  (* ---------------------------------------------------------------- ignore *)
  Lemma ign_mono_apply : forall s e now k, In k (p_ign s) -> In k (p_ign (apply_ev c e now s)).
  Proof.
    intros s e now k H; destruct e as [a|q|q|q|]; cbn [apply_ev]; try exact H.
    - unfold add_discovered. destruct (_ && _ && _); cbn [p_ign]; exact H.
    - destruct (zmem q (p_ign s)); [exact H | cbn [p_ign]; right; exact H].
  Qed.
  Lemma ign_mono_run : forall l s k, In k (p_ign s) -> In k (p_ign (prun c s l)).
  Proof.
    induction l as [|en t IH]; intros s k H; cbn [prun fold_left]; [assumption|].
    apply IH. unfold pstep, remove_stale; cbn [p_ign]. apply ign_mono_apply; assumption.
  Qed.
  Lemma ignore_sets : forall s k now, In k (p_ign (pstep c s (EIgnore k, now))).
  Proof.
    intros s k now; unfold pstep, remove_stale; cbn [p_ign fst snd apply_ev].
    destruct (zmem k (p_ign s)) eqn:E; [apply zmem_In; assumption | cbn [p_ign]; left; reflexivity].
  Qed.

  Theorem ignored_never_discovered : forall evs1 k now evs2,
    ~ In k (dkeys (p_disc (prun c pst0 (evs1 ++ (EIgnore k, now) :: evs2)))).
  Proof.
    intros evs1 k now evs2. unfold prun; rewrite fold_left_app; cbn [fold_left].
    fold (prun c pst0 evs1). set (s1 := prun c pst0 evs1).
    fold (prun c (pstep c s1 (EIgnore k, now)) evs2).
    assert (W : WF (prun c (pstep c s1 (EIgnore k, now)) evs2)) by (apply wf_run, wf_step, wf_run, wf0).
    apply (wf_ign _ W). apply ign_mono_run, ignore_sets.
  Qed.

  (* ---------------------------------------------------------------- lease: no early removal, removal at the first late wake *)
  Lemma apply_keeps_untouched : forall s e now d, In d (p_disc s) -> touches (d_key d) e = false ->
    In d (p_disc (apply_ev c e now s)).
  Proof.
    intros s e now d Hd T; destruct e as [a|q|q|q|]; cbn [apply_ev touches] in *.
    - apply Z.eqb_neq in T. unfold add_discovered; cbn [p_disc p_ign].
      assert (H : In d (refresh (a_key a) now (p_disc s))) by (apply In_refresh_other; auto).
      destruct (_ && _ && _); cbn [p_disc]; [apply in_or_app; left|]; exact H.
    - apply Z.eqb_neq in T. cbn [p_disc]. apply In_refresh_other; auto.
    - apply Z.eqb_neq in T. cbn [p_disc]. apply In_retain_not; split; auto.
    - apply Z.eqb_neq in T. destruct (zmem q (p_ign s)); [exact Hd|]. cbn [p_disc]. apply In_retain_not; split; auto.
    - exact Hd.
  Qed.
  Lemma apply_absent_untouched : forall s e now k, ~ In k (dkeys (p_disc s)) -> touches k e = false ->
    ~ In k (dkeys (p_disc (apply_ev c e now s))).
  Proof.
    intros s e now k Hk T; destruct e as [a|q|q|q|]; cbn [apply_ev touches] in *.
    - apply Z.eqb_neq in T. unfold add_discovered; cbn [p_disc p_ign].
      destruct (_ && _ && _); cbn [p_disc].
      + unfold dkeys; rewrite map_app, in_app_iff; cbn [map d_key In].
        fold (dkeys (refresh (a_key a) now (p_disc s))). rewrite dkeys_refresh. intros [C|[C|[]]]; [contradiction | congruence].
      + rewrite dkeys_refresh; assumption.
    - cbn [p_disc]; rewrite dkeys_refresh; assumption.
    - cbn [p_disc]. intros C; apply Hk. unfold dkeys in *; apply in_map_iff in C. destruct C as [x [E Hx]].
      apply In_retain_not in Hx. rewrite <- E; apply in_map; tauto.
    - destruct (zmem q (p_ign s)); [assumption|]. cbn [p_disc]. intros C; apply Hk.
      unfold dkeys in *; apply in_map_iff in C. destruct C as [x [E Hx]].
      apply In_retain_not in Hx. rewrite <- E; apply in_map; tauto.
    - assumption.
  Qed.

  Lemma step_untouched : forall s en d, WF s -> In d (p_disc s) -> touches (d_key d) (fst en) = false ->
    (snd en - d_last d <= d_lease d -> In d (p_disc (pstep c s en))) /\
    (d_lease d < snd en - d_last d -> ~ In (d_key d) (dkeys (p_disc (pstep c s en)))).
  Proof.
    intros s [e now] d W Hd T; cbn [fst snd] in *. unfold pstep; cbn [fst snd].
    pose proof (wf_apply s e now W) as W1. pose proof (apply_keeps_untouched s e now d Hd T) as H1.
    rewrite remove_stale_filter by (apply (wf_nodup _ W1)). cbn [p_disc]. split.
    - intros Hle. apply filter_In; split; [assumption|]. unfold stale. apply negb_true_iff, Z.ltb_ge; lia.
    - intros Hlt C. unfold dkeys in C; apply in_map_iff in C. destruct C as [x [E Hx]]. apply filter_In in Hx.
      destruct Hx as [Hx Hs]. assert (x = d) by (apply (NoDup_dkeys_inj _ x d (wf_nodup _ W1)); auto). subst.
      unfold stale in Hs. apply negb_true_iff, Z.ltb_ge in Hs. lia.
  Qed.

  Lemma absent_stays_absent : forall l s k, WF s -> ~ In k (dkeys (p_disc s)) ->
    Forall (fun en => touches k (fst en) = false) l -> ~ In k (dkeys (p_disc (prun c s l))).
  Proof.
    induction l as [|en t IH]; intros s k W Hk F; cbn [prun fold_left]; [assumption|].
    inversion F as [|? ? T F']; subst. apply IH; [apply wf_step; assumption | | assumption].
    unfold pstep. pose proof (wf_apply s (fst en) (snd en) W) as W1.
    rewrite remove_stale_filter by (apply (wf_nodup _ W1)). cbn [p_disc].
    intros C. apply (apply_absent_untouched s (fst en) (snd en) k Hk T).
    unfold dkeys in *; apply in_map_iff in C. destruct C as [x [E Hx]]. apply filter_In in Hx.
    rewrite <- E; apply in_map; tauto.
  Qed.

  (* a participant that stops communicating: present exactly as long as every worker iteration
     so far had now - last <= lease *)
  Theorem lease_bounds : forall l s d, WF s -> In d (p_disc s) ->
    Forall (fun en => touches (d_key d) (fst en) = false) l ->
    (In (d_key d) (dkeys (p_disc (prun c s l))) <-> Forall (fun en => snd en - d_last d <= d_lease d) l).
  Proof.
    induction l as [|en t IH]; intros s d W Hd F; cbn [prun fold_left].
    - split; [constructor | intros _; apply in_map; assumption].
    - inversion F as [|? ? T F']; subst.
      destruct (step_untouched s en d W Hd T) as [Hkeep Hdrop].
      destruct (Z_le_gt_dec (snd en - d_last d) (d_lease d)) as [Hle|Hgt].
      + specialize (Hkeep Hle). rewrite (IH (pstep c s en) d (wf_step s en W) Hkeep F').
        split; [intros H; constructor; assumption | intros H; inversion H; assumption].
      + split.
        * intros C. exfalso. apply (absent_stays_absent t (pstep c s en) (d_key d)); auto using wf_step.
          apply Hdrop; lia.
        * intros H; inversion H; subst; lia.
  Qed.

  (* the removing iteration lies in (lease, lease + period] after the last communication when
     the previous iteration (at t0, participant still there) was at most `period` earlier *)
  Theorem lease_removal_window : forall pre en s d period t0, WF s -> In d (p_disc s) ->
    Forall (fun en => touches (d_key d) (fst en) = false) (pre ++ [en]) ->
    In (d_key d) (dkeys (p_disc (prun c s pre))) ->
    ~ In (d_key d) (dkeys (p_disc (prun c s (pre ++ [en])))) ->
    t0 - d_last d <= d_lease d -> snd en - t0 <= period ->
    d_lease d < snd en - d_last d <= d_lease d + period.
  Proof.
    intros pre en s d period t0 W Hd F Hin Hout Ht0 Hper.
    assert (Fp : Forall (fun en => touches (d_key d) (fst en) = false) pre)
      by (apply Forall_app in F; tauto).
    apply (lease_bounds pre s d W Hd Fp) in Hin.
    assert (Hn : ~ Forall (fun en => snd en - d_last d <= d_lease d) (pre ++ [en]))
      by (intros C; apply Hout; apply (lease_bounds (pre ++ [en]) s d W Hd F); exact C).
    assert (Hgt : d_lease d < snd en - d_last d).
    { destruct (Z_le_gt_dec (snd en - d_last d) (d_lease d)) as [Hle|Hgt]; [|lia].
      exfalso; apply Hn. apply Forall_app; split; [assumption | constructor; [assumption | constructor]]. }
    lia.
  Qed.

  (* ---------------------------------------------------------------- discovery *)
  Definition has_entry (k L t : Z) (s : pst) : Prop :=
    exists d, In d (p_disc s) /\ d_key d = k /\ L <= d_lease d /\ t <= d_last d.

  Lemma step_keeps_entry : forall s en k L t, WF s -> has_entry k L t s ->
    removes k (fst en) = false -> t <= snd en <= t + L ->
    has_entry k L t (pstep c s en).
  Proof.
    intros s [e now] k L t W [d [Hd [Hk [HL Ht]]]] R Hn; cbn [fst snd] in *.
    pose proof (wf_apply s e now W) as W1.
    assert (H1 : has_entry k L t (apply_ev c e now s)).
    { destruct e as [a|q|q|q|]; cbn [apply_ev removes] in *.
      - unfold add_discovered; cbn [p_disc p_ign].
        assert (H : has_entry k L t (mkP (refresh (a_key a) now (p_disc s)) (p_ign s))).
        { destruct (Z.eq_dec (a_key a) k) as [E|E].
          - exists (mkInfo (d_key d) (d_lease d) now (d_dom d) (d_tag d)); cbn. repeat split; try assumption; try lia.
            apply refresh_hit; [assumption | congruence | apply (wf_nodup _ W)].
          - exists d; repeat split; auto. cbn [p_disc]. apply In_refresh_other; [congruence | assumption]. }
        destruct (_ && _ && _); [|exact H].
        destruct H as [d' [H' R']]; exists d'; split; [cbn [p_disc] in *; apply in_or_app; left; exact H' | exact R'].
      - destruct (Z.eq_dec q k) as [E|E].
        + exists (mkInfo (d_key d) (d_lease d) now (d_dom d) (d_tag d)); cbn. repeat split; try assumption; try lia.
          apply refresh_hit; [assumption | congruence | apply (wf_nodup _ W)].
        + exists d; repeat split; auto. cbn [p_disc]. apply In_refresh_other; [congruence | assumption].
      - apply Z.eqb_neq in R. exists d; repeat split; auto. cbn [p_disc]. apply In_retain_not; split; [assumption | congruence].
      - apply Z.eqb_neq in R. destruct (zmem q (p_ign s)); [exists d; repeat split; auto|].
        exists d; repeat split; auto. cbn [p_disc]. apply In_retain_not; split; [assumption | congruence].
      - exists d; repeat split; auto. }
    destruct H1 as [d1 [Hd1 [Hk1 [HL1 Ht1]]]].
    unfold pstep; cbn [fst snd]. rewrite remove_stale_filter by (apply (wf_nodup _ W1)).
    exists d1; repeat split; auto. cbn [p_disc]. apply filter_In; split; [assumption|].
    unfold stale. apply negb_true_iff, Z.ltb_ge. lia.
  Qed.

  Lemma run_keeps_entry : forall l s k L t, WF s -> has_entry k L t s ->
    Forall (fun en => removes k (fst en) = false /\ t <= snd en <= t + L) l ->
    has_entry k L t (prun c s l).
  Proof.
    induction l as [|en r IH]; intros s k L t W H F; cbn [prun fold_left]; [assumption|].
    inversion F as [|? ? [R Hn] F']; subst. apply IH; [apply wf_step; assumption | | assumption].
    apply step_keeps_entry; assumption.
  Qed.

  (* an accepted announcement puts the sender in the list (or finds it there) *)
  Lemma announce_discovers : forall s a now L, WF s -> accepts c a = true -> ~ In (a_key a) (p_ign s) ->
    0 <= L <= a_lease a -> (forall d, In d (p_disc s) -> d_key d = a_key a -> L <= d_lease d) ->
    has_entry (a_key a) L now (pstep c s (ESpdp a, now)).
  Proof.
    intros s a now L W Ha Hi HL Hold.
    pose proof (wf_apply s (ESpdp a) now W) as W1.
    assert (H1 : has_entry (a_key a) L now (apply_ev c (ESpdp a) now s)).
    { cbn [apply_ev]; unfold add_discovered; cbn [p_disc p_ign]. rewrite dkeys_refresh, Ha. cbn [andb].
      destruct (zmem (a_key a) (dkeys (p_disc s))) eqn:E; cbn [negb andb].
      - apply zmem_In in E. unfold dkeys in E; apply in_map_iff in E. destruct E as [d [Ek Hd]].
        exists (mkInfo (d_key d) (d_lease d) now (d_dom d) (d_tag d)); cbn. repeat split; try assumption; try lia.
        + apply refresh_hit; [assumption | assumption | apply (wf_nodup _ W)].
        + apply Hold; assumption.
      - assert (Hz : zmem (a_key a) (p_ign s) = false) by (apply zmem_false; assumption). rewrite Hz; cbn [negb].
        exists (mkInfo (a_key a) (a_lease a) now (a_dom a) (a_tag a)); cbn. repeat split; try lia.
        apply in_or_app; right; left; reflexivity. }
    destruct H1 as [d1 [Hd1 [Hk1 [HL1 Ht1]]]].
    unfold pstep; cbn [fst snd]. rewrite remove_stale_filter by (apply (wf_nodup _ W1)).
    exists d1; repeat split; auto. cbn [p_disc]. apply filter_In; split; [assumption|].
    unfold stale. apply negb_true_iff, Z.ltb_ge. lia.
  Qed.

  Theorem eventual_discovery : forall s a now L evs, WF s ->
    accepts c a = true -> ~ In (a_key a) (p_ign s) -> 0 <= L <= a_lease a ->
    (forall d, In d (p_disc s) -> d_key d = a_key a -> L <= d_lease d) ->
    Forall (fun en => removes (a_key a) (fst en) = false /\ now <= snd en <= now + L) evs ->
    In (a_key a) (dkeys (p_disc (prun c s ((ESpdp a, now) :: evs)))).
  Proof.
    intros s a now L evs W Ha Hi HL Hold F. cbn [prun fold_left]. fold (prun c (pstep c s (ESpdp a, now)) evs).
    destruct (run_keeps_entry evs (pstep c s (ESpdp a, now)) (a_key a) L now (wf_step _ _ W)
                (announce_discovers s a now L W Ha Hi HL Hold) F) as [d [Hd [Hk _]]].
    rewrite <- Hk. apply in_map; assumption.
  Qed.
End Inv.

(* mutual discovery of two participants p and q: each side's history ends with the other's
   accepted announcement followed by iterations within the lease *)
Theorem mutual_discovery : forall cp cq sp sq ap aq tp tq L evp evq,
  WF cp sp -> WF cq sq ->
  accepts cp aq = true -> accepts cq ap = true ->
  ~ In (a_key aq) (p_ign sp) -> ~ In (a_key ap) (p_ign sq) ->
  0 <= L <= a_lease aq -> 0 <= L <= a_lease ap ->
  (forall d, In d (p_disc sp) -> d_key d = a_key aq -> L <= d_lease d) ->
  (forall d, In d (p_disc sq) -> d_key d = a_key ap -> L <= d_lease d) ->
  Forall (fun en => removes (a_key aq) (fst en) = false /\ tp <= snd en <= tp + L) evp ->
  Forall (fun en => removes (a_key ap) (fst en) = false /\ tq <= snd en <= tq + L) evq ->
  In (a_key aq) (dkeys (p_disc (prun cp sp ((ESpdp aq, tp) :: evp)))) /\
  In (a_key ap) (dkeys (p_disc (prun cq sq ((ESpdp ap, tq) :: evq)))).
Proof. intros; split; eapply eventual_discovery; eauto. Qed.

(* non-vacuity *)
Example lease_example :
  let c := mkCfg 0 0 in
  let a := mkAnn 7 (Some 0) 0 2000 in
  dkeys (p_disc (prun c pst0 [(ESpdp a, 1000); (EWake, 3000)])) = [7] /\
  dkeys (p_disc (prun c pst0 [(ESpdp a, 1000); (EWake, 3000); (EWake, 3001)])) = [] /\
  dkeys (p_disc (prun c pst0 [(ESpdp (mkAnn 8 (Some 1) 0 2000), 1000); (ESpdp (mkAnn 9 None 1 2000), 1000)])) = [].
Proof. repeat split; vm_compute; reflexivity. Qed.
