(* C16 — matched-endpoint bookkeeping of one local DataWriter or DataReader as driven by
   discovery (after the fix commits 63bcd2c, 34a7046, 6603216, 9eb0989 both sides behave alike).
   Definitions only.

   Sources (dds/src/dcps/dcps_domain_participant):
   - discovery_methods.rs  process_discovered_readers / process_discovered_writers
       (every local endpoint x every entry of discovered_reader_list / discovered_writer_list with
        the topic of the endpoint; `matched_*_list.contains(data)` => skip; compatible => replace
        (QoS update: current_count = len only) or push (new match: current_count = len,
        current_count_change, total_count, total_count_change += 1), then transport
        add_matched_reader/add_matched_writer (replace-or-push by guid, locators = the announced
        ones or the default locators of the participant if it is in discovered_participant_list,
        else none); incompatible => a matched endpoint is unmatched (remove_matched_subscription/publication, transport
        delete_matched_reader/writer), then the incompatible-QoS bookkeeping (outside this model))
   - discovery_methods.rs  remove_discovered_reader / remove_discovered_writer
       (remove_matched_subscription / remove_matched_publication + transport delete_matched_reader/writer)
   - discovery_methods.rs  remove_discovered_participant (see remove_part below)
   - participant_entity.rs add_discovered_reader/writer (replace by key or push),
       remove_discovered_reader/writer (retain)
   - user_defined_data_writer.rs remove_matched_subscription, user_defined_data_reader.rs
       add_matched_publication / remove_matched_publication / get_subscription_matched_status,
       discovery_methods.rs PublicationMatchedStatus::get
   The QoS / topic / partition / type test of the code is the abstract predicate `compat`.
   No listener is installed (a listener call reads the status and resets the change fields). *)
From DustDDS Require Export Base.Machine.
Open Scope Z_scope.

(* a remote endpoint as announced through SEDP: GUID = (participant prefix, entity id); the
   remaining announced data (topic, deadline, user data, ...) is three numbers *)
Record ep : Type := mkEp { e_p : Z; e_e : Z; e_topic : Z; e_dl : Z; e_ud : Z }.

Definition key : Type := (Z * Z)%type.
Definition ekey (d : ep) : key := (e_p d, e_e d).
Definition key_eqb (a b : key) : bool := (fst a =? fst b) && (snd a =? snd b).
Definition ep_eqb (a b : ep) : bool :=
  (e_p a =? e_p b) && (e_e a =? e_e b) && (e_topic a =? e_topic b) && (e_dl a =? e_dl b) && (e_ud a =? e_ud b).

Inductive side : Type := Wr | Rd.

(* RTPS proxy: remote guid + "has at least one locator" *)
Record proxy : Type := mkProxy { x_key : key; x_loc : bool }.

Record st : Type := mkSt {
  parts : list Z;          (* prefixes in discovered_participant_list *)
  disc : list ep;          (* discovered_reader_list / discovered_writer_list *)
  matched : list ep;       (* matched_subscription_list / matched_publication_list *)
  prox : list proxy;       (* transport matched_readers / matched_writers *)
  total : Z; total_ch : Z; cur : Z; cur_ch : Z
}.

Definition st0 : st := mkSt [] [] [] [] 0 0 0 0.

Definition keys (l : list ep) : list key := map ekey l.
Definition has_key (k : key) (l : list ep) : bool := existsb (fun d => key_eqb (ekey d) k) l.
Definition has_ep (d : ep) (l : list ep) : bool := existsb (ep_eqb d) l.
Definition zlen {A} (l : list A) : Z := Z.of_nat (length l).

(* `match iter_mut().find(key) { Some(x) => *x = d, None => push(d) }` *)
Fixpoint upsert (d : ep) (l : list ep) : list ep :=
  match l with
  | [] => [d]
  | x :: t => if key_eqb (ekey x) (ekey d) then d :: t else x :: upsert d t
  end.
Fixpoint upsert_proxy (x : proxy) (l : list proxy) : list proxy :=
  match l with
  | [] => [x]
  | y :: t => if key_eqb (x_key y) (x_key x) then x :: t else y :: upsert_proxy x t
  end.
(* `position(key)` + `remove(i)`: the first entry with that key *)
Fixpoint remove_key (k : key) (l : list ep) : list ep :=
  match l with
  | [] => []
  | x :: t => if key_eqb (ekey x) k then t else x :: remove_key k t
  end.
(* `retain(|x| key != k)` *)
Definition retain_not_key (k : key) (l : list ep) : list ep :=
  filter (fun d => negb (key_eqb (ekey d) k)) l.
Definition retain_not_prefix (p : Z) (l : list ep) : list ep :=
  filter (fun d => negb (e_p d =? p)) l.
Definition del_proxy (k : key) (l : list proxy) : list proxy :=
  filter (fun x => negb (key_eqb (x_key x) k)) l.
(* proxies deleted for every matched entry with prefix p *)
Definition del_proxies_of (p : Z) (m : list ep) (l : list proxy) : list proxy :=
  filter (fun x => negb (existsb (fun d => (e_p d =? p) && key_eqb (ekey d) (x_key x)) m)) l.

Inductive act : Type :=
| APart (p : Z)        (* add_discovered_participant accepted p *)
| ADisc (d : ep)       (* SEDP sample: add_discovered_reader/writer, then the processing pass *)
| AGone (k : key)      (* SEDP dispose/unregister: remove_discovered_reader/writer, pass *)
| APartGone (p : Z)    (* SPDP dispose or ignore_participant: remove_discovered_participant, pass *)
| AStale (p : Z)       (* remove_stale_participants: runs after the pass of that iteration *)
| ATick                (* a worker iteration without discovery input *)
| ARead.               (* get_publication_matched_status / get_subscription_matched_status *)

Definition status : Type := (Z * Z * Z * Z)%type.   (* total, total_change, current, current_change *)


Section Model.
  Variable compat : ep -> bool.

  Definition with_match (s : st) (m : list ep) (px : list proxy) (dt dtc dcc : Z) : st :=
    mkSt (parts s) (disc s) m px (total s + dt) (total_ch s + dtc) (zlen m) (cur_ch s + dcc).

  (* remove_matched_subscription / remove_matched_publication followed by
     transport delete_matched_reader / delete_matched_writer *)
  Definition unmatch (k : key) (s : st) : st :=
    if has_key k (matched s)
    then with_match s (remove_key k (matched s)) (del_proxy k (prox s)) 0 0 (-1)
    else s.

  (* body of the loop of process_discovered_readers/writers for one discovered entry *)
  Definition process_one (s : st) (d : ep) : st :=
    if has_ep d (matched s) then s
    else if compat d then
      let px := upsert_proxy (mkProxy (ekey d) (existsb (Z.eqb (e_p d)) (parts s))) (prox s) in
      if has_key (ekey d) (matched s)
      then with_match s (upsert d (matched s)) px 0 0 0       (* QoS update of a matched endpoint *)
      else with_match s (upsert d (matched s)) px 1 1 1       (* a new match *)
    else unmatch (ekey d) s.                                  (* (became) incompatible *)

  Definition process (s : st) : st := fold_left process_one (disc s) s.

  Definition set_disc (s : st) (l : list ep) : st :=
    mkSt (parts s) l (matched s) (prox s) (total s) (total_ch s) (cur s) (cur_ch s).
  Definition set_parts (s : st) (l : list Z) : st :=
    mkSt l (disc s) (matched s) (prox s) (total s) (total_ch s) (cur s) (cur_ch s).

  (* remove_discovered_participant: discovered_participant_list.retain; every matched endpoint with
     that prefix goes through remove_matched_subscription/publication (current_count = len,
     current_count_change -= 1 each) and loses its RTPS proxy; the endpoints of the participant
     leave discovered_reader_list / discovered_writer_list *)
  Definition remove_part (p : Z) (s : st) : st :=
    let s1 := set_parts s (filter (fun q => negb (q =? p)) (parts s)) in
    let m := retain_not_prefix p (matched s1) in
    mkSt (parts s1) (retain_not_prefix p (disc s1)) m
         (del_proxies_of p (matched s1) (prox s1))
         (total s1) (total_ch s1) (zlen m) (cur_ch s1 - (zlen (matched s1) - zlen m)).

  Definition read (s : st) : st * status :=
    (mkSt (parts s) (disc s) (matched s) (prox s) (total s) 0 (cur s) 0,
     (total s, total_ch s, cur s, cur_ch s)).

  Definition step (s : st) (a : act) : st * option status :=
    match a with
    | APart p => (process (set_parts s (if existsb (Z.eqb p) (parts s) then parts s else parts s ++ [p])), None)
    | ADisc d => (process (set_disc s (upsert d (disc s))), None)
    | AGone k => (process (unmatch k (set_disc s (retain_not_key k (disc s)))), None)
    | APartGone p => (process (remove_part p s), None)
    | AStale p => (remove_part p (process s), None)
    | ATick => (process s, None)
    | ARead => let (s', o) := read s in (process s', Some o)
    end.

  Fixpoint run (s : st) (l : list act) : st * list status :=
    match l with
    | [] => (s, [])
    | a :: t => let (s1, o) := step s a in
                let (s2, os) := run s1 t in
                (s2, match o with Some x => x :: os | None => os end)
    end.

  (* ------------------------------------------------------------ the specification
     the set of currently matched remote endpoints as the property text defines it: announced
     with compatible QoS, not deleted, participant not departed; total counts every transition
     unmatched -> matched once; change fields are differences since the last read *)
  Record ideal : Type := mkIdeal { i_keys : list key; i_total : Z; i_rt : Z; i_rc : Z }.
  Definition ideal0 : ideal := mkIdeal [] 0 0 0.
  Definition kmem (k : key) (l : list key) : bool := existsb (key_eqb k) l.
  Definition krem (k : key) (l : list key) : list key := filter (fun x => negb (key_eqb x k)) l.

  Definition istep (i : ideal) (a : act) : ideal * option status :=
    match a with
    | ADisc d =>
        if compat d
        then if kmem (ekey d) (i_keys i) then (i, None)
             else (mkIdeal (i_keys i ++ [ekey d]) (i_total i + 1) (i_rt i) (i_rc i), None)
        else (mkIdeal (krem (ekey d) (i_keys i)) (i_total i) (i_rt i) (i_rc i), None)
    | AGone k => (mkIdeal (krem k (i_keys i)) (i_total i) (i_rt i) (i_rc i), None)
    | APartGone p | AStale p =>
        (mkIdeal (filter (fun k => negb (fst k =? p)) (i_keys i)) (i_total i) (i_rt i) (i_rc i), None)
    | ARead =>
        (mkIdeal (i_keys i) (i_total i) (i_total i) (zlen (i_keys i)),
         Some (i_total i, i_total i - i_rt i, zlen (i_keys i), zlen (i_keys i) - i_rc i))
    | _ => (i, None)
    end.

  Fixpoint irun (i : ideal) (l : list act) : ideal * list status :=
    match l with
    | [] => (i, [])
    | a :: t => let (i1, o) := istep i a in
                let (i2, os) := irun i1 t in
                (i2, match o with Some x => x :: os | None => os end)
    end.

End Model.

