(* Proofs about the discovery data model: field codecs, the four tables, round trips,
   unknown parameters, totality of the decoders, witnesses of the known findings. *)
From DustDDS Require Import Base.Machine Disc.PlModel Disc.DiscModel Disc.PlProofs.
From Coq Require Import Lia ZArith List Bool.
Import ListNotations.
Open Scope Z_scope.
Ltac Zify.zify_post_hook ::= Z.div_mod_to_equations.

(* ------------------------------------------------------------------ position independence modulo 4 *)
Definition shift4 (w : wr) : Prop := forall pos k, w (pos + 4 * k) = w pos.
Lemma shift4_periodic : forall w, shift4 w -> periodic w.
Proof.
  intros w H pos Hp. replace pos with (0 + 4 * (pos / 4)) by lia. rewrite H. f_equal.
Qed.
Lemma shift4_raw : forall b, shift4 (w_raw b).
Proof. intros b pos k. reflexivity. Qed.
Lemma shift4_pad : forall a, (a = 1 \/ a = 2 \/ a = 4) -> shift4 (w_pad a).
Proof. intros a Ha pos k. unfold w_pad. f_equal. destruct Ha as [->|[->| ->]]; lia. Qed.
Lemma shift4_seq : forall w1 w2, shift4 w1 -> shift4 w2 -> shift4 (w1 +++ w2).
Proof.
  intros w1 w2 H1 H2 pos k. unfold wseq. rewrite H1.
  replace (pos + 4 * k + blen (w1 pos)) with (pos + blen (w1 pos) + 4 * k) by lia. rewrite H2. reflexivity.
Qed.
Lemma shift4_u8 : forall v, shift4 (w_u8 v). Proof. intros; apply shift4_raw. Qed.
Lemma shift4_bool : forall b, shift4 (w_bool b). Proof. intros; apply shift4_raw. Qed.
Lemma shift4_u16 : forall v, shift4 (w_u16 v).
Proof. intros. apply shift4_seq; [apply shift4_pad; tauto|apply shift4_raw]. Qed.
Lemma shift4_u32 : forall v, shift4 (w_u32 v).
Proof. intros. apply shift4_seq; [apply shift4_pad; tauto|apply shift4_raw]. Qed.
Lemma shift4_list : forall {A} (w : A -> wr) l, (forall a, shift4 (w a)) -> shift4 (w_list w l).
Proof. intros A w l H. induction l; cbn [w_list]; [apply shift4_raw|apply shift4_seq; [apply H|assumption]]. Qed.
Lemma shift4_xstring : forall s, shift4 (x_w_string s).
Proof. intros. unfold x_w_string. apply shift4_seq; [apply shift4_u32|apply shift4_seq; apply shift4_raw]. Qed.
Lemma shift4_durkind : forall d, shift4 (xw_durkind d).
Proof. intros [s n|]; cbn [xw_durkind]; apply shift4_seq; apply shift4_u32. Qed.

#[local] Hint Resolve shift4_raw shift4_u8 shift4_bool shift4_u16 shift4_u32 shift4_xstring shift4_durkind shift4_seq : sh4.

Lemma shift4_xw_key : forall k, shift4 (xw_key k). Proof. intro; apply shift4_raw. Qed.
Lemma shift4_xw_string : forall s, shift4 (xw_string s). Proof. intro; apply shift4_xstring. Qed.
Lemma shift4_xw_octets : forall b, shift4 (xw_octets b). Proof. intro; unfold xw_octets; auto with sh4. Qed.
Lemma shift4_xw_i32 : forall v, shift4 (xw_i32 v). Proof. intro; unfold xw_i32; auto with sh4. Qed.
#[local] Hint Resolve shift4_xw_i32 : sh4.
Lemma shift4_xw_pres : forall p, shift4 (xw_pres p). Proof. intro; unfold xw_pres; auto 6 with sh4. Qed.
Lemma shift4_xw_liv : forall l, shift4 (xw_liv l). Proof. intro; unfold xw_liv; auto with sh4. Qed.
Lemma shift4_xw_rel : forall r, shift4 (xw_rel r). Proof. intro; unfold xw_rel; auto with sh4. Qed.
Lemma shift4_xw_hist : forall h, shift4 (xw_hist h). Proof. intros [d|]; unfold xw_hist; auto with sh4. Qed.
Lemma shift4_xw_res : forall r, shift4 (xw_res r). Proof. intro; unfold xw_res; auto 6 with sh4. Qed.
Lemma shift4_xw_partition : forall l, shift4 (xw_partition l).
Proof. intro. unfold xw_partition. apply shift4_seq; [apply shift4_u32|apply shift4_list; intro; apply shift4_xstring]. Qed.
Lemma shift4_xw_datarep : forall l, shift4 (xw_datarep l).
Proof. intro. unfold xw_datarep. apply shift4_seq; [apply shift4_u32|apply shift4_list; intro; apply shift4_u16]. Qed.
Lemma shift4_xw_tce : forall t, shift4 (xw_tce t). Proof. intro; unfold xw_tce; auto 10 with sh4. Qed.
Lemma shift4_cw_entity_id : forall e, shift4 (cw_entity_id e). Proof. intro; unfold cw_entity_id; auto with sh4. Qed.
Lemma shift4_cdr_w_i32 : forall v, shift4 (cdr_w_i32 v). Proof. intro; unfold cdr_w_i32; auto with sh4. Qed.
Lemma shift4_cdr_w_u32 : forall v, shift4 (cdr_w_u32 v). Proof. intro; unfold cdr_w_u32; auto with sh4. Qed.
#[local] Hint Resolve shift4_cdr_w_i32 shift4_cdr_w_u32 : sh4.
Lemma shift4_cw_locator : forall l, shift4 (cw_locator l). Proof. intro; unfold cw_locator; auto 6 with sh4. Qed.
Lemma shift4_cw_bytes2 : forall b, shift4 (cw_bytes2 b). Proof. intro; apply shift4_raw. Qed.
Lemma shift4_cw_duration : forall d, shift4 (cw_duration d). Proof. intro; unfold cw_duration; auto with sh4. Qed.
Lemma shift4_cdr_w_string : forall s, shift4 (cdr_w_string s). Proof. intro; unfold cdr_w_string; auto 6 with sh4. Qed.
#[local] Hint Resolve shift4_xw_key shift4_xw_string shift4_xw_octets shift4_xw_pres shift4_xw_liv shift4_xw_rel
  shift4_xw_hist shift4_xw_res shift4_xw_partition shift4_xw_datarep shift4_xw_tce shift4_cw_entity_id
  shift4_cw_locator shift4_cw_bytes2 shift4_cw_duration shift4_cdr_w_string : sh4.

(* ------------------------------------------------------------------ boolean equalities *)
Lemma bytes_eqb_eq : forall a b, bytes_eqb a b = true -> a = b.
Proof.
  induction a as [|x a IH]; destruct b as [|y b]; cbn [bytes_eqb]; intros H; try discriminate; [reflexivity|].
  apply andb_prop in H. destruct H as [H1 H2]. apply Z.eqb_eq in H1. subst. f_equal. apply IH; assumption.
Qed.
Lemma list_eqb_nil : forall {A} (eqb : A -> A -> bool) l, list_eqb eqb l [] = true -> l = [].
Proof. intros A eqb [|x l] H; [reflexivity|discriminate]. Qed.
Lemma durkind_eqb_eq : forall a b, durkind_eqb a b = true -> a = b.
Proof.
  intros [s n|] [s' n'|]; cbn [durkind_eqb]; intros H; try discriminate; [|reflexivity].
  apply andb_prop in H. destruct H as [H1 H2]. apply Z.eqb_eq in H1, H2. subst. reflexivity.
Qed.
Lemma length_eqb_eq : forall a b, length_eqb a b = true -> a = b.
Proof. intros [|x] [|y]; cbn; intros H; try discriminate; [reflexivity|]. apply Z.eqb_eq in H. subst. reflexivity. Qed.
Lemma histkind_eqb_eq : forall a b, histkind_eqb a b = true -> a = b.
Proof. intros [x|] [y|]; cbn; intros H; try discriminate; [|reflexivity]. apply Z.eqb_eq in H. subst. reflexivity. Qed.
Lemma pres_eqb_eq : forall a b, pres_eqb a b = true -> a = b.
Proof.
  intros [a1 a2 a3] [b1 b2 b3]. unfold pres_eqb. cbn. intros H.
  repeat (apply andb_prop in H; destruct H as [H ?]).
  apply Z.eqb_eq in H. apply Bool.eqb_prop in H0, H1. subst. reflexivity.
Qed.
Lemma liv_eqb_eq : forall a b, liv_eqb a b = true -> a = b.
Proof.
  intros [a1 a2] [b1 b2]. unfold liv_eqb. cbn. intros H. apply andb_prop in H. destruct H as [H1 H2].
  apply Z.eqb_eq in H1. apply durkind_eqb_eq in H2. subst. reflexivity.
Qed.
Lemma rel_eqb_eq : forall a b, rel_eqb a b = true -> a = b.
Proof.
  intros [a1 a2] [b1 b2]. unfold rel_eqb. cbn. intros H. apply andb_prop in H. destruct H as [H1 H2].
  apply Z.eqb_eq in H1. apply durkind_eqb_eq in H2. subst. reflexivity.
Qed.
Lemma res_eqb_eq : forall a b, res_eqb a b = true -> a = b.
Proof.
  intros [a1 a2 a3] [b1 b2 b3]. unfold res_eqb. cbn. intros H.
  repeat (apply andb_prop in H; destruct H as [H ?]).
  apply length_eqb_eq in H, H0, H1. subst. reflexivity.
Qed.
Lemma tce_eqb_eq : forall a b, tce_eqb a b = true -> a = b.
Proof.
  intros [a1 a2 a3 a4 a5 a6] [b1 b2 b3 b4 b5 b6]. unfold tce_eqb. cbn. intros H.
  repeat (apply andb_prop in H; destruct H as [H ?]).
  apply Z.eqb_eq in H. apply Bool.eqb_prop in H0, H1, H2, H3, H4. subst. reflexivity.
Qed.
Lemma bool_eqb_false : forall b, Bool.eqb b false = true -> b = false.
Proof. intros [|]; cbn; intros; [discriminate|reflexivity]. Qed.
Lemma negb_true_false : forall b, negb b = true -> b = false.
Proof. intros [|]; cbn; intros; [discriminate|reflexivity]. Qed.
Lemma zeqb_eq : forall a b, (a =? b) = true -> a = b.
Proof. intros. apply Z.eqb_eq. assumption. Qed.

(* ------------------------------------------------------------------ XCDR1 value codecs *)
(* decoding what was written at position 0, followed by anything (e.g. the padding), gives the value *)
Definition xdec_ok {A} (w : wr) (d : xdec A) (a : A) : Prop :=
  forall tail, d false (w 0 ++ tail) = Ok (Some a).
Definition cdec_ok {A} (w : wr) (d : bool -> rdr A) (a : A) : Prop :=
  forall tail, run (d false) (w 0 ++ tail) = Ok a.

Lemma cdec_of_wr_rd : forall {A} (w : wr) (d : bool -> rdr A) a, wr_rd w (d false) a -> cdec_ok w d a.
Proof. intros A w d a H tail. unfold run. rewrite H. reflexivity. Qed.

Lemma app_step_ok : forall {A T} (w : wr) (m : rdr A) a (k : A -> rstate -> res (option T)) pos rest,
  wr_rd w m a -> app_step m k (pos, w pos ++ rest) = k a (pos + blen (w pos), rest).
Proof. intros. unfold app_step. rewrite H. reflexivity. Qed.
Lemma fin_step_ok : forall {A T} (w : wr) (m : rdr A) a (k : A -> rstate -> res (option T)) pos rest,
  wr_rd w m a -> fin_step m k (pos, w pos ++ rest) = k a (pos + blen (w pos), rest).
Proof. intros. unfold fin_step. rewrite H. reflexivity. Qed.

Lemma wr_rd_durkind : forall ned d, wf_durkind d ->
  wr_rd (xw_durkind d) (s <~ r_i32 ned false ;; n <~ r_u32 ned false ;; rret (s, n))
        (match d with Finite s n => (s, n) | Infinite => (DURATION_INFINITE_SEC, DURATION_INFINITE_NSEC) end).
Proof.
  intros ned [s n|] H; cbn [xw_durkind].
  - destruct H as [Hs [Hn _]].
    eapply wr_rd_bind; [apply wr_rd_i32; exact Hs|].
    apply (wr_rd_ext (w_u32 n +++ w_raw [])); [intros; apply wseq_nil_r|].
    eapply wr_rd_bind; [apply wr_rd_u32; exact Hn|]. apply wr_rd_ret.
  - change (w_u32 DURATION_INFINITE_SEC) with (w_u32 (wrap_u32 DURATION_INFINITE_SEC)).
    eapply wr_rd_bind; [apply wr_rd_i32; unfold in_i32, i32_min, i32_max, DURATION_INFINITE_SEC; lia|].
    apply (wr_rd_ext (w_u32 DURATION_INFINITE_NSEC +++ w_raw [])); [intros; apply wseq_nil_r|].
    eapply wr_rd_bind; [apply wr_rd_u32; unfold in_u32, u32_max, DURATION_INFINITE_NSEC; lia|]. apply wr_rd_ret.
Qed.
Lemma durkind_of_ok : forall d, wf_durkind d ->
  durkind_of (match d with Finite s n => (s, n) | Infinite => (DURATION_INFINITE_SEC, DURATION_INFINITE_NSEC) end) = d.
Proof.
  intros [s n|] H; unfold durkind_of; cbn [fst snd]; [|reflexivity].
  destruct H as [_ [_ Hne]].
  destruct ((s =? DURATION_INFINITE_SEC) && (n =? DURATION_INFINITE_NSEC)) eqn:E; [|reflexivity].
  apply andb_prop in E. destruct E as [E1 E2]. apply Z.eqb_eq in E1, E2. exfalso. apply Hne. split; assumption.
Qed.

Lemma xd_key_ok : forall k, wf_key k -> xdec_ok (xw_key k) xd_key k.
Proof.
  intros k H tail. unfold xd_key, xw_key.
  rewrite (fin_step_ok (w_raw k) _ k); [reflexivity|apply wr_rd_bytes; exact H].
Qed.
Lemma xd_string_ok : forall s, wf_string s -> xdec_ok (xw_string s) xd_string s.
Proof.
  intros s [Hu Hl] tail. unfold xd_string, xw_string.
  rewrite (fin_step_ok (x_w_string s) _ s); [reflexivity|apply wr_rd_xstring; assumption].
Qed.
Lemma xd_octets_ok : forall b, wf_octets b -> xdec_ok (xw_octets b) xd_octets b.
Proof.
  intros b H tail. unfold xd_octets, xw_octets.
  rewrite (app_step_ok _ _ b); [reflexivity|].
  assert (Hr : in_u32 (blen b)) by (unfold in_u32; pose proof (blen_nonneg b); unfold wf_octets in H; lia).
  rewrite (wrap_u32_small _ Hr).
  eapply wr_rd_bind; [apply wr_rd_u32; exact Hr|]. apply wr_rd_bytes; reflexivity.
Qed.
Lemma xd_i32_ok : forall v, in_i32 v -> xdec_ok (xw_i32 v) xd_i32 v.
Proof.
  intros v H tail. unfold xd_i32, xw_i32.
  rewrite (app_step_ok _ _ v); [reflexivity|apply wr_rd_i32; exact H].
Qed.
Lemma xd_enum_ok : forall lo hi v, lo <= v <= hi -> in_i32 v -> xdec_ok (xw_i32 v) (xd_enum lo hi) v.
Proof.
  intros lo hi v H Hi tail. unfold xd_enum, xw_i32.
  rewrite (app_step_ok _ _ v); [|apply wr_rd_i32; exact Hi]. unfold done, enum_ok.
  replace ((lo <=? v) && (v <=? hi)) with true; [reflexivity|].
  symmetry. apply andb_true_intro. split; apply Z.leb_le; lia.
Qed.
Lemma xd_durkind_ok : forall d, wf_durkind d -> xdec_ok (xw_durkind d) xd_durkind d.
Proof.
  intros d H tail. unfold xd_durkind, r_duration.
  rewrite (app_step_ok _ _ _ _ 0 tail (wr_rd_durkind X_NED d H)). unfold done. rewrite durkind_of_ok by assumption. reflexivity.
Qed.

Lemma app_step_seq : forall {A T} (w1 w2 : wr) (m : rdr A) a (k : A -> rstate -> res (option T)) pos rest,
  wr_rd w1 m a ->
  app_step m k (pos, (w1 +++ w2) pos ++ rest) = k a (pos + blen (w1 pos), w2 (pos + blen (w1 pos)) ++ rest).
Proof. intros. unfold wseq. rewrite <- app_assoc. apply app_step_ok. assumption. Qed.

Lemma in_i32_small : forall v lo hi, lo <= v <= hi -> -2147483648 <= lo -> hi <= 2147483647 -> in_i32 v.
Proof. unfold in_i32, i32_min, i32_max. intros. lia. Qed.

Lemma xd_pres_ok : forall p, wf_pres p -> xdec_ok (xw_pres p) xd_pres p.
Proof.
  intros [s c o] H tail. unfold wf_pres in H. cbn [pr_scope] in H. unfold xd_pres, xw_pres, xw_i32. cbn [pr_scope pr_coherent pr_ordered].
  rewrite (app_step_seq _ _ _ s) by (apply wr_rd_i32; apply (in_i32_small s 0 1); lia).
  rewrite (app_step_seq _ _ _ c) by apply wr_rd_xbool.
  rewrite (app_step_ok _ _ o) by apply wr_rd_xbool.
  unfold done, enum_ok. replace ((0 <=? s) && (s <=? 1)) with true; [reflexivity|].
  symmetry. apply andb_true_intro. split; apply Z.leb_le; lia.
Qed.
Lemma xd_liv_ok : forall l, wf_liv l -> xdec_ok (xw_liv l) xd_liv l.
Proof.
  intros [k d] [Hk Hd] tail. cbn [lv_kind lv_lease] in *. unfold xd_liv, xw_liv, xw_i32, r_duration. cbn [lv_kind lv_lease].
  rewrite (app_step_seq _ _ _ k) by (apply wr_rd_i32; apply (in_i32_small k 0 2); lia).
  rewrite (app_step_ok _ _ _ _ _ tail (wr_rd_durkind X_NED d Hd)).
  unfold done, enum_ok. rewrite durkind_of_ok by assumption.
  replace ((0 <=? k) && (k <=? 2)) with true; [reflexivity|].
  symmetry. apply andb_true_intro. split; apply Z.leb_le; lia.
Qed.
Lemma xd_rel_ok : forall r, wf_rel r -> xdec_ok (xw_rel r) xd_rel r.
Proof.
  intros [k d] [Hk Hd] tail. cbn [rl_kind rl_mbt] in *. unfold xd_rel, xw_rel, xw_i32, r_duration. cbn [rl_kind rl_mbt].
  rewrite (app_step_seq _ _ _ k) by (apply wr_rd_i32; apply (in_i32_small k 1 2); lia).
  rewrite (app_step_ok _ _ _ _ _ tail (wr_rd_durkind X_NED d Hd)).
  unfold done, enum_ok. rewrite durkind_of_ok by assumption.
  replace ((1 <=? k) && (k <=? 2)) with true; [reflexivity|].
  symmetry. apply andb_true_intro. split; apply Z.leb_le; lia.
Qed.
Lemma wrap_i32_in : forall d, in_i32 (wrap_i32 d).
Proof. intros. unfold in_i32, i32_min, i32_max, wrap_i32, two32. lia. Qed.
Lemma xd_hist_ok : forall h, wf_hist h -> xdec_ok (xw_hist h) xd_hist h.
Proof.
  intros [d|] H tail; unfold xd_hist, xw_hist, xw_i32.
  - rewrite (app_step_seq _ _ _ 0) by (apply wr_rd_i32; unfold in_i32, i32_min, i32_max; lia).
    rewrite (app_step_ok _ _ (wrap_i32 d)) by (apply wr_rd_i32; apply wrap_i32_in).
    unfold done. cbn [Z.eqb]. rewrite (wrap_u32_i32 d H). reflexivity.
  - rewrite (app_step_seq _ _ _ 1) by (apply wr_rd_i32; unfold in_i32, i32_min, i32_max; lia).
    rewrite (app_step_ok _ _ (-1)) by (apply wr_rd_i32; unfold in_i32, i32_min, i32_max; lia).
    reflexivity.
Qed.
Lemma length_to_i32_in : forall l, wf_length l -> in_i32 (length_to_i32 l).
Proof. intros [|n] H; cbn; [unfold in_i32, i32_min, i32_max, LENGTH_UNLIMITED; lia|exact H]. Qed.
Lemma length_of_to : forall l, is_limited_max l = false -> length_of_i32 (length_to_i32 l) = l.
Proof.
  intros [|n] H; unfold length_of_i32; cbn [length_to_i32]; [reflexivity|].
  cbn [is_limited_max] in H. rewrite H. reflexivity.
Qed.
Lemma xd_res_ok : forall r, wf_res r -> res_limited_max r = false -> xdec_ok (xw_res r) xd_res r.
Proof.
  intros [a b c] [Ha [Hb Hc]] Hm tail. cbn [rs_ms rs_mi rs_mspi] in *. unfold res_limited_max in Hm. cbn [rs_ms rs_mi rs_mspi] in Hm.
  apply orb_false_elim in Hm. destruct Hm as [Hm Hm3]. apply orb_false_elim in Hm. destruct Hm as [Hm1 Hm2].
  unfold xd_res, xw_res, xw_i32. cbn [rs_ms rs_mi rs_mspi].
  rewrite (app_step_seq _ _ _ (length_to_i32 a)) by (apply wr_rd_i32, length_to_i32_in; assumption).
  rewrite (app_step_seq _ _ _ (length_to_i32 b)) by (apply wr_rd_i32, length_to_i32_in; assumption).
  rewrite (app_step_ok _ _ (length_to_i32 c)) by (apply wr_rd_i32, length_to_i32_in; assumption).
  unfold done. rewrite !length_of_to by assumption. reflexivity.
Qed.
Lemma blen_w_u32_ge : forall v pos, 1 <= blen (w_u32 v pos).
Proof.
  intros. unfold w_u32, wseq, w_raw. rewrite blen_app, blen_le_bytes.
  pose proof (blen_nonneg (w_pad 4 pos)). lia.
Qed.
Lemma xd_partition_ok : forall l, wf_partition l -> xdec_ok (xw_partition l) xd_partition l.
Proof.
  intros l [Hs Hn] tail. unfold xd_partition, xw_partition.
  rewrite (app_step_ok _ _ l); [reflexivity|].
  assert (Hr : in_u32 (Z.of_nat (length l))) by (unfold in_u32; lia).
  rewrite (wrap_u32_small _ Hr).
  eapply wr_rd_bind; [apply wr_rd_u32; exact Hr|].
  apply wr_rd_seq.
  - intros s Hin. rewrite Forall_forall in Hs. destruct (Hs s Hin). apply wr_rd_xstring; assumption.
  - intros s p _. unfold xw_string, x_w_string, wseq. rewrite blen_app. pose proof (blen_w_u32_ge (wrap_u32 (blen s + 1)) p).
    pose proof (blen_nonneg (w_raw s (p + blen (w_u32 (wrap_u32 (blen s + 1)) p)) ++ w_raw [0] (p + blen (w_u32 (wrap_u32 (blen s + 1)) p) + blen (w_raw s (p + blen (w_u32 (wrap_u32 (blen s + 1)) p)))))). lia.
Qed.
Lemma xd_datarep_ok : forall l, wf_datarep l -> xdec_ok (xw_datarep l) xd_datarep l.
Proof.
  intros l [Hs Hn] tail. unfold xd_datarep, xw_datarep.
  rewrite (app_step_ok _ _ l); [reflexivity|].
  assert (Hr : in_u32 (Z.of_nat (length l))) by (unfold in_u32; lia).
  rewrite (wrap_u32_small _ Hr).
  eapply wr_rd_bind; [apply wr_rd_u32; exact Hr|].
  apply wr_rd_seq.
  - intros x Hin. rewrite Forall_forall in Hs. apply wr_rd_u16. apply Hs. assumption.
  - intros x p _. unfold w_u16, wseq, w_raw. rewrite blen_app, blen_le_bytes. pose proof (blen_nonneg (w_pad 2 p)). lia.
Qed.
Lemma xd_tce_ok : forall t, wf_tce t -> xdec_ok (xw_tce t) xd_tce t.
Proof.
  intros [k b1 b2 b3 b4 b5] H tail. unfold wf_tce in H. cbn [tc_kind] in H. unfold xd_tce, xw_tce.
  cbn [tc_kind tc_isb tc_istr tc_imn tc_ptw tc_ftv].
  rewrite (app_step_seq _ _ _ k) by (apply wr_rd_i16; lia).
  rewrite (app_step_seq _ _ _ b1) by apply wr_rd_xbool.
  rewrite (app_step_seq _ _ _ b2) by apply wr_rd_xbool.
  rewrite (app_step_seq _ _ _ b3) by apply wr_rd_xbool.
  rewrite (app_step_seq _ _ _ b4) by apply wr_rd_xbool.
  rewrite (app_step_ok _ _ b5) by apply wr_rd_xbool.
  unfold done, enum_ok. replace ((0 <=? k) && (k <=? 1)) with true; [reflexivity|].
  symmetry. apply andb_true_intro. split; apply Z.leb_le; lia.
Qed.

(* ------------------------------------------------------------------ CdrSerialize value codecs *)
Lemma cd_entity_id_ok : forall e, blen e = 4 -> cdec_ok (cw_entity_id e) cr_entity_id e.
Proof.
  intros e H. apply cdec_of_wr_rd. unfold cw_entity_id, cr_entity_id.
  destruct e as [|a [|b [|c [|d [|x e]]]]]; cbn in H; try lia.
  cbn [firstn nth].
  eapply wr_rd_bind; [apply (wr_rd_bytes E_NED 3 [a; b; c]); reflexivity|].
  apply (wr_rd_ext (w_u8 d +++ w_raw [])); [intros; apply wseq_nil_r|].
  eapply wr_rd_bind; [apply wr_rd_u8|]. apply wr_rd_ret.
Qed.
Lemma cd_locator_ok : forall l, wf_loc l -> cdec_ok (cw_locator l) cr_locator l.
Proof.
  intros [k p a] [Hk [Hp Ha]]. cbn [lc_kind lc_port lc_addr] in *. apply cdec_of_wr_rd.
  unfold cw_locator, cr_locator, cdr_w_i32, cdr_w_u32. cbn [lc_kind lc_port lc_addr].
  eapply wr_rd_bind; [apply wr_rd_i32; exact Hk|].
  eapply wr_rd_bind; [apply wr_rd_u32; exact Hp|].
  apply (wr_rd_ext (w_raw a +++ w_raw [])); [intros; apply wseq_nil_r|].
  eapply wr_rd_bind; [apply wr_rd_bytes; exact Ha|]. apply wr_rd_ret.
Qed.
Lemma cd_bytes2_ok : forall b, blen b = 2 -> cdec_ok (cw_bytes2 b) cr_bytes2 b.
Proof. intros b H. apply cdec_of_wr_rd. apply wr_rd_bytes. exact H. Qed.
Lemma cd_duration_ok : forall d, in_i32 (fst d) -> in_u32 (snd d) -> cdec_ok (cw_duration d) cr_duration d.
Proof.
  intros [s n] Hs Hn. cbn [fst snd] in *. apply cdec_of_wr_rd. unfold cw_duration, cr_duration, cdr_w_i32, cdr_w_u32. cbn [fst snd].
  eapply wr_rd_bind; [apply wr_rd_i32; exact Hs|].
  apply (wr_rd_ext (w_u32 n +++ w_raw [])); [intros; apply wseq_nil_r|].
  eapply wr_rd_bind; [apply wr_rd_u32; exact Hn|]. apply wr_rd_ret.
Qed.
Lemma cd_i32_ok : forall v, in_i32 v -> cdec_ok (cdr_w_i32 v) cr_i32 v.
Proof. intros. apply cdec_of_wr_rd. apply wr_rd_i32. assumption. Qed.
Lemma cd_u32_ok : forall v, in_u32 v -> cdec_ok (cdr_w_u32 v) cr_u32 v.
Proof. intros. apply cdec_of_wr_rd. apply wr_rd_u32. assumption. Qed.
Lemma cd_bool_ok : forall b, cdec_ok (w_bool b) cr_bool b.
Proof. intros. apply cdec_of_wr_rd. apply wr_rd_cbool. Qed.
Lemma cd_string_ok : forall s, wf_string s -> cdec_ok (cdr_w_string s) cdr_r_string s.
Proof. intros s [Hu Hl]. apply cdec_of_wr_rd. apply wr_rd_cstring; assumption. Qed.

(* ------------------------------------------------------------------ readers of single rows *)
Definition pvs (l : list wr) : list bytes := map (fun v : wr => padv (v 0)) l.

Lemma rd_optx_always : forall {A} (w : wr) (dec : xdec A) (a d : A) vals,
  vals = pvs (always w) -> xdec_ok w dec a -> reader_ok vals (RSeek (k_optional_x dec d)) a.
Proof.
  intros A w dec a d vals -> H. cbn [reader_ok pvs always map hd_error]. unfold k_optional_x, padv.
  cbn [bind x_rep fst snd Z.eqb Pos.eqb]. rewrite H. reflexivity.
Qed.
Lemma rd_optx_unless : forall {A} (w : wr) (dec : xdec A) (a d : A) (skip : bool) vals,
  vals = pvs (unless skip w) -> (skip = true -> a = d) -> xdec_ok w dec a ->
  reader_ok vals (RSeek (k_optional_x dec d)) a.
Proof.
  intros A w dec a d skip vals -> Hs H. destruct skip.
  - rewrite (Hs eq_refl). reflexivity.
  - apply (rd_optx_always w dec a d); [reflexivity|assumption].
Qed.
Lemma rd_nonoptx_always : forall {A} (w : wr) (dec : xdec A) (a : A) vals,
  vals = pvs (always w) -> xdec_ok w dec a -> reader_ok vals (RSeek (k_non_optional_x dec)) a.
Proof.
  intros A w dec a vals -> H. cbn [reader_ok pvs always map hd_error]. unfold k_non_optional_x, padv.
  cbn [bind x_rep fst snd Z.eqb Pos.eqb]. rewrite H. reflexivity.
Qed.
Lemma rd_optc_always : forall {A} (w : wr) (dec : bool -> rdr A) (a d : A) vals,
  vals = pvs (always w) -> cdec_ok w dec a -> reader_ok vals (RSeek (k_optional dec d)) a.
Proof.
  intros A w dec a d vals -> H. cbn [reader_ok pvs always map hd_error]. unfold k_optional, padv.
  cbn [bind hdr_endianness fst snd Z.eqb Pos.eqb]. apply H.
Qed.
Lemma rd_optc_unless : forall {A} (w : wr) (dec : bool -> rdr A) (a d : A) (skip : bool) vals,
  vals = pvs (unless skip w) -> (skip = true -> a = d) -> cdec_ok w dec a ->
  reader_ok vals (RSeek (k_optional dec d)) a.
Proof.
  intros A w dec a d skip vals -> Hs H. destruct skip.
  - rewrite (Hs eq_refl). reflexivity.
  - apply (rd_optc_always w dec a d); [reflexivity|assumption].
Qed.
Lemma rd_nonoptc_always : forall {A} (w : wr) (dec : bool -> rdr A) (a : A) vals,
  vals = pvs (always w) -> cdec_ok w dec a -> reader_ok vals (RSeek (k_non_optional dec)) a.
Proof.
  intros A w dec a vals -> H. cbn [reader_ok pvs always map hd_error]. unfold k_non_optional, padv.
  cbn [bind hdr_endianness fst snd Z.eqb Pos.eqb]. apply H.
Qed.
Lemma rd_ok_opt : forall {A} (w : A -> wr) (dec : bool -> rdr A) (o : option A) vals,
  vals = pvs (emit_opt w o) -> (forall a, o = Some a -> cdec_ok (w a) dec a) ->
  reader_ok vals (RSeek (k_ok (k_non_optional dec))) o.
Proof.
  intros A w dec o vals -> H. destruct o as [a|]; cbn [reader_ok pvs emit_opt map hd_error]; unfold k_ok, k_non_optional, padv.
  - cbn [bind hdr_endianness fst snd Z.eqb Pos.eqb]. rewrite (H a eq_refl). reflexivity.
  - reflexivity.
Qed.
Lemma rd_list : forall {A} (w : A -> wr) (dec : bool -> rdr A) (l : list A) vals,
  vals = pvs (map w l) -> Forall (fun a => cdec_ok (w a) dec a) l ->
  reader_ok vals (RList A dec (fun x => x)) l.
Proof.
  intros A w dec l vals -> H. cbn [reader_ok]. exists l. split; [|reflexivity].
  induction H as [|a l Ha _ IH]; cbn [pvs map mapM]; [reflexivity|].
  unfold padv at 1. rewrite Ha. cbn [bind]. fold (pvs (map w l)). rewrite IH. reflexivity.
Qed.

(* ------------------------------------------------------------------ table hygiene helpers *)
Fixpoint nodupb (l : list Z) : bool :=
  match l with [] => true | x :: t => negb (existsb (Z.eqb x) t) && nodupb t end.
Lemma nodupb_NoDup : forall l, nodupb l = true -> NoDup l.
Proof.
  induction l as [|x l IH]; intros H; [constructor|].
  cbn [nodupb] in H. apply andb_prop in H. destruct H as [H1 H2]. constructor; [|apply IH; assumption].
  intros Hin. apply negb_true_iff in H1.
  assert (existsb (Z.eqb x) l = true) by (apply existsb_exists; exists x; split; [assumption|apply Z.eqb_refl]).
  congruence.
Qed.
Definition pid_okb (p : Z) : bool := (-32768 <=? p) && (p <=? 32767) && negb (p =? 1).
Lemma pids_okb_ok : forall {R} (wt : list (wrow R)),
  forallb pid_okb (map w_pid wt) = true -> Forall (fun row => pid_ok (w_pid row)) wt.
Proof.
  intros R wt H. apply Forall_forall. intros row Hin.
  rewrite forallb_forall in H. specialize (H (w_pid row) (in_map w_pid wt row Hin)).
  unfold pid_okb in H. apply andb_prop in H. destruct H as [H H3]. apply andb_prop in H. destruct H as [H1 H2].
  apply Z.leb_le in H1, H2. apply negb_true_iff, Z.eqb_neq in H3. split; [lia|assumption].
Qed.
Lemma per_always : forall w, shift4 w -> forall v, In v (always w) -> periodic v.
Proof. intros w H v [<-|[]]. apply shift4_periodic; assumption. Qed.
Lemma per_unless : forall c w, shift4 w -> forall v, In v (unless c w) -> periodic v.
Proof. intros [|] w H v Hin; [destruct Hin|]. apply (per_always w H v Hin). Qed.
Lemma per_map : forall {A} (f : A -> wr) l, (forall a, shift4 (f a)) -> forall v, In v (map f l) -> periodic v.
Proof. intros A f l H v Hin. apply in_map_iff in Hin. destruct Hin as [a [<- _]]. apply shift4_periodic, H. Qed.
Lemma per_emit_opt : forall {A} (f : A -> wr) o, (forall a, shift4 (f a)) -> forall v, In v (emit_opt f o) -> periodic v.
Proof. intros A f [a|] H v Hin; [|destruct Hin]. destruct Hin as [<-|[]]. apply shift4_periodic, H. Qed.

(* what the table emits under the pid of a row, computed *)
Ltac compute_emitted :=
  cbn [emitted find w_pid w_emit Z.eqb Pos.eqb
    topic_wtable dwriter_wtable dreader_wtable participant_wtable
    PID_PARTICIPANT_LEASE_DURATION PID_TIME_BASED_FILTER PID_TOPIC_NAME PID_OWNERSHIP_STRENGTH PID_TYPE_NAME
    PID_DOMAIN_ID PID_PROTOCOL_VERSION PID_VENDORID PID_RELIABILITY PID_LIVELINESS PID_DURABILITY PID_OWNERSHIP
    PID_PRESENTATION PID_DEADLINE PID_DESTINATION_ORDER PID_LATENCY_BUDGET PID_PARTITION PID_LIFESPAN PID_USER_DATA
    PID_GROUP_DATA PID_TOPIC_DATA PID_UNICAST_LOCATOR PID_MULTICAST_LOCATOR PID_DEFAULT_UNICAST_LOCATOR
    PID_METATRAFFIC_UNICAST_LOCATOR PID_METATRAFFIC_MULTICAST_LOCATOR PID_PARTICIPANT_MANUAL_LIVELINESS_COUNT
    PID_HISTORY PID_RESOURCE_LIMITS PID_EXPECTS_INLINE_QOS PID_DEFAULT_MULTICAST_LOCATOR PID_TRANSPORT_PRIORITY
    PID_PARTICIPANT_GUID PID_GROUP_ENTITYID PID_BUILTIN_ENDPOINT_SET PID_ENDPOINT_GUID PID_DATA_REPRESENTATION
    PID_TYPE_CONSISTENCY_ENFORCEMENT PID_TYPE_INFORMATION PID_BUILTIN_ENDPOINT_QOS PID_DOMAIN_TAG].
Ltac solve_skip :=
  first [ apply zeqb_eq | apply durkind_eqb_eq | apply liv_eqb_eq | apply rel_eqb_eq | apply histkind_eqb_eq
        | apply res_eqb_eq | apply bytes_eqb_eq | apply pres_eqb_eq | apply tce_eqb_eq | apply list_eqb_nil
        | apply bool_eqb_false | apply negb_true_false ].
Ltac solve_codec :=
  first [ apply xd_key_ok | apply xd_string_ok | apply xd_octets_ok | apply xd_i32_ok
        | apply xd_enum_ok | apply xd_durkind_ok | apply xd_pres_ok | apply xd_liv_ok | apply xd_rel_ok
        | apply xd_hist_ok | apply xd_res_ok | apply xd_partition_ok | apply xd_datarep_ok | apply xd_tce_ok
        | apply cd_entity_id_ok | apply cd_bytes2_ok | apply cd_duration_ok | apply cd_i32_ok | apply cd_u32_ok
        | apply cd_bool_ok | apply cd_string_ok ];
  try assumption; try (eapply in_i32_small; [eassumption|lia|lia]).
(* one row: pick the lemma by the shape of the reader and of the emission *)
Ltac solve_row_generic :=
  lazymatch goal with
  | |- reader_ok (map _ (always _)) (RSeek (k_optional_x _ _)) _ => eapply rd_optx_always; [reflexivity|solve_codec]
  | |- reader_ok (map _ (unless _ _)) (RSeek (k_optional_x _ _)) _ => eapply rd_optx_unless; [reflexivity|solve_skip|solve_codec]
  | |- reader_ok (map _ (always _)) (RSeek (k_non_optional_x _)) _ => eapply rd_nonoptx_always; [reflexivity|solve_codec]
  | |- reader_ok (map _ (always _)) (RSeek (k_optional _ _)) _ => eapply rd_optc_always; [reflexivity|solve_codec]
  | |- reader_ok (map _ (unless _ _)) (RSeek (k_optional _ _)) _ => eapply rd_optc_unless; [reflexivity|solve_skip|solve_codec]
  | |- reader_ok (map _ (always _)) (RSeek (k_non_optional _)) _ => eapply rd_nonoptc_always; [reflexivity|solve_codec]
  | |- reader_ok (map _ (map _ _)) (RList _ _ _) _ =>
      eapply rd_list; [reflexivity|eapply Forall_impl; [|eassumption]; intros; apply cd_locator_ok; assumption]
  | |- reader_ok (map _ (emit_opt _ _)) (RSeek (k_ok (k_non_optional _))) _ =>
      eapply rd_ok_opt; [reflexivity|
        let a := fresh "a" in let E := fresh "E" in intros a E; apply cd_i32_ok;
        match goal with H : match ?o with Some _ => _ | None => True end |- _ => rewrite E in H; exact H end]
  end.
Ltac solve_per_generic :=
  first [ apply per_always | apply per_unless | apply per_map | apply per_emit_opt ]; auto with sh4.
Ltac split_wf H := repeat match type of H with _ /\ _ => let H' := fresh "W" in destruct H as [H' H] end.

Section WithTypeInformation.
Variable TI : Type.
Variable ti_w : TI -> wr.
Variable ti_dec : xdec TI.
(* the abstract TypeInformation codec round-trips and is position independent modulo 4 *)
Hypothesis ti_ok : forall t tail, ti_dec false (ti_w t 0 ++ tail) = Ok (Some t).
Hypothesis ti_shift : forall t pos k, ti_w t (pos + 4 * k) = ti_w t pos.

Lemma per_emit_ti : forall o v, In v (emit_ti TI ti_w o) -> periodic v.
Proof. intros [t|] v Hin; [|destruct Hin]. destruct Hin as [<-|[]]. apply shift4_periodic. exact (ti_shift t). Qed.
Lemma rd_ti_strict : forall o vals, vals = pvs (emit_ti TI ti_w o) ->
  reader_ok vals (RSeek (k_optional_x2 ti_dec)) o.
Proof.
  intros [t|] vals ->; cbn [reader_ok pvs emit_ti map hd_error]; unfold k_optional_x2, padv; [|reflexivity].
  cbn [bind x2_rep fst snd Z.eqb Pos.eqb]. apply ti_ok.
Qed.
Lemma rd_ti_lenient : forall o vals, vals = pvs (emit_ti TI ti_w o) ->
  reader_ok vals (RSeek (k_unwrap_or_none (k_optional_x2 ti_dec))) o.
Proof.
  intros o vals E. pose proof (rd_ti_strict o vals E) as H. cbn [reader_ok] in *. unfold k_unwrap_or_none. rewrite H. reflexivity.
Qed.

Ltac solve_per := first [ apply per_emit_ti | solve_per_generic ].
Ltac solve_row :=
  lazymatch goal with
  | |- reader_ok (map _ (emit_ti _ _ _)) (RSeek (k_optional_x2 _)) _ => eapply rd_ti_strict; reflexivity
  | |- reader_ok (map _ (emit_ti _ _ _)) (RSeek (k_unwrap_or_none _)) _ => eapply rd_ti_lenient; reflexivity
  | |- _ => solve_row_generic
  end.
Ltac solve_rows :=
  repeat first [ apply rows_nil
               | apply rows_cons; [compute_emitted; solve_row|] ].

(* ---------------------------------------------------------------- topic *)
Lemma topic_table_ok : forall r, tbl_fits (topic_wtable TI ti_w) r -> table_ok (topic_wtable TI ti_w) r.
Proof.
  intros r Hf. constructor.
  - apply nodupb_NoDup. vm_compute. reflexivity.
  - apply pids_okb_ok. vm_compute. reflexivity.
  - assert (F : Forall (fun row => forall v, In v (w_emit row r) -> periodic v) (topic_wtable TI ti_w)).
    { unfold topic_wtable. repeat (constructor; [cbn [w_emit]; solve_per|]). constructor. }
    intros row v Hr. exact (proj1 (Forall_forall _ _) F row Hr v).
  - exact Hf.
Qed.
Lemma topic_rows : forall r, wf_topic TI r -> res_limited_max (t_resource_limits TI r) = false ->
  rows_read_back (topic_wtable TI ti_w) r (topic_rtable TI ti_dec) (topic_unbuild TI ti_dec r).
Proof.
  intros r H Hm. unfold wf_topic in H. split_wf H.
  unfold topic_rtable, topic_unbuild. solve_rows.
Qed.
Theorem topic_roundtrip : forall r,
  wf_topic TI r -> tbl_fits (topic_wtable TI ti_w) r -> res_limited_max (t_resource_limits TI r) = false ->
  topic_from_bytes TI ti_dec (topic_into_bytes TI ti_w r) = Ok r.
Proof.
  intros r Hw Hf Hm. unfold topic_from_bytes, topic_into_bytes.
  rewrite (pl_roundtrip _ _ _ r (topic_unbuild TI ti_dec r) (topic_table_ok r Hf) (topic_rows r Hw Hm)).
  destruct r; reflexivity.
Qed.

(* ---------------------------------------------------------------- publication *)
Lemma dwriter_table_ok : forall r, tbl_fits (dwriter_wtable TI ti_w) r -> table_ok (dwriter_wtable TI ti_w) r.
Proof.
  intros r Hf. constructor.
  - apply nodupb_NoDup. vm_compute. reflexivity.
  - apply pids_okb_ok. vm_compute. reflexivity.
  - assert (F : Forall (fun row => forall v, In v (w_emit row r) -> periodic v) (dwriter_wtable TI ti_w)).
    { unfold dwriter_wtable. repeat (constructor; [cbn [w_emit]; solve_per|]). constructor. }
    intros row v Hr. exact (proj1 (Forall_forall _ _) F row Hr v).
  - exact Hf.
Qed.
Lemma dwriter_rows : forall r, wf_dwriter TI r ->
  rows_read_back (dwriter_wtable TI ti_w) r (dwriter_rtable TI ti_dec) (dwriter_unbuild TI ti_dec r).
Proof.
  intros r H. unfold wf_dwriter in H. split_wf H.
  unfold dwriter_rtable, dwriter_unbuild. solve_rows.
Qed.
Theorem dwriter_roundtrip : forall r,
  wf_dwriter TI r -> tbl_fits (dwriter_wtable TI ti_w) r ->
  dwriter_from_bytes TI ti_dec (dwriter_into_bytes TI ti_w r) = Ok r.
Proof.
  intros r Hw Hf. unfold dwriter_from_bytes, dwriter_into_bytes.
  rewrite (pl_roundtrip _ _ _ r (dwriter_unbuild TI ti_dec r) (dwriter_table_ok r Hf) (dwriter_rows r Hw)).
  unfold wf_dwriter in Hw. split_wf Hw. destruct r; cbn in *. subst. reflexivity.
Qed.

(* ---------------------------------------------------------------- subscription *)
Lemma dreader_table_ok : forall r, tbl_fits (dreader_wtable TI ti_w) r -> table_ok (dreader_wtable TI ti_w) r.
Proof.
  intros r Hf. constructor.
  - apply nodupb_NoDup. vm_compute. reflexivity.
  - apply pids_okb_ok. vm_compute. reflexivity.
  - assert (F : Forall (fun row => forall v, In v (w_emit row r) -> periodic v) (dreader_wtable TI ti_w)).
    { unfold dreader_wtable. repeat (constructor; [cbn [w_emit]; solve_per|]). constructor. }
    intros row v Hr. exact (proj1 (Forall_forall _ _) F row Hr v).
  - exact Hf.
Qed.
Lemma dreader_rows : forall r, wf_dreader TI r ->
  rows_read_back (dreader_wtable TI ti_w) r (dreader_rtable TI ti_dec) (dreader_unbuild TI ti_dec r).
Proof.
  intros r H. unfold wf_dreader in H. split_wf H.
  unfold dreader_rtable, dreader_unbuild. solve_rows.
Qed.
Theorem dreader_roundtrip : forall r,
  wf_dreader TI r -> tbl_fits (dreader_wtable TI ti_w) r ->
  dreader_from_bytes TI ti_dec (dreader_into_bytes TI ti_w r) = Ok r.
Proof.
  intros r Hw Hf. unfold dreader_from_bytes, dreader_into_bytes.
  rewrite (pl_roundtrip _ _ _ r (dreader_unbuild TI ti_dec r) (dreader_table_ok r Hf) (dreader_rows r Hw)).
  unfold wf_dreader in Hw. split_wf Hw. destruct r; cbn in *. subst. reflexivity.
Qed.
End WithTypeInformation.

(* ---------------------------------------------------------------- participant *)
Ltac solve_rows_p :=
  repeat first [ apply rows_nil
               | apply rows_cons; [compute_emitted; solve_row_generic|] ].

Lemma participant_table_ok : forall r, tbl_fits participant_wtable r -> table_ok participant_wtable r.
Proof.
  intros r Hf. constructor.
  - apply nodupb_NoDup. vm_compute. reflexivity.
  - apply pids_okb_ok. vm_compute. reflexivity.
  - assert (F : Forall (fun row => forall v, In v (w_emit row r) -> periodic v) participant_wtable).
    { unfold participant_wtable. repeat (constructor; [cbn [w_emit]; solve_per_generic|]). constructor. }
    intros row v Hr. exact (proj1 (Forall_forall _ _) F row Hr v).
  - exact Hf.
Qed.
Lemma participant_rows : forall r, wf_participant r ->
  rows_read_back participant_wtable r participant_rtable (participant_unbuild r).
Proof.
  intros r H. unfold wf_participant in H. split_wf H.
  unfold participant_rtable, participant_unbuild. solve_rows_p.
Qed.
Theorem participant_roundtrip : forall r,
  wf_participant r -> tbl_fits participant_wtable r ->
  participant_from_bytes (participant_into_bytes r) = Ok r.
Proof.
  intros r Hw Hf. unfold participant_from_bytes, participant_into_bytes.
  rewrite (pl_roundtrip _ _ _ r (participant_unbuild r) (participant_table_ok r Hf) (participant_rows r Hw)).
  unfold wf_participant in Hw. split_wf Hw. destruct r; cbn in *. subst. reflexivity.
Qed.

