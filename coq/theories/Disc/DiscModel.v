(* The discovery data types and their parameter-list encodings.
   Sources: discovered_topic_data.rs, discovered_writer_data.rs, discovered_reader_data.rs,
   spdp_discovered_participant_data.rs (into_bytes / from_bytes), parameter_id_values.rs,
   builtin_topics.rs, infrastructure/qos_policy.rs, infrastructure/time.rs (TypeSupport of
   the values), xtypes/{serializer,deserializer}.rs + dds_derive (how a TypeSupport value is
   written by write_xcdr1_parameter and read back by get_*_parameter_xdcr).
   Definitions only.

   XCDR1 of the discovery types, specialised from the generic (de)serializer:
   - final struct (BuiltInTopicKey, _String, Duration): members in order, any error is returned;
   - appendable struct (all QoS policies; HistoryQosPolicy has UseDefault members, same effect):
     members in order, NotEnoughData on a member stops the loop (deserialize_fstruct_type `break`),
     other errors are returned; afterwards create_sample gives None when a member is missing or
     an enum discriminant is unknown, and get_optional_parameter_xdcr turns None into the default.
   TypeInformation (PID_TYPE_INFORMATION, XCDR2) is an abstract codec (section variables). *)
From DustDDS Require Export Base.Machine Disc.PlModel.
Open Scope Z_scope.

(* ------------------------------------------------------------------ parameter ids *)
Definition PID_SENTINEL : Z := 1.
Definition PID_PARTICIPANT_LEASE_DURATION : Z := 2.
Definition PID_TIME_BASED_FILTER : Z := 4.
Definition PID_TOPIC_NAME : Z := 5.
Definition PID_OWNERSHIP_STRENGTH : Z := 6.
Definition PID_TYPE_NAME : Z := 7.
Definition PID_DOMAIN_ID : Z := 15.
Definition PID_PROTOCOL_VERSION : Z := 21.
Definition PID_VENDORID : Z := 22.
Definition PID_RELIABILITY : Z := 26.
Definition PID_LIVELINESS : Z := 27.
Definition PID_DURABILITY : Z := 29.
Definition PID_OWNERSHIP : Z := 31.
Definition PID_PRESENTATION : Z := 33.
Definition PID_DEADLINE : Z := 35.
Definition PID_DESTINATION_ORDER : Z := 37.
Definition PID_LATENCY_BUDGET : Z := 39.
Definition PID_PARTITION : Z := 41.
Definition PID_LIFESPAN : Z := 43.
Definition PID_USER_DATA : Z := 44.
Definition PID_GROUP_DATA : Z := 45.
Definition PID_TOPIC_DATA : Z := 46.
Definition PID_UNICAST_LOCATOR : Z := 47.
Definition PID_MULTICAST_LOCATOR : Z := 48.
Definition PID_DEFAULT_UNICAST_LOCATOR : Z := 49.
Definition PID_METATRAFFIC_UNICAST_LOCATOR : Z := 50.
Definition PID_METATRAFFIC_MULTICAST_LOCATOR : Z := 51.
Definition PID_PARTICIPANT_MANUAL_LIVELINESS_COUNT : Z := 52.
Definition PID_HISTORY : Z := 64.
Definition PID_RESOURCE_LIMITS : Z := 65.
Definition PID_EXPECTS_INLINE_QOS : Z := 67.
Definition PID_DEFAULT_MULTICAST_LOCATOR : Z := 72.
Definition PID_TRANSPORT_PRIORITY : Z := 73.
Definition PID_PARTICIPANT_GUID : Z := 80.
Definition PID_GROUP_ENTITYID : Z := 83.
Definition PID_BUILTIN_ENDPOINT_SET : Z := 88.
Definition PID_ENDPOINT_GUID : Z := 90.
Definition PID_DATA_REPRESENTATION : Z := 115.
Definition PID_TYPE_CONSISTENCY_ENFORCEMENT : Z := 116.
Definition PID_TYPE_INFORMATION : Z := 117.
Definition PID_BUILTIN_ENDPOINT_QOS : Z := 119.
Definition PID_DOMAIN_TAG : Z := 16404.  (* 0x4014 *)

(* ------------------------------------------------------------------ value types *)
Inductive durkind : Type := Finite (sec nsec : Z) | Infinite.        (* DurationKind *)
Inductive length_t : Type := Unlimited | Limited (n : Z).            (* Length *)
Inductive histkind : Type := KeepLast (depth : Z) | KeepAll.         (* HistoryQosPolicyKind *)
Record presentation : Type := mkpres { pr_scope : Z; pr_coherent : bool; pr_ordered : bool }.
Record liveliness : Type := mkliv { lv_kind : Z; lv_lease : durkind }.
Record reliability : Type := mkrel { rl_kind : Z; rl_mbt : durkind }.
Record reslimits : Type := mkres { rs_ms : length_t; rs_mi : length_t; rs_mspi : length_t }.
Record tce : Type := mktce { tc_kind : Z; tc_isb : bool; tc_istr : bool; tc_imn : bool; tc_ptw : bool; tc_ftv : bool }.
Record locator : Type := mkloc { lc_kind : Z; lc_port : Z; lc_addr : bytes }.
(* enums are their discriminants: Durability 0..3, Presentation scope 0..1, Liveliness 0..2,
   Reliability 1..2, DestinationOrder 0..1, Ownership 0..1, TypeConsistencyKind 0..1.
   BuiltInTopicKey = 16 bytes, Guid = 16 bytes (prefix ++ entity id), EntityId = 4 bytes
   (entity_key ++ [entity_kind]), ProtocolVersion / VendorId = 2 bytes, String = its UTF-8 bytes. *)

(* boolean equality (the derived PartialEq used by `!= default`) *)
Fixpoint bytes_eqb (a b : bytes) : bool :=
  match a, b with
  | [], [] => true
  | x :: a', y :: b' => (x =? y) && bytes_eqb a' b'
  | _, _ => false
  end.
Fixpoint list_eqb {A} (eqb : A -> A -> bool) (a b : list A) : bool :=
  match a, b with
  | [], [] => true
  | x :: a', y :: b' => eqb x y && list_eqb eqb a' b'
  | _, _ => false
  end.
Definition option_eqb {A} (eqb : A -> A -> bool) (a b : option A) : bool :=
  match a, b with Some x, Some y => eqb x y | None, None => true | _, _ => false end.
Definition durkind_eqb (a b : durkind) : bool :=
  match a, b with
  | Finite s n, Finite s' n' => (s =? s') && (n =? n')
  | Infinite, Infinite => true
  | _, _ => false
  end.
Definition length_eqb (a b : length_t) : bool :=
  match a, b with Unlimited, Unlimited => true | Limited x, Limited y => x =? y | _, _ => false end.
Definition histkind_eqb (a b : histkind) : bool :=
  match a, b with KeepLast x, KeepLast y => x =? y | KeepAll, KeepAll => true | _, _ => false end.
Definition pres_eqb (a b : presentation) : bool :=
  (pr_scope a =? pr_scope b) && Bool.eqb (pr_coherent a) (pr_coherent b) && Bool.eqb (pr_ordered a) (pr_ordered b).
Definition liv_eqb (a b : liveliness) : bool := (lv_kind a =? lv_kind b) && durkind_eqb (lv_lease a) (lv_lease b).
Definition rel_eqb (a b : reliability) : bool := (rl_kind a =? rl_kind b) && durkind_eqb (rl_mbt a) (rl_mbt b).
Definition res_eqb (a b : reslimits) : bool :=
  length_eqb (rs_ms a) (rs_ms b) && length_eqb (rs_mi a) (rs_mi b) && length_eqb (rs_mspi a) (rs_mspi b).
Definition tce_eqb (a b : tce) : bool :=
  (tc_kind a =? tc_kind b) && Bool.eqb (tc_isb a) (tc_isb b) && Bool.eqb (tc_istr a) (tc_istr b)
  && Bool.eqb (tc_imn a) (tc_imn b) && Bool.eqb (tc_ptw a) (tc_ptw b) && Bool.eqb (tc_ftv a) (tc_ftv b).
Definition loc_eqb (a b : locator) : bool :=
  (lc_kind a =? lc_kind b) && (lc_port a =? lc_port b) && bytes_eqb (lc_addr a) (lc_addr b).

(* defaults *)
Definition KEY_DEFAULT : bytes := repeat 0 16.
Definition DUR_ZERO : durkind := Finite 0 0.
Definition LIVELINESS_DEFAULT : liveliness := mkliv 0 Infinite.
Definition RELIABILITY_DEFAULT_READER_AND_TOPICS : reliability := mkrel 1 (Finite 0 100000000).
Definition RELIABILITY_DEFAULT_WRITER : reliability := mkrel 2 (Finite 0 100000000).
Definition HISTORY_DEFAULT : histkind := KeepLast 1.
Definition RESLIMITS_DEFAULT : reslimits := mkres Unlimited Unlimited Unlimited.
Definition PRESENTATION_DEFAULT : presentation := mkpres 0 false false.
Definition TCE_DEFAULT : tce := mktce 1 true true false false false.
Definition ENTITYID_UNKNOWN : bytes := [0; 0; 0; 0].
Definition LEASE_DEFAULT : Z * Z := (100, 0).       (* DEFAULT_PARTICIPANT_LEASE_DURATION *)

(* ------------------------------------------------------------------ XCDR1 writers (position 0 = start of the value) *)
Definition xw_key (k : bytes) : wr := w_raw k.                                   (* [u8;16] primitive array *)
Definition xw_string (s : bytes) : wr := x_w_string s.
Definition xw_octets (l : bytes) : wr := w_u32 (wrap_u32 (blen l)) +++ w_raw l. (* Vec<u8>: length as u32, bytes *)
Definition xw_i32 (v : Z) : wr := w_u32 (wrap_u32 v).
Definition DURATION_INFINITE_SEC : Z := 2147483647.
Definition DURATION_INFINITE_NSEC : Z := 4294967295.
Definition xw_durkind (d : durkind) : wr :=
  match d with
  | Finite s n => w_u32 (wrap_u32 s) +++ w_u32 n
  | Infinite => w_u32 DURATION_INFINITE_SEC +++ w_u32 DURATION_INFINITE_NSEC
  end.
Definition xw_pres (p : presentation) : wr :=
  xw_i32 (pr_scope p) +++ w_bool (pr_coherent p) +++ w_bool (pr_ordered p).
Definition xw_liv (l : liveliness) : wr := xw_i32 (lv_kind l) +++ xw_durkind (lv_lease l).
Definition xw_rel (r : reliability) : wr := xw_i32 (rl_kind r) +++ xw_durkind (rl_mbt r).
(* HistoryQosPolicy::create_dynamic_sample: kind 0/1, depth = `depth as i32` or -1 *)
Definition xw_hist (h : histkind) : wr :=
  match h with
  | KeepLast d => xw_i32 0 +++ xw_i32 (wrap_i32 d)
  | KeepAll => xw_i32 1 +++ xw_i32 (-1)
  end.
Definition LENGTH_UNLIMITED : Z := 2147483647.
Definition length_to_i32 (l : length_t) : Z := match l with Unlimited => LENGTH_UNLIMITED | Limited n => n end.
Definition length_of_i32 (v : Z) : length_t := if v =? LENGTH_UNLIMITED then Unlimited else Limited v.
Definition xw_res (r : reslimits) : wr :=
  xw_i32 (length_to_i32 (rs_ms r)) +++ xw_i32 (length_to_i32 (rs_mi r)) +++ xw_i32 (length_to_i32 (rs_mspi r)).
Definition xw_partition (names : list bytes) : wr :=
  w_u32 (wrap_u32 (Z.of_nat (length names))) +++ w_list xw_string names.
Definition xw_datarep (ids : list Z) : wr :=
  w_u32 (wrap_u32 (Z.of_nat (length ids))) +++ w_list w_u16 ids.
Definition xw_tce (t : tce) : wr :=
  w_u16 (wrap_u16 (tc_kind t)) +++ w_bool (tc_isb t) +++ w_bool (tc_istr t) +++ w_bool (tc_imn t)
  +++ w_bool (tc_ptw t) +++ w_bool (tc_ftv t).

(* ------------------------------------------------------------------ XCDR1 readers *)
(* one member of a final struct: errors are returned *)
Definition fin_step {A T} (m : rdr A) (k : A -> rstate -> res (option T)) (s : rstate) : res (option T) :=
  match m s with Ok (a, s') => k a s' | Err e => Err e | Panic p => Panic p end.
(* one member of an appendable struct: NotEnoughData stops the member loop, the sample is then incomplete *)
Definition app_step {A T} (m : rdr A) (k : A -> rstate -> res (option T)) (s : rstate) : res (option T) :=
  match m s with
  | Ok (a, s') => k a s'
  | Err e => if e =? X_NED then Ok None else Err e
  | Panic p => Panic p
  end.
Definition done {T} (t : option T) : rstate -> res (option T) := fun _ => Ok t.

Definition r_duration (be : bool) : rdr (Z * Z) :=   (* Duration: final struct {sec: i32, nanosec: u32} *)
  s <~ r_i32 X_NED be ;; n <~ r_u32 X_NED be ;; rret (s, n).
Definition durkind_of (p : Z * Z) : durkind :=       (* DurationKind::create_sample *)
  if (fst p =? DURATION_INFINITE_SEC) && (snd p =? DURATION_INFINITE_NSEC) then Infinite else Finite (fst p) (snd p).
Definition enum_ok (lo hi v : Z) : bool := (lo <=? v) && (v <=? hi).

Definition xd_key : xdec bytes := fun be v => fin_step (r_bytes X_NED 16) (fun a => done (Some a)) (0, v).
Definition xd_string : xdec bytes := fun be v => fin_step (x_r_string be) (fun a => done (Some a)) (0, v).
Definition xd_octets : xdec bytes := fun be v =>
  app_step (n <~ r_u32 X_NED be ;; r_bytes X_NED n) (fun a => done (Some a)) (0, v).
Definition xd_i32 : xdec Z := fun be v => app_step (r_i32 X_NED be) (fun a => done (Some a)) (0, v).
Definition xd_durkind : xdec durkind := fun be v =>
  app_step (r_duration be) (fun p => done (Some (durkind_of p))) (0, v).
Definition xd_enum (lo hi : Z) : xdec Z := fun be v =>
  app_step (r_i32 X_NED be) (fun k => done (if enum_ok lo hi k then Some k else None)) (0, v).
Definition xd_pres : xdec presentation := fun be v =>
  app_step (r_i32 X_NED be) (fun k =>
  app_step x_r_bool (fun c =>
  app_step x_r_bool (fun o => done (if enum_ok 0 1 k then Some (mkpres k c o) else None)))) (0, v).
Definition xd_liv : xdec liveliness := fun be v =>
  app_step (r_i32 X_NED be) (fun k =>
  app_step (r_duration be) (fun p => done (if enum_ok 0 2 k then Some (mkliv k (durkind_of p)) else None))) (0, v).
Definition xd_rel : xdec reliability := fun be v =>
  app_step (r_i32 X_NED be) (fun k =>
  app_step (r_duration be) (fun p => done (if enum_ok 1 2 k then Some (mkrel k (durkind_of p)) else None))) (0, v).
(* HistoryQosPolicy::create_sample: kind 0 -> KeepLast(depth as u32), 1 -> KeepAll, else None *)
Definition xd_hist : xdec histkind := fun be v =>
  app_step (r_i32 X_NED be) (fun k =>
  app_step (r_i32 X_NED be) (fun d =>
    done (if k =? 0 then Some (KeepLast (wrap_u32 d)) else if k =? 1 then Some KeepAll else None))) (0, v).
Definition xd_res : xdec reslimits := fun be v =>
  app_step (r_i32 X_NED be) (fun a =>
  app_step (r_i32 X_NED be) (fun b =>
  app_step (r_i32 X_NED be) (fun c =>
    done (Some (mkres (length_of_i32 a) (length_of_i32 b) (length_of_i32 c)))))) (0, v).
(* Vec<String>: length, then `length` strings (Vec::with_capacity(length) first: the allocation
   is not modelled, see C07) *)
Definition xd_partition : xdec (list bytes) := fun be v =>
  app_step (n <~ r_u32 X_NED be ;; r_seq (x_r_string be) n) (fun a => done (Some a)) (0, v).
Definition xd_datarep : xdec (list Z) := fun be v =>
  app_step (n <~ r_u32 X_NED be ;; r_seq (r_u16 X_NED be) n) (fun a => done (Some a)) (0, v).
Definition xd_tce : xdec tce := fun be v =>
  app_step (r_i16 X_NED be) (fun k =>
  app_step x_r_bool (fun b1 => app_step x_r_bool (fun b2 => app_step x_r_bool (fun b3 =>
  app_step x_r_bool (fun b4 => app_step x_r_bool (fun b5 =>
    done (if enum_ok 0 1 k then Some (mktce k b1 b2 b3 b4 b5) else None))))))) (0, v).

(* ------------------------------------------------------------------ CdrSerialize / CdrDeserialize values *)
Definition cw_entity_id (e : bytes) : wr := w_raw (firstn 3 e) +++ w_u8 (nth 3 e 0).
Definition cr_entity_id (be : bool) : rdr bytes := k <~ r_bytes E_NED 3 ;; b <~ r_u8 E_NED ;; rret (k ++ [b]).
Definition cw_locator (l : locator) : wr := cdr_w_i32 (lc_kind l) +++ cdr_w_u32 (lc_port l) +++ w_raw (lc_addr l).
Definition cr_locator (be : bool) : rdr locator :=
  k <~ r_i32 E_NED be ;; p <~ r_u32 E_NED be ;; a <~ r_bytes E_NED 16 ;; rret (mkloc k p a).
Definition cw_bytes2 (b : bytes) : wr := w_raw b.
Definition cr_bytes2 (be : bool) : rdr bytes := r_bytes E_NED 2.
Definition cw_duration (d : Z * Z) : wr := cdr_w_i32 (fst d) +++ cdr_w_u32 (snd d).
Definition cr_duration (be : bool) : rdr (Z * Z) := s <~ r_i32 E_NED be ;; n <~ r_u32 E_NED be ;; rret (s, n).
Definition cr_i32 (be : bool) : rdr Z := r_i32 E_NED be.
Definition cr_u32 (be : bool) : rdr Z := r_u32 E_NED be.
Definition cr_bool (be : bool) : rdr bool := cdr_r_bool.

(* ------------------------------------------------------------------ well-formed values
   (what the Rust types guarantee: integer ranges, array lengths, enum variants, Strings are
   UTF-8, Vec/String lengths fit the u32 length prefix) *)
Definition wf_key (k : bytes) : Prop := blen k = 16.
Definition wf_string (s : bytes) : Prop := utf8_valid s = true /\ blen s + 1 <= u32_max.
Definition wf_octets (b : bytes) : Prop := blen b <= u32_max.
Definition wf_durkind (d : durkind) : Prop :=
  match d with
  | Finite s n => in_i32 s /\ in_u32 n /\ ~ (s = DURATION_INFINITE_SEC /\ n = DURATION_INFINITE_NSEC)
  | Infinite => True
  end.
Definition wf_length (l : length_t) : Prop := match l with Unlimited => True | Limited n => in_i32 n end.
Definition wf_hist (h : histkind) : Prop := match h with KeepLast d => in_u32 d | KeepAll => True end.
Definition wf_pres (p : presentation) : Prop := 0 <= pr_scope p <= 1.
Definition wf_liv (l : liveliness) : Prop := 0 <= lv_kind l <= 2 /\ wf_durkind (lv_lease l).
Definition wf_rel (r : reliability) : Prop := 1 <= rl_kind r <= 2 /\ wf_durkind (rl_mbt r).
Definition wf_res (r : reslimits) : Prop := wf_length (rs_ms r) /\ wf_length (rs_mi r) /\ wf_length (rs_mspi r).
Definition wf_tce (t : tce) : Prop := 0 <= tc_kind t <= 1.
Definition wf_loc (l : locator) : Prop := in_i32 (lc_kind l) /\ in_u32 (lc_port l) /\ blen (lc_addr l) = 16.
Definition wf_partition (l : list bytes) : Prop := Forall wf_string l /\ Z.of_nat (length l) <= u32_max.
Definition wf_datarep (l : list Z) : Prop := Forall (fun x => 0 <= x <= 65535) l /\ Z.of_nat (length l) <= u32_max.
(* Length::Limited(i32::MAX) is indistinguishable from Unlimited on the wire (finding C13-length-limited-max) *)
Definition is_limited_max (l : length_t) : bool :=
  match l with Limited n => n =? LENGTH_UNLIMITED | Unlimited => false end.
Definition res_limited_max (r : reslimits) : bool :=
  is_limited_max (rs_ms r) || is_limited_max (rs_mi r) || is_limited_max (rs_mspi r).

(* run-length notation for long constant byte strings *)
Definition rep (b n : Z) : bytes := repeat b (Z.to_nat n).

(* emission helpers *)
Definition always (w : wr) : list wr := [w].
Definition unless (skip : bool) (w : wr) : list wr := if skip then [] else [w].

Section WithTypeInformation.
(* TypeInformation (XCDR2, PID_TYPE_INFORMATION) is outside this model (property C09):
   an abstract value type with an abstract encoder and decoder. *)
Variable TI : Type.
Variable ti_w : TI -> wr.
Variable ti_dec : xdec TI.

Definition emit_ti (o : option TI) : list wr := match o with Some t => [ti_w t] | None => [] end.

(* ------------------------------------------------------------------ DiscoveredTopicData *)
Record topic : Type := mktopic {
  t_key : bytes; t_name : bytes; t_type_name : bytes; t_type_information : option TI;
  t_durability : Z; t_deadline : durkind; t_latency_budget : durkind; t_liveliness : liveliness;
  t_reliability : reliability; t_transport_priority : Z; t_lifespan : durkind; t_destination_order : Z;
  t_history : histkind; t_resource_limits : reslimits; t_ownership : Z; t_topic_data : bytes;
  t_representation : list Z }.

(* into_bytes, in source order *)
Definition topic_wtable : list (wrow topic) := [
  mkwrow PID_ENDPOINT_GUID (fun r => always (xw_key (t_key r)));
  mkwrow PID_TOPIC_NAME (fun r => always (xw_string (t_name r)));
  mkwrow PID_TYPE_NAME (fun r => always (xw_string (t_type_name r)));
  mkwrow PID_TYPE_INFORMATION (fun r => emit_ti (t_type_information r));
  mkwrow PID_DURABILITY (fun r => unless (t_durability r =? 0) (xw_i32 (t_durability r)));
  mkwrow PID_DEADLINE (fun r => unless (durkind_eqb (t_deadline r) Infinite) (xw_durkind (t_deadline r)));
  mkwrow PID_LATENCY_BUDGET (fun r => unless (durkind_eqb (t_latency_budget r) DUR_ZERO) (xw_durkind (t_latency_budget r)));
  mkwrow PID_LIVELINESS (fun r => unless (liv_eqb (t_liveliness r) LIVELINESS_DEFAULT) (xw_liv (t_liveliness r)));
  mkwrow PID_RELIABILITY (fun r => unless (rel_eqb (t_reliability r) RELIABILITY_DEFAULT_READER_AND_TOPICS) (xw_rel (t_reliability r)));
  mkwrow PID_TRANSPORT_PRIORITY (fun r => unless (t_transport_priority r =? 0) (xw_i32 (t_transport_priority r)));
  mkwrow PID_LIFESPAN (fun r => unless (durkind_eqb (t_lifespan r) Infinite) (xw_durkind (t_lifespan r)));
  mkwrow PID_DESTINATION_ORDER (fun r => unless (t_destination_order r =? 0) (xw_i32 (t_destination_order r)));
  mkwrow PID_HISTORY (fun r => unless (histkind_eqb (t_history r) HISTORY_DEFAULT) (xw_hist (t_history r)));
  mkwrow PID_RESOURCE_LIMITS (fun r => unless (res_eqb (t_resource_limits r) RESLIMITS_DEFAULT) (xw_res (t_resource_limits r)));
  mkwrow PID_OWNERSHIP (fun r => unless (t_ownership r =? 0) (xw_i32 (t_ownership r)));
  mkwrow PID_TOPIC_DATA (fun r => unless (bytes_eqb (t_topic_data r) []) (xw_octets (t_topic_data r)));
  mkwrow PID_DATA_REPRESENTATION (fun r => unless (bytes_eqb (t_representation r) []) (xw_datarep (t_representation r)))
].
(* from_bytes, in source order *)
Definition topic_rtable : list rrow := [
  mkrrow PID_ENDPOINT_GUID bytes (RSeek (k_optional_x xd_key KEY_DEFAULT));
  mkrrow PID_TOPIC_NAME bytes (RSeek (k_optional_x xd_string []));
  mkrrow PID_TYPE_NAME bytes (RSeek (k_optional_x xd_string []));
  mkrrow PID_TYPE_INFORMATION (option TI) (RSeek (k_optional_x2 ti_dec));
  mkrrow PID_DURABILITY Z (RSeek (k_optional_x (xd_enum 0 3) 0));
  mkrrow PID_DEADLINE durkind (RSeek (k_optional_x xd_durkind Infinite));
  mkrrow PID_LATENCY_BUDGET durkind (RSeek (k_optional_x xd_durkind DUR_ZERO));
  mkrrow PID_LIVELINESS liveliness (RSeek (k_optional_x xd_liv LIVELINESS_DEFAULT));
  mkrrow PID_RELIABILITY reliability (RSeek (k_optional_x xd_rel RELIABILITY_DEFAULT_READER_AND_TOPICS));
  mkrrow PID_TRANSPORT_PRIORITY Z (RSeek (k_optional_x xd_i32 0));
  mkrrow PID_LIFESPAN durkind (RSeek (k_optional_x xd_durkind Infinite));
  mkrrow PID_DESTINATION_ORDER Z (RSeek (k_optional_x (xd_enum 0 1) 0));
  mkrrow PID_HISTORY histkind (RSeek (k_optional_x xd_hist HISTORY_DEFAULT));
  mkrrow PID_RESOURCE_LIMITS reslimits (RSeek (k_optional_x xd_res RESLIMITS_DEFAULT));
  mkrrow PID_OWNERSHIP Z (RSeek (k_optional_x (xd_enum 0 1) 0));
  mkrrow PID_TOPIC_DATA bytes (RSeek (k_optional_x xd_octets []));
  mkrrow PID_DATA_REPRESENTATION (list Z) (RSeek (k_optional_x xd_datarep []))
].
Definition topic_build (t : tuple_of topic_rtable) : topic :=
  let '(a1, (a2, (a3, (a4, (a5, (a6, (a7, (a8, (a9, (a10, (a11, (a12, (a13, (a14, (a15, (a16, (a17, _))))))))))))))))) := t in
  mktopic a1 a2 a3 a4 a5 a6 a7 a8 a9 a10 a11 a12 a13 a14 a15 a16 a17.
Definition topic_unbuild (r : topic) : tuple_of topic_rtable :=
  (t_key r, (t_name r, (t_type_name r, (t_type_information r, (t_durability r, (t_deadline r,
  (t_latency_budget r, (t_liveliness r, (t_reliability r, (t_transport_priority r, (t_lifespan r,
  (t_destination_order r, (t_history r, (t_resource_limits r, (t_ownership r, (t_topic_data r,
  (t_representation r, tt))))))))))))))))).
Definition wf_topic (r : topic) : Prop :=
  wf_key (t_key r) /\ wf_string (t_name r) /\ wf_string (t_type_name r)
  /\ 0 <= t_durability r <= 3 /\ wf_durkind (t_deadline r) /\ wf_durkind (t_latency_budget r)
  /\ wf_liv (t_liveliness r) /\ wf_rel (t_reliability r) /\ in_i32 (t_transport_priority r)
  /\ wf_durkind (t_lifespan r) /\ 0 <= t_destination_order r <= 1 /\ wf_hist (t_history r)
  /\ wf_res (t_resource_limits r) /\ 0 <= t_ownership r <= 1 /\ wf_octets (t_topic_data r)
  /\ wf_datarep (t_representation r).
Definition topic_into_bytes (r : topic) : bytes := tbl_into_bytes topic_wtable r.
Definition topic_from_bytes (d : bytes) : res topic := tbl_from_bytes topic_rtable topic_build d.

(* ------------------------------------------------------------------ DiscoveredWriterData *)
Record dwriter : Type := mkdwriter {
  w_key : bytes; w_participant_key : bytes; w_topic_name : bytes; w_type_name : bytes;
  w_type_information : option TI;
  w_durability : Z; w_deadline : durkind; w_latency_budget : durkind; w_liveliness : liveliness;
  w_reliability : reliability; w_lifespan : durkind; w_user_data : bytes; w_ownership : Z;
  w_ownership_strength : Z; w_destination_order : Z; w_presentation : presentation;
  w_partition : list bytes; w_topic_data : bytes; w_group_data : bytes; w_representation : list Z;
  (* WriterProxy *)
  w_remote_writer_guid : bytes; w_remote_group_entity_id : bytes;
  w_unicast_locator_list : list locator; w_multicast_locator_list : list locator }.

Definition dwriter_wtable : list (wrow dwriter) := [
  mkwrow PID_ENDPOINT_GUID (fun r => always (xw_key (w_key r)));
  mkwrow PID_PARTICIPANT_GUID (fun r => always (xw_key (w_participant_key r)));
  mkwrow PID_TOPIC_NAME (fun r => always (xw_string (w_topic_name r)));
  mkwrow PID_TYPE_NAME (fun r => always (xw_string (w_type_name r)));
  mkwrow PID_TYPE_INFORMATION (fun r => emit_ti (w_type_information r));
  mkwrow PID_DURABILITY (fun r => unless (w_durability r =? 0) (xw_i32 (w_durability r)));
  mkwrow PID_DEADLINE (fun r => unless (durkind_eqb (w_deadline r) Infinite) (xw_durkind (w_deadline r)));
  mkwrow PID_LATENCY_BUDGET (fun r => unless (durkind_eqb (w_latency_budget r) DUR_ZERO) (xw_durkind (w_latency_budget r)));
  mkwrow PID_LIVELINESS (fun r => unless (liv_eqb (w_liveliness r) LIVELINESS_DEFAULT) (xw_liv (w_liveliness r)));
  mkwrow PID_RELIABILITY (fun r => unless (rel_eqb (w_reliability r) RELIABILITY_DEFAULT_WRITER) (xw_rel (w_reliability r)));
  mkwrow PID_LIFESPAN (fun r => unless (durkind_eqb (w_lifespan r) Infinite) (xw_durkind (w_lifespan r)));
  mkwrow PID_USER_DATA (fun r => unless (bytes_eqb (w_user_data r) []) (xw_octets (w_user_data r)));
  mkwrow PID_OWNERSHIP (fun r => unless (w_ownership r =? 0) (xw_i32 (w_ownership r)));
  mkwrow PID_OWNERSHIP_STRENGTH (fun r => unless (w_ownership_strength r =? 0) (xw_i32 (w_ownership_strength r)));
  mkwrow PID_DESTINATION_ORDER (fun r => unless (w_destination_order r =? 0) (xw_i32 (w_destination_order r)));
  mkwrow PID_PRESENTATION (fun r => unless (pres_eqb (w_presentation r) PRESENTATION_DEFAULT) (xw_pres (w_presentation r)));
  mkwrow PID_PARTITION (fun r => unless (list_eqb bytes_eqb (w_partition r) []) (xw_partition (w_partition r)));
  mkwrow PID_TOPIC_DATA (fun r => unless (bytes_eqb (w_topic_data r) []) (xw_octets (w_topic_data r)));
  mkwrow PID_GROUP_DATA (fun r => unless (bytes_eqb (w_group_data r) []) (xw_octets (w_group_data r)));
  mkwrow PID_DATA_REPRESENTATION (fun r => unless (bytes_eqb (w_representation r) []) (xw_datarep (w_representation r)));
  mkwrow PID_GROUP_ENTITYID (fun r => unless (bytes_eqb (w_remote_group_entity_id r) ENTITYID_UNKNOWN) (cw_entity_id (w_remote_group_entity_id r)));
  mkwrow PID_UNICAST_LOCATOR (fun r => map cw_locator (w_unicast_locator_list r));
  mkwrow PID_MULTICAST_LOCATOR (fun r => map cw_locator (w_multicast_locator_list r))
].
Definition dwriter_rtable : list rrow := [
  mkrrow PID_ENDPOINT_GUID bytes (RSeek (k_optional_x xd_key KEY_DEFAULT));
  mkrrow PID_PARTICIPANT_GUID bytes (RSeek (k_optional_x xd_key KEY_DEFAULT));
  mkrrow PID_TOPIC_NAME bytes (RSeek (k_optional_x xd_string []));
  mkrrow PID_TYPE_NAME bytes (RSeek (k_optional_x xd_string []));
  mkrrow PID_TYPE_INFORMATION (option TI) (RSeek (k_unwrap_or_none (k_optional_x2 ti_dec)));
  mkrrow PID_DURABILITY Z (RSeek (k_optional_x (xd_enum 0 3) 0));
  mkrrow PID_DEADLINE durkind (RSeek (k_optional_x xd_durkind Infinite));
  mkrrow PID_LATENCY_BUDGET durkind (RSeek (k_optional_x xd_durkind DUR_ZERO));
  mkrrow PID_LIVELINESS liveliness (RSeek (k_optional_x xd_liv LIVELINESS_DEFAULT));
  mkrrow PID_RELIABILITY reliability (RSeek (k_optional_x xd_rel RELIABILITY_DEFAULT_WRITER));
  mkrrow PID_LIFESPAN durkind (RSeek (k_optional_x xd_durkind Infinite));
  mkrrow PID_USER_DATA bytes (RSeek (k_optional_x xd_octets []));
  mkrrow PID_OWNERSHIP Z (RSeek (k_optional_x (xd_enum 0 1) 0));
  mkrrow PID_OWNERSHIP_STRENGTH Z (RSeek (k_optional_x xd_i32 0));
  mkrrow PID_DESTINATION_ORDER Z (RSeek (k_optional_x (xd_enum 0 1) 0));
  mkrrow PID_PRESENTATION presentation (RSeek (k_optional_x xd_pres PRESENTATION_DEFAULT));
  mkrrow PID_PARTITION (list bytes) (RSeek (k_optional_x xd_partition []));
  mkrrow PID_TOPIC_DATA bytes (RSeek (k_optional_x xd_octets []));
  mkrrow PID_GROUP_DATA bytes (RSeek (k_optional_x xd_octets []));
  mkrrow PID_DATA_REPRESENTATION (list Z) (RSeek (k_optional_x xd_datarep []));
  mkrrow PID_GROUP_ENTITYID bytes (RSeek (k_optional cr_entity_id ENTITYID_UNKNOWN));
  mkrrow PID_UNICAST_LOCATOR (list locator) (RList locator cr_locator (fun l => l));
  mkrrow PID_MULTICAST_LOCATOR (list locator) (RList locator cr_locator (fun l => l))
].
(* remote_writer_guid: Guid::from(dds_publication_data.key.value) *)
Definition dwriter_build (t : tuple_of dwriter_rtable) : dwriter :=
  let '(a1, (a2, (a3, (a4, (a5, (a6, (a7, (a8, (a9, (a10, (a11, (a12, (a13, (a14, (a15, (a16, (a17,
       (a18, (a19, (a20, (a21, (a22, (a23, _))))))))))))))))))))))) := t in
  mkdwriter a1 a2 a3 a4 a5 a6 a7 a8 a9 a10 a11 a12 a13 a14 a15 a16 a17 a18 a19 a20 a1 a21 a22 a23.
Definition dwriter_unbuild (r : dwriter) : tuple_of dwriter_rtable :=
  (w_key r, (w_participant_key r, (w_topic_name r, (w_type_name r, (w_type_information r,
  (w_durability r, (w_deadline r, (w_latency_budget r, (w_liveliness r, (w_reliability r,
  (w_lifespan r, (w_user_data r, (w_ownership r, (w_ownership_strength r, (w_destination_order r,
  (w_presentation r, (w_partition r, (w_topic_data r, (w_group_data r, (w_representation r,
  (w_remote_group_entity_id r, (w_unicast_locator_list r, (w_multicast_locator_list r, tt))))))))))))))))))))))).
Definition wf_dwriter (r : dwriter) : Prop :=
  wf_key (w_key r) /\ wf_key (w_participant_key r) /\ wf_string (w_topic_name r) /\ wf_string (w_type_name r)
  /\ 0 <= w_durability r <= 3 /\ wf_durkind (w_deadline r) /\ wf_durkind (w_latency_budget r)
  /\ wf_liv (w_liveliness r) /\ wf_rel (w_reliability r) /\ wf_durkind (w_lifespan r)
  /\ wf_octets (w_user_data r) /\ 0 <= w_ownership r <= 1 /\ in_i32 (w_ownership_strength r)
  /\ 0 <= w_destination_order r <= 1 /\ wf_pres (w_presentation r) /\ wf_partition (w_partition r)
  /\ wf_octets (w_topic_data r) /\ wf_octets (w_group_data r) /\ wf_datarep (w_representation r)
  /\ blen (w_remote_group_entity_id r) = 4
  /\ Forall wf_loc (w_unicast_locator_list r) /\ Forall wf_loc (w_multicast_locator_list r)
  (* the redundant copy of the key: WriterProxy.remote_writer_guid is not transmitted, the
     reader rebuilds it from the key *)
  /\ w_remote_writer_guid r = w_key r.
Definition dwriter_into_bytes (r : dwriter) : bytes := tbl_into_bytes dwriter_wtable r.
Definition dwriter_from_bytes (d : bytes) : res dwriter := tbl_from_bytes dwriter_rtable dwriter_build d.

(* ------------------------------------------------------------------ DiscoveredReaderData *)
Record dreader : Type := mkdreader {
  d_key : bytes; d_participant_key : bytes; d_topic_name : bytes; d_type_name : bytes;
  d_type_information : option TI;
  d_durability : Z; d_deadline : durkind; d_latency_budget : durkind; d_liveliness : liveliness;
  d_reliability : reliability; d_ownership : Z; d_destination_order : Z; d_user_data : bytes;
  d_time_based_filter : durkind; d_presentation : presentation; d_partition : list bytes;
  d_topic_data : bytes; d_group_data : bytes; d_representation : list Z; d_type_consistency : tce;
  (* ReaderProxy *)
  d_remote_reader_guid : bytes; d_remote_group_entity_id : bytes;
  d_unicast_locator_list : list locator; d_multicast_locator_list : list locator;
  d_expects_inline_qos : bool }.

Definition dreader_wtable : list (wrow dreader) := [
  mkwrow PID_ENDPOINT_GUID (fun r => always (xw_key (d_key r)));
  mkwrow PID_PARTICIPANT_GUID (fun r => always (xw_key (d_participant_key r)));
  mkwrow PID_TOPIC_NAME (fun r => always (xw_string (d_topic_name r)));
  mkwrow PID_TYPE_NAME (fun r => always (xw_string (d_type_name r)));
  mkwrow PID_TYPE_INFORMATION (fun r => emit_ti (d_type_information r));
  mkwrow PID_DURABILITY (fun r => unless (d_durability r =? 0) (xw_i32 (d_durability r)));
  mkwrow PID_DEADLINE (fun r => unless (durkind_eqb (d_deadline r) Infinite) (xw_durkind (d_deadline r)));
  mkwrow PID_LATENCY_BUDGET (fun r => unless (durkind_eqb (d_latency_budget r) DUR_ZERO) (xw_durkind (d_latency_budget r)));
  mkwrow PID_LIVELINESS (fun r => unless (liv_eqb (d_liveliness r) LIVELINESS_DEFAULT) (xw_liv (d_liveliness r)));
  mkwrow PID_RELIABILITY (fun r => unless (rel_eqb (d_reliability r) RELIABILITY_DEFAULT_READER_AND_TOPICS) (xw_rel (d_reliability r)));
  mkwrow PID_OWNERSHIP (fun r => unless (d_ownership r =? 0) (xw_i32 (d_ownership r)));
  mkwrow PID_DESTINATION_ORDER (fun r => unless (d_destination_order r =? 0) (xw_i32 (d_destination_order r)));
  mkwrow PID_USER_DATA (fun r => unless (bytes_eqb (d_user_data r) []) (xw_octets (d_user_data r)));
  mkwrow PID_TIME_BASED_FILTER (fun r => unless (durkind_eqb (d_time_based_filter r) DUR_ZERO) (xw_durkind (d_time_based_filter r)));
  mkwrow PID_PRESENTATION (fun r => unless (pres_eqb (d_presentation r) PRESENTATION_DEFAULT) (xw_pres (d_presentation r)));
  mkwrow PID_PARTITION (fun r => unless (list_eqb bytes_eqb (d_partition r) []) (xw_partition (d_partition r)));
  mkwrow PID_TOPIC_DATA (fun r => unless (bytes_eqb (d_topic_data r) []) (xw_octets (d_topic_data r)));
  mkwrow PID_GROUP_DATA (fun r => unless (bytes_eqb (d_group_data r) []) (xw_octets (d_group_data r)));
  mkwrow PID_DATA_REPRESENTATION (fun r => unless (bytes_eqb (d_representation r) []) (xw_datarep (d_representation r)));
  mkwrow PID_TYPE_CONSISTENCY_ENFORCEMENT (fun r => unless (tce_eqb (d_type_consistency r) TCE_DEFAULT) (xw_tce (d_type_consistency r)));
  mkwrow PID_GROUP_ENTITYID (fun r => unless (bytes_eqb (d_remote_group_entity_id r) ENTITYID_UNKNOWN) (cw_entity_id (d_remote_group_entity_id r)));
  mkwrow PID_UNICAST_LOCATOR (fun r => map cw_locator (d_unicast_locator_list r));
  mkwrow PID_MULTICAST_LOCATOR (fun r => map cw_locator (d_multicast_locator_list r));
  mkwrow PID_EXPECTS_INLINE_QOS (fun r => unless (Bool.eqb (d_expects_inline_qos r) false) (w_bool (d_expects_inline_qos r)))
].
Definition dreader_rtable : list rrow := [
  mkrrow PID_ENDPOINT_GUID bytes (RSeek (k_optional_x xd_key KEY_DEFAULT));
  mkrrow PID_PARTICIPANT_GUID bytes (RSeek (k_optional_x xd_key KEY_DEFAULT));
  mkrrow PID_TOPIC_NAME bytes (RSeek (k_optional_x xd_string []));
  mkrrow PID_TYPE_NAME bytes (RSeek (k_optional_x xd_string []));
  mkrrow PID_TYPE_INFORMATION (option TI) (RSeek (k_unwrap_or_none (k_optional_x2 ti_dec)));
  mkrrow PID_DURABILITY Z (RSeek (k_optional_x (xd_enum 0 3) 0));
  mkrrow PID_DEADLINE durkind (RSeek (k_optional_x xd_durkind Infinite));
  mkrrow PID_LATENCY_BUDGET durkind (RSeek (k_optional_x xd_durkind DUR_ZERO));
  mkrrow PID_LIVELINESS liveliness (RSeek (k_optional_x xd_liv LIVELINESS_DEFAULT));
  mkrrow PID_RELIABILITY reliability (RSeek (k_optional_x xd_rel RELIABILITY_DEFAULT_READER_AND_TOPICS));
  mkrrow PID_OWNERSHIP Z (RSeek (k_optional_x (xd_enum 0 1) 0));
  mkrrow PID_DESTINATION_ORDER Z (RSeek (k_optional_x (xd_enum 0 1) 0));
  mkrrow PID_USER_DATA bytes (RSeek (k_optional_x xd_octets []));
  mkrrow PID_TIME_BASED_FILTER durkind (RSeek (k_optional_x xd_durkind DUR_ZERO));
  mkrrow PID_PRESENTATION presentation (RSeek (k_optional_x xd_pres PRESENTATION_DEFAULT));
  mkrrow PID_PARTITION (list bytes) (RSeek (k_optional_x xd_partition []));
  mkrrow PID_TOPIC_DATA bytes (RSeek (k_optional_x xd_octets []));
  mkrrow PID_GROUP_DATA bytes (RSeek (k_optional_x xd_octets []));
  mkrrow PID_DATA_REPRESENTATION (list Z) (RSeek (k_optional_x xd_datarep []));
  mkrrow PID_TYPE_CONSISTENCY_ENFORCEMENT tce (RSeek (k_optional_x xd_tce TCE_DEFAULT));
  mkrrow PID_GROUP_ENTITYID bytes (RSeek (k_optional cr_entity_id ENTITYID_UNKNOWN));
  mkrrow PID_UNICAST_LOCATOR (list locator) (RList locator cr_locator (fun l => l));
  mkrrow PID_MULTICAST_LOCATOR (list locator) (RList locator cr_locator (fun l => l));
  mkrrow PID_EXPECTS_INLINE_QOS bool (RSeek (k_optional cr_bool false))
].
Definition dreader_build (t : tuple_of dreader_rtable) : dreader :=
  let '(a1, (a2, (a3, (a4, (a5, (a6, (a7, (a8, (a9, (a10, (a11, (a12, (a13, (a14, (a15, (a16, (a17,
       (a18, (a19, (a20, (a21, (a22, (a23, (a24, _)))))))))))))))))))))))) := t in
  mkdreader a1 a2 a3 a4 a5 a6 a7 a8 a9 a10 a11 a12 a13 a14 a15 a16 a17 a18 a19 a20 a1 a21 a22 a23 a24.
Definition dreader_unbuild (r : dreader) : tuple_of dreader_rtable :=
  (d_key r, (d_participant_key r, (d_topic_name r, (d_type_name r, (d_type_information r,
  (d_durability r, (d_deadline r, (d_latency_budget r, (d_liveliness r, (d_reliability r,
  (d_ownership r, (d_destination_order r, (d_user_data r, (d_time_based_filter r, (d_presentation r,
  (d_partition r, (d_topic_data r, (d_group_data r, (d_representation r, (d_type_consistency r,
  (d_remote_group_entity_id r, (d_unicast_locator_list r, (d_multicast_locator_list r,
  (d_expects_inline_qos r, tt)))))))))))))))))))))))).
Definition wf_dreader (r : dreader) : Prop :=
  wf_key (d_key r) /\ wf_key (d_participant_key r) /\ wf_string (d_topic_name r) /\ wf_string (d_type_name r)
  /\ 0 <= d_durability r <= 3 /\ wf_durkind (d_deadline r) /\ wf_durkind (d_latency_budget r)
  /\ wf_liv (d_liveliness r) /\ wf_rel (d_reliability r) /\ 0 <= d_ownership r <= 1
  /\ 0 <= d_destination_order r <= 1 /\ wf_octets (d_user_data r) /\ wf_durkind (d_time_based_filter r)
  /\ wf_pres (d_presentation r) /\ wf_partition (d_partition r)
  /\ wf_octets (d_topic_data r) /\ wf_octets (d_group_data r) /\ wf_datarep (d_representation r)
  /\ wf_tce (d_type_consistency r) /\ blen (d_remote_group_entity_id r) = 4
  /\ Forall wf_loc (d_unicast_locator_list r) /\ Forall wf_loc (d_multicast_locator_list r)
  /\ d_remote_reader_guid r = d_key r.
Definition dreader_into_bytes (r : dreader) : bytes := tbl_into_bytes dreader_wtable r.
Definition dreader_from_bytes (d : bytes) : res dreader := tbl_from_bytes dreader_rtable dreader_build d.

End WithTypeInformation.

(* ------------------------------------------------------------------ SpdpDiscoveredParticipantData *)
Record participant : Type := mkparticipant {
  p_key : bytes; p_user_data : bytes;
  (* ParticipantProxy *)
  p_domain_id : option Z; p_domain_tag : bytes; p_protocol_version : bytes; p_guid_prefix : bytes;
  p_vendor_id : bytes; p_expects_inline_qos : bool;
  p_metatraffic_unicast : list locator; p_metatraffic_multicast : list locator;
  p_default_unicast : list locator; p_default_multicast : list locator;
  p_available_builtin_endpoints : Z; p_manual_liveliness_count : Z; p_builtin_endpoint_qos : Z;
  p_lease_duration : Z * Z;
  p_discovered_participant_list : list bytes }.

Definition pair_eqb (a b : Z * Z) : bool := (fst a =? fst b) && (snd a =? snd b).
Definition emit_opt {A} (w : A -> wr) (o : option A) : list wr := match o with Some a => [w a] | None => [] end.

Definition participant_wtable : list (wrow participant) := [
  mkwrow PID_USER_DATA (fun r => unless (bytes_eqb (p_user_data r) []) (xw_octets (p_user_data r)));
  mkwrow PID_PARTICIPANT_GUID (fun r => always (xw_key (p_key r)));
  mkwrow PID_DOMAIN_ID (fun r => emit_opt cdr_w_i32 (p_domain_id r));
  mkwrow PID_DOMAIN_TAG (fun r => unless (bytes_eqb (p_domain_tag r) []) (cdr_w_string (p_domain_tag r)));
  mkwrow PID_PROTOCOL_VERSION (fun r => always (cw_bytes2 (p_protocol_version r)));
  mkwrow PID_VENDORID (fun r => always (cw_bytes2 (p_vendor_id r)));
  mkwrow PID_EXPECTS_INLINE_QOS (fun r => unless (negb (p_expects_inline_qos r)) (w_bool (p_expects_inline_qos r)));
  mkwrow PID_METATRAFFIC_UNICAST_LOCATOR (fun r => map cw_locator (p_metatraffic_unicast r));
  mkwrow PID_METATRAFFIC_MULTICAST_LOCATOR (fun r => map cw_locator (p_metatraffic_multicast r));
  mkwrow PID_DEFAULT_UNICAST_LOCATOR (fun r => map cw_locator (p_default_unicast r));
  mkwrow PID_DEFAULT_MULTICAST_LOCATOR (fun r => map cw_locator (p_default_multicast r));
  mkwrow PID_BUILTIN_ENDPOINT_SET (fun r => always (cdr_w_u32 (p_available_builtin_endpoints r)));
  mkwrow PID_PARTICIPANT_MANUAL_LIVELINESS_COUNT (fun r => unless (p_manual_liveliness_count r =? 0) (cdr_w_i32 (p_manual_liveliness_count r)));
  mkwrow PID_BUILTIN_ENDPOINT_QOS (fun r => unless (p_builtin_endpoint_qos r =? 0) (cdr_w_u32 (p_builtin_endpoint_qos r)));
  mkwrow PID_PARTICIPANT_LEASE_DURATION (fun r => always (cw_duration (p_lease_duration r)))
].
Definition participant_rtable : list rrow := [
  mkrrow PID_PARTICIPANT_GUID bytes (RSeek (k_non_optional_x xd_key));
  mkrrow PID_USER_DATA bytes (RSeek (k_optional_x xd_octets []));
  mkrrow PID_DOMAIN_ID (option Z) (RSeek (k_ok (k_non_optional cr_i32)));
  mkrrow PID_DOMAIN_TAG bytes (RSeek (k_optional cdr_r_string []));
  mkrrow PID_PROTOCOL_VERSION bytes (RSeek (k_non_optional cr_bytes2));
  mkrrow PID_VENDORID bytes (RSeek (k_non_optional cr_bytes2));
  mkrrow PID_EXPECTS_INLINE_QOS bool (RSeek (k_optional cr_bool false));
  mkrrow PID_METATRAFFIC_UNICAST_LOCATOR (list locator) (RList locator cr_locator (fun l => l));
  mkrrow PID_METATRAFFIC_MULTICAST_LOCATOR (list locator) (RList locator cr_locator (fun l => l));
  mkrrow PID_DEFAULT_UNICAST_LOCATOR (list locator) (RList locator cr_locator (fun l => l));
  mkrrow PID_DEFAULT_MULTICAST_LOCATOR (list locator) (RList locator cr_locator (fun l => l));
  mkrrow PID_BUILTIN_ENDPOINT_SET Z (RSeek (k_non_optional cr_u32));
  mkrrow PID_PARTICIPANT_MANUAL_LIVELINESS_COUNT Z (RSeek (k_optional cr_i32 0));
  mkrrow PID_BUILTIN_ENDPOINT_QOS Z (RSeek (k_optional cr_u32 0));
  mkrrow PID_PARTICIPANT_LEASE_DURATION (Z * Z) (RSeek (k_optional cr_duration LEASE_DEFAULT))
].
(* guid_prefix: Guid::from(key).prefix(); discovered_participant_list: vec![] *)
Definition participant_build (t : tuple_of participant_rtable) : participant :=
  let '(a1, (a2, (a3, (a4, (a5, (a6, (a7, (a8, (a9, (a10, (a11, (a12, (a13, (a14, (a15, _))))))))))))))) := t in
  mkparticipant a1 a2 a3 a4 a5 (firstn 12 a1) a6 a7 a8 a9 a10 a11 a12 a13 a14 a15 [].
Definition participant_unbuild (r : participant) : tuple_of participant_rtable :=
  (p_key r, (p_user_data r, (p_domain_id r, (p_domain_tag r, (p_protocol_version r, (p_vendor_id r,
  (p_expects_inline_qos r, (p_metatraffic_unicast r, (p_metatraffic_multicast r, (p_default_unicast r,
  (p_default_multicast r, (p_available_builtin_endpoints r, (p_manual_liveliness_count r,
  (p_builtin_endpoint_qos r, (p_lease_duration r, tt))))))))))))))).
Definition wf_participant (r : participant) : Prop :=
  wf_key (p_key r) /\ wf_octets (p_user_data r)
  /\ match p_domain_id r with Some i => in_i32 i | None => True end
  /\ wf_string (p_domain_tag r) /\ blen (p_protocol_version r) = 2 /\ blen (p_vendor_id r) = 2
  /\ Forall wf_loc (p_metatraffic_unicast r) /\ Forall wf_loc (p_metatraffic_multicast r)
  /\ Forall wf_loc (p_default_unicast r) /\ Forall wf_loc (p_default_multicast r)
  /\ in_u32 (p_available_builtin_endpoints r) /\ in_i32 (p_manual_liveliness_count r)
  /\ in_u32 (p_builtin_endpoint_qos r)
  /\ in_i32 (fst (p_lease_duration r)) /\ in_u32 (snd (p_lease_duration r))
  (* not transmitted: guid_prefix is rebuilt from the key, discovered_participant_list is dropped *)
  /\ p_guid_prefix r = firstn 12 (p_key r) /\ p_discovered_participant_list r = [].
Definition participant_into_bytes (r : participant) : bytes := tbl_into_bytes participant_wtable r.
Definition participant_from_bytes (d : bytes) : res participant :=
  tbl_from_bytes participant_rtable participant_build d.
