(* The comparisons used by the C13 correspondence / oracle are sound: value_eqb a b = true
   only for equal values. *)
From DustDDS Require Import Base.Machine Disc.PlModel Disc.DiscModel Disc.DiscCorr Disc.PlProofs Disc.DiscProofs.
From Coq Require Import Lia ZArith List Bool.
Import ListNotations.
Open Scope Z_scope.

Lemma list_eqb_eq : forall {A} (eqb : A -> A -> bool), (forall x y, eqb x y = true -> x = y) ->
  forall a b, list_eqb eqb a b = true -> a = b.
Proof.
  intros A eqb H. induction a as [|x a IH]; destruct b as [|y b]; cbn [list_eqb]; intros E; try discriminate; [reflexivity|].
  apply andb_prop in E. destruct E as [E1 E2]. rewrite (H x y E1), (IH b E2). reflexivity.
Qed.
Lemma option_eqb_eq : forall {A} (eqb : A -> A -> bool), (forall x y, eqb x y = true -> x = y) ->
  forall a b, option_eqb eqb a b = true -> a = b.
Proof. intros A eqb H [x|] [y|]; cbn; intros E; try discriminate; [rewrite (H x y E)|]; reflexivity. Qed.
Lemma loc_eqb_eq : forall a b, loc_eqb a b = true -> a = b.
Proof.
  intros [k p a] [k' p' a']. unfold loc_eqb. cbn. intros E.
  repeat (apply andb_prop in E; destruct E as [E ?]).
  apply Z.eqb_eq in E, H0. apply bytes_eqb_eq in H. subst. reflexivity.
Qed.
Lemma pair_eqb_eq : forall a b, pair_eqb a b = true -> a = b.
Proof.
  intros [a1 a2] [b1 b2]. unfold pair_eqb. cbn. intros E. apply andb_prop in E. destruct E as [E1 E2].
  apply Z.eqb_eq in E1, E2. subst. reflexivity.
Qed.
Lemma unit_eqb_eq : forall x y : unit, ti_eqb0 x y = true -> x = y.
Proof. intros [] [] _. reflexivity. Qed.
Lemma bool_eqb_eq : forall a b, Bool.eqb a b = true -> a = b.
Proof. intros. apply Bool.eqb_prop. assumption. Qed.

Ltac split_and E := repeat (apply andb_prop in E; let H := fresh "Q" in destruct E as [E H]).
Ltac use_eqs :=
  repeat match goal with
  | H : bytes_eqb _ _ = true |- _ => apply bytes_eqb_eq in H
  | H : (_ =? _) = true |- _ => apply Z.eqb_eq in H
  | H : durkind_eqb _ _ = true |- _ => apply durkind_eqb_eq in H
  | H : liv_eqb _ _ = true |- _ => apply liv_eqb_eq in H
  | H : rel_eqb _ _ = true |- _ => apply rel_eqb_eq in H
  | H : histkind_eqb _ _ = true |- _ => apply histkind_eqb_eq in H
  | H : res_eqb _ _ = true |- _ => apply res_eqb_eq in H
  | H : pres_eqb _ _ = true |- _ => apply pres_eqb_eq in H
  | H : tce_eqb _ _ = true |- _ => apply tce_eqb_eq in H
  | H : pair_eqb _ _ = true |- _ => apply pair_eqb_eq in H
  | H : Bool.eqb _ _ = true |- _ => apply bool_eqb_eq in H
  | H : option_eqb ti_eqb0 _ _ = true |- _ => apply (option_eqb_eq ti_eqb0 unit_eqb_eq) in H
  | H : option_eqb Z.eqb _ _ = true |- _ => apply (option_eqb_eq Z.eqb (fun x y E => proj1 (Z.eqb_eq x y) E)) in H
  | H : list_eqb bytes_eqb _ _ = true |- _ => apply (list_eqb_eq bytes_eqb bytes_eqb_eq) in H
  | H : locs_eqb _ _ = true |- _ => apply (list_eqb_eq loc_eqb loc_eqb_eq) in H
  end.

Lemma topic_eqb_eq : forall a b, topic_eqb a b = true -> a = b.
Proof. intros [] []. unfold topic_eqb. cbn. intros E. split_and E. use_eqs. subst. reflexivity. Qed.
Lemma dwriter_eqb_eq : forall a b, dwriter_eqb a b = true -> a = b.
Proof. intros [] []. unfold dwriter_eqb. cbn. intros E. split_and E. use_eqs. subst. reflexivity. Qed.
Lemma dreader_eqb_eq : forall a b, dreader_eqb a b = true -> a = b.
Proof. intros [] []. unfold dreader_eqb. cbn. intros E. split_and E. use_eqs. subst. reflexivity. Qed.
Lemma participant_eqb_eq : forall a b, participant_eqb a b = true -> a = b.
Proof. intros [] []. unfold participant_eqb. cbn. intros E. split_and E. use_eqs. subst. reflexivity. Qed.
Theorem value_eqb_eq : forall a b, value_eqb a b = true -> a = b.
Proof.
  intros [x|x|x|x] [y|y|y|y]; cbn [value_eqb]; intros E; try discriminate; f_equal.
  - apply topic_eqb_eq; assumption.
  - apply dwriter_eqb_eq; assumption.
  - apply dreader_eqb_eq; assumption.
  - apply participant_eqb_eq; assumption.
Qed.
