(* More proofs about the discovery data model: totality of the decoders (no panic on any
   byte list), unknown parameters, witnesses of the known findings, non-vacuity examples. *)
From DustDDS Require Import Base.Machine Disc.PlModel Disc.DiscModel Disc.PlProofs Disc.DiscProofs.
From Coq Require Import Lia ZArith List Bool.
Import ListNotations.
Open Scope Z_scope.

(* ------------------------------------------------------------------ totality of the decoders *)
Lemma total_app_step : forall {A T} (m : rdr A) (k : A -> rstate -> res (option T)) s,
  rdr_total m -> (forall a s', res_total (k a s')) -> res_total (app_step m k s).
Proof.
  intros A T m k s Hm Hk p. unfold app_step. destruct (m s) as [[a s']|e|q] eqn:E.
  - apply Hk. - destruct (e =? X_NED); discriminate. - exfalso. exact (Hm s q E).
Qed.
Lemma total_fin_step : forall {A T} (m : rdr A) (k : A -> rstate -> res (option T)) s,
  rdr_total m -> (forall a s', res_total (k a s')) -> res_total (fin_step m k s).
Proof.
  intros A T m k s Hm Hk p. unfold fin_step. destruct (m s) as [[a s']|e|q] eqn:E.
  - apply Hk. - discriminate. - exfalso. exact (Hm s q E).
Qed.
Lemma total_done : forall {T} (t : option T) s, res_total (done t s).
Proof. intros T t s p. discriminate. Qed.
Lemma total_r_duration : forall be, rdr_total (r_duration be).
Proof.
  intros. unfold r_duration. apply total_bind; [apply total_i32|]. intros.
  apply total_bind; [apply total_u32|]. intros. apply total_ret.
Qed.
#[local] Hint Resolve total_ret total_bytes total_u8 total_u16 total_u32 total_i16 total_i32 total_xbool total_cbool
  total_xstring total_r_duration total_done : tot.
Ltac tot_steps :=
  repeat first [ apply total_app_step; [auto with tot|intros ? ?]
               | apply total_fin_step; [auto with tot|intros ? ?]
               | apply total_done ].

Lemma xd_key_total : xdec_total xd_key. Proof. intros be v. unfold xd_key. tot_steps. Qed.
Lemma xd_string_total : xdec_total xd_string. Proof. intros be v. unfold xd_string. tot_steps. Qed.
Lemma xd_octets_total : xdec_total xd_octets.
Proof. intros be v. unfold xd_octets. apply total_app_step; [|intros; apply total_done]. apply total_bind; auto with tot. Qed.
Lemma xd_i32_total : xdec_total xd_i32. Proof. intros be v. unfold xd_i32. tot_steps. Qed.
Lemma xd_durkind_total : xdec_total xd_durkind. Proof. intros be v. unfold xd_durkind. tot_steps. Qed.
Lemma xd_enum_total : forall lo hi, xdec_total (xd_enum lo hi). Proof. intros lo hi be v. unfold xd_enum. tot_steps. Qed.
Lemma xd_pres_total : xdec_total xd_pres. Proof. intros be v. unfold xd_pres. tot_steps. Qed.
Lemma xd_liv_total : xdec_total xd_liv. Proof. intros be v. unfold xd_liv. tot_steps. Qed.
Lemma xd_rel_total : xdec_total xd_rel. Proof. intros be v. unfold xd_rel. tot_steps. Qed.
Lemma xd_hist_total : xdec_total xd_hist. Proof. intros be v. unfold xd_hist. tot_steps. Qed.
Lemma xd_res_total : xdec_total xd_res. Proof. intros be v. unfold xd_res. tot_steps. Qed.
Lemma xd_partition_total : xdec_total xd_partition.
Proof.
  intros be v. unfold xd_partition. apply total_app_step; [|intros; apply total_done].
  apply total_bind; [auto with tot|]. intros. apply total_seq. auto with tot.
Qed.
Lemma xd_datarep_total : xdec_total xd_datarep.
Proof.
  intros be v. unfold xd_datarep. apply total_app_step; [|intros; apply total_done].
  apply total_bind; [auto with tot|]. intros. apply total_seq. auto with tot.
Qed.
Lemma xd_tce_total : xdec_total xd_tce. Proof. intros be v. unfold xd_tce. tot_steps. Qed.

Lemma cr_entity_id_total : forall be, rdr_total (cr_entity_id be).
Proof. intros. unfold cr_entity_id. apply total_bind; [auto with tot|]. intros. apply total_bind; [auto with tot|]. intros. apply total_ret. Qed.
Lemma cr_locator_total : forall be, rdr_total (cr_locator be).
Proof.
  intros. unfold cr_locator. apply total_bind; [auto with tot|]. intros. apply total_bind; [auto with tot|]. intros.
  apply total_bind; [auto with tot|]. intros. apply total_ret.
Qed.
Lemma cr_bytes2_total : forall be, rdr_total (cr_bytes2 be). Proof. intros. unfold cr_bytes2. auto with tot. Qed.
Lemma cr_duration_total : forall be, rdr_total (cr_duration be).
Proof. intros. unfold cr_duration. apply total_bind; [auto with tot|]. intros. apply total_bind; [auto with tot|]. intros. apply total_ret. Qed.
Lemma cr_i32_total : forall be, rdr_total (cr_i32 be). Proof. intros. unfold cr_i32. auto with tot. Qed.
Lemma cr_u32_total : forall be, rdr_total (cr_u32 be). Proof. intros. unfold cr_u32. auto with tot. Qed.
Lemma cr_bool_total : forall be, rdr_total (cr_bool be). Proof. intros. unfold cr_bool. auto with tot. Qed.

Ltac solve_reader_total :=
  cbn [reader_total r_reader];
  repeat first [ apply total_k_unwrap_or_none | apply total_k_ok ];
  first [ apply total_k_optional_x | apply total_k_non_optional_x | apply total_k_optional_x2
        | apply total_k_optional | apply total_k_non_optional | idtac ];
  first [ assumption | apply xd_key_total | apply xd_string_total | apply xd_octets_total | apply xd_i32_total
        | apply xd_durkind_total | apply xd_enum_total | apply xd_pres_total | apply xd_liv_total | apply xd_rel_total
        | apply xd_hist_total | apply xd_res_total | apply xd_partition_total | apply xd_datarep_total | apply xd_tce_total
        | apply cr_entity_id_total | apply cr_locator_total | apply cr_bytes2_total | apply cr_duration_total
        | apply cr_i32_total | apply cr_u32_total | apply cr_bool_total ].

Section TotalWithTypeInformation.
Variable TI : Type.
Variable ti_dec : xdec TI.
Hypothesis ti_total : forall be v p, ti_dec be v <> Panic p.

Theorem topic_from_bytes_total : forall d p, topic_from_bytes TI ti_dec d <> Panic p.
Proof.
  unfold topic_from_bytes. apply tbl_from_bytes_total. unfold topic_rtable.
  repeat (constructor; [solve_reader_total|]). constructor.
Qed.
Theorem dwriter_from_bytes_total : forall d p, dwriter_from_bytes TI ti_dec d <> Panic p.
Proof.
  unfold dwriter_from_bytes. apply tbl_from_bytes_total. unfold dwriter_rtable.
  repeat (constructor; [solve_reader_total|]). constructor.
Qed.
Theorem dreader_from_bytes_total : forall d p, dreader_from_bytes TI ti_dec d <> Panic p.
Proof.
  unfold dreader_from_bytes. apply tbl_from_bytes_total. unfold dreader_rtable.
  repeat (constructor; [solve_reader_total|]). constructor.
Qed.
End TotalWithTypeInformation.

(* ---------------------------------------------------------------- participant (total since fix c095065) *)
Theorem participant_from_bytes_total : forall d p, participant_from_bytes d <> Panic p.
Proof.
  unfold participant_from_bytes. apply tbl_from_bytes_total. unfold participant_rtable.
  repeat (constructor; [first [solve_reader_total | cbn [reader_total r_reader]; apply total_k_optional; apply total_cstring]|]).
  constructor.
Qed.

(* ---------------------------------------------------------------- unknown parameters, per data type *)
Section UnknownWithTypeInformation.
Variable TI : Type.
Variable ti_dec : xdec TI.

Theorem topic_unknown_pids_ignored : forall be hdr ps u tail,
  blen hdr = 4 -> hdr_endianness (pl_hdr hdr) = Ok be -> Forall item_ok ps -> item_ok u ->
  ~ In (fst u) (map r_pid (topic_rtable TI ti_dec)) ->
  topic_from_bytes TI ti_dec (hdr ++ params_bytes be (ps ++ [u]) ++ tail)
  = topic_from_bytes TI ti_dec (hdr ++ params_bytes be ps ++ tail).
Proof. intros. unfold topic_from_bytes. apply unknown_pids_ignored_tbl; assumption. Qed.
Theorem dwriter_unknown_pids_ignored : forall be hdr ps u tail,
  blen hdr = 4 -> hdr_endianness (pl_hdr hdr) = Ok be -> Forall item_ok ps -> item_ok u ->
  ~ In (fst u) (map r_pid (dwriter_rtable TI ti_dec)) ->
  dwriter_from_bytes TI ti_dec (hdr ++ params_bytes be (ps ++ [u]) ++ tail)
  = dwriter_from_bytes TI ti_dec (hdr ++ params_bytes be ps ++ tail).
Proof. intros. unfold dwriter_from_bytes. apply unknown_pids_ignored_tbl; assumption. Qed.
Theorem dreader_unknown_pids_ignored : forall be hdr ps u tail,
  blen hdr = 4 -> hdr_endianness (pl_hdr hdr) = Ok be -> Forall item_ok ps -> item_ok u ->
  ~ In (fst u) (map r_pid (dreader_rtable TI ti_dec)) ->
  dreader_from_bytes TI ti_dec (hdr ++ params_bytes be (ps ++ [u]) ++ tail)
  = dreader_from_bytes TI ti_dec (hdr ++ params_bytes be ps ++ tail).
Proof. intros. unfold dreader_from_bytes. apply unknown_pids_ignored_tbl; assumption. Qed.
End UnknownWithTypeInformation.
Theorem participant_unknown_pids_ignored : forall be hdr ps u tail,
  blen hdr = 4 -> hdr_endianness (pl_hdr hdr) = Ok be -> Forall item_ok ps -> item_ok u ->
  ~ In (fst u) (map r_pid participant_rtable) ->
  participant_from_bytes (hdr ++ params_bytes be (ps ++ [u]) ++ tail)
  = participant_from_bytes (hdr ++ params_bytes be ps ++ tail).
Proof. intros. unfold participant_from_bytes. apply unknown_pids_ignored_tbl; assumption. Qed.

(* every vendor-specific pid (>= 0x8000, i.e. negative as i16) is unknown to all four tables *)
Lemma vendor_pid_unknown : forall TI (ti_dec : xdec TI) pid, pid < 0 ->
  ~ In pid (map r_pid (topic_rtable TI ti_dec)) /\ ~ In pid (map r_pid (dwriter_rtable TI ti_dec))
  /\ ~ In pid (map r_pid (dreader_rtable TI ti_dec)) /\ ~ In pid (map r_pid participant_rtable).
Proof.
  intros TI ti_dec pid H. repeat split; intros C; cbn in C;
    repeat (destruct C as [C|C]; [vm_compute in C; lia|]); exact C.
Qed.

(* ---------------------------------------------------------------- witnesses of the known findings *)
Definition witness_key : bytes := [1; 2; 3; 4; 5; 6; 7; 8; 9; 16; 17; 18; 0; 0; 1; 193].
Definition witness_participant (user_data : bytes) : participant :=
  mkparticipant witness_key user_data (Some 7) [] [2; 4] (firstn 12 witness_key) [1; 20] false [] [] [] []
                805367871 0 0 (100, 0) [].
Lemma witness_participant_wf : forall n, 0 <= n <= 100000 -> wf_participant (witness_participant (rep 0 n)).
Proof.
  intros n Hn. unfold wf_participant, witness_participant; cbn [p_key p_user_data p_domain_id p_domain_tag
    p_protocol_version p_vendor_id p_metatraffic_unicast p_metatraffic_multicast p_default_unicast
    p_default_multicast p_available_builtin_endpoints p_manual_liveliness_count p_builtin_endpoint_qos
    p_lease_duration p_guid_prefix p_discovered_participant_list fst snd].
  repeat split; try reflexivity; try constructor;
    try (unfold in_i32, in_u32, i32_min, i32_max, u32_max; lia).
  - unfold wf_octets, rep, blen. rewrite repeat_length. unfold u32_max. lia.
  - unfold u32_max. cbn. lia.
Qed.

(* D17 / C13-u16-param-length: 70000 bytes of user data do not fit the 16-bit parameter length;
   the announcement still decodes, but to a participant WITHOUT user data *)
Lemma participant_u16_truncation_witness :
  exists r, wf_participant r /\ tbl_fitsb participant_wtable r = false
            /\ exists r', participant_from_bytes (participant_into_bytes r) = Ok r' /\ p_user_data r' = [] /\ r' <> r.
Proof.
  exists (witness_participant (rep 0 70000)). split; [exact (witness_participant_wf 70000 ltac:(lia))|].
  split; [vm_compute; reflexivity|].
  assert (E : match participant_from_bytes (participant_into_bytes (witness_participant (rep 0 70000))) with
              | Ok r' => bytes_eqb (p_user_data r') [] | _ => false end = true) by (vm_compute; reflexivity).
  destruct (participant_from_bytes (participant_into_bytes (witness_participant (rep 0 70000)))) as [r'|e|q]; try discriminate.
  exists r'. split; [reflexivity|]. apply bytes_eqb_eq in E. split; [assumption|].
  intros C. rewrite C in E. unfold witness_participant in E. cbn [p_user_data] in E.
  apply (f_equal (@length Z)) in E. unfold rep in E. rewrite repeat_length in E. cbn [length] in E. lia.
Qed.
(* and the conditional theorem is not vacuous right below the limit: 65528 bytes fit *)
Lemma participant_boundary_fits :
  wf_participant (witness_participant (rep 0 65528)) /\ tbl_fits participant_wtable (witness_participant (rep 0 65528))
  /\ tbl_fitsb participant_wtable (witness_participant (rep 0 65529)) = false.
Proof. split; [exact (witness_participant_wf 65528 ltac:(lia))|]. split; vm_compute; reflexivity. Qed.

(* C13-length-limited-max *)
Definition witness_topic : topic unit :=
  mktopic unit witness_key [97; 98] [99; 100] None 0 Infinite DUR_ZERO LIVELINESS_DEFAULT
          RELIABILITY_DEFAULT_READER_AND_TOPICS 0 Infinite 0 HISTORY_DEFAULT
          (mkres (Limited 2147483647) Unlimited (Limited 5)) 0 [] [].
Lemma topic_limited_max_witness :
  wf_topic unit witness_topic /\ tbl_fits (topic_wtable unit (fun _ => w_raw [])) witness_topic
  /\ res_limited_max (t_resource_limits unit witness_topic) = true
  /\ exists r', topic_from_bytes unit (fun _ _ => Err X_NED) (topic_into_bytes unit (fun _ => w_raw []) witness_topic) = Ok r'
                /\ rs_ms (t_resource_limits unit r') = Unlimited /\ r' <> witness_topic.
Proof.
  split.
  { unfold wf_topic, witness_topic; cbn [t_key t_name t_type_name t_durability t_deadline t_latency_budget t_liveliness
      t_reliability t_transport_priority t_lifespan t_destination_order t_history t_resource_limits t_ownership
      t_topic_data t_representation].
    repeat split; try reflexivity; try constructor; cbn;
      try (unfold in_i32, in_u32, i32_min, i32_max, u32_max; lia); try (intros [C _]; discriminate).
    all: unfold wf_octets, u32_max; cbn; lia. }
  split; [vm_compute; reflexivity|]. split; [reflexivity|].
  eexists. split; [vm_compute; reflexivity|]. split; [reflexivity|]. intros C. discriminate.
Qed.

(* regression inputs of the two repaired defects *)
(* c095065: a zero-length PID_DOMAIN_TAG string is InvalidData (it used to panic) *)
Definition witness_d14 : bytes :=
  [0; 3; 0; 0;  80; 0; 16; 0] ++ witness_key ++ [20; 64; 4; 0; 0; 0; 0; 0;  1; 0; 0; 0].
Lemma zero_length_tag_is_an_error : participant_from_bytes witness_d14 = Err E_INVALID.
Proof. vm_compute. reflexivity. Qed.
(* 0c275fa: a big-endian participant announcement decodes (its header used to be read as
   PID_PARTICIPANT_LEASE_DURATION with an empty value: NotEnoughData) *)
Definition witness_be_participant : bytes :=
  [0; 2; 0; 0] ++ params_bytes true
    [(80, witness_key); (21, [2; 4; 0; 0]); (22, [1; 20; 0; 0]); (88, [48; 0; 240; 63]); (2, [0; 0; 0; 30; 0; 0; 0; 5])]
  ++ [0; 1; 0; 0].
Lemma be_participant_decodes :
  exists r, participant_from_bytes witness_be_participant = Ok r
            /\ p_key r = witness_key /\ p_available_builtin_endpoints r = 805367871 /\ p_lease_duration r = (30, 5).
Proof. eexists. split; [vm_compute; reflexivity|]. repeat split. Qed.

(* non-vacuity of the round-trip theorems: a concrete record with non-default values, vendor
   locators, partitions and user data meets the hypotheses *)
Definition example_dwriter : dwriter unit :=
  mkdwriter unit witness_key witness_key [83; 113; 117; 97; 114; 101] [83; 104; 97; 112; 101] None
            1 (Finite 1 500000000) DUR_ZERO (mkliv 2 (Finite 10 0)) (mkrel 1 (Finite 0 100000000)) Infinite
            [1; 2; 3; 255] 1 (-5) 1 (mkpres 1 true false) [[97; 42]; []; [195; 169]] [] [9] [0; 2]
            witness_key [0; 0; 1; 200] [mkloc 1 7400 (repeat 0 12 ++ [127; 0; 0; 1])] [].
Lemma example_dwriter_meets_hypotheses :
  wf_dwriter unit example_dwriter /\ tbl_fits (dwriter_wtable unit (fun _ => w_raw [])) example_dwriter.
Proof.
  split; [|vm_compute; reflexivity].
  unfold wf_dwriter, example_dwriter; cbn [w_key w_participant_key w_topic_name w_type_name w_durability w_deadline
    w_latency_budget w_liveliness w_reliability w_lifespan w_user_data w_ownership w_ownership_strength
    w_destination_order w_presentation w_partition w_topic_data w_group_data w_representation
    w_remote_writer_guid w_remote_group_entity_id w_unicast_locator_list w_multicast_locator_list].
  repeat split; try reflexivity; repeat constructor; cbn;
    try (unfold in_i32, in_u32, i32_min, i32_max, u32_max; lia); try (intros [C _]; discriminate); try lia.
  all: try (unfold wf_octets, u32_max; cbn; lia).
Qed.

(* pids carrying the must-understand flag 0x4000 (PID_FLAG_MUST_UNDERSTAND): the readers compare
   the full 16-bit id, so they are unknown too - and ignored like any other unknown parameter -
   except PID_DOMAIN_TAG = 0x4014 itself, which only the participant reader looks up *)
Lemma must_understand_pid_unknown : forall TI (ti_dec : xdec TI) pid, 16384 <= pid <= 32767 ->
  ~ In pid (map r_pid (topic_rtable TI ti_dec)) /\ ~ In pid (map r_pid (dwriter_rtable TI ti_dec))
  /\ ~ In pid (map r_pid (dreader_rtable TI ti_dec))
  /\ (pid <> PID_DOMAIN_TAG -> ~ In pid (map r_pid participant_rtable)).
Proof.
  intros TI ti_dec pid H. split; [|split; [|split]].
  1-3: intros C; cbn in C; repeat (destruct C as [C|C]; [vm_compute in C; lia|]); exact C.
  intros Hne C; cbn in C;
    repeat (destruct C as [C|C]; [vm_compute in C; first [lia | apply Hne; vm_compute; lia]|]); exact C.
Qed.
