(* Correspondence vocabulary for C13: one case = one call of the real code
   (from_bytes / into_bytes of the four discovery types, a per-policy XCDR1 encoder, or an
   end-to-end SPDP announcement) with its observed output; the model and the oracle are
   applied inside Coq.
   TypeInformation is not modelled: the correspondence instance uses TI := unit with a decoder
   that rejects every blob; the generator only ever sends an empty PID_TYPE_INFORMATION value
   (which the real XCDR2 decoder rejects with NotEnoughData). *)
From DustDDS Require Export Base.Machine Disc.PlModel Disc.DiscModel.
Open Scope Z_scope.

Definition ti_w0 (u : unit) : wr := w_raw [].
Definition ti_dec0 : xdec unit := fun _ _ => Err X_NED.

Definition topic0 := topic unit.
Definition dwriter0 := dwriter unit.
Definition dreader0 := dreader unit.

Inductive kind : Type := KT | KW | KR | KP.
Inductive value : Type :=
| VT (t : topic0) | VW (w : dwriter0) | VR (r : dreader0) | VP (p : participant).

(* field values for the per-policy encoders *)
Inductive fval : Type :=
| FKey (b : bytes) | FStr (s : bytes) | FOctets (b : bytes) | FI32 (v : Z) | FDur (d : durkind)
| FPres (p : presentation) | FLiv (l : liveliness) | FRel (r : reliability) | FHist (h : histkind)
| FRes (r : reslimits) | FPart (l : list bytes) | FRep (l : list Z) | FTce (t : tce).

Inductive C13_op : Type :=
| Dec (k : kind) (d : bytes)        (* from_bytes on arbitrary bytes *)
| Rt (v : value) (d : bytes)        (* d is the announced encoding of v: from_bytes d must give v back *)
| RtExt (v : value) (d : bytes)     (* d is an announcement of v that the crate's writer does not produce: as another
                                       vendor sends it in PL_CDR_BE and/or with unknown, vendor-specific or
                                       must-understand-flagged parameters inserted (ids 0x8000|pid, 0x4000|pid,
                                       0xC000|pid, near misses) before/after/instead of the genuine ones.
                                       from_bytes d must give v back; d is not checked against a model encoder *)
| Enc (f : fval)                    (* XCDR1 little-endian encoder of one policy value, padded to 4 *)
| Ann (p : participant).            (* announce_participant: the bytes put into the SPDP writer cache, decoded again *)

(* result of from_bytes d: error code, panic, or (value, value.into_bytes(), rt) with
   rt = 1 if from_bytes(into_bytes(value)) == Ok(value), 0 if Ok but different, 2 if Err *)
Inductive dec_out : Type := DErr (c : Z) | DPanic | DOk (v : value) (b2 : bytes) (rt : Z).
Inductive C13_out : Type := ODec (o : dec_out) | OEnc (b : bytes) | OAnn (b : bytes) (o : dec_out).
Record C13_case : Type := mkC13 { c_op : C13_op; c_out : C13_out }.

(* ---------------------------------------------------------------- equality on values *)
Definition ti_eqb0 (a b : unit) : bool := true.
Definition locs_eqb := list_eqb loc_eqb.
Definition topic_eqb (a b : topic0) : bool :=
  bytes_eqb (t_key _ a) (t_key _ b) && bytes_eqb (t_name _ a) (t_name _ b) && bytes_eqb (t_type_name _ a) (t_type_name _ b)
  && option_eqb ti_eqb0 (t_type_information _ a) (t_type_information _ b)
  && (t_durability _ a =? t_durability _ b) && durkind_eqb (t_deadline _ a) (t_deadline _ b)
  && durkind_eqb (t_latency_budget _ a) (t_latency_budget _ b) && liv_eqb (t_liveliness _ a) (t_liveliness _ b)
  && rel_eqb (t_reliability _ a) (t_reliability _ b) && (t_transport_priority _ a =? t_transport_priority _ b)
  && durkind_eqb (t_lifespan _ a) (t_lifespan _ b) && (t_destination_order _ a =? t_destination_order _ b)
  && histkind_eqb (t_history _ a) (t_history _ b) && res_eqb (t_resource_limits _ a) (t_resource_limits _ b)
  && (t_ownership _ a =? t_ownership _ b) && bytes_eqb (t_topic_data _ a) (t_topic_data _ b)
  && bytes_eqb (t_representation _ a) (t_representation _ b).
Definition dwriter_eqb (a b : dwriter0) : bool :=
  bytes_eqb (w_key _ a) (w_key _ b) && bytes_eqb (w_participant_key _ a) (w_participant_key _ b)
  && bytes_eqb (w_topic_name _ a) (w_topic_name _ b) && bytes_eqb (w_type_name _ a) (w_type_name _ b)
  && option_eqb ti_eqb0 (w_type_information _ a) (w_type_information _ b)
  && (w_durability _ a =? w_durability _ b) && durkind_eqb (w_deadline _ a) (w_deadline _ b)
  && durkind_eqb (w_latency_budget _ a) (w_latency_budget _ b) && liv_eqb (w_liveliness _ a) (w_liveliness _ b)
  && rel_eqb (w_reliability _ a) (w_reliability _ b) && durkind_eqb (w_lifespan _ a) (w_lifespan _ b)
  && bytes_eqb (w_user_data _ a) (w_user_data _ b) && (w_ownership _ a =? w_ownership _ b)
  && (w_ownership_strength _ a =? w_ownership_strength _ b) && (w_destination_order _ a =? w_destination_order _ b)
  && pres_eqb (w_presentation _ a) (w_presentation _ b) && list_eqb bytes_eqb (w_partition _ a) (w_partition _ b)
  && bytes_eqb (w_topic_data _ a) (w_topic_data _ b) && bytes_eqb (w_group_data _ a) (w_group_data _ b)
  && bytes_eqb (w_representation _ a) (w_representation _ b)
  && bytes_eqb (w_remote_writer_guid _ a) (w_remote_writer_guid _ b)
  && bytes_eqb (w_remote_group_entity_id _ a) (w_remote_group_entity_id _ b)
  && locs_eqb (w_unicast_locator_list _ a) (w_unicast_locator_list _ b)
  && locs_eqb (w_multicast_locator_list _ a) (w_multicast_locator_list _ b).
Definition dreader_eqb (a b : dreader0) : bool :=
  bytes_eqb (d_key _ a) (d_key _ b) && bytes_eqb (d_participant_key _ a) (d_participant_key _ b)
  && bytes_eqb (d_topic_name _ a) (d_topic_name _ b) && bytes_eqb (d_type_name _ a) (d_type_name _ b)
  && option_eqb ti_eqb0 (d_type_information _ a) (d_type_information _ b)
  && (d_durability _ a =? d_durability _ b) && durkind_eqb (d_deadline _ a) (d_deadline _ b)
  && durkind_eqb (d_latency_budget _ a) (d_latency_budget _ b) && liv_eqb (d_liveliness _ a) (d_liveliness _ b)
  && rel_eqb (d_reliability _ a) (d_reliability _ b) && (d_ownership _ a =? d_ownership _ b)
  && (d_destination_order _ a =? d_destination_order _ b) && bytes_eqb (d_user_data _ a) (d_user_data _ b)
  && durkind_eqb (d_time_based_filter _ a) (d_time_based_filter _ b)
  && pres_eqb (d_presentation _ a) (d_presentation _ b) && list_eqb bytes_eqb (d_partition _ a) (d_partition _ b)
  && bytes_eqb (d_topic_data _ a) (d_topic_data _ b) && bytes_eqb (d_group_data _ a) (d_group_data _ b)
  && bytes_eqb (d_representation _ a) (d_representation _ b) && tce_eqb (d_type_consistency _ a) (d_type_consistency _ b)
  && bytes_eqb (d_remote_reader_guid _ a) (d_remote_reader_guid _ b)
  && bytes_eqb (d_remote_group_entity_id _ a) (d_remote_group_entity_id _ b)
  && locs_eqb (d_unicast_locator_list _ a) (d_unicast_locator_list _ b)
  && locs_eqb (d_multicast_locator_list _ a) (d_multicast_locator_list _ b)
  && Bool.eqb (d_expects_inline_qos _ a) (d_expects_inline_qos _ b).
Definition participant_eqb (a b : participant) : bool :=
  bytes_eqb (p_key a) (p_key b) && bytes_eqb (p_user_data a) (p_user_data b)
  && option_eqb Z.eqb (p_domain_id a) (p_domain_id b) && bytes_eqb (p_domain_tag a) (p_domain_tag b)
  && bytes_eqb (p_protocol_version a) (p_protocol_version b) && bytes_eqb (p_guid_prefix a) (p_guid_prefix b)
  && bytes_eqb (p_vendor_id a) (p_vendor_id b) && Bool.eqb (p_expects_inline_qos a) (p_expects_inline_qos b)
  && locs_eqb (p_metatraffic_unicast a) (p_metatraffic_unicast b)
  && locs_eqb (p_metatraffic_multicast a) (p_metatraffic_multicast b)
  && locs_eqb (p_default_unicast a) (p_default_unicast b) && locs_eqb (p_default_multicast a) (p_default_multicast b)
  && (p_available_builtin_endpoints a =? p_available_builtin_endpoints b)
  && (p_manual_liveliness_count a =? p_manual_liveliness_count b)
  && (p_builtin_endpoint_qos a =? p_builtin_endpoint_qos b)
  && pair_eqb (p_lease_duration a) (p_lease_duration b)
  && list_eqb bytes_eqb (p_discovered_participant_list a) (p_discovered_participant_list b).
Definition value_eqb (a b : value) : bool :=
  match a, b with
  | VT x, VT y => topic_eqb x y
  | VW x, VW y => dwriter_eqb x y
  | VR x, VR y => dreader_eqb x y
  | VP x, VP y => participant_eqb x y
  | _, _ => false
  end.

(* ---------------------------------------------------------------- the model on one case *)
Definition into_bytes_v (v : value) : bytes :=
  match v with
  | VT t => topic_into_bytes unit ti_w0 t
  | VW w => dwriter_into_bytes unit ti_w0 w
  | VR r => dreader_into_bytes unit ti_w0 r
  | VP p => participant_into_bytes p
  end.
Definition from_bytes_k (k : kind) (d : bytes) : res value :=
  match k with
  | KT => t <- topic_from_bytes unit ti_dec0 d ;; Ok (VT t)
  | KW => t <- dwriter_from_bytes unit ti_dec0 d ;; Ok (VW t)
  | KR => t <- dreader_from_bytes unit ti_dec0 d ;; Ok (VR t)
  | KP => t <- participant_from_bytes d ;; Ok (VP t)
  end.
Definition kind_of (v : value) : kind := match v with VT _ => KT | VW _ => KW | VR _ => KR | VP _ => KP end.
Definition rt_flag (v : value) : Z :=
  match from_bytes_k (kind_of v) (into_bytes_v v) with
  | Ok v' => if value_eqb v' v then 1 else 0
  | Err _ => 2
  | Panic _ => 3
  end.
Definition model_dec (k : kind) (d : bytes) : dec_out :=
  match from_bytes_k k d with
  | Ok v => DOk v (into_bytes_v v) (rt_flag v)
  | Err c => DErr c
  | Panic _ => DPanic
  end.
Definition fits_v (v : value) : bool :=
  match v with
  | VT t => tbl_fitsb (topic_wtable unit ti_w0) t
  | VW w => tbl_fitsb (dwriter_wtable unit ti_w0) w
  | VR r => tbl_fitsb (dreader_wtable unit ti_w0) r
  | VP p => tbl_fitsb participant_wtable p
  end.
Definition pad4 (b : bytes) : bytes := b ++ zeros ((- blen b) mod 4).
Definition enc_model (f : fval) : bytes :=
  pad4 (match f with
  | FKey b => xw_key b 0 | FStr s => xw_string s 0 | FOctets b => xw_octets b 0 | FI32 v => xw_i32 v 0
  | FDur d => xw_durkind d 0 | FPres p => xw_pres p 0 | FLiv l => xw_liv l 0 | FRel r => xw_rel r 0
  | FHist h => xw_hist h 0 | FRes r => xw_res r 0 | FPart l => xw_partition l 0 | FRep l => xw_datarep l 0
  | FTce t => xw_tce t 0
  end).

Definition dec_out_eqb (a b : dec_out) : bool :=
  match a, b with
  | DErr x, DErr y => x =? y
  | DPanic, DPanic => true
  | DOk v b2 rt, DOk v' b2' rt' => value_eqb v v' && bytes_eqb b2 b2' && (rt =? rt')
  | _, _ => false
  end.

Definition C13_model_ok (c : C13_case) : bool :=
  match c_op c, c_out c with
  | Dec k d, ODec o => dec_out_eqb (model_dec k d) o
  | Rt v d, ODec o => bytes_eqb (into_bytes_v v) d && dec_out_eqb (model_dec (kind_of v) d) o
  | RtExt v d, ODec o => dec_out_eqb (model_dec (kind_of v) d) o
  | Enc f, OEnc b => bytes_eqb (enc_model f) b
  | Ann p, OAnn b o => bytes_eqb (participant_into_bytes p) b && dec_out_eqb (model_dec KP b) o
  | _, _ => false
  end.

(* the property, on the implementation's output:
   - an announcement of v decodes back to v (Rt, Ann);
   - whatever value a received list decodes to, announcing that value again decodes back to it (Dec);
   - decoding errors / panics on malformed input are not C13's business (C07). *)
Definition C13_oracle_ok (c : C13_case) : bool :=
  match c_op c, c_out c with
  | Dec _ _, ODec (DOk _ _ rt) => rt =? 1
  | Dec _ _, ODec _ => true
  | Rt v _, ODec (DOk v' _ rt) => value_eqb v' v && (rt =? 1)
  | Rt _ _, ODec _ => false
  | RtExt v _, ODec (DOk v' _ rt) => value_eqb v' v && (rt =? 1)
  | RtExt _ _, ODec _ => false
  | Enc _, OEnc _ => true
  | Ann p, OAnn _ (DOk v' _ rt) => value_eqb v' (VP p) && (rt =? 1)
  | Ann _, OAnn _ _ => false
  | _, _ => false
  end.

(* class 1: some parameter value is longer than 65535 bytes once padded: the 16-bit length
   field written by write_cdr_parameter is truncated (finding C13-u16-param-length)
   class 2: a resource limit is Length::Limited(i32::MAX), which is announced as
   LENGTH_UNLIMITED (finding C13-length-limited-max) *)
Definition has_limited_max (v : value) : bool :=
  match v with VT t => res_limited_max (t_resource_limits _ t) | _ => false end.
Definition known_v (v : value) : N :=
  if negb (fits_v v) then 1%N else if has_limited_max v then 2%N else 0%N.
Definition C13_known (c : C13_case) : N :=
  match c_op c with
  | Rt v _ => known_v v
  | RtExt v _ => known_v v
  | Ann p => known_v (VP p)
  | _ => 0%N
  end.
