(* Byte-level model of the RTPS parameter-list (PL_CDR) codec used for discovery data.
   Sources (dds/src/dcps/data_representation_builtin_endpoints/):
     rtps_data_representation_serialization.rs  ParameterListSerializer, CdrSerializer, CdrSerialize impls
     rtps_data_representation.rs                ParameterList, PidIterator, CdrDeserializer, CdrDeserialize impls
   and the XCDR1 primitives of xtypes/{serializer,deserializer}.rs that the
   write_xcdr1_parameter / get_*_parameter_xdcr paths reach (the XTypes
   serializer/deserializer interpret a DynamicType; here they are specialised to
   the types that occur in discovery data, see DiscModel.v).
   Definitions only.  Bytes are Z in 0..255, lists are in buffer order. *)
From DustDDS Require Export Base.Machine.
Open Scope Z_scope.

Definition bytes := list Z.
Definition blen (l : bytes) : Z := Z.of_nat (length l).
Definition take (n : Z) (l : bytes) : bytes := firstn (Z.to_nat n) l.
Definition drop (n : Z) (l : bytes) : bytes := skipn (Z.to_nat n) l.
Definition zeros (n : Z) : bytes := repeat 0 (Z.to_nat n).
(* `length l < n` without computing the length (shorter_spec in PlProofs:
   shorter l n = (blen l <? n)); keeps the evaluation of the model linear on long inputs *)
Fixpoint shorter (l : bytes) (n : Z) : bool :=
  match l with
  | [] => 0 <? n
  | _ :: t => if n <=? 0 then false else shorter t (n - 1)
  end.
Definition byte_ok (b : Z) : Prop := 0 <= b <= 255.
Definition bytes_ok (l : bytes) : Prop := Forall byte_ok l.
Definition byte_okb (b : Z) : bool := (0 <=? b) && (b <=? 255).
Definition bytes_okb (l : bytes) : bool := forallb byte_okb l.

(* to_le_bytes of the low n bytes of v; from_le_bytes / from_be_bytes *)
Fixpoint le_bytes (n : nat) (v : Z) : bytes :=
  match n with O => [] | S k => (v mod 256) :: le_bytes k (v / 256) end.
Fixpoint le_val (l : bytes) : Z :=
  match l with [] => 0 | b :: t => b + 256 * le_val t end.
Definition int_val (be : bool) (l : bytes) : Z := if be then le_val (rev l) else le_val l.

(* error codes as printed by the harness:
   CdrError: 1 InvalidData, 2 PidNotFound, 3 NotEnoughData, 4 Unsupported,
   CdrError::XTypes(e): 21 InvalidData, 22 InvalidType, 27 NotEnoughData *)
Definition E_INVALID : Z := 1.
Definition E_PIDNOTFOUND : Z := 2.
Definition E_NED : Z := 3.
Definition E_UNSUPPORTED : Z := 4.
Definition X_INVALID : Z := 21.
Definition X_NED : Z := 27.
Definition E_FUEL : Z := 99.   (* never returned: see pl_seek_fuel_irrelevant *)

(* ------------------------------------------------------------------ readers
   CdrDeserializer { buffer, pos } / xtypes Reader { buffer, pos }: the state is
   the position and the bytes from the position on.  `ned` is the error code of
   "not enough data" (3 for CdrDeserializer, 27 for the XTypes reader). *)
Definition rstate : Type := (Z * bytes)%type.
Definition rdr (A : Type) : Type := rstate -> res (A * rstate).
Definition rret {A} (a : A) : rdr A := fun s => Ok (a, s).
Definition rbind {A B} (m : rdr A) (f : A -> rdr B) : rdr B :=
  fun s => match m s with Ok (a, s') => f a s' | Err e => Err e | Panic p => Panic p end.
Notation "x <~ m ;; k" := (rbind m (fun x => k)) (at level 61, m at next level, right associativity).
Definition rfail {A} (e : Z) : rdr A := fun _ => Err e.
Definition rpanic {A} (p : Z) : rdr A := fun _ => Panic p.
Definition run {A} (m : rdr A) (v : bytes) : res A :=
  match m (0, v) with Ok (a, _) => Ok a | Err e => Err e | Panic p => Panic p end.

(* read_bytes(length): `if self.pos + length > self.buffer.len() { NotEnoughData }` *)
Definition r_bytes (ned n : Z) : rdr bytes :=
  fun '(pos, rest) => if shorter rest n then Err ned else Ok (take n rest, (pos + n, drop n rest)).
(* seek_padding(alignment): ((pos + mask) & !mask) - pos bytes are skipped *)
Definition r_align (ned a : Z) : rdr unit :=
  fun '(pos, rest) => let k := (- pos) mod a in
    if shorter rest k then Err ned else Ok (tt, (pos + k, drop k rest)).
Definition r_u8 (ned : Z) : rdr Z :=
  fun '(pos, rest) => match rest with [] => Err ned | b :: t => Ok (b, (pos + 1, t)) end.
Definition r_uint (ned : Z) (be : bool) (n : Z) : rdr Z :=
  _ <~ r_align ned n ;; bs <~ r_bytes ned n ;; rret (int_val be bs).
Definition r_u16 ned be := r_uint ned be 2.
Definition r_u32 ned be := r_uint ned be 4.
Definition r_i16 ned be : rdr Z := v <~ r_uint ned be 2 ;; rret (wrap_i16 v).
Definition r_i32 ned be : rdr Z := v <~ r_uint ned be 4 ;; rret (wrap_i32 v).

(* ------------------------------------------------------------------ writers
   A serializer appends to a buffer whose current length is `pos`; padding depends on pos. *)
Definition wr : Type := Z -> bytes.
Definition wseq (w1 w2 : wr) : wr := fun pos => let b := w1 pos in b ++ w2 (pos + blen b).
Notation "w1 +++ w2" := (wseq w1 w2) (at level 60, right associativity).
Definition w_raw (b : bytes) : wr := fun _ => b.
Definition w_pad (a : Z) : wr := fun pos => zeros ((- pos) mod a).
Definition w_u8 (v : Z) : wr := w_raw [v].
Definition w_u16 (v : Z) : wr := w_pad 2 +++ w_raw (le_bytes 2 v).
Definition w_u32 (v : Z) : wr := w_pad 4 +++ w_raw (le_bytes 4 v).
Definition w_bool (b : bool) : wr := w_raw [if b then 1 else 0].

(* ------------------------------------------------------------------ UTF-8 (String::from_utf8) *)
Definition in_rng (lo hi b : Z) : bool := (lo <=? b) && (b <=? hi).
Definition cont (b : Z) : bool := in_rng 128 191 b.
Fixpoint utf8_valid (l : bytes) : bool :=
  match l with
  | [] => true
  | b0 :: t =>
    if in_rng 0 127 b0 then utf8_valid t
    else if in_rng 194 223 b0 then
      match t with b1 :: t1 => cont b1 && utf8_valid t1 | _ => false end
    else if in_rng 224 239 b0 then
      match t with
      | b1 :: b2 :: t2 =>
        (if b0 =? 224 then in_rng 160 191 b1 else if b0 =? 237 then in_rng 128 159 b1 else cont b1)
        && cont b2 && utf8_valid t2
      | _ => false end
    else if in_rng 240 244 b0 then
      match t with
      | b1 :: b2 :: b3 :: t3 =>
        (if b0 =? 240 then in_rng 144 191 b1 else if b0 =? 244 then in_rng 128 143 b1 else cont b1)
        && cont b2 && cont b3 && utf8_valid t3
      | _ => false end
    else false
  end.

(* ------------------------------------------------------------------ CdrSerialize / CdrDeserialize
   (rtps_data_representation*.rs; NotEnoughData = 3) *)
Definition cdr_w_i32 (v : Z) : wr := w_u32 (wrap_u32 v).
Definition cdr_w_u32 (v : Z) : wr := w_u32 v.
(* String: (len + 1) as u32, bytes, 0 *)
Definition cdr_w_string (s : bytes) : wr := w_u32 (wrap_u32 (blen s + 1)) +++ w_raw s +++ w_raw [0].
(* String::cdr_deserialize: the length counts the terminating 0;
   `(length as usize).checked_sub(1).ok_or(CdrError::InvalidData)?` (fix c095065: it used to be
   `length as usize - 1`, a panic for length 0) *)
Definition cdr_r_string (be : bool) : rdr bytes :=
  len <~ r_u32 E_NED be ;;
  if len =? 0 then rfail E_INVALID else
  s <~ r_bytes E_NED (len - 1) ;;
  _ <~ r_u8 E_NED ;;
  if utf8_valid s then rret s else rfail E_INVALID.
Definition cdr_r_bool : rdr bool := b <~ r_u8 E_NED ;; rret (negb (b =? 0)).

(* ------------------------------------------------------------------ XTypes XCDR1 primitives
   (xtypes/deserializer.rs; NotEnoughData = 27) *)
Definition x_r_bool : rdr bool :=
  b <~ r_u8 X_NED ;; if b =? 0 then rret false else if b =? 1 then rret true else rfail X_INVALID.
(* deserialize_string_type: read_bytes(length.saturating_sub(1)), read_byte, from_utf8 *)
Definition x_r_string (be : bool) : rdr bytes :=
  len <~ r_u32 X_NED be ;;
  s <~ r_bytes X_NED (Z.max 0 (len - 1)) ;;
  _ <~ r_u8 X_NED ;;
  if utf8_valid s then rret s else rfail X_INVALID.
Definition x_w_string (s : bytes) : wr := w_u32 (wrap_u32 (blen s + 1)) +++ w_raw s +++ w_raw [0].

(* `for _ in 0..length { push(elem()?) }` with a wire-provided u32 length: the loop stops at
   the first error; every element consumes at least one byte, so `fuel` = remaining bytes + 1
   iterations are always enough (r_seq_fuel never runs out: Proofs). *)
Fixpoint r_seq_f {A} (fuel : nat) (elem : rdr A) (count : Z) : rdr (list A) :=
  fun s =>
    if count <=? 0 then Ok ([], s) else
    match fuel with
    | O => Err E_FUEL
    | S f => match elem s with
             | Ok (a, s') => match r_seq_f f elem (count - 1) s' with
                             | Ok (l, s'') => Ok (a :: l, s'')
                             | Err e => Err e | Panic p => Panic p end
             | Err e => Err e | Panic p => Panic p end
    end.
Definition r_seq {A} (elem : rdr A) (count : Z) : rdr (list A) :=
  fun s => r_seq_f (S (length (snd s))) elem count s.
Fixpoint w_list {A} (w : A -> wr) (l : list A) : wr :=
  match l with [] => w_raw [] | a :: t => w a +++ w_list w t end.

(* ------------------------------------------------------------------ PidIterator
   One step on the bytes from `position` on.  The item bytes are
   data[position+4 .. position+length+4]. *)
Inductive pstep : Type :=
| PEnd
| PErr (e : Z)
| PItem (pid : Z) (pdata rest : bytes).

Definition pl_next (be : bool) (d : bytes) : pstep :=
  match d with
  | [] => PEnd                                     (* position >= data.len() *)
  | b0 :: b1 :: b2 :: b3 :: rest =>
      let pid := wrap_i16 (int_val be [b0; b1]) in
      let len := int_val be [b2; b3] in
      if (pid =? 1) || shorter rest len then PEnd   (* sentinel, or position+length+4 > data.len() *)
      else PItem pid (take len rest) (drop len rest)
  | _ => PErr E_NED                                (* i16 / u16 cdr_deserialize: NotEnoughData *)
  end.

(* seek_to_pid's loop: first item whose pid matches; iterator errors are returned (item?) *)
Fixpoint pl_seek_f (fuel : nat) (be : bool) (pid : Z) (d : bytes) : res (option bytes) :=
  match fuel with
  | O => Err E_FUEL
  | S f => match pl_next be d with
           | PEnd => Ok None
           | PErr e => Err e
           | PItem p v rest => if p =? pid then Ok (Some v) else pl_seek_f f be pid rest
           end
  end.
(* PidIterator::new starts at position 4, after the encapsulation header (fix 0c275fa: it used
   to start at 0 and read the header as a parameter).  `body` = data[4..]. *)
Definition pl_seek_body (be : bool) (pid : Z) (body : bytes) : res (option bytes) :=
  pl_seek_f (S (length body)) be pid body.
Definition pl_seek (be : bool) (pid : Z) (d : bytes) : res (option bytes) :=
  pl_seek_body be pid (drop 4 d).

(* get_locator_list's loop: every matching item is decoded and pushed, in order;
   the first iterator or decoding error is returned *)
Fixpoint pl_all_f {A} (fuel : nat) (be : bool) (pid : Z) (dec : bytes -> res A) (d : bytes) : res (list A) :=
  match fuel with
  | O => Err E_FUEL
  | S f => match pl_next be d with
           | PEnd => Ok []
           | PErr e => Err e
           | PItem p v rest =>
               if p =? pid then a <- dec v ;; l <- pl_all_f f be pid dec rest ;; Ok (a :: l)
               else pl_all_f f be pid dec rest
           end
  end.
Definition pl_all_body {A} (be : bool) (pid : Z) (dec : bytes -> res A) (body : bytes) : res (list A) :=
  pl_all_f (S (length body)) be pid dec body.
Definition pl_all {A} (be : bool) (pid : Z) (dec : bytes -> res A) (d : bytes) : res (list A) :=
  pl_all_body be pid dec (drop 4 d).

(* ------------------------------------------------------------------ ParameterList *)
(* ParameterList::new *)
Definition pl_new (d : bytes) : res unit := if blen d <? 4 then Err E_NED else Ok tt.
(* the only bytes of the whole list that the get_* functions look at besides the iterator:
   the representation identifier data[0], data[1] *)
Definition hdr_t : Type := (Z * Z)%type.
Definition pl_hdr (d : bytes) : hdr_t := (nth 0 d 0, nth 1 d 0).
(* endianness(): data[1] = 2 Big, 3 Little, else InvalidData *)
Definition hdr_endianness (h : hdr_t) : res bool :=
  if snd h =? 2 then Ok true else if snd h =? 3 then Ok false else Err E_INVALID.
Definition seek_to_pid (d : bytes) (pid : Z) : res (option bytes) :=
  be <- hdr_endianness (pl_hdr d) ;; pl_seek be pid d.

(* A get_* call = seek_to_pid(pid) followed by a continuation on (header, seek result). *)
Definition seek_k (A : Type) : Type := hdr_t -> res (option bytes) -> res A.

(* get_optional_parameter / get_non_optional_parameter (CdrDeserialize values) *)
Definition k_optional {A} (dec : bool -> rdr A) (default : A) : seek_k A := fun h sr =>
  o <- sr ;;
  match o with
  | Some v => be <- hdr_endianness h ;; run (dec be) v
  | None => Ok default
  end.
Definition k_non_optional {A} (dec : bool -> rdr A) : seek_k A := fun h sr =>
  o <- sr ;;
  match o with
  | Some v => be <- hdr_endianness h ;; run (dec be) v
  | None => Err E_PIDNOTFOUND
  end.
(* `get_non_optional_parameter(pid).ok()` *)
Definition k_ok {A} (k : seek_k A) : seek_k (option A) := fun h sr =>
  match k h sr with Ok a => Ok (Some a) | Err _ => Ok None | Panic p => Panic p end.

(* deserialize_top_level_type_from_representation_identifier(T::TYPE, [data[0], data[1]], pid_data):
   after a successful seek data[1] is 2 or 3; [0,2] -> XCDR1 big endian, [0,3] -> XCDR1 little
   endian, anything else -> XTypesError::InvalidData.
   An XTypes value decoder returns Err (deserialization error), Ok None (create_sample
   gave None) or Ok (Some v). *)
Definition xdec (A : Type) : Type := bool -> bytes -> res (option A).
Definition x_rep (h : hdr_t) : res bool :=
  if fst h =? 0 then (if snd h =? 2 then Ok true else if snd h =? 3 then Ok false else Err X_INVALID)
  else Err X_INVALID.
(* get_optional_parameter_xdcr: create_sample(..).unwrap_or(default) *)
Definition k_optional_x {A} (dec : xdec A) (default : A) : seek_k A := fun h sr =>
  o <- sr ;;
  match o with
  | Some v => be <- x_rep h ;; s <- dec be v ;; Ok (match s with Some a => a | None => default end)
  | None => Ok default
  end.
(* get_non_optional_parameter_xdcr: PidNotFound / create_sample(..).ok_or(InvalidData) *)
Definition k_non_optional_x {A} (dec : xdec A) : seek_k A := fun h sr =>
  o <- sr ;;
  match o with
  | Some v => be <- x_rep h ;; s <- dec be v ;; match s with Some a => Ok a | None => Err E_INVALID end
  | None => Err E_PIDNOTFOUND
  end.
(* get_optional_parameter_xdcr2 (type information): representation [0,2] -> CDR2_BE,
   [0,3] -> CDR2_LE, else Unsupported; Ok(create_sample) *)
Definition x2_rep (h : hdr_t) : res bool :=
  if fst h =? 0 then (if snd h =? 2 then Ok true else if snd h =? 3 then Ok false else Err E_UNSUPPORTED)
  else Err E_UNSUPPORTED.
Definition k_optional_x2 {A} (dec : xdec A) : seek_k (option A) := fun h sr =>
  o <- sr ;;
  match o with
  | Some v => be <- x2_rep h ;; dec be v
  | None => Ok None
  end.
(* `.unwrap_or_default()` on the result of get_optional_parameter_xdcr2 *)
Definition k_unwrap_or_none {A} (k : seek_k (option A)) : seek_k (option A) := fun h sr =>
  match k h sr with Ok a => Ok a | Err _ => Ok None | Panic p => Panic p end.

(* get_locator_list *)
Definition get_list {A} (dec : bool -> rdr A) (d : bytes) (pid : Z) : res (list A) :=
  be <- hdr_endianness (pl_hdr d) ;; pl_all be pid (fun v => run (dec be) v) d.

(* ------------------------------------------------------------------ ParameterListSerializer *)
Definition PL_HEADER : bytes := [0; 3; 0; 0].     (* write_header: PL_CDR_LE, options 0 *)
(* replace the two bytes at offset `at` *)
Definition patch2 (b : bytes) (at_ : Z) (v : bytes) : bytes := take at_ b ++ v ++ drop (at_ + 2) b.
(* write_cdr_parameter: pid, 0u16 placeholder, value (serialized at the absolute buffer
   position), padding to a multiple of 4 of the BUFFER length, then the placeholder is
   overwritten with `(data.len() - position) as u16` *)
Definition write_cdr_parameter (buf : bytes) (pid : Z) (value : wr) : bytes :=
  let b0 := buf ++ (w_u16 (wrap_u16 pid) +++ w_u16 0) (blen buf) in
  let position := blen b0 in
  let b1 := b0 ++ value position in
  let b2 := b1 ++ zeros ((- blen b1) mod 4) in
  let length := wrap_u16 (blen b2 - position) in
  patch2 b2 (position - 2) (le_bytes 2 length).
(* write_sentinel: 1i16, 0u16 at the current position *)
Definition write_sentinel (buf : bytes) : bytes := buf ++ (w_u16 1 +++ w_u16 0) (blen buf).

(* ------------------------------------------------------------------ tables
   A data type is described by
     - a write table in into_bytes order: (pid, values emitted for this record), and
     - a read table in from_bytes order: (pid, how the field is obtained from the list).
   Reading yields the nested tuple of the fields in table order; a per-type `build`
   function turns it into the record (and computes the derived fields). *)
Record wrow (R : Type) : Type := mkwrow { w_pid : Z; w_emit : R -> list wr }.
Arguments mkwrow {R}. Arguments w_pid {R}. Arguments w_emit {R}.

Inductive reader (A : Type) : Type :=
| RSeek (k : seek_k A)                                      (* get_optional* / get_non_optional* *)
| RList (X : Type) (dec : bool -> rdr X) (k : list X -> A). (* get_locator_list *)
Arguments RSeek {A}. Arguments RList {A}.

Record rrow : Type := mkrrow { r_pid : Z; r_ty : Type; r_reader : reader r_ty }.

Definition run_reader {A} (pid : Z) (rd : reader A) (d : bytes) : res A :=
  match rd with
  | RSeek k => k (pl_hdr d) (seek_to_pid d pid)
  | RList X dec k => l <- get_list dec d pid ;; Ok (k l)
  end.

Definition write_rows {R} (wt : list (wrow R)) (r : R) (buf : bytes) : bytes :=
  fold_left (fun b row => fold_left (fun b' v => write_cdr_parameter b' (w_pid row) v) (w_emit row r) b) wt buf.
Definition tbl_into_bytes {R} (wt : list (wrow R)) (r : R) : bytes :=
  write_sentinel (write_rows wt r PL_HEADER).

Fixpoint tuple_of (rt : list rrow) : Type :=
  match rt with [] => unit | row :: t => (r_ty row * tuple_of t)%type end.
Fixpoint read_rows (rt : list rrow) (d : bytes) : res (tuple_of rt) :=
  match rt with
  | [] => Ok tt
  | row :: t => a <- run_reader (r_pid row) (r_reader row) d ;; l <- read_rows t d ;; Ok (a, l)
  end.
Definition tbl_from_bytes {R} (rt : list rrow) (build : tuple_of rt -> R) (d : bytes) : res R :=
  _ <- pl_new d ;; t <- read_rows rt d ;; Ok (build t).

(* every value written for r fits the 16-bit parameter length once padded to 4 *)
Definition padded_len (n : Z) : Z := n + (- n) mod 4.
Definition tbl_fitsb {R} (wt : list (wrow R)) (r : R) : bool :=
  forallb (fun row => forallb (fun v : wr => padded_len (blen (v 0)) <=? 65535) (w_emit row r)) wt.
Definition tbl_fits {R} (wt : list (wrow R)) (r : R) : Prop := tbl_fitsb wt r = true.

(* ------------------------------------------------------------------ specification vocabulary
   (used in the statements of the theorems; no proofs here) *)
(* a value padded to a multiple of 4, and one parameter on the wire *)
Definition padv (v : bytes) : bytes := v ++ zeros ((- blen v) mod 4).
Definition enc16 (be : bool) (x : Z) : bytes := if be then rev (le_bytes 2 x) else le_bytes 2 x.
Definition param_bytes (be : bool) (pid : Z) (v : bytes) : bytes :=
  enc16 be (wrap_u16 pid) ++ enc16 be (wrap_u16 (blen v)) ++ v.

(* a pid that can be written: an i16 other than the sentinel *)
Definition pid_ok (pid : Z) : Prop := -32768 <= pid <= 32767 /\ pid <> 1.

(* a well-formed parameter: valid pid, 16-bit length; params_bytes be ps = its wire bytes in
   big (be = true) or little endian *)
Definition item_ok (it : Z * bytes) : Prop := pid_ok (fst it) /\ blen (snd it) <= 65535.
Fixpoint params_bytes (be : bool) (items : list (Z * bytes)) : bytes :=
  match items with [] => [] | it :: t => param_bytes be (fst it) (snd it) ++ params_bytes be t end.
(* the values found under pid, in list order *)
Fixpoint matches (pid : Z) (items : list (Z * bytes)) : list bytes :=
  match items with
  | [] => []
  | it :: t => if fst it =? pid then snd it :: matches pid t else matches pid t
  end.
Fixpoint mapM {A B} (f : A -> res B) (l : list A) : res (list B) :=
  match l with [] => Ok [] | a :: t => b <- f a ;; r <- mapM f t ;; Ok (b :: r) end.

(* the writer of a value does not depend on the buffer position modulo 4 *)
Definition periodic (w : wr) : Prop := forall pos, pos mod 4 = 0 -> w pos = w 0.
Definition items_of {R} (wt : list (wrow R)) (r : R) : list (Z * bytes) :=
  flat_map (fun row => map (fun v : wr => (w_pid row, padv (v 0))) (w_emit row r)) wt.

(* what a write table emits under one pid (padded values, in order) *)
Definition emitted {R} (wt : list (wrow R)) (r : R) (pid : Z) : list bytes :=
  match find (fun row => w_pid row =? pid) wt with
  | Some row => map (fun v : wr => padv (v 0)) (w_emit row r)
  | None => []
  end.

Record table_ok {R} (wt : list (wrow R)) (r : R) : Prop := mk_table_ok {
  tk_nodup : NoDup (map w_pid wt);                                   (* distinct pids *)
  tk_pids : Forall (fun row => pid_ok (w_pid row)) wt;               (* i16, not the sentinel *)
  tk_periodic : forall row v, In row wt -> In v (w_emit row r) -> periodic v;
  tk_fits : tbl_fits wt r }.                                         (* every padded value <= 65535 bytes *)

(* the reader of a row gives back `a` when the values found under its pid are `vals`
   (in a little-endian list with representation identifier [0, 3]) *)
Definition reader_ok {A} (vals : list bytes) (rd : reader A) (a : A) : Prop :=
  match rd with
  | RSeek k => k (0, 3) (Ok (hd_error vals)) = Ok a
  | RList X dec k => exists l, mapM (fun v => run (dec false) v) vals = Ok l /\ k l = a
  end.
Fixpoint rows_read_back {R} (wt : list (wrow R)) (r : R) (rt : list rrow) : tuple_of rt -> Prop :=
  match rt with
  | [] => fun _ => True
  | row :: t => fun x => reader_ok (emitted wt r (r_pid row)) (r_reader row) (fst x)
                         /\ rows_read_back wt r t (snd x)
  end.
