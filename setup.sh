#!/bin/bash
# Build the framework from files on disk only (offline).
set -e
cd "$(dirname "$0")"
export CARGO_NET_OFFLINE=true
mkdir -p .cache evidence replays
( cd coq && coq_makefile -f _CoqProject -o Makefile $(find theories -name '*.v' | sort) > /dev/null \
  && find theories -name '*.v' | sort | sed 's#^\./##' | tr '\n' '\n' > /dev/null \
  && timeout 3000 make -j16 > ../.cache/coq_setup.log 2>&1 ) || { tail -30 .cache/coq_setup.log; exit 1; }
( cd harness && RUSTFLAGS="--cfg dust_dds_verif" cargo build --offline --quiet --bins )
echo setup ok
