#!/bin/bash
# Build the framework from files on disk only (offline).  This only warms the caches
# (.vo files, harness binaries); every check rebuilds what it needs itself, so a file
# that does not compile is reported by the check that depends on it, not here.
cd "$(dirname "$0")"
export CARGO_NET_OFFLINE=true
mkdir -p .cache evidence replays
( cd coq && coq_makefile -f _CoqProject -o Makefile $(find theories -name '*.v' | sort) > /dev/null \
  && find theories -name '*.v' | sort | sed 's#^\./##' > ../.cache/coqfiles.tmp \
  && timeout 3400 make -k -j16 > ../.cache/coq_setup.log 2>&1 )
python3 - <<'PY'
import os
# the stamp vlib/core.py uses to decide whether the Makefile must be regenerated
files=sorted(os.path.relpath(os.path.join(d,f),'coq') for d,_,fs in os.walk('coq/theories') for f in fs if f.endswith('.v'))
open('.cache/coqfiles.txt','w').write("\n".join(files))
PY
grep -E "^(File|Error)" .cache/coq_setup.log | head -20
( cd harness && for b in src/bin/*.rs; do n=$(basename "$b" .rs); RUSTFLAGS="--cfg dust_dds_verif" cargo build --offline --quiet --target-dir "$PWD/../.cache/target" --bin "$n" 2>/dev/null || echo "harness bin $n does not build (its check will report it)"; done )
echo setup ok
exit 0
