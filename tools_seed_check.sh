#!/bin/bash
# usage: tools_seed_check.sh <seed id under /verif/seeded> [property ids to check...]
# Applies the seeded change to a scratch worktree of /repo's HEAD and runs the checks against
# it (VERIF_REPO), leaving /repo itself untouched; evidence files are restored afterwards.
set -u
D=/verif/seeded/$1; shift
IDS="$@"
[ -z "$IDS" ] && IDS=$(python3 -c "import json;print(json.load(open('$D/meta.json'))['property'])")
W=/tmp/seedrun_$$
git -C /repo worktree add -q --detach $W HEAD || exit 2
if ! git -C $W apply "$D/patch.diff"; then echo "patch does not apply to the current tree"; git -C /repo worktree remove --force $W; exit 3; fi
cp /repo/Cargo.lock $W/Cargo.lock 2>/dev/null
for id in $IDS; do
  ( cd /verif && VERIF_REPO=$W ./check $id --tier quick > "$D/check_$id.log" 2>&1; echo "exit=$?" >> "$D/check_$id.log" )
  echo "== seed $(basename $D) vs check $id: $(grep -c '^VIOLATION' $D/check_$id.log) VIOLATION line(s), $(tail -1 $D/check_$id.log)"
  grep '^VIOLATION' -A1 "$D/check_$id.log" | head -4 | cut -c1-300
  ( cd /verif && git checkout -q -- evidence/$id.json 2>/dev/null )
done
git -C /repo worktree remove --force $W
