#!/bin/bash
# usage: tools_seed_check.sh <seed dir under /verif/seeded> [property ids to check...]
# Applies the seeded change to /repo's working tree, runs the checks, restores /repo.
# Only run when no other job is building against /repo.
set -u
D=/verif/seeded/$1; shift
IDS="$@"
[ -z "$IDS" ] && IDS=$(python3 -c "import json;print(json.load(open('$D/meta.json'))['property'])")
cd /repo || exit 2
if ! git diff --quiet; then echo "/repo has local changes; refusing"; exit 2; fi
git apply "$D/patch.diff" || { echo "patch does not apply to the current tree"; exit 3; }
for id in $IDS; do
  ( cd /verif && ./check $id --tier quick > "$D/check_$id.log" 2>&1; echo "exit=$?" >> "$D/check_$id.log" )
  echo "== $id: $(grep -c '^VIOLATION' $D/check_$id.log) VIOLATION line(s), $(tail -1 $D/check_$id.log)"
  grep '^VIOLATION' -A1 "$D/check_$id.log" | head -6
done
git -C /repo checkout -- .
git -C /repo status --short | head -3
