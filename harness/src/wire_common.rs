//! Shared by the c07 / c08 harness binaries (included with #[path]): text format of RTPS
//! messages, construction of the real submessage structs, printing of a decoded
//! RtpsMessageRead through its public accessors, and a big-endian test writer.
#![allow(dead_code)]
use dust_dds::rtps_messages::overall_structure::{
    RtpsMessageHeader, RtpsMessageRead, RtpsMessageWrite, RtpsSubmessageReadKind, Submessage,
};
use dust_dds::rtps_messages::submessage_elements::{
    Data, FragmentNumberSet, LocatorList, Parameter, ParameterList, SequenceNumberSet,
    SerializedDataFragment,
};
use dust_dds::rtps_messages::submessages::{
    ack_nack::AckNackSubmessage, data::DataSubmessage, data_frag::DataFragSubmessage,
    gap::GapSubmessage, heartbeat::HeartbeatSubmessage, heartbeat_frag::HeartbeatFragSubmessage,
    info_destination::InfoDestinationSubmessage, info_reply::InfoReplySubmessage,
    info_source::InfoSourceSubmessage, info_timestamp::InfoTimestampSubmessage,
    nack_frag::NackFragSubmessage, pad::PadSubmessage,
};
use dust_dds::rtps_messages::types::Time;
use dust_dds::transport::types::{EntityId, Locator, ProtocolVersion};
use std::panic::{catch_unwind, AssertUnwindSafe};
use std::sync::Arc;

// ---------------------------------------------------------------- byte strings
// items separated by '.', each item `hex` or `hex*N` (pattern repeated N times); "-" = empty
pub fn bx_decode(s: &str) -> Vec<u8> {
    let s = s.trim();
    let mut out = Vec::new();
    if s == "-" || s.is_empty() {
        return out;
    }
    for item in s.split('.') {
        let (h, n) = match item.split_once('*') {
            Some((h, n)) => (h, n.parse::<usize>().unwrap()),
            None => (item, 1),
        };
        let pat: Vec<u8> = (0..h.len() / 2).map(|i| u8::from_str_radix(&h[2 * i..2 * i + 2], 16).unwrap()).collect();
        for _ in 0..n {
            out.extend_from_slice(&pat);
        }
    }
    out
}

pub fn bx_encode(b: &[u8]) -> String {
    if b.is_empty() {
        return "-".to_string();
    }
    let mut items: Vec<String> = Vec::new();
    let mut lit = String::new();
    let mut i = 0;
    while i < b.len() {
        let mut j = i;
        while j < b.len() && b[j] == b[i] {
            j += 1;
        }
        if j - i >= 24 {
            if !lit.is_empty() {
                items.push(std::mem::take(&mut lit));
            }
            items.push(format!("{:02x}*{}", b[i], j - i));
        } else {
            for k in i..j {
                lit.push_str(&format!("{:02x}", b[k]));
            }
        }
        i = j;
    }
    if !lit.is_empty() {
        items.push(lit);
    }
    items.join(".")
}

fn hexs(b: &[u8]) -> String {
    if b.is_empty() {
        return "-".into();
    }
    b.iter().map(|x| format!("{:02x}", x)).collect()
}
fn unhex(s: &str) -> Vec<u8> {
    if s == "-" {
        return vec![];
    }
    (0..s.len() / 2).map(|i| u8::from_str_radix(&s[2 * i..2 * i + 2], 16).unwrap()).collect()
}
fn b01(b: bool) -> char {
    if b { '1' } else { '0' }
}
fn bits(s: &str) -> Vec<bool> {
    s.chars().map(|c| c == '1').collect()
}
fn nums<T: std::fmt::Display>(v: &[T]) -> String {
    if v.is_empty() {
        return "-".into();
    }
    v.iter().map(|x| x.to_string()).collect::<Vec<_>>().join(",")
}
fn unnums(s: &str) -> Vec<i128> {
    if s == "-" {
        return vec![];
    }
    s.split(',').map(|x| x.parse::<i128>().unwrap()).collect()
}

// ---------------------------------------------------------------- specification
#[derive(Clone, Debug)]
pub struct Loc {
    pub kind: i32,
    pub port: u32,
    pub addr: [u8; 16],
}
#[derive(Clone, Debug)]
pub enum Spec {
    AckNack { f: bool, rid: [u8; 4], wid: [u8; 4], base: i64, members: Vec<i64>, count: i32 },
    Data { q: bool, d: bool, k: bool, n: bool, rid: [u8; 4], wid: [u8; 4], sn: i64, qos: Vec<(i16, Vec<u8>)>, payload: Vec<u8> },
    DataFrag { q: bool, k: bool, n: bool, rid: [u8; 4], wid: [u8; 4], sn: i64, fstart: u32, fcount: u16, fsize: u16, dsize: u32, qos: Vec<(i16, Vec<u8>)>, payload: Vec<u8> },
    Gap { rid: [u8; 4], wid: [u8; 4], start: i64, base: i64, members: Vec<i64> },
    Heartbeat { f: bool, l: bool, rid: [u8; 4], wid: [u8; 4], first: i64, last: i64, count: i32 },
    HeartbeatFrag { rid: [u8; 4], wid: [u8; 4], sn: i64, lastfrag: u32, count: i32 },
    InfoDst { prefix: [u8; 12] },
    InfoReply { m: bool, uni: Vec<Loc>, multi: Vec<Loc> },
    InfoSrc { version: [u8; 2], vendor: [u8; 2], prefix: [u8; 12] },
    InfoTs { inval: bool, sec: u32, frac: u32 },
    NackFrag { rid: [u8; 4], wid: [u8; 4], sn: i64, base: u32, members: Vec<u32>, count: i32 },
    Pad,
}
pub struct MsgSpec {
    pub version: [u8; 2],
    pub vendor: [u8; 2],
    pub prefix: [u8; 12],
    pub subs: Vec<Spec>,
}

fn a4(s: &str) -> [u8; 4] {
    unhex(s).try_into().unwrap()
}
fn a2(s: &str) -> [u8; 2] {
    unhex(s).try_into().unwrap()
}
fn a12(s: &str) -> [u8; 12] {
    unhex(s).try_into().unwrap()
}
fn parse_qos(s: &str) -> Vec<(i16, Vec<u8>)> {
    if s == "-" {
        return vec![];
    }
    s.split(',')
        .map(|p| {
            let (id, v) = p.split_once(':').unwrap();
            (id.parse::<i16>().unwrap(), bx_decode(&v.replace('+', ".")))
        })
        .collect()
}
fn parse_locs(s: &str) -> Vec<Loc> {
    if s == "-" {
        return vec![];
    }
    s.split(',')
        .map(|p| {
            let f: Vec<&str> = p.split(':').collect();
            Loc { kind: f[0].parse().unwrap(), port: f[1].parse().unwrap(), addr: unhex(f[2]).try_into().unwrap() }
        })
        .collect()
}

pub fn parse_msg(text: &str) -> MsgSpec {
    let mut parts = text.split(';').map(|x| x.trim());
    let h: Vec<&str> = parts.next().unwrap().split_whitespace().collect();
    assert_eq!(h[0], "H");
    let mut subs = Vec::new();
    for p in parts {
        if p.is_empty() {
            continue;
        }
        let t: Vec<&str> = p.split_whitespace().collect();
        let s = match t[0] {
            "AN" => Spec::AckNack { f: t[1] == "1", rid: a4(t[2]), wid: a4(t[3]), base: t[4].parse().unwrap(), members: unnums(t[5]).iter().map(|&x| x as i64).collect(), count: t[6].parse().unwrap() },
            "DA" => {
                let b = bits(t[1]);
                Spec::Data { q: b[0], d: b[1], k: b[2], n: b[3], rid: a4(t[2]), wid: a4(t[3]), sn: t[4].parse().unwrap(), qos: parse_qos(t[5]), payload: bx_decode(t[6]) }
            }
            "DF" => {
                let b = bits(t[1]);
                Spec::DataFrag { q: b[0], k: b[1], n: b[2], rid: a4(t[2]), wid: a4(t[3]), sn: t[4].parse().unwrap(), fstart: t[5].parse().unwrap(), fcount: t[6].parse().unwrap(), fsize: t[7].parse().unwrap(), dsize: t[8].parse().unwrap(), qos: parse_qos(t[9]), payload: bx_decode(t[10]) }
            }
            "GP" => Spec::Gap { rid: a4(t[1]), wid: a4(t[2]), start: t[3].parse().unwrap(), base: t[4].parse().unwrap(), members: unnums(t[5]).iter().map(|&x| x as i64).collect() },
            "HB" => {
                let b = bits(t[1]);
                Spec::Heartbeat { f: b[0], l: b[1], rid: a4(t[2]), wid: a4(t[3]), first: t[4].parse().unwrap(), last: t[5].parse().unwrap(), count: t[6].parse().unwrap() }
            }
            "HF" => Spec::HeartbeatFrag { rid: a4(t[1]), wid: a4(t[2]), sn: t[3].parse().unwrap(), lastfrag: t[4].parse().unwrap(), count: t[5].parse().unwrap() },
            "ID" => Spec::InfoDst { prefix: a12(t[1]) },
            "IR" => Spec::InfoReply { m: t[1] == "1", uni: parse_locs(t[2]), multi: parse_locs(t[3]) },
            "IS" => Spec::InfoSrc { version: a2(t[1]), vendor: a2(t[2]), prefix: a12(t[3]) },
            "IT" => Spec::InfoTs { inval: t[1] == "1", sec: t[2].parse().unwrap(), frac: t[3].parse().unwrap() },
            "NF" => Spec::NackFrag { rid: a4(t[1]), wid: a4(t[2]), sn: t[3].parse().unwrap(), base: t[4].parse().unwrap(), members: unnums(t[5]).iter().map(|&x| x as u32).collect(), count: t[6].parse().unwrap() },
            "PD" => Spec::Pad,
            other => panic!("bad sub {}", other),
        };
        subs.push(s);
    }
    MsgSpec { version: a2(h[1]), vendor: a2(h[2]), prefix: a12(h[3]), subs }
}

fn eid(b: &[u8; 4]) -> EntityId {
    EntityId::new([b[0], b[1], b[2]], b[3])
}
fn plist(q: &[(i16, Vec<u8>)]) -> ParameterList {
    ParameterList::new(q.iter().map(|(id, v)| Parameter::new(*id, Arc::from(&v[..]))).collect())
}
fn llist(l: &[Loc]) -> LocatorList {
    LocatorList::new(l.iter().map(|x| Locator::new(x.kind, x.port, x.addr)).collect())
}

/// the real submessage structs, built through their public constructors
pub fn build(s: &Spec) -> Box<dyn Submessage + Send> {
    match s {
        Spec::AckNack { f, rid, wid, base, members, count } => Box::new(AckNackSubmessage::new(*f, eid(rid), eid(wid), SequenceNumberSet::new(*base, members.iter().copied()), *count)),
        Spec::Data { q, d, k, n, rid, wid, sn, qos, payload } => Box::new(DataSubmessage::new(*q, *d, *k, *n, eid(rid), eid(wid), *sn, plist(qos), Data::new(Arc::from(&payload[..])))),
        Spec::DataFrag { q, k, n, rid, wid, sn, fstart, fcount, fsize, dsize, qos, payload } => {
            // a fragment is a range of a larger buffer: exercise a non-zero range start for odd sn
            let frag = if sn % 2 != 0 {
                let mut big = vec![0xEEu8; 3];
                big.extend_from_slice(payload);
                big.extend_from_slice(&[0xDD, 0xDD]);
                SerializedDataFragment::new(Data::new(Arc::from(&big[..])), 3..3 + payload.len())
            } else {
                SerializedDataFragment::from(&payload[..])
            };
            Box::new(DataFragSubmessage::new(*q, *n, *k, eid(rid), eid(wid), *sn, *fstart, *fcount, *fsize, *dsize, plist(qos), frag))
        }
        Spec::Gap { rid, wid, start, base, members } => Box::new(GapSubmessage::new(eid(rid), eid(wid), *start, SequenceNumberSet::new(*base, members.iter().copied()))),
        Spec::Heartbeat { f, l, rid, wid, first, last, count } => Box::new(HeartbeatSubmessage::new(*f, *l, eid(rid), eid(wid), *first, *last, *count)),
        Spec::HeartbeatFrag { rid, wid, sn, lastfrag, count } => Box::new(HeartbeatFragSubmessage::_new(eid(rid), eid(wid), *sn, *lastfrag, *count)),
        Spec::InfoDst { prefix } => Box::new(InfoDestinationSubmessage::new(*prefix)),
        Spec::InfoReply { m, uni, multi } => Box::new(InfoReplySubmessage::_new(*m, llist(uni), llist(multi))),
        Spec::InfoSrc { version, vendor, prefix } => Box::new(InfoSourceSubmessage::_new(ProtocolVersion::new(version[0], version[1]), *vendor, *prefix)),
        Spec::InfoTs { inval, sec, frac } => Box::new(InfoTimestampSubmessage::new(*inval, Time::new(*sec, *frac))),
        Spec::NackFrag { rid, wid, sn, base, members, count } => Box::new(NackFragSubmessage::new(eid(rid), eid(wid), *sn, FragmentNumberSet::new(*base, members.iter().copied()), *count)),
        Spec::Pad => Box::new(PadSubmessage::new()),
    }
}

/// RtpsMessageWrite::new(...).buffer() on the real structs
pub fn encode_real(m: &MsgSpec) -> Vec<u8> {
    let header = RtpsMessageHeader::new(ProtocolVersion::new(m.version[0], m.version[1]), m.vendor, m.prefix);
    let boxed: Vec<Box<dyn Submessage + Send>> = m.subs.iter().map(build).collect();
    let refs: Vec<&(dyn Submessage + Send)> = boxed.iter().map(|b| b.as_ref()).collect();
    RtpsMessageWrite::new(&header, &refs).buffer().to_vec()
}

// ------------------------------------------------- big-endian test writer (fixture)
// dust-dds only writes little-endian; to exercise the decoder's big-endian branch the
// same messages are laid out big-endian here (checked against the Coq encoder `enc_* false`).
struct W(Vec<u8>);
impl W {
    fn u16(&mut self, x: u16) {
        self.0.extend_from_slice(&x.to_be_bytes());
    }
    fn u32(&mut self, x: u32) {
        self.0.extend_from_slice(&x.to_be_bytes());
    }
    fn i32(&mut self, x: i32) {
        self.0.extend_from_slice(&x.to_be_bytes());
    }
    fn sn(&mut self, x: i64) {
        self.i32((x >> 32) as i32);
        self.u32(x as u32);
    }
    fn raw(&mut self, b: &[u8]) {
        self.0.extend_from_slice(b);
    }
    fn qos(&mut self, q: &[(i16, Vec<u8>)]) {
        for (id, v) in q {
            let pad = (4 - v.len() % 4) % 4;
            self.u16(*id as u16);
            self.u16((v.len() + pad) as u16);
            self.raw(v);
            self.raw(&vec![0u8; pad]);
        }
        self.u16(1);
        self.raw(&[0, 0]);
    }
    fn locs(&mut self, l: &[Loc]) {
        self.u32(l.len() as u32);
        for x in l {
            self.i32(x.kind);
            self.u32(x.port);
            self.raw(&x.addr);
        }
    }
}
fn set_words(deltas: &[u32]) -> (u32, [i32; 8]) {
    let mut bm = [0i32; 8];
    let mut nb = 0u32;
    for &d in deltas {
        bm[(d / 32) as usize] |= 1 << (31 - d % 32);
        nb = nb.max(d + 1);
    }
    (nb, bm)
}
pub fn encode_be(m: &MsgSpec) -> Vec<u8> {
    let mut out = W(Vec::new());
    out.raw(b"RTPS");
    out.raw(&m.version);
    out.raw(&m.vendor);
    out.raw(&m.prefix);
    for s in &m.subs {
        let mut w = W(Vec::new());
        let (id, fl): (u8, Vec<bool>) = match s {
            Spec::AckNack { f, rid, wid, base, members, count } => {
                w.raw(rid);
                w.raw(wid);
                w.sn(*base);
                let (nb, bm) = set_words(&members.iter().map(|x| (x - base) as u32).collect::<Vec<_>>());
                w.u32(nb);
                for i in 0..nb.div_ceil(32) as usize {
                    w.i32(bm[i]);
                }
                w.i32(*count);
                (0x06, vec![*f])
            }
            Spec::Data { q, d, k, n, rid, wid, sn, qos, payload } => {
                w.u16(0);
                w.u16(16);
                w.raw(rid);
                w.raw(wid);
                w.sn(*sn);
                if *q {
                    w.qos(qos);
                }
                if *d || *k {
                    w.raw(payload);
                }
                (0x15, vec![*q, *d, *k, *n])
            }
            Spec::DataFrag { q, k, n, rid, wid, sn, fstart, fcount, fsize, dsize, qos, payload } => {
                w.u16(0);
                w.u16(28);
                w.raw(rid);
                w.raw(wid);
                w.sn(*sn);
                w.u32(*fstart);
                w.u16(*fcount);
                w.u16(*fsize);
                w.u32(*dsize);
                if *q {
                    w.qos(qos);
                }
                w.raw(payload);
                (0x16, vec![*q, *k, *n])
            }
            Spec::Gap { rid, wid, start, base, members } => {
                w.raw(rid);
                w.raw(wid);
                w.sn(*start);
                w.sn(*base);
                let (nb, bm) = set_words(&members.iter().map(|x| (x - base) as u32).collect::<Vec<_>>());
                w.u32(nb);
                for i in 0..nb.div_ceil(32) as usize {
                    w.i32(bm[i]);
                }
                (0x08, vec![])
            }
            Spec::Heartbeat { f, l, rid, wid, first, last, count } => {
                w.raw(rid);
                w.raw(wid);
                w.sn(*first);
                w.sn(*last);
                w.i32(*count);
                (0x07, vec![*f, *l])
            }
            Spec::HeartbeatFrag { rid, wid, sn, lastfrag, count } => {
                w.raw(rid);
                w.raw(wid);
                w.sn(*sn);
                w.u32(*lastfrag);
                w.i32(*count);
                (0x13, vec![])
            }
            Spec::InfoDst { prefix } => {
                w.raw(prefix);
                (0x0e, vec![])
            }
            Spec::InfoReply { m, uni, multi } => {
                w.locs(uni);
                if *m {
                    w.locs(multi);
                }
                (0x0f, vec![*m])
            }
            Spec::InfoSrc { version, vendor, prefix } => {
                w.u32(0);
                w.raw(version);
                w.raw(vendor);
                w.raw(prefix);
                (0x0c, vec![])
            }
            Spec::InfoTs { inval, sec, frac } => {
                if !*inval {
                    w.u32(*sec);
                    w.u32(*frac);
                }
                (0x09, vec![*inval])
            }
            Spec::NackFrag { rid, wid, sn, base, members, count } => {
                w.raw(rid);
                w.raw(wid);
                w.sn(*sn);
                w.u32(*base);
                let (nb, bm) = set_words(&members.iter().map(|x| x - base).collect::<Vec<_>>());
                w.u32(nb);
                for i in 0..nb.div_ceil(32) as usize {
                    w.i32(bm[i]);
                }
                w.i32(*count);
                (0x12, vec![])
            }
            Spec::Pad => (0x01, vec![]),
        };
        let mut flags = 0u8; // endianness bit clear = big-endian
        for (i, f) in fl.iter().enumerate() {
            if *f {
                flags |= 2 << i;
            }
        }
        out.raw(&[id, flags]);
        out.u16(w.0.len() as u16);
        out.raw(&w.0);
    }
    out.0
}

// ---------------------------------------------------------------- printing
fn fmt_qos(p: &ParameterList) -> String {
    if p.parameter().is_empty() {
        return "-".into();
    }
    p.parameter().iter().map(|x| format!("{}:{}", x.parameter_id(), bx_encode(x.value()).replace('.', "+"))).collect::<Vec<_>>().join(",")
}
fn fmt_locs(l: &LocatorList) -> String {
    if l.value().is_empty() {
        return "-".into();
    }
    l.value().iter().map(|x| format!("{}:{}:{}", x.kind(), x.port(), hexs(&x.address()))).collect::<Vec<_>>().join(",")
}
fn fmt_eid(e: &EntityId) -> String {
    let k = e.entity_key();
    hexs(&[k[0], k[1], k[2], e.entity_kind()])
}

fn fmt_sub(s: &RtpsSubmessageReadKind) -> String {
    match s {
        RtpsSubmessageReadKind::AckNack(a) => {
            let st = a.reader_sn_state();
            format!("AN {} {} {} {} {} {}", b01(a._final_flag()), fmt_eid(a.reader_id()), fmt_eid(a.writer_id()), st.base(), nums(&st.set().collect::<Vec<_>>()), a.count())
        }
        RtpsSubmessageReadKind::Data(d) => format!(
            "DA {}{}{}{} {} {} {} {} {}",
            b01(d._inline_qos_flag()), b01(d._data_flag()), b01(d._key_flag()), b01(d._non_standard_payload_flag()),
            fmt_eid(&d.reader_id()), fmt_eid(&d.writer_id()), d.writer_sn(), fmt_qos(d.inline_qos()), bx_encode(d.serialized_payload().as_ref())
        ),
        RtpsSubmessageReadKind::DataFrag(d) => format!(
            "DF {}{}{} {} {} {} {} {} {} {} {} {}",
            b01(d.inline_qos_flag()), b01(d.key_flag()), b01(d._non_standard_payload_flag()),
            fmt_eid(&d.reader_id()), fmt_eid(&d.writer_id()), d.writer_sn(), d.fragment_starting_num(), d.fragments_in_submessage(),
            d.fragment_size(), d.data_size(), fmt_qos(d.inline_qos()), bx_encode(d.serialized_payload().as_ref())
        ),
        RtpsSubmessageReadKind::Gap(g) => {
            let st = g.gap_list();
            format!("GP {} {} {} {} {}", fmt_eid(&g._reader_id()), fmt_eid(&g.writer_id()), g.gap_start(), st.base(), nums(&st.set().collect::<Vec<_>>()))
        }
        RtpsSubmessageReadKind::Heartbeat(h) => format!("HB {}{} {} {} {} {} {}", b01(h.final_flag()), b01(h.liveliness_flag()), fmt_eid(&h._reader_id()), fmt_eid(&h.writer_id()), h.first_sn(), h.last_sn(), h.count()),
        RtpsSubmessageReadKind::HeartbeatFrag(h) => format!("HF {} {} {} {} {}", fmt_eid(&h._reader_id()), fmt_eid(&h.writer_id()), h._writer_sn(), h._last_fragment_num(), h.count()),
        RtpsSubmessageReadKind::InfoDestination(i) => format!("ID {}", hexs(&i.guid_prefix())),
        RtpsSubmessageReadKind::InfoReply(i) => format!("IR {} {} {}", b01(i._multicast_flag()), fmt_locs(i._unicast_locator_list()), fmt_locs(i._multicast_locator_list())),
        RtpsSubmessageReadKind::InfoSource(i) => {
            let v = i.protocol_version();
            format!("IS {} {} {}", hexs(&[v._major(), v._minor()]), hexs(&i.vendor_id()), hexs(&i.guid_prefix()))
        }
        RtpsSubmessageReadKind::InfoTimestamp(i) => format!("IT {} {} {}", b01(i.invalidate_flag()), i.timestamp().seconds(), i.timestamp().fraction()),
        RtpsSubmessageReadKind::NackFrag(n) => {
            let st = n.fragment_number_state();
            format!("NF {} {} {} {} {} {}", fmt_eid(&n.reader_id()), fmt_eid(&n._writer_id()), n.writer_sn(), st.base(), nums(&st.set().collect::<Vec<_>>()), n.count())
        }
        RtpsSubmessageReadKind::Pad(_) => "PD".to_string(),
    }
}

/// header and every submessage through the public accessors; a panic inside an
/// accessor (the set() iterators add with overflow checks) prints ITERPANIC
pub fn fmt_message(m: &RtpsMessageRead) -> String {
    let h = m.header();
    let v = h.version();
    let mut out = format!("H {} {} {}", hexs(&[v._major(), v._minor()]), hexs(&h.vendor_id()), hexs(&h.guid_prefix()));
    for s in m.submessages() {
        let t = catch_unwind(AssertUnwindSafe(|| fmt_sub(s))).unwrap_or_else(|_| "ITERPANIC".to_string());
        out.push_str(" ; ");
        out.push_str(&t);
    }
    out
}

pub fn err_code(e: &dust_dds::rtps_messages::error::RtpsMessageError) -> i32 {
    use dust_dds::rtps_messages::error::RtpsMessageError::*;
    match e {
        Io => 1,
        InvalidData => 2,
        NotEnoughData => 3,
        UnknownMessage => 4,
    }
}
