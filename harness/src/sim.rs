//! Deterministic whole-stack simulation of dust-dds through its public async API:
//! a hand-driven executor (the worker and listener tasks are polled explicitly), a
//! simulated clock/timer that records every requested delay, and an in-memory
//! network whose datagrams can be dropped, duplicated, held back and reordered.
use dust_dds::infrastructure::time::Time;
use dust_dds::runtime::{Clock, DdsRuntime, Spawner, TaskHandle, Timer};
use dust_dds::transport::interface::{
    RtpsTransportParticipant, TransportDataReceiver, TransportParticipantFactory, WriteMessage,
};
use dust_dds::transport::types::{Locator, LOCATOR_KIND_UDP_V4};
use std::future::Future;
use std::pin::Pin;
use std::sync::atomic::{AtomicBool, Ordering};
use std::sync::{Arc, Mutex};
use std::task::{Context, Poll, Wake, Waker};

type Task = Pin<Box<dyn Future<Output = ()> + Send + 'static>>;

pub struct Packet {
    pub id: u64,
    pub from: usize,
    pub to: usize,
    pub meta: bool,
    pub bytes: Vec<u8>,
    pub held: bool,
}

pub struct Endpoint {
    pub receiver: TransportDataReceiver,
    pub domain_id: i32,
    pub meta_unicast: Locator,
    pub user_unicast: Locator,
    pub meta_multicast: Locator,
    pub alive: bool,
}

#[derive(Default)]
pub struct Shared {
    pub now_ns: Mutex<i64>,
    tasks: Mutex<Vec<Option<Task>>>,
    spawned: Mutex<Vec<Task>>,
    woken: AtomicBool,
    /// every delay the code under test asked the timer for: (time of request, nanoseconds)
    pub delays: Mutex<Vec<(i64, u128)>>,
    deadlines: Mutex<Vec<(u64, i64)>>,
    next_id: Mutex<u64>,
    pub endpoints: Mutex<Vec<Endpoint>>,
    pub inflight: Mutex<Vec<Packet>>,
    pub fragment_size: Mutex<usize>,
    pub sent_log: Mutex<Vec<(usize, usize, bool, Vec<u8>)>>,
}

impl Shared {
    fn fresh_id(&self) -> u64 {
        let mut g = self.next_id.lock().unwrap();
        *g += 1;
        *g
    }
}

struct Flag(Arc<Shared>);
impl Wake for Flag {
    fn wake(self: Arc<Self>) {
        self.0.woken.store(true, Ordering::SeqCst);
    }
    fn wake_by_ref(self: &Arc<Self>) {
        self.0.woken.store(true, Ordering::SeqCst);
    }
}

#[derive(Clone)]
pub struct SimClock(Arc<Shared>);
impl Clock for SimClock {
    fn now(&self) -> Time {
        let n = *self.0.now_ns.lock().unwrap();
        Time::new((n / 1_000_000_000) as i32, (n % 1_000_000_000) as u32)
    }
}

#[derive(Clone)]
pub struct SimTimer(Arc<Shared>);
pub struct SimDelay {
    shared: Arc<Shared>,
    id: u64,
    deadline: i64,
}
impl Future for SimDelay {
    type Output = ();
    fn poll(self: Pin<&mut Self>, _cx: &mut Context<'_>) -> Poll<()> {
        if *self.shared.now_ns.lock().unwrap() >= self.deadline {
            Poll::Ready(())
        } else {
            Poll::Pending
        }
    }
}
impl Drop for SimDelay {
    fn drop(&mut self) {
        self.shared.deadlines.lock().unwrap().retain(|(i, _)| *i != self.id);
    }
}
impl Timer for SimTimer {
    fn delay(&mut self, duration: core::time::Duration) -> impl Future<Output = ()> + Send {
        let now = *self.0.now_ns.lock().unwrap();
        let ns = duration.as_nanos();
        self.0.delays.lock().unwrap().push((now, ns));
        let deadline = if ns > (i64::MAX - now) as u128 { i64::MAX } else { now + ns as i64 };
        let id = self.0.fresh_id();
        self.0.deadlines.lock().unwrap().push((id, deadline));
        SimDelay { shared: self.0.clone(), id, deadline }
    }
}

#[derive(Clone)]
pub struct SimSpawner(Arc<Shared>);
pub struct SimTaskHandle;
impl TaskHandle for SimTaskHandle {
    fn join(&self) {}
}
impl Spawner for SimSpawner {
    type TaskHandle = SimTaskHandle;
    fn spawn(&self, f: impl Future<Output = ()> + Send + 'static) -> SimTaskHandle {
        self.0.spawned.lock().unwrap().push(Box::pin(f));
        self.0.woken.store(true, Ordering::SeqCst);
        SimTaskHandle
    }
}

pub struct SimRuntime(pub Arc<Shared>);
impl DdsRuntime for SimRuntime {
    type ClockHandle = SimClock;
    type TimerHandle = SimTimer;
    type SpawnerHandle = SimSpawner;
    fn timer(&self) -> SimTimer {
        SimTimer(self.0.clone())
    }
    fn clock(&self) -> SimClock {
        SimClock(self.0.clone())
    }
    fn spawner(&self) -> SimSpawner {
        SimSpawner(self.0.clone())
    }
}

// ------------------------------------------------------------------ network
struct SimWriter {
    shared: Arc<Shared>,
    me: usize,
}
impl WriteMessage for SimWriter {
    fn write_message(&self, buf: &[u8], locators: &[Locator]) {
        let eps = self.shared.endpoints.lock().unwrap();
        let mut out = self.shared.inflight.lock().unwrap();
        let mut seen: Vec<(usize, bool)> = vec![];
        for l in locators {
            for (i, e) in eps.iter().enumerate() {
                if !e.alive {
                    continue;
                }
                let meta = *l == e.meta_unicast || *l == e.meta_multicast;
                if meta || *l == e.user_unicast {
                    // one UDP datagram per (locator, receiver); the same receiver reached through
                    // two locators of the list gets it twice, exactly as with real sockets
                    let _ = &mut seen;
                    let id = self.shared.fresh_id();
                    self.shared.sent_log.lock().unwrap().push((self.me, i, meta, buf.to_vec()));
                    out.push(Packet { id, from: self.me, to: i, meta, bytes: buf.to_vec(), held: false });
                }
            }
        }
    }
}

pub struct SimTransport(pub Arc<Shared>);
fn addr(last: [u8; 4]) -> [u8; 16] {
    let mut a = [0u8; 16];
    a[12..16].copy_from_slice(&last);
    a
}
impl TransportParticipantFactory for SimTransport {
    fn create_participant(&self, domain_id: i32, data_receiver: TransportDataReceiver) -> RtpsTransportParticipant {
        let mut eps = self.0.endpoints.lock().unwrap();
        let p = eps.len();
        let base = 7400 + 250 * domain_id as u32;
        let meta_multicast = Locator::new(LOCATOR_KIND_UDP_V4, base, addr([239, 255, 0, 1]));
        let meta_unicast = Locator::new(LOCATOR_KIND_UDP_V4, base + 10 + 2 * p as u32, addr([127, 0, 0, 1]));
        let user_unicast = Locator::new(LOCATOR_KIND_UDP_V4, base + 11 + 2 * p as u32, addr([127, 0, 0, 1]));
        eps.push(Endpoint { receiver: data_receiver, domain_id, meta_unicast, user_unicast, meta_multicast, alive: true });
        RtpsTransportParticipant {
            message_writer: Box::new(SimWriter { shared: self.0.clone(), me: p }),
            default_unicast_locator_list: vec![user_unicast],
            metatraffic_unicast_locator_list: vec![meta_unicast],
            metatraffic_multicast_locator_list: vec![meta_multicast],
            default_multicast_locator_list: vec![],
            fragment_size: *self.0.fragment_size.lock().unwrap(),
        }
    }
}

// ----------------------------------------------------------------- executor
pub struct Sim {
    pub shared: Arc<Shared>,
    /// one waker for everything: channel implementations wake the previously registered
    /// waker when a *different* one is registered, which would defeat quiescence detection
    the_waker: Waker,
}

#[derive(Debug)]
pub struct Stuck;

impl Sim {
    pub fn new(fragment_size: usize) -> Self {
        let shared = Arc::new(Shared::default());
        *shared.fragment_size.lock().unwrap() = fragment_size;
        *shared.now_ns.lock().unwrap() = 1_000_000_000; // start at t = 1 s
        let the_waker = Waker::from(Arc::new(Flag(shared.clone())));
        Sim { shared, the_waker }
    }
    pub fn now(&self) -> i64 {
        *self.shared.now_ns.lock().unwrap()
    }
    fn waker(&self) -> Waker {
        self.the_waker.clone()
    }
    /// Polls every spawned task once. Returns true if something may have progressed.
    fn poll_tasks(&self) {
        loop {
            let newly: Vec<Task> = std::mem::take(&mut *self.shared.spawned.lock().unwrap());
            if newly.is_empty() {
                break;
            }
            let mut t = self.shared.tasks.lock().unwrap();
            for n in newly {
                t.push(Some(n));
            }
        }
        let n = self.shared.tasks.lock().unwrap().len();
        let w = self.waker();
        let mut cx = Context::from_waker(&w);
        for i in 0..n {
            let task = self.shared.tasks.lock().unwrap()[i].take();
            if let Some(mut t) = task {
                match t.as_mut().poll(&mut cx) {
                    Poll::Ready(()) => {}
                    Poll::Pending => {
                        self.shared.tasks.lock().unwrap()[i] = Some(t);
                    }
                }
            }
        }
    }
    /// Runs all tasks at the current simulated time until nothing is woken any more.
    pub fn settle(&self) {
        for _ in 0..100_000 {
            self.shared.woken.store(false, Ordering::SeqCst);
            self.poll_tasks();
            if !self.shared.woken.load(Ordering::SeqCst) && self.shared.spawned.lock().unwrap().is_empty() {
                return;
            }
        }
        panic!("settle did not quiesce");
    }
    fn next_deadline(&self) -> Option<i64> {
        let now = self.now();
        self.shared.deadlines.lock().unwrap().iter().map(|(_, d)| *d).filter(|d| *d > now).min()
    }
    /// Advances simulated time by `dt` ns, waking the tasks at every timer deadline on the way.
    pub fn advance(&self, dt: i64) {
        let target = self.now().saturating_add(dt);
        loop {
            self.settle();
            let next = match self.next_deadline() {
                Some(d) if d < target => d,
                _ => target,
            };
            *self.shared.now_ns.lock().unwrap() = next;
            self.settle();
            if next >= target {
                break;
            }
        }
    }
    /// Drives `fut` to completion, polling the worker in between; if nothing can progress at
    /// the current time the clock is moved to the next timer deadline (at most `budget` ns).
    pub fn run<F: Future>(&self, fut: F, budget: i64) -> Result<F::Output, Stuck> {
        let mut fut = std::pin::pin!(fut);
        let w = self.waker();
        let mut cx = Context::from_waker(&w);
        let limit = self.now().saturating_add(budget);
        for _ in 0..1_000_000 {
            self.shared.woken.store(false, Ordering::SeqCst);
            if let Poll::Ready(v) = fut.as_mut().poll(&mut cx) {
                return Ok(v);
            }
            self.poll_tasks();
            if self.shared.woken.load(Ordering::SeqCst) || !self.shared.spawned.lock().unwrap().is_empty() {
                continue;
            }
            // quiescent: let time pass
            match self.next_deadline() {
                Some(d) if d <= limit => {
                    *self.shared.now_ns.lock().unwrap() = d;
                }
                _ => return Err(Stuck),
            }
        }
        Err(Stuck)
    }

    // -------------------------------------------------------------- network ops
    /// Delivers packet `idx` of the in-flight list (removing it).
    pub fn deliver_at(&self, idx: usize) {
        let p = self.shared.inflight.lock().unwrap().remove(idx);
        self.deliver_packet(&p);
    }
    pub fn deliver_packet(&self, p: &Packet) {
        let recv = {
            let eps = self.shared.endpoints.lock().unwrap();
            if !eps[p.to].alive {
                return;
            }
            eps[p.to].receiver.clone()
        };
        let _ = self.run(recv.receive_message(p.bytes.clone()), 0);
        self.settle();
    }
    /// Delivers everything deliverable (not held), FIFO, including replies generated on the
    /// way, until the network is empty or `max` packets were delivered.  `filter` decides per
    /// packet: 0 deliver, 1 drop, 2 duplicate (deliver twice), 3 hold back.
    pub fn pump(&self, max: usize, filter: &mut dyn FnMut(&Packet) -> u8) -> usize {
        let mut n = 0;
        self.settle();
        loop {
            let next = {
                let mut q = self.shared.inflight.lock().unwrap();
                match q.iter().position(|p| !p.held) {
                    Some(i) => Some(q.remove(i)),
                    None => None,
                }
            };
            let Some(mut p) = next else { break };
            match filter(&p) {
                1 => {}
                2 => {
                    self.deliver_packet(&p);
                    self.deliver_packet(&p);
                }
                3 => {
                    p.held = true;
                    self.shared.inflight.lock().unwrap().push(p);
                }
                _ => self.deliver_packet(&p),
            }
            n += 1;
            if n >= max {
                break;
            }
        }
        n
    }
    pub fn release_held(&self) {
        for p in self.shared.inflight.lock().unwrap().iter_mut() {
            p.held = false;
        }
    }
}
