//! vh — helpers shared by the per-property harness binaries (src/bin/cXX.rs).
//! Each binary reads one case per stdin line, runs the REAL dust-dds code on it
//! and prints exactly one canonical result line per case.
use std::io::{BufRead, Write};
use std::panic::{catch_unwind, AssertUnwindSafe};

pub mod util;
pub mod sim;

/// Runs `f` on every non-empty stdin line; a panic inside `f` prints `PANIC`.
pub fn main_loop(f: fn(&str) -> String) {
    std::panic::set_hook(Box::new(|_| {}));
    let stdin = std::io::stdin();
    let stdout = std::io::stdout();
    let mut out = stdout.lock();
    for line in stdin.lock().lines() {
        let line = line.unwrap();
        if line.trim().is_empty() {
            continue;
        }
        let r = catch_unwind(AssertUnwindSafe(|| f(&line)));
        match r {
            Ok(s) => writeln!(out, "{}", s.replace('\n', " ")).unwrap(),
            Err(_) => writeln!(out, "PANIC").unwrap(),
        }
        out.flush().unwrap();
    }
}

/// Like `main_loop` but reports where the panic happened: `PANIC file:line`.
pub fn main_loop_sites(f: fn(&str) -> String) {
    use std::sync::Mutex;
    static SITE: Mutex<String> = Mutex::new(String::new());
    std::panic::set_hook(Box::new(|info| {
        let s = info.location().map(|l| format!("{}:{}", l.file(), l.line())).unwrap_or_default();
        *SITE.lock().unwrap() = s;
    }));
    let stdin = std::io::stdin();
    let stdout = std::io::stdout();
    let mut out = stdout.lock();
    for line in stdin.lock().lines() {
        let line = line.unwrap();
        if line.trim().is_empty() {
            continue;
        }
        let r = catch_unwind(AssertUnwindSafe(|| f(&line)));
        match r {
            Ok(s) => writeln!(out, "{}", s.replace('\n', " ")).unwrap(),
            Err(_) => writeln!(out, "PANIC {}", SITE.lock().unwrap()).unwrap(),
        }
        out.flush().unwrap();
    }
}
