//! vh — drives the real dust-dds code on one case per input line and prints one
//! canonical result line per case.  `vh <sub>` reads cases from stdin.
use std::io::{BufRead, Write};
use std::panic::{catch_unwind, AssertUnwindSafe};

mod c14;
pub mod util;

fn main() {
    let args: Vec<String> = std::env::args().collect();
    let sub = args.get(1).map(|s| s.as_str()).unwrap_or("");
    std::panic::set_hook(Box::new(|_| {}));
    let f: fn(&str) -> String = match sub {
        "c14" => c14::run_line,
        _ => {
            eprintln!("unknown subcommand {sub}");
            std::process::exit(2);
        }
    };
    let stdin = std::io::stdin();
    let stdout = std::io::stdout();
    let mut out = stdout.lock();
    for line in stdin.lock().lines() {
        let line = line.unwrap();
        if line.trim().is_empty() {
            continue;
        }
        let r = catch_unwind(AssertUnwindSafe(|| f(&line)));
        match r {
            Ok(s) => writeln!(out, "{}", s).unwrap(),
            Err(_) => writeln!(out, "PANIC").unwrap(),
        }
        out.flush().unwrap();
    }
}
