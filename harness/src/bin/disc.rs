//! Discovery scenarios (C16 matched status, C17 participant discovery / lease) over the
//! simulated stack (see vh::sim).  COPY of bin/sim.rs with discovery ops added.  One scenario
//! per stdin line, ops separated by ';'.  Because the factory owns a process-wide static
//! channel, every scenario runs in a fresh child process (`disc --one`).
//!
//! added ops:
//!   qR <r> dl=<ns|-1> lb=<ns> ud=<byte>      set_qos on reader r (get_qos, change the given policies, set_qos)
//!   qW <w> dl=<ns|-1> lb=<ns> ud=<byte>      set_qos on writer w
//!   ms <w> | mp <r>                          get_matched_subscriptions / publications (storage order; r<i>/w<i> or x<hex>)
//!   dp <p>                                   get_discovered_participants of p (storage order, participant indices)
//!   ign <p> <q>                              participant p ignores participant q
//!   mute <p> <0|1>                           1: every datagram sent by p is dropped at delivery time
//!   mfault <drop|dup|hold> <from|-1> <to|-1> <SPDP|SEDP|ANY> <times|-1>   rule on METAtraffic datagrams
//!   lease <p> <ns>                           rewrite PID_PARTICIPANT_LEASE_DURATION in SPDP datagrams sent by p
//!   xdeliver <q> <p>                         deliver the latest SPDP announcement of q to p (any domain)
//!   a scenario whose worker never leaves a zero-delay loop is finished in "stuck" mode (zero delays served as
//!   50 ms) and its line ends with `| STUCK zero-delay-spin`; after 10 000 zero delays in a row, 20 s CPU or
//!   60 s wall time the child prints `HANG ...` and exits
//!   jump <ns>                                set the clock forward by ns in ONE step (one worker wake), then settle
//!   wake <p>                                 force one worker iteration now (API call on p); reports clock bumps
//!   now                                      simulated clock
//!   # <text>                                 comment (props/*.py keep the structured case there); output "#"
//!   dst <w>                                  destinations (participant:reader) of DATA/HEARTBEAT/GAP sent by writer w since the last dst/sent
//!   net additionally reports the delivered metatraffic: S<q>><p> SPDP data, X<q>><p> SPDP dispose/unregister,
//!       E<q>><p> other DATA-carrying metatraffic, U<q>><p> user DATA
//!
//! ops (indices refer to creation order of each entity kind, starting at 0):
//!   cfg frag=<n> tag=<s> ann=<ms>           (before creating participants)
//!   P <domain>                               create participant
//!   T <p> <name>                             create topic (type KeyedData)
//!   PUB <p> | SUB <p>
//!   W <pub> <topic> k=v...                   rel dur hist ms mi mspi dl ls mbt own str en
//!   R <sub> <topic> k=v...                   rel dur hist ms mi mspi dl own sep ord
//!   w <writer> <key> <len> <seed> [ts_ns]    write          d / u <writer> <key>  dispose / unregister
//!   t <reader> <max> | r <reader> <max>      take / read (any state)
//!   adv <ns>                                 advance simulated time
//!   net [max]                                deliver in-flight datagrams (fault rules apply)
//!   fault <drop|dup|hold> <kind> <sn> <frag> <times>   rule on USER traffic (kind DATA DATA_FRAG HEARTBEAT ACKNACK GAP NACK_FRAG ANY; -1 = any)
//!   rel                                      release held datagrams
//!   wfa <writer> <budget_ns>                 wait_for_acknowledgments
//!   wfh <reader> <budget_ns>                 wait_for_historical_data
//!   pm <writer> | sm <reader>                matched statuses
//!   delays                                   count and maximum of the timer delays requested so far
//!   delW <w> | delR <r> | delPUB <i> | delSUB <i> | delT <i> | delP <i> | delall <p>
//!   inject <p> <meta 0|1> <hex>              hand a raw datagram to participant p
//!   sent                                     summary of user datagrams sent since the last `sent`
use dust_dds::dds_async::data_reader::DataReaderAsync;
use dust_dds::dds_async::data_writer::DataWriterAsync;
use dust_dds::dds_async::domain_participant::DomainParticipantAsync;
use dust_dds::dds_async::domain_participant_factory::DomainParticipantFactoryAsync;
use dust_dds::dds_async::publisher::PublisherAsync;
use dust_dds::dds_async::subscriber::SubscriberAsync;
use dust_dds::dds_async::topic::TopicAsync;
use dust_dds::dds_async::topic_description::TopicDescriptionAsync;
use dust_dds::infrastructure::error::{DdsError, DdsResult};
use dust_dds::infrastructure::qos::{DataReaderQos, DataWriterQos, QosKind};
use dust_dds::infrastructure::qos_policy::*;
use dust_dds::infrastructure::sample_info::{
    InstanceStateKind, ANY_INSTANCE_STATE, ANY_SAMPLE_STATE, ANY_VIEW_STATE,
};
use dust_dds::infrastructure::time::{Duration, DurationKind, Time};
use dust_dds::infrastructure::type_support::DdsType;
use dust_dds::rtps_messages::overall_structure::{RtpsMessageRead, RtpsSubmessageReadKind};
use std::collections::HashMap;
use std::io::{BufRead, Write};
use vh::sim::{Packet, Sim, SimRuntime, SimTransport};

#[derive(DdsType, Debug, Clone, PartialEq)]
struct KeyedData {
    #[dust_dds(key)]
    id: u8,
    value: Vec<u8>,
}

fn err_code(e: &DdsError) -> i32 {
    match e {
        DdsError::Error(_) => 1,
        DdsError::Unsupported => 2,
        DdsError::BadParameter => 3,
        DdsError::PreconditionNotMet(_) => 4,
        DdsError::OutOfResources => 5,
        DdsError::NotEnabled => 6,
        DdsError::ImmutablePolicy => 7,
        DdsError::InconsistentPolicy => 8,
        DdsError::AlreadyDeleted => 9,
        DdsError::Timeout => 10,
        DdsError::NoData => 11,
        DdsError::IllegalOperation => 12,
    }
}
fn rc<T>(r: &DdsResult<T>) -> String {
    match r {
        Ok(_) => "0".into(),
        Err(e) => format!("E{}", err_code(e)),
    }
}
fn kv(tokens: &[&str]) -> HashMap<String, i64> {
    let mut m = HashMap::new();
    for t in tokens {
        if let Some((k, v)) = t.split_once('=') {
            if let Ok(v) = v.parse::<i64>() {
                m.insert(k.to_string(), v);
            }
        }
    }
    m
}
fn dk(ns: i64) -> DurationKind {
    if ns < 0 {
        DurationKind::Infinite
    } else {
        DurationKind::Finite(Duration::new((ns / 1_000_000_000) as i32, (ns % 1_000_000_000) as u32))
    }
}
fn len(v: i64) -> Length {
    if v < 0 { Length::Unlimited } else { Length::Limited(v as i32) }
}
fn payload(n: usize, seed: u64) -> Vec<u8> {
    let mut x = seed.wrapping_mul(6364136223846793005).wrapping_add(1442695040888963407);
    (0..n)
        .map(|_| {
            x = x.wrapping_mul(6364136223846793005).wrapping_add(1442695040888963407);
            (x >> 33) as u8
        })
        .collect()
}
fn checksum(b: &[u8]) -> u64 {
    let mut h: u64 = 1469598103934665603;
    for x in b {
        h ^= *x as u64;
        h = h.wrapping_mul(1099511628211);
    }
    h % 1_000_000_007
}

#[derive(Clone)]
struct Rule {
    action: u8,
    kind: String,
    sn: i64,
    frag: i64,
    times: i64,
}

/// (kind, writer entity key, sn, first fragment) of every submessage in a datagram
fn summarize(bytes: &[u8]) -> Vec<(String, u32, i64, i64)> {
    let mut v = vec![];
    if let Ok(m) = RtpsMessageRead::try_from(bytes) {
        for s in m.submessages() {
            let key = |e: dust_dds::transport::types::EntityId| {
                let k = e.entity_key();
                ((k[0] as u32) << 16) | ((k[1] as u32) << 8) | k[2] as u32
            };
            match s {
                RtpsSubmessageReadKind::Data(d) => v.push(("DATA".into(), key(d.writer_id()), d.writer_sn(), 0)),
                RtpsSubmessageReadKind::DataFrag(d) => {
                    v.push(("DATA_FRAG".into(), key(d.writer_id()), d.writer_sn(), d.fragment_starting_num() as i64))
                }
                RtpsSubmessageReadKind::Heartbeat(h) => v.push(("HEARTBEAT".into(), key(h.writer_id()), h.last_sn(), h.first_sn())),
                RtpsSubmessageReadKind::AckNack(a) => v.push(("ACKNACK".into(), key(*a.writer_id()), a.reader_sn_state().base(), 0)),
                RtpsSubmessageReadKind::Gap(g) => v.push(("GAP".into(), key(g.writer_id()), g.gap_start(), g.gap_list().base())),
                RtpsSubmessageReadKind::NackFrag(n) => v.push(("NACK_FRAG".into(), key(n._writer_id()), n.writer_sn(), 0)),
                _ => {}
            }
        }
    }
    v
}

/// minimal RTPS datagram walker, independent of the crate's message API:
/// (submessage id, reader entity id, writer entity id, sn, flags, payload offset) per submessage
fn raw_submessages(b: &[u8]) -> Vec<(u8, [u8; 4], [u8; 4], i64, u8, usize, usize)> {
    let mut v = vec![];
    if b.len() < 20 || &b[0..4] != b"RTPS" {
        return v;
    }
    let mut i = 20;
    while i + 4 <= b.len() {
        let id = b[i];
        let fl = b[i + 1];
        let le = fl & 1 == 1;
        let rd16 = |o: usize| -> usize {
            if le { u16::from_le_bytes([b[o], b[o + 1]]) as usize } else { u16::from_be_bytes([b[o], b[o + 1]]) as usize }
        };
        let rd32 = |o: usize| -> i64 {
            let x = [b[o], b[o + 1], b[o + 2], b[o + 3]];
            (if le { u32::from_le_bytes(x) } else { u32::from_be_bytes(x) }) as i64
        };
        let mut len = rd16(i + 2);
        let body = i + 4;
        if len == 0 && id != 0x01 && id != 0x09 {
            len = b.len() - body;
        }
        if body + len > b.len() {
            break;
        }
        let e4 = |o: usize| -> [u8; 4] { [b[o], b[o + 1], b[o + 2], b[o + 3]] };
        match id {
            0x15 | 0x16 if len >= 20 => {
                let sn = (rd32(body + 12) << 32) | rd32(body + 16);
                let o2q = rd16(body + 2);
                v.push((id, e4(body + 4), e4(body + 8), sn, fl, body + 4 + o2q, body + len));
            }
            0x07 if len >= 24 => {
                let sn = (rd32(body + 16) << 32) | rd32(body + 20);
                v.push((id, e4(body), e4(body + 4), sn, fl, 0, 0));
            }
            0x06 | 0x08 | 0x12 if len >= 8 => v.push((id, e4(body), e4(body + 4), 0, fl, 0, 0)),
            _ => {}
        }
        i = body + len;
    }
    v
}
/// Runtime wrapper: identical to SimRuntime except that the timer notices when the code under
/// test asks for a ZERO delay over and over at one frozen simulated instant (the worker does this
/// when `now - last_communication == lease_duration` exactly: time_until_stale_participant is 0 but
/// remove_stale_participants needs `>`).  With a real clock such a busy loop ends when the clock
/// ticks; here the clock is moved by 1 ns after 64 consecutive zero delays and the event is counted.
#[derive(Default)]
struct SpinState {
    at: i64,
    count: u32,
    spins: u32,
    /// consecutive zero-delay requests (reset by any non-zero request)
    run: u32,
    /// the worker could not get out of a zero-delay loop although the clock kept moving: from
    /// then on a zero delay is served as the 50 ms poke, so that the scenario can be finished and
    /// its observations judged; the output line is marked `STUCK zero-delay-spin`
    stuck: bool,
}
/// zero-delay requests in a row after which the worker is declared stuck (a legitimate spin at the
/// lease boundary ends after 64), and after which the scenario is given up as `HANG zero-delay-spin`
const SPIN_SOFT: u32 = 2_000;
const SPIN_HARD: u32 = 10_000;
#[derive(Clone)]
struct DiscTimer {
    inner: vh::sim::SimTimer,
    shared: std::sync::Arc<vh::sim::Shared>,
    spin: std::sync::Arc<std::sync::Mutex<SpinState>>,
}
impl dust_dds::runtime::Timer for DiscTimer {
    fn delay(&mut self, duration: core::time::Duration) -> impl std::future::Future<Output = ()> + Send {
        let mut duration = duration;
        if duration.as_nanos() == 0 {
            let mut now = self.shared.now_ns.lock().unwrap();
            let mut st = self.spin.lock().unwrap();
            st.run += 1;
            if st.run >= SPIN_HARD {
                println!("HANG zero-delay-spin");
                std::process::exit(4);
            }
            if st.run >= SPIN_SOFT {
                st.stuck = true;
            }
            if st.stuck {
                duration = core::time::Duration::from_millis(50);
            } else {
                if st.at == *now {
                    st.count += 1;
                } else {
                    st.at = *now;
                    st.count = 1;
                }
                if st.count >= 64 {
                    *now += 1;
                    st.spins += 1;
                    st.count = 0;
                }
            }
        } else {
            self.spin.lock().unwrap().run = 0;
        }
        self.inner.delay(duration)
    }
}
struct DiscRuntime(std::sync::Arc<vh::sim::Shared>, std::sync::Arc<std::sync::Mutex<SpinState>>);
impl dust_dds::runtime::DdsRuntime for DiscRuntime {
    type ClockHandle = vh::sim::SimClock;
    type TimerHandle = DiscTimer;
    type SpawnerHandle = vh::sim::SimSpawner;
    fn timer(&self) -> DiscTimer {
        DiscTimer { inner: SimRuntime(self.0.clone()).timer(), shared: self.0.clone(), spin: self.1.clone() }
    }
    fn clock(&self) -> vh::sim::SimClock {
        SimRuntime(self.0.clone()).clock()
    }
    fn spawner(&self) -> vh::sim::SimSpawner {
        SimRuntime(self.0.clone()).spawner()
    }
}

const SPDP_WRITER: [u8; 4] = [0x00, 0x01, 0x00, 0xc2];
/// class of a metatraffic datagram: 'S' SPDP data, 'X' SPDP dispose/unregister, 'E' other DATA, 'h' no DATA at all
fn meta_class(b: &[u8]) -> char {
    let mut c = 'h';
    for (id, _r, w, _sn, fl, _, _) in raw_submessages(b) {
        if id == 0x15 || id == 0x16 {
            if w == SPDP_WRITER {
                // DATA flags: bit2 = data present, bit3 = key present
                return if id == 0x15 && fl & 0x04 == 0 { 'X' } else { 'S' };
            }
            c = 'E';
        }
    }
    c
}
fn user_has_data(b: &[u8]) -> bool {
    raw_submessages(b).iter().any(|x| x.0 == 0x15 || x.0 == 0x16)
}
/// rewrites the lease duration parameter (PID 0x0002, length 8: sec i32, nanosec u32, LE) of an SPDP DATA
fn patch_lease(b: &mut [u8], ns: i64) -> bool {
    let subs = raw_submessages(b);
    for (id, _r, w, _sn, fl, p0, p1) in subs {
        if id == 0x15 && w == SPDP_WRITER && fl & 0x04 != 0 && p1 >= 16 && p0 < p1 {
            let mut j = p1 - 16;
            while j >= p0 {
                if b[j..j + 4] == [0x02, 0x00, 0x08, 0x00] && b[j + 12..j + 16] == [0x01, 0x00, 0x00, 0x00] {
                    let sec = (ns / 1_000_000_000) as i32;
                    let nano = (ns % 1_000_000_000) as u32;
                    b[j + 4..j + 8].copy_from_slice(&sec.to_le_bytes());
                    b[j + 8..j + 12].copy_from_slice(&nano.to_le_bytes());
                    return true;
                }
                if j < 4 {
                    break;
                }
                j -= 4;
            }
        }
    }
    false
}

#[derive(Clone)]
struct MetaRule {
    action: u8,
    from: i64,
    to: i64,
    class: String,
    times: i64,
}

struct World {
    muted: Vec<usize>,
    mrules: Vec<MetaRule>,
    leases: HashMap<usize, i64>,
    net_log: Vec<String>,
    spin: std::sync::Arc<std::sync::Mutex<SpinState>>,
    sim: Sim,
    factory: DomainParticipantFactoryAsync<SimTransport>,
    parts: Vec<DomainParticipantAsync>,
    topics: Vec<TopicAsync>,
    pubs: Vec<PublisherAsync>,
    subs: Vec<SubscriberAsync>,
    writers: Vec<DataWriterAsync<KeyedData>>,
    readers: Vec<DataReaderAsync<KeyedData>>,
    rules: Vec<Rule>,
    sent_mark: usize,
}

const BUDGET: i64 = 2_000_000_000;

impl World {
    fn user_filter(rules: &mut Vec<Rule>, p: &Packet) -> u8 {
        let subs = summarize(&p.bytes);
        for r in rules.iter_mut() {
            if r.times == 0 {
                continue;
            }
            let hit = subs.iter().any(|(k, _, sn, frag)| {
                (r.kind == "ANY" || &r.kind == k) && (r.sn < 0 || r.sn == *sn) && (r.frag < 0 || r.frag == *frag)
            });
            if hit {
                if r.times > 0 {
                    r.times -= 1;
                }
                return r.action;
            }
        }
        0
    }

    /// decision for one datagram (0 deliver, 1 drop, 2 duplicate, 3 hold); may rewrite the lease
    fn decide(&mut self, p: &mut Packet) -> u8 {
        if self.muted.contains(&p.from) {
            return 1;
        }
        if !p.meta {
            return World::user_filter(&mut self.rules, p);
        }
        let class = meta_class(&p.bytes);
        if class == 'S' {
            if let Some(ns) = self.leases.get(&p.from) {
                patch_lease(&mut p.bytes, *ns);
            }
        }
        for r in self.mrules.iter_mut() {
            if r.times == 0 {
                continue;
            }
            let c = match r.class.as_str() {
                "SPDP" => class == 'S' || class == 'X',
                "SEDP" => class == 'E' || class == 'h',
                _ => true,
            };
            if c && (r.from < 0 || r.from as usize == p.from) && (r.to < 0 || r.to as usize == p.to) {
                if r.times > 0 {
                    r.times -= 1;
                }
                return r.action;
            }
        }
        0
    }

    fn log_delivery(&mut self, p: &Packet) {
        if !self.sim.shared.endpoints.lock().unwrap()[p.to].alive {
            return;
        }
        if p.meta {
            let c = meta_class(&p.bytes);
            if c != 'h' {
                self.net_log.push(format!("{}{}>{}", c, p.from, p.to));
            }
        } else if user_has_data(&p.bytes) {
            self.net_log.push(format!("U{}>{}", p.from, p.to));
        }
    }

    /// own pump (the library pump cannot rewrite datagrams): FIFO over the not-held packets
    fn pump(&mut self, max: usize) -> usize {
        let mut n = 0;
        self.sim.settle();
        loop {
            let next = {
                let mut q = self.sim.shared.inflight.lock().unwrap();
                match q.iter().position(|p| !p.held) {
                    Some(i) => Some(q.remove(i)),
                    None => None,
                }
            };
            let Some(mut p) = next else { break };
            match self.decide(&mut p) {
                1 => {}
                2 => {
                    self.log_delivery(&p);
                    self.sim.deliver_packet(&p);
                    self.log_delivery(&p);
                    self.sim.deliver_packet(&p);
                }
                3 => {
                    p.held = true;
                    self.sim.shared.inflight.lock().unwrap().push(p);
                }
                _ => {
                    self.log_delivery(&p);
                    self.sim.deliver_packet(&p);
                }
            }
            n += 1;
            if n >= max {
                break;
            }
        }
        n
    }

    fn reader_name(&self, h: &[u8; 16]) -> String {
        for (i, r) in self.readers.iter().enumerate() {
            if <[u8; 16]>::from(r.get_instance_handle()) == *h {
                return format!("r{}", i);
            }
        }
        for (i, w) in self.writers.iter().enumerate() {
            if <[u8; 16]>::from(w.get_instance_handle()) == *h {
                return format!("w{}", i);
            }
        }
        for (i, p) in self.parts.iter().enumerate() {
            if <[u8; 16]>::from(p.get_instance_handle()) == *h {
                return format!("p{}", i);
            }
        }
        format!("x{}", vh::util::to_hex(&h[8..16]))
    }

    fn op(&mut self, op: &str) -> String {
        let t: Vec<&str> = op.split_whitespace().collect();
        if t.is_empty() {
            return String::new();
        }
        let n = |i: usize| -> i64 { t.get(i).and_then(|x| x.parse::<i64>().ok()).unwrap_or(0) };
        let u = |i: usize| -> usize { n(i) as usize };
        if t[0].starts_with('#') {
            return "#".into();
        }
        match t[0] {
            "cfg" => {
                let m = kv(&t[1..]);
                if let Some(f) = m.get("frag") {
                    *self.sim.shared.fragment_size.lock().unwrap() = *f as usize;
                }
                let tag = t.iter().find_map(|x| x.strip_prefix("tag=")).map(|s| s.to_string());
                let ann = m.get("ann").copied();
                if tag.is_some() || ann.is_some() {
                    let mut b = dust_dds::dds_async::configuration::DustDdsConfigurationBuilder::new();
                    if let Some(tg) = tag {
                        b = b.domain_tag(tg);
                    }
                    if let Some(a) = ann {
                        b = b.participant_announcement_interval(core::time::Duration::from_millis(a as u64));
                    }
                    let c = b.build().unwrap();
                    let f = &self.factory;
                    let _ = self.sim.run(async { *f.get_mut_configuration().await = c; }, BUDGET);
                }
                "c".into()
            }
            "P" => {
                let f = &self.factory;
                let r = self.sim.run(f.create_participant(n(1) as i32, QosKind::Default, None::<()>, &[]), BUDGET);
                self.sim.settle();
                match r {
                    Ok(Ok(p)) => {
                        self.parts.push(p);
                        "P 0".into()
                    }
                    Ok(Err(e)) => format!("P E{}", err_code(&e)),
                    Err(_) => "P STUCK".into(),
                }
            }
            "T" => {
                let p = &self.parts[u(1)];
                let name = t.get(2).copied().unwrap_or("topic");
                let r = self.sim.run(p.create_topic::<KeyedData>(name, "KeyedData", QosKind::Default, None::<()>, &[]), BUDGET);
                self.sim.settle();
                match r {
                    Ok(Ok(x)) => {
                        self.topics.push(x);
                        "T 0".into()
                    }
                    Ok(Err(e)) => format!("T E{}", err_code(&e)),
                    Err(_) => "T STUCK".into(),
                }
            }
            "PUB" => {
                let p = &self.parts[u(1)];
                let r = self.sim.run(p.create_publisher(QosKind::Default, None::<()>, &[]), BUDGET);
                self.sim.settle();
                match r {
                    Ok(Ok(x)) => {
                        self.pubs.push(x);
                        "PUB 0".into()
                    }
                    Ok(Err(e)) => format!("PUB E{}", err_code(&e)),
                    Err(_) => "PUB STUCK".into(),
                }
            }
            "SUB" => {
                let p = &self.parts[u(1)];
                let r = self.sim.run(p.create_subscriber(QosKind::Default, None::<()>, &[]), BUDGET);
                self.sim.settle();
                match r {
                    Ok(Ok(x)) => {
                        self.subs.push(x);
                        "SUB 0".into()
                    }
                    Ok(Err(e)) => format!("SUB E{}", err_code(&e)),
                    Err(_) => "SUB STUCK".into(),
                }
            }
            "W" => {
                let m = kv(&t[3..]);
                let g = |k: &str, d: i64| m.get(k).copied().unwrap_or(d);
                let mut q = DataWriterQos::default();
                q.reliability.kind = if g("rel", 1) == 1 { ReliabilityQosPolicyKind::Reliable } else { ReliabilityQosPolicyKind::BestEffort };
                q.reliability.max_blocking_time = dk(g("mbt", 100_000_000));
                q.durability.kind = if g("dur", 0) == 1 { DurabilityQosPolicyKind::TransientLocal } else { DurabilityQosPolicyKind::Volatile };
                q.history.kind = if g("hist", 0) == 0 { HistoryQosPolicyKind::KeepAll } else { HistoryQosPolicyKind::KeepLast(g("hist", 0) as u32) };
                q.resource_limits.max_samples = len(g("ms", -1));
                q.resource_limits.max_instances = len(g("mi", -1));
                q.resource_limits.max_samples_per_instance = len(g("mspi", -1));
                q.deadline.period = dk(g("dl", -1));
                q.lifespan.duration = dk(g("ls", -1));
                q.ownership.kind = if g("own", 0) == 1 { OwnershipQosPolicyKind::Exclusive } else { OwnershipQosPolicyKind::Shared };
                q.ownership_strength.value = g("str", 0) as i32;
                q.latency_budget.duration = dk(g("lb", 0));
                if m.contains_key("ud") { q.user_data.value = vec![g("ud", 0) as u8]; }
                let pb = &self.pubs[u(1)];
                let tp = &self.topics[u(2)];
                let r = self.sim.run(pb.create_datawriter::<KeyedData>(tp, QosKind::Specific(q), None::<()>, &[]), BUDGET);
                self.sim.settle();
                match r {
                    Ok(Ok(x)) => {
                        self.writers.push(x);
                        "W 0".into()
                    }
                    Ok(Err(e)) => format!("W E{}", err_code(&e)),
                    Err(_) => "W STUCK".into(),
                }
            }
            "R" => {
                let m = kv(&t[3..]);
                let g = |k: &str, d: i64| m.get(k).copied().unwrap_or(d);
                let mut q = DataReaderQos::default();
                q.reliability.kind = if g("rel", 1) == 1 { ReliabilityQosPolicyKind::Reliable } else { ReliabilityQosPolicyKind::BestEffort };
                q.durability.kind = if g("dur", 0) == 1 { DurabilityQosPolicyKind::TransientLocal } else { DurabilityQosPolicyKind::Volatile };
                q.history.kind = if g("hist", 0) == 0 { HistoryQosPolicyKind::KeepAll } else { HistoryQosPolicyKind::KeepLast(g("hist", 0) as u32) };
                q.resource_limits.max_samples = len(g("ms", -1));
                q.resource_limits.max_instances = len(g("mi", -1));
                q.resource_limits.max_samples_per_instance = len(g("mspi", -1));
                q.deadline.period = dk(g("dl", -1));
                q.ownership.kind = if g("own", 0) == 1 { OwnershipQosPolicyKind::Exclusive } else { OwnershipQosPolicyKind::Shared };
                q.time_based_filter.minimum_separation = dk(g("sep", 0));
                q.latency_budget.duration = dk(g("lb", 0));
                if m.contains_key("ud") { q.user_data.value = vec![g("ud", 0) as u8]; }
                q.destination_order.kind = if g("ord", 0) == 1 { DestinationOrderQosPolicyKind::BySourceTimestamp } else { DestinationOrderQosPolicyKind::ByReceptionTimestamp };
                let sb = &self.subs[u(1)];
                let tp = &self.topics[u(2)];
                let r = self.sim.run(sb.create_datareader::<KeyedData>(tp, QosKind::Specific(q), None::<()>, &[]), BUDGET);
                self.sim.settle();
                match r {
                    Ok(Ok(x)) => {
                        self.readers.push(x);
                        "R 0".into()
                    }
                    Ok(Err(e)) => format!("R E{}", err_code(&e)),
                    Err(_) => "R STUCK".into(),
                }
            }
            "w" | "d" | "u" => {
                let w = &self.writers[u(1)];
                let data = KeyedData { id: n(2) as u8, value: if t[0] == "w" { payload(u(3), n(4) as u64) } else { vec![] } };
                let ts = t.get(5).and_then(|x| x.parse::<i64>().ok());
                let budget = 30_000_000_000;
                let r = match (t[0], ts) {
                    ("w", Some(ts)) => self.sim.run(w.write_w_timestamp(data, None, Time::new((ts / 1_000_000_000) as i32, (ts % 1_000_000_000) as u32)), budget),
                    ("w", None) => self.sim.run(w.write(data, None), budget),
                    ("d", _) => self.sim.run(w.dispose(data, None), budget),
                    _ => self.sim.run(w.unregister_instance(data, None), budget),
                };
                self.sim.settle();
                match r {
                    Ok(x) => format!("{} {}", t[0], rc(&x)),
                    Err(_) => format!("{} STUCK", t[0]),
                }
            }
            "t" | "r" => {
                let rd = &self.readers[u(1)];
                let max = if n(2) <= 0 { i32::MAX } else { n(2) as i32 };
                let r = if t[0] == "t" {
                    self.sim.run(rd.take(max, ANY_SAMPLE_STATE, ANY_VIEW_STATE, ANY_INSTANCE_STATE), BUDGET)
                } else {
                    self.sim.run(rd.read(max, ANY_SAMPLE_STATE, ANY_VIEW_STATE, ANY_INSTANCE_STATE), BUDGET)
                };
                self.sim.settle();
                match r {
                    Ok(Ok(l)) => {
                        let mut s = format!("{} {}", t[0], l.len());
                        for x in l {
                            let si = &x.sample_info;
                            let is = match si.instance_state {
                                InstanceStateKind::Alive => 1,
                                InstanceStateKind::NotAliveDisposed => 2,
                                InstanceStateKind::NotAliveNoWriters => 4,
                            };
                            let ts = si.source_timestamp.map(|t| t.sec() as i64 * 1_000_000_000 + t.nanosec() as i64).unwrap_or(-1);
                            match &x.data {
                                Some(d) => s += &format!(" {} {} {} {} {}", d.id, d.value.len(), checksum(&d.value), is, ts),
                                None => s += &format!(" -1 0 0 {} {}", is, ts),
                            }
                        }
                        s
                    }
                    Ok(Err(e)) => format!("{} E{}", t[0], err_code(&e)),
                    Err(_) => format!("{} STUCK", t[0]),
                }
            }
            "adv" => {
                self.sim.advance(n(1));
                "adv".into()
            }
            "net" => {
                let max = if t.len() > 1 { u(1) } else { 100_000 };
                self.net_log.clear();
                let k = self.pump(max);
                let _ = k;
                let mut s = String::from("net");
                for e in self.net_log.iter() {
                    s += " ";
                    s += e;
                }
                s
            }
            "mfault" => {
                let action = match t[1] {
                    "drop" => 1,
                    "dup" => 2,
                    _ => 3,
                };
                self.mrules.push(MetaRule { action, from: n(2), to: n(3), class: t[4].to_string(), times: if t.len() > 5 { n(5) } else { 1 } });
                "mf".into()
            }
            "mute" => {
                let p = u(1);
                self.muted.retain(|x| *x != p);
                if n(2) != 0 {
                    self.muted.push(p);
                }
                "mute".into()
            }
            "lease" => {
                self.leases.insert(u(1), n(2));
                "lease".into()
            }
            "jump" => {
                let now = self.sim.now();
                *self.sim.shared.now_ns.lock().unwrap() = now.saturating_add(n(1));
                let before = self.spin.lock().unwrap().spins;
                self.sim.settle();
                format!("jump {}", self.spin.lock().unwrap().spins - before)
            }
            "now" => format!("now {}", self.sim.now()),
            "wake" => {
                // forces one worker iteration at the current simulated time (an API call is a mail)
                let before = self.spin.lock().unwrap().spins;
                if let Some(p) = self.parts.get(u(1)) {
                    let _ = self.sim.run(p.get_discovered_participants(), BUDGET);
                }
                self.sim.settle();
                format!("wake {}", self.spin.lock().unwrap().spins - before)
            }
            "xdeliver" => {
                // hands the latest SPDP announcement of participant q to participant p whatever their
                // domains are (a datagram that reaches a foreign domain's port)
                let (q, p) = (u(1), u(2));
                let found = {
                    let log = self.sim.shared.sent_log.lock().unwrap();
                    log.iter().rev().find(|(from, _, meta, b)| *from == q && *meta && meta_class(b) == 'S').map(|x| x.3.clone())
                };
                match found {
                    Some(mut bytes) => {
                        if let Some(ns) = self.leases.get(&q) {
                            patch_lease(&mut bytes, *ns);
                        }
                        let pk = Packet { id: 0, from: q, to: p, meta: true, bytes, held: false };
                        self.sim.deliver_packet(&pk);
                        "xd 1".into()
                    }
                    None => "xd 0".into(),
                }
            }
            "qR" => {
                let m = kv(&t[2..]);
                let rd = &self.readers[u(1)];
                let r = self.sim.run(rd.get_qos(), BUDGET);
                let Ok(Ok(mut q)) = r else { return "qR GETFAIL".into() };
                if let Some(v) = m.get("dl") {
                    q.deadline.period = dk(*v);
                }
                if let Some(v) = m.get("lb") {
                    q.latency_budget.duration = dk(*v);
                }
                if let Some(v) = m.get("ud") {
                    q.user_data.value = vec![*v as u8];
                }
                let r = self.sim.run(rd.set_qos(QosKind::Specific(q)), BUDGET);
                self.sim.settle();
                match r { Ok(x) => format!("qR {}", rc(&x)), Err(_) => "qR STUCK".into() }
            }
            "qW" => {
                let m = kv(&t[2..]);
                let w = &self.writers[u(1)];
                let r = self.sim.run(w.get_qos(), BUDGET);
                let Ok(Ok(mut q)) = r else { return "qW GETFAIL".into() };
                if let Some(v) = m.get("dl") {
                    q.deadline.period = dk(*v);
                }
                if let Some(v) = m.get("lb") {
                    q.latency_budget.duration = dk(*v);
                }
                if let Some(v) = m.get("ud") {
                    q.user_data.value = vec![*v as u8];
                }
                let r = self.sim.run(w.set_qos(QosKind::Specific(q)), BUDGET);
                self.sim.settle();
                match r { Ok(x) => format!("qW {}", rc(&x)), Err(_) => "qW STUCK".into() }
            }
            "ms" => {
                let w = &self.writers[u(1)];
                match self.sim.run(w.get_matched_subscriptions(), BUDGET) {
                    Ok(Ok(l)) => {
                        let mut s = String::from("ms");
                        for h in l {
                            s += " ";
                            s += &self.reader_name(&<[u8; 16]>::from(h));
                        }
                        s
                    }
                    Ok(Err(e)) => format!("ms E{}", err_code(&e)),
                    Err(_) => "ms STUCK".into(),
                }
            }
            "mp" => {
                let rd = &self.readers[u(1)];
                match self.sim.run(rd.get_matched_publications(), BUDGET) {
                    Ok(Ok(l)) => {
                        let mut s = String::from("mp");
                        for h in l {
                            s += " ";
                            s += &self.reader_name(&<[u8; 16]>::from(h));
                        }
                        s
                    }
                    Ok(Err(e)) => format!("mp E{}", err_code(&e)),
                    Err(_) => "mp STUCK".into(),
                }
            }
            "dp" => {
                let p = &self.parts[u(1)];
                match self.sim.run(p.get_discovered_participants(), BUDGET) {
                    Ok(Ok(l)) => {
                        let mut s = String::from("dp");
                        for h in l {
                            s += " ";
                            s += &self.reader_name(&<[u8; 16]>::from(h));
                        }
                        s
                    }
                    Ok(Err(e)) => format!("dp E{}", err_code(&e)),
                    Err(_) => "dp STUCK".into(),
                }
            }
            "ign" => {
                let p = &self.parts[u(1)];
                let h = self.parts[u(2)].get_instance_handle();
                let r = self.sim.run(p.ignore_participant(h), BUDGET);
                self.sim.settle();
                match r { Ok(x) => format!("ign {}", rc(&x)), Err(_) => "ign STUCK".into() }
            }
            "dst" => {
                // destinations of the DATA / HEARTBEAT / GAP submessages of writer w in the user datagrams
                // sent since the last dst/sent: sorted, distinct "<kind><participant>:<reader>"
                let wh = <[u8; 16]>::from(self.writers[u(1)].get_instance_handle());
                let went = [wh[12], wh[13], wh[14], wh[15]];
                let log = self.sim.shared.sent_log.lock().unwrap();
                let mut set: Vec<String> = vec![];
                let parts: Vec<[u8; 16]> = self.parts.iter().map(|p| <[u8; 16]>::from(p.get_instance_handle())).collect();
                for (from, to, meta, bytes) in log[self.sent_mark..].iter() {
                    if *meta || parts[*from][0..12] != wh[0..12] {
                        continue;
                    }
                    for (id, r, w, _sn, _fl, _, _) in raw_submessages(bytes) {
                        if w != went {
                            continue;
                        }
                        let k = match id { 0x15 | 0x16 => "D", 0x07 => "H", 0x08 => "G", _ => continue };
                        let mut h = [0u8; 16];
                        h[0..12].copy_from_slice(&parts[*to][0..12]);
                        h[12..16].copy_from_slice(&r);
                        let name = if r == [0, 0, 0, 0] { format!("p{}", to) } else { self.reader_name(&h) };
                        let e = format!("{}{}", k, name);
                        if !set.contains(&e) {
                            set.push(e);
                        }
                    }
                }
                set.sort();
                self.sent_mark = log.len();
                format!("dst {}", set.join(" "))
            }
            "fault" => {
                let action = match t[1] {
                    "drop" => 1,
                    "dup" => 2,
                    _ => 3,
                };
                self.rules.push(Rule { action, kind: t[2].to_string(), sn: n(3), frag: n(4), times: if t.len() > 5 { n(5) } else { 1 } });
                "f".into()
            }
            "rel" => {
                self.sim.release_held();
                "rel".into()
            }
            "wfa" => {
                let w = &self.writers[u(1)];
                let r = self.sim.run(w.wait_for_acknowledgments(), n(2));
                self.sim.settle();
                match r {
                    Ok(x) => format!("wfa {}", rc(&x)),
                    Err(_) => "wfa PENDING".into(),
                }
            }
            "wfh" => {
                let rd = &self.readers[u(1)];
                let r = self.sim.run(rd.wait_for_historical_data(), n(2));
                self.sim.settle();
                match r {
                    Ok(x) => format!("wfh {}", rc(&x)),
                    Err(_) => "wfh PENDING".into(),
                }
            }
            "pm" => {
                let w = &self.writers[u(1)];
                match self.sim.run(w.get_publication_matched_status(), BUDGET) {
                    Ok(Ok(s)) => format!("pm {} {} {} {}", s.total_count, s.total_count_change, s.current_count, s.current_count_change),
                    Ok(Err(e)) => format!("pm E{}", err_code(&e)),
                    Err(_) => "pm STUCK".into(),
                }
            }
            "sm" => {
                let rd = &self.readers[u(1)];
                match self.sim.run(rd.get_subscription_matched_status(), BUDGET) {
                    Ok(Ok(s)) => format!("sm {} {} {} {}", s.total_count, s.total_count_change, s.current_count, s.current_count_change),
                    Ok(Err(e)) => format!("sm E{}", err_code(&e)),
                    Err(_) => "sm STUCK".into(),
                }
            }
            "delays" => {
                let d = self.sim.shared.delays.lock().unwrap();
                let max = d.iter().map(|x| x.1).max().unwrap_or(0);
                format!("delays {} {}", d.len(), max)
            }
            "delW" => {
                let w = &self.writers[u(1)];
                let pb = w.get_publisher();
                let r = self.sim.run(pb.delete_datawriter(w), BUDGET);
                self.sim.settle();
                match r { Ok(x) => format!("delW {}", rc(&x)), Err(_) => "delW STUCK".into() }
            }
            "delR" => {
                let rd = &self.readers[u(1)];
                let sb = rd.get_subscriber();
                let r = self.sim.run(sb.delete_datareader(rd), BUDGET);
                self.sim.settle();
                match r { Ok(x) => format!("delR {}", rc(&x)), Err(_) => "delR STUCK".into() }
            }
            "delPUB" => {
                let x = &self.pubs[u(1)];
                let p = x.get_participant();
                let r = self.sim.run(p.delete_publisher(x), BUDGET);
                self.sim.settle();
                match r { Ok(x) => format!("delPUB {}", rc(&x)), Err(_) => "delPUB STUCK".into() }
            }
            "delSUB" => {
                let x = &self.subs[u(1)];
                let p = x.get_participant();
                let r = self.sim.run(p.delete_subscriber(x), BUDGET);
                self.sim.settle();
                match r { Ok(x) => format!("delSUB {}", rc(&x)), Err(_) => "delSUB STUCK".into() }
            }
            "delT" => {
                let x = &self.topics[u(1)];
                let p = x.get_participant();
                let r = self.sim.run(p.delete_topic(x), BUDGET);
                self.sim.settle();
                match r { Ok(x) => format!("delT {}", rc(&x)), Err(_) => "delT STUCK".into() }
            }
            "delall" => {
                let p = &self.parts[u(1)];
                let r = self.sim.run(p.delete_contained_entities(), BUDGET);
                self.sim.settle();
                match r { Ok(x) => format!("delall {}", rc(&x)), Err(_) => "delall STUCK".into() }
            }
            "delP" => {
                let p = &self.parts[u(1)];
                let f = &self.factory;
                let r = self.sim.run(f.delete_participant(p), BUDGET);
                self.sim.settle();
                if let Ok(Ok(())) = r {
                    self.sim.shared.endpoints.lock().unwrap()[u(1)].alive = false;
                }
                match r { Ok(x) => format!("delP {}", rc(&x)), Err(_) => "delP STUCK".into() }
            }
            "inject" => {
                let bytes = vh::util::hex(t[3]);
                let p = Packet { id: 0, from: 999, to: u(1), meta: n(2) == 1, bytes, held: false };
                self.sim.deliver_packet(&p);
                "inj".into()
            }
            "sent" => {
                let log = self.sim.shared.sent_log.lock().unwrap();
                let mut s = String::from("sent");
                for (from, to, meta, bytes) in log[self.sent_mark..].iter() {
                    if *meta {
                        continue;
                    }
                    for (k, w, sn, fr) in summarize(bytes) {
                        s += &format!(" {}>{}:{}:{}:{}:{}", from, to, k, w, sn, fr);
                    }
                }
                self.sent_mark = log.len();
                s
            }
            _ => format!("?{}", t[0]),
        }
    }
}

fn run_scenario(line: &str) -> String {
    let sim = Sim::new(1344);
    let spin = std::sync::Arc::new(std::sync::Mutex::new(SpinState::default()));
    let factory = DomainParticipantFactoryAsync::new(
        DiscRuntime(sim.shared.clone(), spin.clone()),
        [1, 2, 3, 4],
        [5, 6, 7, 8],
        SimTransport(sim.shared.clone()),
        Default::default(),
    );
    let mut w = World {
        sim,
        factory,
        parts: vec![],
        topics: vec![],
        pubs: vec![],
        subs: vec![],
        writers: vec![],
        readers: vec![],
        rules: vec![],
        sent_mark: 0,
        muted: vec![],
        mrules: vec![],
        leases: HashMap::new(),
        net_log: vec![],
        spin,
    };
    let mut out = vec![];
    for op in line.split(';') {
        let op = op.trim();
        if op.is_empty() {
            continue;
        }
        out.push(w.op(op));
    }
    if w.spin.lock().unwrap().stuck {
        out.push("STUCK zero-delay-spin".to_string());
    }
    out.join(" | ")
}

fn main() {
    let args: Vec<String> = std::env::args().collect();
    if args.get(1).map(|s| s.as_str()) == Some("--one") {
        // child: one scenario on stdin
        let mut line = String::new();
        std::io::stdin().lock().read_line(&mut line).unwrap();
        // watchdog: a scenario that cannot make progress ends as the output line `HANG ...`:
        // 20 s of CPU time of this process (a spinning worker burns CPU), 60 s of wall time
        // (the machine may be heavily loaded) or 1.6 GB of memory
        std::thread::spawn(|| {
            let t0 = std::time::Instant::now();
            loop {
                std::thread::sleep(std::time::Duration::from_millis(100));
                let stat = std::fs::read_to_string("/proc/self/stat").unwrap_or_default();
                let after = stat.rsplit(')').next().unwrap_or("").split_whitespace().collect::<Vec<_>>();
                // fields after the command name: state is index 0, utime index 11, stime index 12 (clock ticks, 100/s)
                let ticks: u64 = after.get(11).and_then(|x| x.parse::<u64>().ok()).unwrap_or(0)
                    + after.get(12).and_then(|x| x.parse::<u64>().ok()).unwrap_or(0);
                let rss_pages = std::fs::read_to_string("/proc/self/statm")
                    .ok()
                    .and_then(|s| s.split_whitespace().nth(1).and_then(|x| x.parse::<u64>().ok()))
                    .unwrap_or(0);
                if ticks > 2_000 || t0.elapsed().as_secs() > 60 || rss_pages > 400_000 {
                    println!("HANG watchdog");
                    std::process::exit(4);
                }
            }
        });
        std::panic::set_hook(Box::new(|info| {
            let s = info.location().map(|l| format!("{}:{}", l.file(), l.line())).unwrap_or_default();
            println!("PANIC {}", s);
            std::process::exit(3);
        }));
        println!("{}", run_scenario(line.trim()));
        std::process::exit(0);
    }
    let exe = std::env::current_exe().unwrap();
    let stdin = std::io::stdin();
    let stdout = std::io::stdout();
    let mut out = stdout.lock();
    for line in stdin.lock().lines() {
        let line = line.unwrap();
        if line.trim().is_empty() {
            continue;
        }
        let mut child = std::process::Command::new(&exe)
            .arg("--one")
            .stdin(std::process::Stdio::piped())
            .stdout(std::process::Stdio::piped())
            .stderr(std::process::Stdio::null())
            .spawn()
            .unwrap();
        child.stdin.take().unwrap().write_all(format!("{}\n", line).as_bytes()).unwrap();
        let o = child.wait_with_output().unwrap();
        let s = String::from_utf8_lossy(&o.stdout);
        let last = s.lines().last().unwrap_or("ABORT").to_string();
        writeln!(out, "{}", if last.is_empty() { "ABORT".to_string() } else { last }).unwrap();
        out.flush().unwrap();
    }
}
