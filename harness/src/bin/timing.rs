//! Scenario interpreter for the timing properties C29/C30/C31 (copied from bin/sim.rs and
//! extended).  One scenario per stdin line, ops separated by ';'.
//!
//! Differences to bin/sim.rs:
//!  * the runtime handed to the factory wraps the simulator's: a requested delay of ZERO is
//!    rounded up to 1 ns (timer resolution) because the simulated clock stands still while the
//!    worker runs, so `delay(0)` in the worker loop would spin forever; every delay is logged
//!    with the ORIGINALLY requested value (time of request, ns).  This is still needed with the
//!    sleep clamped at zero (d4a5b38): an item exactly at its boundary (time_until = 0 while
//!    the check uses a strict `>`) or an instance several periods behind makes the worker ask
//!    for delay(0) again and again until the clock moves;
//!  * with `cfg trace=1` every op result is followed by ` #t:ns,t:ns,... #n:last,... #n:last,...`:
//!    the delays the code requested from the timer during this op (one per worker-loop
//!    iteration), then per writer / per reader the number of deadline-missed listener calls
//!    during the op and the total_count of the last one;
//!  * W/R accept lis=1 (recording listener for OFFERED/REQUESTED_DEADLINE_MISSED);
//!  * new ops:  odm <w> (get_offered_deadline_missed_status -> total change)
//!              lw <w> | lr <r>  (listener calls: n then time:total:change ...)
//!              scw <w> | scr <r> (status condition restricted to the deadline status: trigger 0/1)
//!              wb <writer> <key> <len> <seed>  (write, reports simulated time elapsed in the call)
//!              now                              (simulated clock, ns)
//!              fault clear                      (forget all fault rules)
//!              hist <w>  (not available through the API; omitted)
//!  * a scenario that does not finish within 120 s of wall time is reported as HANG.
//!
//! Original header of bin/sim.rs:
//! One scenario per
//! stdin line, ops separated by ';'.  Because the factory owns a process-wide static
//! channel, every scenario runs in a fresh child process (`sim --one`).
//!
//! ops (indices refer to creation order of each entity kind, starting at 0):
//!   cfg frag=<n> tag=<s> ann=<ms>           (before creating participants)
//!   P <domain>                               create participant
//!   T <p> <name>                             create topic (type KeyedData)
//!   PUB <p> | SUB <p>
//!   W <pub> <topic> k=v...                   rel dur hist ms mi mspi dl ls mbt own str en
//!   R <sub> <topic> k=v...                   rel dur hist ms mi mspi dl own sep ord
//!   w <writer> <key> <len> <seed> [ts_ns]    write          d / u <writer> <key>  dispose / unregister
//!   t <reader> <max> | r <reader> <max>      take / read (any state)
//!   adv <ns>                                 advance simulated time
//!   net [max]                                deliver in-flight datagrams (fault rules apply)
//!   fault <drop|dup|hold> <kind> <sn> <frag> <times>   rule on USER traffic (kind DATA DATA_FRAG HEARTBEAT ACKNACK GAP NACK_FRAG ANY; -1 = any)
//!   rel                                      release held datagrams
//!   wfa <writer> <budget_ns>                 wait_for_acknowledgments
//!   wfh <reader> <budget_ns>                 wait_for_historical_data
//!   pm <writer> | sm <reader>                matched statuses
//!   delays                                   count and maximum of the timer delays requested so far
//!   delW <w> | delR <r> | delPUB <i> | delSUB <i> | delT <i> | delP <i> | delall <p>
//!   inject <p> <meta 0|1> <hex>              hand a raw datagram to participant p
//!   sent                                     summary of user datagrams sent since the last `sent`
use dust_dds::dds_async::data_reader::DataReaderAsync;
use dust_dds::dds_async::data_writer::DataWriterAsync;
use dust_dds::dds_async::domain_participant::DomainParticipantAsync;
use dust_dds::dds_async::domain_participant_factory::DomainParticipantFactoryAsync;
use dust_dds::dds_async::publisher::PublisherAsync;
use dust_dds::dds_async::subscriber::SubscriberAsync;
use dust_dds::dds_async::topic::TopicAsync;
use dust_dds::dds_async::topic_description::TopicDescriptionAsync;
use dust_dds::infrastructure::error::{DdsError, DdsResult};
use dust_dds::infrastructure::qos::{DataReaderQos, DataWriterQos, QosKind};
use dust_dds::infrastructure::qos_policy::*;
use dust_dds::infrastructure::sample_info::{
    InstanceStateKind, ANY_INSTANCE_STATE, ANY_SAMPLE_STATE, ANY_VIEW_STATE,
};
use dust_dds::infrastructure::time::{Duration, DurationKind, Time};
use dust_dds::infrastructure::type_support::DdsType;
use dust_dds::rtps_messages::overall_structure::{RtpsMessageRead, RtpsSubmessageReadKind};
use std::collections::HashMap;
use std::io::{BufRead, Write};
use dust_dds::dds_async::data_reader_listener::DataReaderListener;
use dust_dds::dds_async::data_writer_listener::DataWriterListener;
use dust_dds::infrastructure::status::{OfferedDeadlineMissedStatus, RequestedDeadlineMissedStatus, StatusKind};
use dust_dds::runtime::{DdsRuntime, Timer};
use std::sync::{Arc, Mutex};
use vh::sim::{Packet, Shared, Sim, SimRuntime, SimTransport};

// ---------------------------------------------------------------- runtime wrapper
type DelayLog = Arc<Mutex<Vec<(i64, u128)>>>;
struct TRuntime {
    inner: SimRuntime,
    log: DelayLog,
}
#[derive(Clone)]
struct TTimer {
    inner: <SimRuntime as DdsRuntime>::TimerHandle,
    shared: Arc<Shared>,
    log: DelayLog,
}
impl Timer for TTimer {
    fn delay(&mut self, duration: core::time::Duration) -> impl std::future::Future<Output = ()> + Send {
        let now = *self.shared.now_ns.lock().unwrap();
        self.log.lock().unwrap().push((now, duration.as_nanos()));
        let d = if duration.is_zero() { core::time::Duration::from_nanos(1) } else { duration };
        self.inner.delay(d)
    }
}
impl DdsRuntime for TRuntime {
    type ClockHandle = <SimRuntime as DdsRuntime>::ClockHandle;
    type TimerHandle = TTimer;
    type SpawnerHandle = <SimRuntime as DdsRuntime>::SpawnerHandle;
    fn timer(&self) -> TTimer {
        TTimer { inner: self.inner.timer(), shared: self.inner.0.clone(), log: self.log.clone() }
    }
    fn clock(&self) -> Self::ClockHandle {
        self.inner.clock()
    }
    fn spawner(&self) -> Self::SpawnerHandle {
        self.inner.spawner()
    }
}

// ---------------------------------------------------------------- recording listeners
type StatusLog = Arc<Mutex<Vec<(i64, i32, i32)>>>;
struct RecW {
    shared: Arc<Shared>,
    log: StatusLog,
}
impl DataWriterListener<KeyedData> for RecW {
    fn on_offered_deadline_missed(
        &mut self,
        _w: DataWriterAsync<KeyedData>,
        status: OfferedDeadlineMissedStatus,
    ) -> impl std::future::Future<Output = ()> + Send {
        let now = *self.shared.now_ns.lock().unwrap();
        self.log.lock().unwrap().push((now, status.total_count, status.total_count_change));
        core::future::ready(())
    }
}
struct RecR {
    shared: Arc<Shared>,
    log: StatusLog,
}
impl DataReaderListener<KeyedData> for RecR {
    fn on_requested_deadline_missed(
        &mut self,
        _r: DataReaderAsync<KeyedData>,
        status: RequestedDeadlineMissedStatus,
    ) -> impl std::future::Future<Output = ()> + Send {
        let now = *self.shared.now_ns.lock().unwrap();
        self.log.lock().unwrap().push((now, status.total_count, status.total_count_change));
        core::future::ready(())
    }
}

#[derive(DdsType, Debug, Clone, PartialEq)]
struct KeyedData {
    #[dust_dds(key)]
    id: u8,
    value: Vec<u8>,
}

fn err_code(e: &DdsError) -> i32 {
    match e {
        DdsError::Error(_) => 1,
        DdsError::Unsupported => 2,
        DdsError::BadParameter => 3,
        DdsError::PreconditionNotMet(_) => 4,
        DdsError::OutOfResources => 5,
        DdsError::NotEnabled => 6,
        DdsError::ImmutablePolicy => 7,
        DdsError::InconsistentPolicy => 8,
        DdsError::AlreadyDeleted => 9,
        DdsError::Timeout => 10,
        DdsError::NoData => 11,
        DdsError::IllegalOperation => 12,
    }
}
fn rc<T>(r: &DdsResult<T>) -> String {
    match r {
        Ok(_) => "0".into(),
        Err(e) => format!("E{}", err_code(e)),
    }
}
fn kv(tokens: &[&str]) -> HashMap<String, i64> {
    let mut m = HashMap::new();
    for t in tokens {
        if let Some((k, v)) = t.split_once('=') {
            if let Ok(v) = v.parse::<i64>() {
                m.insert(k.to_string(), v);
            }
        }
    }
    m
}
fn dk(ns: i64) -> DurationKind {
    if ns < 0 {
        DurationKind::Infinite
    } else {
        DurationKind::Finite(Duration::new((ns / 1_000_000_000) as i32, (ns % 1_000_000_000) as u32))
    }
}
fn len(v: i64) -> Length {
    if v < 0 { Length::Unlimited } else { Length::Limited(v as i32) }
}
fn payload(n: usize, seed: u64) -> Vec<u8> {
    let mut x = seed.wrapping_mul(6364136223846793005).wrapping_add(1442695040888963407);
    (0..n)
        .map(|_| {
            x = x.wrapping_mul(6364136223846793005).wrapping_add(1442695040888963407);
            (x >> 33) as u8
        })
        .collect()
}
fn checksum(b: &[u8]) -> u64 {
    let mut h: u64 = 1469598103934665603;
    for x in b {
        h ^= *x as u64;
        h = h.wrapping_mul(1099511628211);
    }
    h % 1_000_000_007
}

#[derive(Clone)]
struct Rule {
    action: u8,
    kind: String,
    sn: i64,
    frag: i64,
    times: i64,
}

/// (kind, writer entity key, sn, first fragment) of every submessage in a datagram
fn summarize(bytes: &[u8]) -> Vec<(String, u32, i64, i64)> {
    let mut v = vec![];
    if let Ok(m) = RtpsMessageRead::try_from(bytes) {
        for s in m.submessages() {
            let key = |e: dust_dds::transport::types::EntityId| {
                let k = e.entity_key();
                ((k[0] as u32) << 16) | ((k[1] as u32) << 8) | k[2] as u32
            };
            match s {
                RtpsSubmessageReadKind::Data(d) => v.push(("DATA".into(), key(d.writer_id()), d.writer_sn(), 0)),
                RtpsSubmessageReadKind::DataFrag(d) => {
                    v.push(("DATA_FRAG".into(), key(d.writer_id()), d.writer_sn(), d.fragment_starting_num() as i64))
                }
                RtpsSubmessageReadKind::Heartbeat(h) => v.push(("HEARTBEAT".into(), key(h.writer_id()), h.last_sn(), h.first_sn())),
                RtpsSubmessageReadKind::AckNack(a) => v.push(("ACKNACK".into(), key(*a.writer_id()), a.reader_sn_state().base(), 0)),
                RtpsSubmessageReadKind::Gap(g) => v.push(("GAP".into(), key(g.writer_id()), g.gap_start(), g.gap_list().base())),
                RtpsSubmessageReadKind::NackFrag(n) => v.push(("NACK_FRAG".into(), key(n._writer_id()), n.writer_sn(), 0)),
                _ => {}
            }
        }
    }
    v
}

struct World {
    sim: Sim,
    factory: DomainParticipantFactoryAsync<SimTransport>,
    parts: Vec<DomainParticipantAsync>,
    topics: Vec<TopicAsync>,
    pubs: Vec<PublisherAsync>,
    subs: Vec<SubscriberAsync>,
    writers: Vec<DataWriterAsync<KeyedData>>,
    readers: Vec<DataReaderAsync<KeyedData>>,
    rules: Vec<Rule>,
    sent_mark: usize,
    dlog: DelayLog,
    dmark: usize,
    trace: bool,
    wlogs: Vec<StatusLog>,
    rlogs: Vec<StatusLog>,
    wmarks: Vec<usize>,
    rmarks: Vec<usize>,
}

const BUDGET: i64 = 2_000_000_000;

impl World {
    fn filter(rules: &mut Vec<Rule>, p: &Packet) -> u8 {
        if p.meta {
            return 0;
        }
        let subs = summarize(&p.bytes);
        for r in rules.iter_mut() {
            if r.times == 0 {
                continue;
            }
            let hit = subs.iter().any(|(k, _, sn, frag)| {
                (r.kind == "ANY" || &r.kind == k) && (r.sn < 0 || r.sn == *sn) && (r.frag < 0 || r.frag == *frag)
            });
            if hit {
                if r.times > 0 {
                    r.times -= 1;
                }
                return r.action;
            }
        }
        0
    }

    fn op(&mut self, op: &str) -> String {
        let t: Vec<&str> = op.split_whitespace().collect();
        if t.is_empty() {
            return String::new();
        }
        let n = |i: usize| -> i64 { t.get(i).and_then(|x| x.parse::<i64>().ok()).unwrap_or(0) };
        let u = |i: usize| -> usize { n(i) as usize };
        match t[0] {
            "cfg" => {
                let m = kv(&t[1..]);
                if let Some(f) = m.get("frag") {
                    *self.sim.shared.fragment_size.lock().unwrap() = *f as usize;
                }
                if let Some(f) = m.get("trace") {
                    self.trace = *f != 0;
                }
                let tag = t.iter().find_map(|x| x.strip_prefix("tag=")).map(|s| s.to_string());
                let ann = m.get("ann").copied();
                if tag.is_some() || ann.is_some() {
                    let mut b = dust_dds::dds_async::configuration::DustDdsConfigurationBuilder::new();
                    if let Some(tg) = tag {
                        b = b.domain_tag(tg);
                    }
                    if let Some(a) = ann {
                        b = b.participant_announcement_interval(core::time::Duration::from_millis(a as u64));
                    }
                    let c = b.build().unwrap();
                    let f = &self.factory;
                    let _ = self.sim.run(async { *f.get_mut_configuration().await = c; }, BUDGET);
                }
                "c".into()
            }
            "P" => {
                let f = &self.factory;
                let r = self.sim.run(f.create_participant(n(1) as i32, QosKind::Default, None::<()>, &[]), BUDGET);
                self.sim.settle();
                match r {
                    Ok(Ok(p)) => {
                        self.parts.push(p);
                        "P 0".into()
                    }
                    Ok(Err(e)) => format!("P E{}", err_code(&e)),
                    Err(_) => "P STUCK".into(),
                }
            }
            "T" => {
                let p = &self.parts[u(1)];
                let name = t.get(2).copied().unwrap_or("topic");
                let r = self.sim.run(p.create_topic::<KeyedData>(name, "KeyedData", QosKind::Default, None::<()>, &[]), BUDGET);
                self.sim.settle();
                match r {
                    Ok(Ok(x)) => {
                        self.topics.push(x);
                        "T 0".into()
                    }
                    Ok(Err(e)) => format!("T E{}", err_code(&e)),
                    Err(_) => "T STUCK".into(),
                }
            }
            "PUB" => {
                let p = &self.parts[u(1)];
                let r = self.sim.run(p.create_publisher(QosKind::Default, None::<()>, &[]), BUDGET);
                self.sim.settle();
                match r {
                    Ok(Ok(x)) => {
                        self.pubs.push(x);
                        "PUB 0".into()
                    }
                    Ok(Err(e)) => format!("PUB E{}", err_code(&e)),
                    Err(_) => "PUB STUCK".into(),
                }
            }
            "SUB" => {
                let p = &self.parts[u(1)];
                let r = self.sim.run(p.create_subscriber(QosKind::Default, None::<()>, &[]), BUDGET);
                self.sim.settle();
                match r {
                    Ok(Ok(x)) => {
                        self.subs.push(x);
                        "SUB 0".into()
                    }
                    Ok(Err(e)) => format!("SUB E{}", err_code(&e)),
                    Err(_) => "SUB STUCK".into(),
                }
            }
            "W" => {
                let m = kv(&t[3..]);
                let g = |k: &str, d: i64| m.get(k).copied().unwrap_or(d);
                let mut q = DataWriterQos::default();
                q.reliability.kind = if g("rel", 1) == 1 { ReliabilityQosPolicyKind::Reliable } else { ReliabilityQosPolicyKind::BestEffort };
                q.reliability.max_blocking_time = dk(g("mbt", 100_000_000));
                q.durability.kind = if g("dur", 0) == 1 { DurabilityQosPolicyKind::TransientLocal } else { DurabilityQosPolicyKind::Volatile };
                q.history.kind = if g("hist", 0) == 0 { HistoryQosPolicyKind::KeepAll } else { HistoryQosPolicyKind::KeepLast(g("hist", 0) as u32) };
                q.resource_limits.max_samples = len(g("ms", -1));
                q.resource_limits.max_instances = len(g("mi", -1));
                q.resource_limits.max_samples_per_instance = len(g("mspi", -1));
                q.deadline.period = dk(g("dl", -1));
                q.lifespan.duration = dk(g("ls", -1));
                q.ownership.kind = if g("own", 0) == 1 { OwnershipQosPolicyKind::Exclusive } else { OwnershipQosPolicyKind::Shared };
                q.ownership_strength.value = g("str", 0) as i32;
                let pb = &self.pubs[u(1)];
                let tp = &self.topics[u(2)];
                let log: StatusLog = Arc::new(Mutex::new(vec![]));
                let r = if g("lis", 0) == 1 {
                    let l = RecW { shared: self.sim.shared.clone(), log: log.clone() };
                    self.sim.run(pb.create_datawriter::<KeyedData>(tp, QosKind::Specific(q), Some(l), &[StatusKind::OfferedDeadlineMissed]), BUDGET)
                } else {
                    self.sim.run(pb.create_datawriter::<KeyedData>(tp, QosKind::Specific(q), None::<()>, &[]), BUDGET)
                };
                self.sim.settle();
                match r {
                    Ok(Ok(x)) => {
                        self.wlogs.push(log);
                        self.writers.push(x);
                        "W 0".into()
                    }
                    Ok(Err(e)) => format!("W E{}", err_code(&e)),
                    Err(_) => "W STUCK".into(),
                }
            }
            "R" => {
                let m = kv(&t[3..]);
                let g = |k: &str, d: i64| m.get(k).copied().unwrap_or(d);
                let mut q = DataReaderQos::default();
                q.reliability.kind = if g("rel", 1) == 1 { ReliabilityQosPolicyKind::Reliable } else { ReliabilityQosPolicyKind::BestEffort };
                q.durability.kind = if g("dur", 0) == 1 { DurabilityQosPolicyKind::TransientLocal } else { DurabilityQosPolicyKind::Volatile };
                q.history.kind = if g("hist", 0) == 0 { HistoryQosPolicyKind::KeepAll } else { HistoryQosPolicyKind::KeepLast(g("hist", 0) as u32) };
                q.resource_limits.max_samples = len(g("ms", -1));
                q.resource_limits.max_instances = len(g("mi", -1));
                q.resource_limits.max_samples_per_instance = len(g("mspi", -1));
                q.deadline.period = dk(g("dl", -1));
                q.ownership.kind = if g("own", 0) == 1 { OwnershipQosPolicyKind::Exclusive } else { OwnershipQosPolicyKind::Shared };
                q.time_based_filter.minimum_separation = dk(g("sep", 0));
                q.destination_order.kind = if g("ord", 0) == 1 { DestinationOrderQosPolicyKind::BySourceTimestamp } else { DestinationOrderQosPolicyKind::ByReceptionTimestamp };
                let sb = &self.subs[u(1)];
                let tp = &self.topics[u(2)];
                let log: StatusLog = Arc::new(Mutex::new(vec![]));
                let r = if g("lis", 0) == 1 {
                    let l = RecR { shared: self.sim.shared.clone(), log: log.clone() };
                    self.sim.run(sb.create_datareader::<KeyedData>(tp, QosKind::Specific(q), Some(l), &[StatusKind::RequestedDeadlineMissed]), BUDGET)
                } else {
                    self.sim.run(sb.create_datareader::<KeyedData>(tp, QosKind::Specific(q), None::<()>, &[]), BUDGET)
                };
                self.sim.settle();
                match r {
                    Ok(Ok(x)) => {
                        self.rlogs.push(log);
                        self.readers.push(x);
                        "R 0".into()
                    }
                    Ok(Err(e)) => format!("R E{}", err_code(&e)),
                    Err(_) => "R STUCK".into(),
                }
            }
            "w" | "d" | "u" => {
                let w = &self.writers[u(1)];
                let data = KeyedData { id: n(2) as u8, value: if t[0] == "w" { payload(u(3), n(4) as u64) } else { vec![] } };
                let ts = t.get(5).and_then(|x| x.parse::<i64>().ok());
                let budget = 30_000_000_000;
                let r = match (t[0], ts) {
                    ("w", Some(ts)) => self.sim.run(w.write_w_timestamp(data, None, Time::new((ts / 1_000_000_000) as i32, (ts % 1_000_000_000) as u32)), budget),
                    ("w", None) => self.sim.run(w.write(data, None), budget),
                    ("d", _) => self.sim.run(w.dispose(data, None), budget),
                    _ => self.sim.run(w.unregister_instance(data, None), budget),
                };
                self.sim.settle();
                match r {
                    Ok(x) => format!("{} {}", t[0], rc(&x)),
                    Err(_) => format!("{} STUCK", t[0]),
                }
            }
            "t" | "r" => {
                let rd = &self.readers[u(1)];
                let max = if n(2) <= 0 { i32::MAX } else { n(2) as i32 };
                let r = if t[0] == "t" {
                    self.sim.run(rd.take(max, ANY_SAMPLE_STATE, ANY_VIEW_STATE, ANY_INSTANCE_STATE), BUDGET)
                } else {
                    self.sim.run(rd.read(max, ANY_SAMPLE_STATE, ANY_VIEW_STATE, ANY_INSTANCE_STATE), BUDGET)
                };
                self.sim.settle();
                match r {
                    Ok(Ok(l)) => {
                        let mut s = format!("{} {}", t[0], l.len());
                        for x in l {
                            let si = &x.sample_info;
                            let is = match si.instance_state {
                                InstanceStateKind::Alive => 1,
                                InstanceStateKind::NotAliveDisposed => 2,
                                InstanceStateKind::NotAliveNoWriters => 4,
                            };
                            let ts = si.source_timestamp.map(|t| t.sec() as i64 * 1_000_000_000 + t.nanosec() as i64).unwrap_or(-1);
                            match &x.data {
                                Some(d) => s += &format!(" {} {} {} {} {}", d.id, d.value.len(), checksum(&d.value), is, ts),
                                None => s += &format!(" -1 0 0 {} {}", is, ts),
                            }
                        }
                        s
                    }
                    Ok(Err(e)) => format!("{} E{}", t[0], err_code(&e)),
                    Err(_) => format!("{} STUCK", t[0]),
                }
            }
            "adv" => {
                self.sim.advance(n(1));
                "adv".into()
            }
            "net" => {
                let max = if t.len() > 1 { u(1) } else { 100_000 };
                let mut rules = std::mem::take(&mut self.rules);
                let k = self.sim.pump(max, &mut |p| World::filter(&mut rules, p));
                self.rules = rules;
                format!("net {}", k)
            }
            "fault" if t.get(1) == Some(&"clear") => {
                self.rules.clear();
                "f".into()
            }
            "fault" => {
                let action = match t[1] {
                    "drop" => 1,
                    "dup" => 2,
                    _ => 3,
                };
                self.rules.push(Rule { action, kind: t[2].to_string(), sn: n(3), frag: n(4), times: if t.len() > 5 { n(5) } else { 1 } });
                "f".into()
            }
            "rel" => {
                self.sim.release_held();
                "rel".into()
            }
            "wfa" => {
                let w = &self.writers[u(1)];
                let r = self.sim.run(w.wait_for_acknowledgments(), n(2));
                self.sim.settle();
                match r {
                    Ok(x) => format!("wfa {}", rc(&x)),
                    Err(_) => "wfa PENDING".into(),
                }
            }
            "wfh" => {
                let rd = &self.readers[u(1)];
                let r = self.sim.run(rd.wait_for_historical_data(), n(2));
                self.sim.settle();
                match r {
                    Ok(x) => format!("wfh {}", rc(&x)),
                    Err(_) => "wfh PENDING".into(),
                }
            }
            "pm" => {
                let w = &self.writers[u(1)];
                match self.sim.run(w.get_publication_matched_status(), BUDGET) {
                    Ok(Ok(s)) => format!("pm {} {} {} {}", s.total_count, s.total_count_change, s.current_count, s.current_count_change),
                    Ok(Err(e)) => format!("pm E{}", err_code(&e)),
                    Err(_) => "pm STUCK".into(),
                }
            }
            "sm" => {
                let rd = &self.readers[u(1)];
                match self.sim.run(rd.get_subscription_matched_status(), BUDGET) {
                    Ok(Ok(s)) => format!("sm {} {} {} {}", s.total_count, s.total_count_change, s.current_count, s.current_count_change),
                    Ok(Err(e)) => format!("sm E{}", err_code(&e)),
                    Err(_) => "sm STUCK".into(),
                }
            }
            "delays" => {
                let d = self.dlog.lock().unwrap();
                let max = d.iter().map(|x| x.1).max().unwrap_or(0);
                format!("delays {} {}", d.len(), max)
            }
            "delW" => {
                let w = &self.writers[u(1)];
                let pb = w.get_publisher();
                let r = self.sim.run(pb.delete_datawriter(w), BUDGET);
                self.sim.settle();
                match r { Ok(x) => format!("delW {}", rc(&x)), Err(_) => "delW STUCK".into() }
            }
            "delR" => {
                let rd = &self.readers[u(1)];
                let sb = rd.get_subscriber();
                let r = self.sim.run(sb.delete_datareader(rd), BUDGET);
                self.sim.settle();
                match r { Ok(x) => format!("delR {}", rc(&x)), Err(_) => "delR STUCK".into() }
            }
            "delPUB" => {
                let x = &self.pubs[u(1)];
                let p = x.get_participant();
                let r = self.sim.run(p.delete_publisher(x), BUDGET);
                self.sim.settle();
                match r { Ok(x) => format!("delPUB {}", rc(&x)), Err(_) => "delPUB STUCK".into() }
            }
            "delSUB" => {
                let x = &self.subs[u(1)];
                let p = x.get_participant();
                let r = self.sim.run(p.delete_subscriber(x), BUDGET);
                self.sim.settle();
                match r { Ok(x) => format!("delSUB {}", rc(&x)), Err(_) => "delSUB STUCK".into() }
            }
            "delT" => {
                let x = &self.topics[u(1)];
                let p = x.get_participant();
                let r = self.sim.run(p.delete_topic(x), BUDGET);
                self.sim.settle();
                match r { Ok(x) => format!("delT {}", rc(&x)), Err(_) => "delT STUCK".into() }
            }
            "delall" => {
                let p = &self.parts[u(1)];
                let r = self.sim.run(p.delete_contained_entities(), BUDGET);
                self.sim.settle();
                match r { Ok(x) => format!("delall {}", rc(&x)), Err(_) => "delall STUCK".into() }
            }
            "delP" => {
                let p = &self.parts[u(1)];
                let f = &self.factory;
                let r = self.sim.run(f.delete_participant(p), BUDGET);
                self.sim.settle();
                if let Ok(Ok(())) = r {
                    self.sim.shared.endpoints.lock().unwrap()[u(1)].alive = false;
                }
                match r { Ok(x) => format!("delP {}", rc(&x)), Err(_) => "delP STUCK".into() }
            }
            "inject" => {
                let bytes = vh::util::hex(t[3]);
                let p = Packet { id: 0, from: 999, to: u(1), meta: n(2) == 1, bytes, held: false };
                self.sim.deliver_packet(&p);
                "inj".into()
            }
            "odm" => {
                let w = &self.writers[u(1)];
                match self.sim.run(w.get_offered_deadline_missed_status(), BUDGET) {
                    Ok(Ok(s)) => format!("odm {} {}", s.total_count, s.total_count_change),
                    Ok(Err(e)) => format!("odm E{}", err_code(&e)),
                    Err(_) => "odm STUCK".into(),
                }
            }
            "lw" | "lr" => {
                self.sim.settle();
                let l = if t[0] == "lw" { self.wlogs[u(1)].lock().unwrap() } else { self.rlogs[u(1)].lock().unwrap() };
                let mut s = format!("{} {}", t[0], l.len());
                for (now, total, change) in l.iter() {
                    s += &format!(" {}:{}:{}", now, total, change);
                }
                s
            }
            "scw" | "scr" => {
                let c = if t[0] == "scw" { self.writers[u(1)].get_statuscondition() } else { self.readers[u(1)].get_statuscondition() };
                let k = if t[0] == "scw" { StatusKind::OfferedDeadlineMissed } else { StatusKind::RequestedDeadlineMissed };
                let r1 = self.sim.run(c.set_enabled_statuses(&[k]), BUDGET);
                let r2 = self.sim.run(c.get_trigger_value(), BUDGET);
                match (r1, r2) {
                    (Ok(Ok(())), Ok(Ok(b))) => format!("{} {}", t[0], b as i32),
                    _ => format!("{} E", t[0]),
                }
            }
            "wb" => {
                let w = &self.writers[u(1)];
                let data = KeyedData { id: n(2) as u8, value: payload(u(3), n(4) as u64) };
                let t0 = self.sim.now();
                let r = self.sim.run(w.write(data, None), 30_000_000_000);
                let t1 = self.sim.now();
                self.sim.settle();
                match r {
                    Ok(x) => format!("wb {} {}", rc(&x), t1 - t0),
                    Err(_) => format!("wb STUCK {}", t1 - t0),
                }
            }
            "now" => format!("now {}", self.sim.now()),
            "sent" => {
                let log = self.sim.shared.sent_log.lock().unwrap();
                let mut s = String::from("sent");
                for (from, to, meta, bytes) in log[self.sent_mark..].iter() {
                    if *meta {
                        continue;
                    }
                    for (k, w, sn, fr) in summarize(bytes) {
                        s += &format!(" {}>{}:{}:{}:{}:{}", from, to, k, w, sn, fr);
                    }
                }
                self.sent_mark = log.len();
                s
            }
            _ => format!("?{}", t[0]),
        }
    }
}

fn run_scenario(line: &str) -> String {
    let sim = Sim::new(1344);
    let dlog: DelayLog = Arc::new(Mutex::new(vec![]));
    let factory = DomainParticipantFactoryAsync::new(
        TRuntime { inner: SimRuntime(sim.shared.clone()), log: dlog.clone() },
        [1, 2, 3, 4],
        [5, 6, 7, 8],
        SimTransport(sim.shared.clone()),
        Default::default(),
    );
    let mut w = World {
        sim,
        factory,
        parts: vec![],
        topics: vec![],
        pubs: vec![],
        subs: vec![],
        writers: vec![],
        readers: vec![],
        rules: vec![],
        sent_mark: 0,
        dlog,
        dmark: 0,
        trace: false,
        wlogs: vec![],
        rlogs: vec![],
        wmarks: vec![],
        rmarks: vec![],
    };
    let mut out = vec![];
    for op in line.split(';') {
        let op = op.trim();
        if op.is_empty() {
            continue;
        }
        let mut r = w.op(op);
        if w.trace {
            w.sim.settle();
            let d = w.dlog.lock().unwrap();
            let items: Vec<String> = d[w.dmark..].iter().map(|(t, ns)| format!("{}:{}", t, ns)).collect();
            w.dmark = d.len();
            r += &format!(" #{}", items.join(","));
            // listener calls during this op, per writer and per reader: n:last_total
            for (logs, marks) in [(&w.wlogs, &mut w.wmarks), (&w.rlogs, &mut w.rmarks)] {
                let mut v = vec![];
                for (i, l) in logs.iter().enumerate() {
                    let l = l.lock().unwrap();
                    if marks.len() <= i {
                        marks.push(0);
                    }
                    let n = l.len() - marks[i];
                    let last = if n > 0 { l[l.len() - 1].1 } else { 0 };
                    marks[i] = l.len();
                    v.push(format!("{}:{}", n, last));
                }
                r += &format!(" #{}", v.join(","));
            }
        }
        out.push(r);
    }
    out.join(" | ")
}

fn main() {
    let args: Vec<String> = std::env::args().collect();
    if args.get(1).map(|s| s.as_str()) == Some("--one") {
        // child: one scenario on stdin
        let mut line = String::new();
        std::io::stdin().lock().read_line(&mut line).unwrap();
        std::panic::set_hook(Box::new(|info| {
            let s = info.location().map(|l| format!("{}:{}", l.file(), l.line())).unwrap_or_default();
            println!("PANIC {}", s);
            std::process::exit(3);
        }));
        println!("{}", run_scenario(line.trim()));
        std::process::exit(0);
    }
    let exe = std::env::current_exe().unwrap();
    let stdin = std::io::stdin();
    let stdout = std::io::stdout();
    let mut out = stdout.lock();
    for line in stdin.lock().lines() {
        let line = line.unwrap();
        if line.trim().is_empty() {
            continue;
        }
        let mut child = std::process::Command::new(&exe)
            .arg("--one")
            .stdin(std::process::Stdio::piped())
            .stdout(std::process::Stdio::piped())
            .stderr(std::process::Stdio::null())
            .spawn()
            .unwrap();
        child.stdin.take().unwrap().write_all(format!("{}\n", line).as_bytes()).unwrap();
        // watchdog: a scenario that spins (e.g. the worker busy-looping) is reported as HANG
        let pid = child.id();
        let (tx, rx) = std::sync::mpsc::channel::<()>();
        let wd = std::thread::spawn(move || {
            if rx.recv_timeout(std::time::Duration::from_secs(120)).is_err() {
                let _ = std::process::Command::new("kill").arg("-9").arg(pid.to_string()).status();
                true
            } else {
                false
            }
        });
        let o = child.wait_with_output().unwrap();
        let _ = tx.send(());
        let killed = wd.join().unwrap_or(false);
        let s = String::from_utf8_lossy(&o.stdout);
        let last = if killed { "HANG".to_string() } else { s.lines().last().unwrap_or("ABORT").to_string() };
        writeln!(out, "{}", if last.is_empty() { "ABORT".to_string() } else { last }).unwrap();
        out.flush().unwrap();
    }
}
