//! C42 — std runtime timers and blocking helpers: drives the REAL
//! dust_dds::std_runtime::{timer, executor} API with counting/recording wakers and
//! prints an event trace with recorded Instants (ns since the start of the case).
//! Only ordering facts are derived from the times (never absolute latencies).
//!
//! case kinds (first word):
//!   t  <ops>            timer script on one TimerDriver: n<dur_us>|nM  p<k> d<k> e<k> r<k> w<us> s
//!   bt <dur_us> <v> <stall_us> <stages>   block_timeout(dur, scripted future returning v)
//!   bo <v> <stages>                       block_on(scripted future returning v)
//!   ex <stages per task: a+b+c ...>       Executor: spawn one task per word, join all
//! stages: s<us> (timer sleep) e<us> (completed by another thread after us) y (yield once) x (never)
//!         Y (wakes twice inside one poll)
use std::future::Future;
use std::pin::Pin;
use std::sync::atomic::{AtomicBool, AtomicI64, Ordering};
use std::sync::{Arc, Mutex};
use std::task::{Context, Poll, RawWaker, RawWakerVTable, Wake, Waker};
use std::thread::ThreadId;
use std::time::{Duration, Instant};

use dust_dds::std_runtime::executor::{block_on, block_timeout, Executor};
use dust_dds::std_runtime::timer::{Sleep, TimerDriver, TimerHandle};

/// how long a wake-up is waited for before the case is reported as LOST (C42_LOST_MS overrides)
fn lost_timeout() -> Duration {
    let ms = std::env::var("C42_LOST_MS").ok().and_then(|s| s.parse::<u64>().ok()).unwrap_or(20_000);
    Duration::from_millis(ms)
}
const FAR_US: i128 = 1_000_000; // sleeps of >= 1 s are never waited for

// ------------------------------------------------------------------ shared log
struct Shared {
    base: Instant,
    log: Mutex<Vec<String>>,
    closed: AtomicBool,
    cur_tok: AtomicI64,
    main: ThreadId,
    fired: Mutex<Vec<i64>>, // tokens whose wake() has been called
}

impl Shared {
    fn new() -> Arc<Self> {
        Arc::new(Shared {
            base: Instant::now(),
            log: Mutex::new(Vec::new()),
            closed: AtomicBool::new(false),
            cur_tok: AtomicI64::new(-1),
            main: std::thread::current().id(),
            fired: Mutex::new(Vec::new()),
        })
    }
    /// appends an event; the time is taken under the lock, so the log is time ordered
    fn ev(&self, f: impl FnOnce(i128) -> String) -> (usize, i128) {
        let mut l = self.log.lock().unwrap();
        let t = self.base.elapsed().as_nanos() as i128;
        l.push(f(t));
        (l.len() - 1, t)
    }
    fn now(&self) -> i128 {
        self.base.elapsed().as_nanos() as i128
    }
    fn has_fired(&self, tok: i64) -> bool {
        self.fired.lock().unwrap().contains(&tok)
    }
}

// ------------------------------------------------ recording waker (RawWaker)
struct Tok {
    sh: Arc<Shared>,
    tok: i64, // -1 = the root waker owned by the harness
}

unsafe fn tk_clone(p: *const ()) -> RawWaker {
    let t = unsafe { &*(p as *const Tok) };
    let n = Arc::new(Tok { sh: t.sh.clone(), tok: t.sh.cur_tok.load(Ordering::SeqCst) });
    RawWaker::new(Arc::into_raw(n) as *const (), &VTABLE)
}
fn tk_fire(t: &Tok) {
    if t.tok >= 0 && !t.sh.closed.load(Ordering::SeqCst) {
        let tok = t.tok;
        // the F event is logged BEFORE the token becomes visible as fired (the harness thread
        // waits on `fired`): both happen under the log lock
        t.sh.ev(|now| {
            let mut f = t.sh.fired.lock().unwrap();
            let first = !f.contains(&tok);
            f.push(tok);
            if first { format!("F {} {}", tok, now) } else { format!("F2 {} {}", tok, now) }
        });
    }
}
unsafe fn tk_wake(p: *const ()) {
    let a = unsafe { Arc::from_raw(p as *const Tok) };
    tk_fire(&a);
}
unsafe fn tk_wake_by_ref(p: *const ()) {
    let t = unsafe { &*(p as *const Tok) };
    tk_fire(t);
}
unsafe fn tk_drop(p: *const ()) {
    let a = unsafe { Arc::from_raw(p as *const Tok) };
    if a.tok >= 0 && !a.sh.closed.load(Ordering::SeqCst) && !a.sh.has_fired(a.tok) {
        // dropped without having been woken; only the timer thread's drops matter
        if std::thread::current().id() != a.sh.main {
            let tok = a.tok;
            a.sh.ev(|now| format!("X {} {}", tok, now));
        }
    }
}
static VTABLE: RawWakerVTable = RawWakerVTable::new(tk_clone, tk_wake, tk_wake_by_ref, tk_drop);

fn root_waker(sh: &Arc<Shared>) -> Waker {
    let t = Arc::new(Tok { sh: sh.clone(), tok: -1 });
    unsafe { Waker::from_raw(RawWaker::new(Arc::into_raw(t) as *const (), &VTABLE)) }
}

// ------------------------------------------------------- Debug introspection
fn parse_instant(s: &str) -> Option<i128> {
    // "Instant { tv_sec: 123, tv_nsec: 456 }"
    let a = s.find("tv_sec: ")? + 8;
    let rest = &s[a..];
    let e = rest.find(',')?;
    let sec: i128 = rest[..e].trim().parse().ok()?;
    let b = rest.find("tv_nsec: ")? + 9;
    let r2 = &rest[b..];
    let e2 = r2.find(|c: char| !c.is_ascii_digit())?;
    let ns: i128 = r2[..e2].parse().ok()?;
    Some(sec * 1_000_000_000 + ns)
}
/// (id, deadline relative to base in ns) from the Debug output of a Sleep
fn inspect(sl: &Sleep, base_abs: Option<i128>) -> (Option<i128>, Option<Option<i128>>) {
    let s = format!("{:?}", sl);
    let id = s.find("id: ").and_then(|i| {
        let r = &s[i + 4..];
        let e = r.find(|c: char| !c.is_ascii_digit())?;
        r[..e].parse::<i128>().ok()
    });
    let dl = match s.find("deadline: ") {
        None => None,
        Some(i) => {
            let r = &s[i + 10..];
            if r.starts_with("None") {
                Some(None)
            } else if r.starts_with("Some(") {
                match (parse_instant(r), base_abs) {
                    (Some(a), Some(b)) => Some(Some(a - b)),
                    _ => None,
                }
            } else {
                None
            }
        }
    };
    (id, dl)
}

fn dur_of(us: i128) -> Duration {
    if us < 0 { Duration::MAX } else { Duration::from_micros(us as u64) }
}

// --------------------------------------------------------------- timer script
struct Slot {
    sleep: Option<Sleep>,
    dur_us: i128,
    polled: bool,
    last_tok: i64,
    last_ready: bool,
}

struct TimerCase {
    sh: Arc<Shared>,
    base_abs: Option<i128>,
    handle: TimerHandle,
    slots: Vec<Slot>,
    waker: Waker,
    ntok: i64,
    exact: bool,
}

impl TimerCase {
    fn new_sleep(&mut self, dur_us: i128) -> usize {
        let sl = self.handle.sleep(dur_of(dur_us));
        let k = self.slots.len();
        let (id, _) = inspect(&sl, self.base_abs);
        let idv = id.unwrap_or(k as i128);
        let dns: i128 = if dur_us < 0 { -1 } else { dur_us * 1000 };
        self.sh.ev(|_| format!("N {} {} {}", k, idv, dns));
        self.slots.push(Slot { sleep: Some(sl), dur_us, polled: false, last_tok: -1, last_ready: false });
        k
    }
    fn deadline(&mut self, k: usize, fallback: i128) -> i128 {
        let sl = self.slots[k].sleep.as_ref().unwrap();
        match inspect(sl, self.base_abs).1 {
            Some(Some(d)) => d,
            _ => {
                self.exact = false;
                fallback
            }
        }
    }
    fn poll(&mut self, k: usize) -> Option<bool> {
        if k >= self.slots.len() || self.slots[k].sleep.is_none() {
            return None;
        }
        let tok = self.ntok;
        self.sh.cur_tok.store(tok, Ordering::SeqCst);
        let (pos, t0) = self.sh.ev(|_| String::new());
        let r = {
            let sl = self.slots[k].sleep.as_mut().unwrap();
            let mut cx = Context::from_waker(&self.waker);
            Pin::new(sl).poll(&mut cx)
        };
        let t1 = self.sh.now();
        let ready = r.is_ready();
        let dur_ns = if self.slots[k].dur_us < 0 { 86_400_000_000_000 } else { self.slots[k].dur_us * 1000 };
        let dl = self.deadline(k, t0 + dur_ns);
        self.sh.cur_tok.store(-1, Ordering::SeqCst);
        if ready {
            // a Ready poll sends nothing: place it at its end
            self.sh.log.lock().unwrap()[pos] = String::new();
            self.sh.ev(|t| format!("P {} {} {} 1 -1 {}", k, t0, t.max(t1), dl));
        } else {
            self.sh.log.lock().unwrap()[pos] = format!("P {} {} {} 0 {} {}", k, t0, t1, tok, dl);
            self.ntok += 1;
            self.slots[k].last_tok = tok;
        }
        self.slots[k].polled = true;
        self.slots[k].last_ready = ready;
        Some(ready)
    }
    fn drop_sleep(&mut self, k: usize) {
        if k < self.slots.len() && self.slots[k].sleep.is_some() {
            self.sh.ev(|t| format!("D {} {}", k, t));
            self.slots[k].sleep = None;
        }
    }
    // is_elapsed / reset read the clock: their events are placed where they BEGIN
    fn elapsed(&mut self, k: usize) {
        if k < self.slots.len() && self.slots[k].sleep.is_some() {
            let (pos, t0) = self.sh.ev(|_| String::new());
            let b = self.slots[k].sleep.as_ref().unwrap().is_elapsed();
            let t1 = self.sh.now();
            self.sh.log.lock().unwrap()[pos] = format!("E {} {} {} {}", k, t0, t1, b as u8);
        }
    }
    fn reset(&mut self, k: usize) {
        if k < self.slots.len() && self.slots[k].sleep.is_some() {
            let (pos, t0) = self.sh.ev(|_| String::new());
            self.slots[k].sleep.as_mut().unwrap().reset();
            let t1 = self.sh.now();
            let dur_ns = if self.slots[k].dur_us < 0 { 86_400_000_000_000 } else { self.slots[k].dur_us * 1000 };
            let dl = self.deadline(k, t0 + dur_ns);
            self.sh.log.lock().unwrap()[pos] = format!("R {} {} {} {}", k, t0, t1, dl);
        }
    }
    /// waits until token `tok` has been woken; false = gave up
    fn wait_fired(&self, tok: i64) -> bool {
        let start = Instant::now();
        let lost = lost_timeout();
        let mut n = 0u32;
        while !self.sh.has_fired(tok) {
            if start.elapsed() > lost {
                return false;
            }
            n += 1;
            if n < 50 {
                std::thread::yield_now();
            } else {
                std::thread::sleep(Duration::from_micros(200));
            }
        }
        true
    }
    /// barrier: a zero sleep sent now; once it has fired, every message sent before
    /// it has been consumed by the timer thread (one FIFO channel)
    fn sync(&mut self) -> bool {
        let k = self.new_sleep(0);
        self.poll(k);
        let tok = self.slots[k].last_tok;
        if !self.wait_fired(tok) {
            self.sh.ev(|_| format!("L {}", k));
            return false;
        }
        // complete and retire the barrier sleep
        self.poll(k);
        self.sh.ev(|t| format!("S {}", t));
        true
    }
    /// every live, polled, near sleep is driven to completion
    fn settle(&mut self) -> bool {
        for k in 0..self.slots.len() {
            if self.slots[k].sleep.is_none() || !self.slots[k].polled {
                continue;
            }
            if self.slots[k].dur_us < 0 || self.slots[k].dur_us >= FAR_US {
                continue;
            }
            let mut rounds = 0;
            while !self.slots[k].last_ready {
                let tok = self.slots[k].last_tok;
                if tok >= 0 && !self.wait_fired(tok) {
                    self.sh.ev(|_| format!("L {}", k));
                    return false;
                }
                self.poll(k);
                rounds += 1;
                if rounds > 8 {
                    self.sh.ev(|_| format!("L {}", k));
                    return false;
                }
            }
        }
        true
    }
}

fn run_timer(script: &str) -> String {
    let sh = Shared::new();
    let base_abs = parse_instant(&format!("{:?}", sh.base));
    let driver = TimerDriver::new();
    let mut c = TimerCase {
        sh: sh.clone(),
        base_abs,
        handle: driver.handle(),
        slots: Vec::new(),
        waker: root_waker(&sh),
        ntok: 0,
        exact: base_abs.is_some(),
    };
    let mut ok = true;
    for w in script.split_whitespace() {
        let (op, arg) = w.split_at(1);
        let a: i128 = if arg == "M" { -1 } else { arg.parse().unwrap_or(0) };
        match op {
            "n" => {
                c.new_sleep(a);
            }
            "p" => {
                c.poll(a as usize);
            }
            "d" => c.drop_sleep(a as usize),
            "e" => c.elapsed(a as usize),
            "r" => c.reset(a as usize),
            "w" => std::thread::sleep(Duration::from_micros(a as u64)),
            "s" => {
                if !c.sync() {
                    ok = false;
                    break;
                }
            }
            _ => return "BADOP".to_string(),
        }
    }
    if ok {
        ok = c.settle();
    }
    if ok {
        ok = c.sync();
    }
    // snapshot: tokens neither woken nor dropped are still held by the timer
    let ntok = c.ntok;
    sh.closed.store(true, Ordering::SeqCst);
    let log = sh.log.lock().unwrap().clone();
    let mut dead: Vec<i64> = sh.fired.lock().unwrap().clone();
    for l in &log {
        if let Some(r) = l.strip_prefix("X ") {
            if let Some(t) = r.split_whitespace().next().and_then(|x| x.parse::<i64>().ok()) {
                dead.push(t);
            }
        }
    }
    let alive: Vec<String> = (0..ntok).filter(|t| !dead.contains(t)).map(|t| t.to_string()).collect();
    let exact = c.exact;
    drop(c);
    drop(driver);
    let mut out: Vec<String> = vec![format!("T {}", exact as u8)];
    out.extend(log.into_iter().filter(|l| !l.is_empty()));
    out.push(format!("Z {} {}", ok as u8, alive.join(" ")));
    out.join(" | ")
}

// ------------------------------------------------------------ scripted future
#[derive(Clone)]
enum Stage {
    TimerSleep(i128),
    Ext(i128),
    Yield,
    /// wakes TWICE from inside one poll (hung block_timeout before fix 7de0553: blocking send
    /// into the one-slot wake channel; regression input `bt 1000 1 0 Y`)
    Yield2,
    Never,
}

fn parse_stages(s: &str) -> Vec<Stage> {
    s.split('+')
        .filter(|x| !x.is_empty() && *x != "-")
        .map(|w| {
            let (op, arg) = w.split_at(1);
            let a: i128 = arg.parse().unwrap_or(0);
            match op {
                "s" => Stage::TimerSleep(a),
                "e" => Stage::Ext(a),
                "y" => Stage::Yield,
                "Y" => Stage::Yield2,
                _ => Stage::Never,
            }
        })
        .collect()
}

/// forwards to the outer waker after logging the wake (W before, C after the send)
struct FwdWake {
    sh: Arc<Shared>,
    outer: Waker,
    stage: usize,
    // set together with the W event (under the log lock): the stage's completion flag
    flag: Option<Arc<AtomicBool>>,
}
impl Wake for FwdWake {
    fn wake(self: Arc<Self>) {
        self.wake_by_ref()
    }
    fn wake_by_ref(self: &Arc<Self>) {
        let st = self.stage;
        self.sh.ev(|t| {
            if let Some(f) = &self.flag {
                f.store(true, Ordering::SeqCst);
            }
            format!("W {} {}", st, t)
        });
        self.outer.wake_by_ref();
        self.sh.ev(|t| format!("C {} {}", st, t));
    }
}

struct Scripted {
    sh: Arc<Shared>,
    timer: TimerHandle,
    stages: Vec<Stage>,
    i: usize,
    started: bool,
    flag: Arc<AtomicBool>,
    inner: Option<Pin<Box<Sleep>>>,
    stall_us: i128,
    value: i128,
    tag: usize, // added to the stage numbers in the events (distinguishes executor tasks)
}

impl Future for Scripted {
    type Output = i128;
    fn poll(self: Pin<&mut Self>, cx: &mut Context<'_>) -> Poll<i128> {
        let this = self.get_mut();
        this.sh.ev(|t| format!("Pb {}", t));
        let r = this.step(cx);
        let ready = r.is_ready();
        this.sh.ev(|t| format!("Pe {} {}", t, ready as u8));
        r
    }
}

impl Scripted {
    fn fwd(&self, cx: &Context<'_>, flag: Option<Arc<AtomicBool>>) -> Waker {
        Waker::from(Arc::new(FwdWake { sh: self.sh.clone(), outer: cx.waker().clone(), stage: self.tag + self.i, flag }))
    }
    fn step(&mut self, cx: &mut Context<'_>) -> Poll<i128> {
        loop {
            if self.i >= self.stages.len() {
                return Poll::Ready(self.value);
            }
            match self.stages[self.i].clone() {
                Stage::Never => return Poll::Pending,
                Stage::Yield => {
                    if !self.started {
                        self.started = true;
                        self.fwd(cx, None).wake_by_ref();
                        return Poll::Pending;
                    }
                    self.started = false;
                    self.i += 1;
                }
                Stage::Yield2 => {
                    if !self.started {
                        self.started = true;
                        let w = self.fwd(cx, None);
                        w.wake_by_ref();
                        w.wake_by_ref();
                        return Poll::Pending;
                    }
                    self.started = false;
                    self.i += 1;
                }
                Stage::Ext(us) => {
                    if !self.started {
                        self.started = true;
                        self.flag = Arc::new(AtomicBool::new(false));
                        let w = self.fwd(cx, Some(self.flag.clone()));
                        std::thread::spawn(move || {
                            std::thread::sleep(Duration::from_micros(us as u64));
                            w.wake();
                        });
                    }
                    if self.flag.load(Ordering::SeqCst) {
                        self.started = false;
                        self.i += 1;
                    } else {
                        if self.stall_us > 0 {
                            std::thread::sleep(Duration::from_micros(self.stall_us as u64));
                        }
                        return Poll::Pending;
                    }
                }
                Stage::TimerSleep(us) => {
                    if self.inner.is_none() {
                        self.inner = Some(Box::pin(self.timer.sleep(dur_of(us))));
                        let st = self.tag + self.i;
                        self.sh.ev(|t| format!("Ts {} {} {}", st, t, us * 1000));
                    }
                    let w = self.fwd(cx, None);
                    let mut icx = Context::from_waker(&w);
                    match self.inner.as_mut().unwrap().as_mut().poll(&mut icx) {
                        Poll::Ready(()) => {
                            let st = self.tag + self.i;
                            self.sh.ev(|t| format!("Te {} {}", st, t));
                            self.inner = None;
                            self.i += 1;
                        }
                        Poll::Pending => return Poll::Pending,
                    }
                }
            }
        }
    }
}

fn scripted(sh: &Arc<Shared>, timer: TimerHandle, stages: &str, stall_us: i128, value: i128) -> Scripted {
    Scripted {
        sh: sh.clone(),
        timer,
        stages: parse_stages(stages),
        i: 0,
        started: false,
        flag: Arc::new(AtomicBool::new(false)),
        inner: None,
        stall_us,
        value,
        tag: 0,
    }
}

fn finish(sh: &Arc<Shared>, head: String) -> String {
    sh.closed.store(true, Ordering::SeqCst);
    let log = sh.log.lock().unwrap().clone();
    let mut out = vec![head];
    out.extend(log.into_iter().filter(|l| !l.is_empty()));
    out.join(" | ")
}

fn run_bt(v: &[&str]) -> String {
    let dur_us: i128 = v[0].parse().unwrap();
    let value: i128 = v[1].parse().unwrap();
    let stall: i128 = v[2].parse().unwrap();
    let sh = Shared::new();
    let driver = TimerDriver::new();
    let fut = scripted(&sh, driver.handle(), v.get(3).copied().unwrap_or("-"), stall, value);
    sh.ev(|t| format!("B {} {}", t, dur_us * 1000));
    let r = block_timeout(Duration::from_micros(dur_us as u64), fut);
    match r {
        Ok(x) => sh.ev(|t| format!("Ret {} 1 {}", t, x)),
        Err(dust_dds::infrastructure::error::DdsError::Timeout) => sh.ev(|t| format!("Ret {} 0 0", t)),
        Err(_) => sh.ev(|t| format!("Ret {} 2 0", t)),
    };
    // let completer threads of the abandoned future finish logging nothing more
    finish(&sh, "BT".to_string())
}

fn run_bo(v: &[&str]) -> String {
    let value: i128 = v[0].parse().unwrap();
    let sh = Shared::new();
    let driver = TimerDriver::new();
    let fut = scripted(&sh, driver.handle(), v.get(1).copied().unwrap_or("-"), 0, value);
    sh.ev(|t| format!("B {} -1", t));
    let x = block_on(fut);
    sh.ev(|t| format!("Ret {} 1 {}", t, x));
    finish(&sh, "BO".to_string())
}

fn run_ex(v: &[&str]) -> String {
    use dust_dds::runtime::TaskHandle;
    let sh = Shared::new();
    let driver = TimerDriver::new();
    let exec = Executor::new();
    let h = exec.handle();
    let mut handles = Vec::new();
    for (i, w) in v.iter().enumerate() {
        let mut fut = scripted(&sh, driver.handle(), w, 0, i as i128);
        fut.tag = 100 * i;
        let sh2 = sh.clone();
        sh.ev(|t| format!("Sp {} {}", i, t));
        handles.push(h.spawn(async move {
            let x = fut.await;
            sh2.ev(|t| format!("Done {} {}", x, t));
        }));
    }
    for (i, jh) in handles.iter().enumerate() {
        jh.join();
        sh.ev(|t| format!("J {} {}", i, t));
    }
    finish(&sh, "EX".to_string())
}

fn run_line(line: &str) -> String {
    let (kind, rest) = line.split_once(' ').unwrap_or((line, ""));
    let v: Vec<&str> = rest.split_whitespace().collect();
    match kind {
        "t" => run_timer(rest),
        "bt" => run_bt(&v),
        "bo" => run_bo(&v),
        "ex" => run_ex(&v),
        _ => "BADOP".to_string(),
    }
}

fn main() {
    vh::main_loop(run_line);
}
