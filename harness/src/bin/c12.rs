//! C12 shares the C11 harness (same model, same observable: the instance handle).
#[path = "c11.rs"]
mod c11;

fn main() {
    c11::main_entry();
}
