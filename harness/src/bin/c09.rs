//! C09 / C10 harness: XCDR (de)serialization of run-time built DynamicType / DynamicData.
//!
//! `dust_dds::xtypes::{serializer, deserializer}` are `pub(crate)`.  Until a cfg-guarded hook
//! exists, the two source files of /repo are compiled into this binary unchanged through
//! `#[path]` (they only use the public API of `dust_dds::xtypes::*` plus `tracing::debug!`,
//! which is shimmed below).  Every other piece of code (DynamicType, DynamicData, DataStorage,
//! builders, factories) is the one of the `dust_dds` crate.
//!
//! One case per line:
//!   rt  <ver:1|2> <end:le|be> <type> | <value>     serialize, then deserialize the produced bytes
//!   rtt <cut> <ver> <end> <type> | <value>         serialize, drop the last <cut> bytes, deserialize
//!   dec <type> | <hex>                             deserialize the given bytes
//! Output:
//!   rt : `S <hex> <dec>` | `SE <code>` | `SP` (serializer panicked)
//!   rtt: `T <hex of the truncated bytes> <dec>` (or SE / SP)
//!   dec: `<dec>`
//!   <dec> = `D <value>` | `E <code>` | `P` (deserializer panicked)
//!
//! Type syntax (prefix, blank separated):
//!   b y u8 i8 u16 i16 u32 i32 u64 i64 f32 f64 f128 c8      primitives (y = BYTE)
//!   s | w                                                 string8 | string16
//!   E <holder> <n> <label>*                               enumeration
//!   Q <ty> | A <n> <ty>                                   sequence | array
//!   S <F|A|M> <n> (<id> <flags> <ty>)*                    structure; flags: 1 optional 2 key 4 must_understand
//!   U <F|A|M> <disc ty> <n> (<id> <flags> <default:0|1> <nlabels> <label>* <ty>)*   union (member 0 = disc is implicit)
//! Value syntax (storage directed, mirrors DataStorage):
//!   p<kind> <int>          scalar (floats as raw bits, c8 as code point, b as 0/1)
//!   s <hex|->              String (UTF-8 bytes)
//!   d <n> (<id> <value>)*  ComplexValue / the top-level DynamicData
//!   q<kind> <n> <int>*     primitive sequence
//!   qs <n> <hex|->*        SequenceString
//!   qd <n> (<n_i> (<id> <value>)*)*   SequenceComplexValue
#![allow(dead_code, unused_imports, unused_variables, unused_macros)]
extern crate alloc;
extern crate self as tracing;

#[macro_export]
macro_rules! debug {
    ($($t:tt)*) => {};
}

mod xtypes {
    pub use dust_dds::xtypes::{data_storage, dynamic_type, error, type_object, type_support};
    #[path = "/repo/dds/src/xtypes/deserializer.rs"]
    pub mod deserializer;
    #[path = "/repo/dds/src/xtypes/serializer.rs"]
    pub mod serializer;
}

use dust_dds::xtypes::{
    data_storage::DataStorage,
    dynamic_type::{
        DynamicData, DynamicDataFactory, DynamicType, DynamicTypeBuilderFactory, ExtensibilityKind,
        MemberDescriptor, TryConstructKind, TypeDescriptor, TypeKind,
    },
    error::XTypesError,
};
use std::panic::{catch_unwind, AssertUnwindSafe};

struct Toks<'a> {
    t: Vec<&'a str>,
    i: usize,
}
impl<'a> Toks<'a> {
    fn new(s: &'a str) -> Self {
        Toks { t: s.split_whitespace().collect(), i: 0 }
    }
    fn next(&mut self) -> &'a str {
        let x = self.t[self.i];
        self.i += 1;
        x
    }
    fn int(&mut self) -> i128 {
        self.next().parse::<i128>().unwrap()
    }
}

fn prim_kind(s: &str) -> Option<TypeKind> {
    Some(match s {
        "b" => TypeKind::BOOLEAN,
        "y" => TypeKind::BYTE,
        "u8" => TypeKind::UINT8,
        "i8" => TypeKind::INT8,
        "u16" => TypeKind::UINT16,
        "i16" => TypeKind::INT16,
        "u32" => TypeKind::UINT32,
        "i32" => TypeKind::INT32,
        "u64" => TypeKind::UINT64,
        "i64" => TypeKind::INT64,
        "f32" => TypeKind::FLOAT32,
        "f64" => TypeKind::FLOAT64,
        "f128" => TypeKind::FLOAT128,
        "c8" => TypeKind::CHAR8,
        _ => return None,
    })
}

fn ext(s: &str) -> ExtensibilityKind {
    match s {
        "F" => ExtensibilityKind::Final,
        "A" => ExtensibilityKind::Appendable,
        "M" => ExtensibilityKind::Mutable,
        _ => panic!("ext"),
    }
}

fn descr(
    kind: TypeKind,
    e: ExtensibilityKind,
    disc: Option<DynamicType<'static>>,
) -> TypeDescriptor {
    TypeDescriptor {
        kind,
        name: "",
        base_type: None,
        discriminator_type: disc,
        bound: &[],
        element_type: None,
        key_element_type: None,
        extensibility_kind: e,
        is_nested: false,
    }
}

fn member(
    id: u32,
    index: u32,
    ty: DynamicType<'static>,
    flags: i128,
    label: &'static [i32],
    is_default: bool,
) -> MemberDescriptor {
    MemberDescriptor {
        name: "",
        id,
        r#type: ty,
        default_value: None,
        index,
        label,
        try_construct_kind: TryConstructKind::Discard,
        is_key: flags & 2 != 0,
        is_optional: flags & 1 != 0,
        is_must_understand: flags & 4 != 0,
        is_shared: false,
        is_default_label: is_default,
        is_external: false,
    }
}

fn parse_type(t: &mut Toks) -> DynamicType<'static> {
    let k = t.next();
    if let Some(pk) = prim_kind(k) {
        return DynamicTypeBuilderFactory::get_primitive_type(pk);
    }
    match k {
        "s" => DynamicTypeBuilderFactory::create_string_type(0).build(),
        "w" => DynamicTypeBuilderFactory::create_wstring_type(0).build(),
        "Q" => {
            let e = parse_type(t);
            DynamicTypeBuilderFactory::create_sequence_type(e, 0).build()
        }
        "A" => {
            let n = t.int() as u32;
            let e = parse_type(t);
            DynamicTypeBuilderFactory::create_array_type(e, vec![n].leak()).build()
        }
        "E" => {
            let holder = parse_type(t);
            let n = t.int();
            let mut b = DynamicTypeBuilderFactory::create_type(descr(
                TypeKind::ENUM,
                ExtensibilityKind::Final,
                Some(holder),
            ));
            for i in 0..n {
                let l = t.int() as i32;
                b.add_member(member(i as u32, i as u32, holder, 0, vec![l].leak(), false)).unwrap();
            }
            b.build()
        }
        "S" => {
            let e = ext(t.next());
            let n = t.int();
            let mut b = DynamicTypeBuilderFactory::create_type(descr(TypeKind::STRUCTURE, e, None));
            for i in 0..n {
                let id = t.int() as u32;
                let flags = t.int();
                let ty = parse_type(t);
                b.add_member(member(id, i as u32, ty, flags, &[], false)).unwrap();
            }
            b.build()
        }
        "U" => {
            let e = ext(t.next());
            let disc = parse_type(t);
            let n = t.int();
            let mut b =
                DynamicTypeBuilderFactory::create_type(descr(TypeKind::UNION, e, Some(disc)));
            b.add_member(member(0, 0, disc, 4, &[], false)).unwrap();
            for i in 0..n {
                let id = t.int() as u32;
                let flags = t.int();
                let dflt = t.int() != 0;
                let nl = t.int();
                let mut labels = Vec::new();
                for _ in 0..nl {
                    labels.push(t.int() as i32);
                }
                let ty = parse_type(t);
                b.add_member(member(id, (i + 1) as u32, ty, flags, labels.leak(), dflt)).unwrap();
            }
            b.build()
        }
        _ => panic!("bad type token {k}"),
    }
}

fn chr(x: i128) -> char {
    char::from_u32(x as u32).unwrap()
}

/// the DynamicType a nested DynamicData stored under member `id` of `ty` has
fn nested_type(ty: DynamicType<'static>, id: u32, elem: bool) -> DynamicType<'static> {
    let m = ty.get_member(id).expect("value refers to a member the type does not have");
    let mt = m.descriptor.r#type;
    if elem {
        mt.descriptor.element_type.expect("no element type")
    } else {
        mt
    }
}

fn parse_data(t: &mut Toks, ty: DynamicType<'static>) -> DynamicData<'static> {
    let n = t.int();
    let mut d = DynamicDataFactory::create_data(ty);
    for _ in 0..n {
        let id = t.int() as u32;
        let v = parse_storage(t, ty, id);
        d.set_value(id, v);
    }
    d
}

fn parse_storage(t: &mut Toks, ty: DynamicType<'static>, id: u32) -> DataStorage {
    let k = t.next();
    match k {
        "pu8" => DataStorage::UInt8(t.int() as u8),
        "pi8" => DataStorage::Int8(t.int() as i8),
        "pu16" => DataStorage::UInt16(t.int() as u16),
        "pi16" => DataStorage::Int16(t.int() as i16),
        "pu32" => DataStorage::UInt32(t.int() as u32),
        "pi32" => DataStorage::Int32(t.int() as i32),
        "pu64" => DataStorage::UInt64(t.int() as u64),
        "pi64" => DataStorage::Int64(t.int() as i64),
        "pf32" => DataStorage::Float32(f32::from_bits(t.int() as u32)),
        "pf64" => DataStorage::Float64(f64::from_bits(t.int() as u64)),
        "pf128" => DataStorage::Float128(t.int()),
        "pc8" => DataStorage::Char8(chr(t.int())),
        "pb" => DataStorage::Boolean(t.int() != 0),
        "s" => DataStorage::String(String::from_utf8(vh::util::hex(t.next())).unwrap()),
        "d" => DataStorage::ComplexValue(parse_data(t, nested_type(ty, id, false))),
        "qs" => {
            let n = t.int();
            DataStorage::SequenceString(
                (0..n).map(|_| String::from_utf8(vh::util::hex(t.next())).unwrap()).collect(),
            )
        }
        "qd" => {
            let n = t.int();
            let et = nested_type(ty, id, true);
            DataStorage::SequenceComplexValue((0..n).map(|_| parse_data(t, et)).collect())
        }
        _ => {
            let n = t.int();
            let mut xs = Vec::new();
            for _ in 0..n {
                xs.push(t.int());
            }
            match k {
                "qu8" => DataStorage::SequenceUInt8(xs.iter().map(|x| *x as u8).collect()),
                "qi8" => DataStorage::SequenceInt8(xs.iter().map(|x| *x as i8).collect()),
                "qu16" => DataStorage::SequenceUInt16(xs.iter().map(|x| *x as u16).collect()),
                "qi16" => DataStorage::SequenceInt16(xs.iter().map(|x| *x as i16).collect()),
                "qu32" => DataStorage::SequenceUInt32(xs.iter().map(|x| *x as u32).collect()),
                "qi32" => DataStorage::SequenceInt32(xs.iter().map(|x| *x as i32).collect()),
                "qu64" => DataStorage::SequenceUInt64(xs.iter().map(|x| *x as u64).collect()),
                "qi64" => DataStorage::SequenceInt64(xs.iter().map(|x| *x as i64).collect()),
                "qf32" => DataStorage::SequenceFloat32(
                    xs.iter().map(|x| f32::from_bits(*x as u32)).collect(),
                ),
                "qf64" => DataStorage::SequenceFloat64(
                    xs.iter().map(|x| f64::from_bits(*x as u64)).collect(),
                ),
                "qf128" => DataStorage::SequenceFloat128(xs),
                "qc8" => DataStorage::SequenceChar8(xs.iter().map(|x| chr(*x)).collect()),
                "qb" => DataStorage::SequenceBoolean(xs.iter().map(|x| *x != 0).collect()),
                _ => panic!("bad value token {k}"),
            }
        }
    }
}

fn join<T: std::fmt::Display>(tag: &str, xs: impl Iterator<Item = T>) -> String {
    let v: Vec<String> = xs.map(|x| x.to_string()).collect();
    if v.is_empty() {
        format!("{tag} 0")
    } else {
        format!("{tag} {} {}", v.len(), v.join(" "))
    }
}

fn show_data(d: &DynamicData) -> String {
    let n = d.get_item_count();
    let mut s = format!("{n}");
    for i in 0..n {
        let id = d.get_member_id_at_index(i).unwrap();
        s.push_str(&format!(" {} {}", id, show_storage(d.get_value(id).unwrap())));
    }
    s
}

fn show_storage(v: &DataStorage) -> String {
    match v {
        DataStorage::UInt8(x) => format!("pu8 {x}"),
        DataStorage::Int8(x) => format!("pi8 {x}"),
        DataStorage::UInt16(x) => format!("pu16 {x}"),
        DataStorage::Int16(x) => format!("pi16 {x}"),
        DataStorage::Int32(x) => format!("pi32 {x}"),
        DataStorage::UInt32(x) => format!("pu32 {x}"),
        DataStorage::Int64(x) => format!("pi64 {x}"),
        DataStorage::UInt64(x) => format!("pu64 {x}"),
        DataStorage::Float32(x) => format!("pf32 {}", x.to_bits()),
        DataStorage::Float64(x) => format!("pf64 {}", x.to_bits()),
        DataStorage::Float128(x) => format!("pf128 {x}"),
        DataStorage::Char8(x) => format!("pc8 {}", *x as u32),
        DataStorage::Boolean(x) => format!("pb {}", *x as u8),
        DataStorage::String(x) => format!("s {}", vh::util::to_hex(x.as_bytes())),
        DataStorage::ComplexValue(x) => format!("d {}", show_data(x)),
        DataStorage::SequenceUInt8(x) => join("qu8", x.iter()),
        DataStorage::SequenceInt8(x) => join("qi8", x.iter()),
        DataStorage::SequenceUInt16(x) => join("qu16", x.iter()),
        DataStorage::SequenceInt16(x) => join("qi16", x.iter()),
        DataStorage::SequenceInt32(x) => join("qi32", x.iter()),
        DataStorage::SequenceUInt32(x) => join("qu32", x.iter()),
        DataStorage::SequenceInt64(x) => join("qi64", x.iter()),
        DataStorage::SequenceUInt64(x) => join("qu64", x.iter()),
        DataStorage::SequenceFloat32(x) => join("qf32", x.iter().map(|f| f.to_bits())),
        DataStorage::SequenceFloat64(x) => join("qf64", x.iter().map(|f| f.to_bits())),
        DataStorage::SequenceFloat128(x) => join("qf128", x.iter()),
        DataStorage::SequenceChar8(x) => join("qc8", x.iter().map(|c| *c as u32)),
        DataStorage::SequenceBoolean(x) => join("qb", x.iter().map(|b| *b as u8)),
        DataStorage::SequenceString(x) => {
            join("qs", x.iter().map(|s| vh::util::to_hex(s.as_bytes())))
        }
        DataStorage::SequenceComplexValue(x) => join("qd", x.iter().map(show_data)),
    }
}

fn code(e: &XTypesError) -> u32 {
    match e {
        XTypesError::OutOfMemory => 10,
        XTypesError::InvalidData => 2,
        XTypesError::InvalidType => 3,
        XTypesError::PidNotFound(_) => 6,
        XTypesError::InvalidId(_) => 4,
        XTypesError::InvalidIndex(_) => 5,
        XTypesError::InvalidName => 7,
        XTypesError::NotEnoughData => 1,
        XTypesError::NotSupported(_) => 8,
        XTypesError::IllegalOperation => 9,
    }
}

fn decode(ty: DynamicType<'static>, bytes: &[u8]) -> String {
    let r = catch_unwind(AssertUnwindSafe(|| {
        xtypes::deserializer::deserialize_top_level_type(ty, bytes)
    }));
    match r {
        Err(_) => "P".to_string(),
        Ok(Err(e)) => format!("E {}", code(&e)),
        Ok(Ok(d)) => format!("D d {}", show_data(&d)),
    }
}

fn run_line(line: &str) -> String {
    let (head, tail) = line.split_once('|').unwrap_or((line, ""));
    let mut t = Toks::new(head);
    let op = t.next();
    match op {
        "rt" | "rtt" => {
            let cut = if op == "rtt" { Some(t.int() as usize) } else { None };
            let ver = t.int();
            let end = t.next();
            let ty = parse_type(&mut t);
            let mut vt = Toks::new(tail);
            let k = vt.next();
            assert_eq!(k, "d");
            let data = parse_data(&mut vt, ty);
            let r = catch_unwind(AssertUnwindSafe(|| match (ver, end) {
                (1, "le") => xtypes::serializer::serialize_cdr1_le(&data),
                (1, "be") => xtypes::serializer::serialize_cdr1_be(&data),
                (2, "le") => xtypes::serializer::serialize_cdr2_le(&data),
                (2, "be") => xtypes::serializer::serialize_cdr2_be(&data),
                _ => panic!("bad version / endianness"),
            }));
            match r {
                Err(_) => "SP".to_string(),
                Ok(Err(e)) => format!("SE {}", code(&e)),
                Ok(Ok(bytes)) => match cut {
                    None => format!("S {} {}", vh::util::to_hex(&bytes), decode(ty, &bytes)),
                    Some(k) => {
                        let b = &bytes[..bytes.len().saturating_sub(k)];
                        format!("T {} {}", vh::util::to_hex(b), decode(ty, b))
                    }
                },
            }
        }
        "dec" => {
            let ty = parse_type(&mut t);
            let bytes = vh::util::hex(tail);
            decode(ty, &bytes)
        }
        _ => "BADOP".to_string(),
    }
}

fn main() {
    vh::main_loop(run_line);
}
