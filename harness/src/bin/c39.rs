//! C39 harness: type evolution.  Builds a READER type T1 and a WRITER type T2 at run time
//! (DynamicTypeBuilderFactory), asks the real TypeObject code whether T1 is assignable from
//! T2 under a TypeConsistencyEnforcementQosPolicy (exactly the call of discovery_methods.rs:
//! `CompleteTypeObject::from(reader type).is_assignable_from_w_type_consistency(&writer type object, &qos)`),
//! serializes a value with the WRITER type and deserializes the bytes with the READER type.
//!
//! `dust_dds::xtypes::{serializer, deserializer}` are `pub(crate)`: as in c09.rs the two
//! unchanged source files of /repo are compiled into this binary through `#[path]`.
//!
//! One case per line:
//!   ev <ver:1|2> <end:le|be> <tc> | <T1> | <T2> | <value of T2>
//!   as <tc> | <CTO1> | <CTO2>                 assignability of two hand-built CompleteTypeObjects
//!   ty <k> <ver> <end> <tc> | <i32>*          pair k of the compile-time (#[derive(DdsType)]) catalogue below:
//!                                             as `ev`, plus the typed sample `Reader::create_sample(decoded)`
//! <tc> = bit mask: 1 ignore_sequence_bounds 2 ignore_string_bounds 4 ignore_member_names
//!        8 prevent_type_widening 16 force_type_validation 32 kind = DISALLOW_TYPE_COERCION
//! Type syntax:
//!   b y u8 i8 u16 i16 u32 i32 u64 i64 f32 f64 f128 c8      primitives (y = BYTE)
//!   s <bound> | w <bound>                                  string8 | string16 (create_string_type(bound))
//!   S <F|A|M> <type name token> <n> (<id> <flags> <name token> <ty>)*
//!       flags: 1 optional 2 key 4 must_understand 8 try_construct = USE_DEFAULT (else DISCARD)
//!       member name = "m<token>", type name = "T<token>"
//! CTO syntax (struct type object):
//!   <struct flag bits 0..4> <type name token> <n> (<id> <member flag bits 0..6> <name token> <tid>)*
//! tid syntax:
//!   none bool byte i8 u8 i16 u16 i32 u32 i64 u64 f32 f64 f128 c8 c16
//!   s8s <b> | s8l <b> | s16s <b> | s16l <b> | seqs <b> <tid> | seql <b> <tid>
//!   arrs <n> <b>* <tid> | arrl <n> <b>* <tid> | maps | mapl | scc | ekc <h> | ekm <h> | dflt
//! Value syntax: as c09.rs (`d <n> (<id> <value>)*`, `p<kind> <int>`, `s <hex|->`).
//! Output:
//!   ev: `A <0|1|P> C <CTO1> ; <CTO2> ; <ser>` with <ser> = `S <hex> <dec>` | `SE <code>` | `SP`
//!       and <dec> = `D d <n> ...` | `E <code>` | `P`
//!   as: `A <0|1|P>`
//!   ty: the `ev` output followed by ` ; TY some <n> (<id> <value>)*` (create_dynamic_sample of the typed
//!       sample) | ` ; TY none` | ` ; TY na` (nothing was decoded)
#![allow(dead_code, unused_imports, unused_variables, unused_macros)]
extern crate alloc;
extern crate self as tracing;

#[macro_export]
macro_rules! debug {
    ($($t:tt)*) => {};
}

mod xtypes {
    pub use dust_dds::xtypes::{data_storage, dynamic_type, error, type_object, type_support};
    #[path = "/repo/dds/src/xtypes/deserializer.rs"]
    pub mod deserializer;
    #[path = "/repo/dds/src/xtypes/serializer.rs"]
    pub mod serializer;
}

use dust_dds::infrastructure::qos_policy::{
    TypeConsistencyEnforcementQosPolicy, TypeConsistencyKind,
};
use dust_dds::xtypes::{
    data_storage::DataStorage,
    dynamic_type::{
        DynamicData, DynamicDataFactory, DynamicType, DynamicTypeBuilderFactory, ExtensibilityKind,
        MemberDescriptor, TryConstructKind, TypeDescriptor, TypeKind,
    },
    error::XTypesError,
    type_object::*,
};
use dust_dds::infrastructure::type_support::DdsType;
use dust_dds::xtypes::type_support::{Type, TypeSupport};
use std::panic::{catch_unwind, AssertUnwindSafe};

// ------------------------------------------------------------ compile-time type catalogue
// names follow the token convention of the run-time types: type "X<k>", members "m<k>"
#[derive(Debug, PartialEq, DdsType)]
#[dust_dds(extensibility = "appendable")]
struct A1 {
    m0: i32,
}
#[derive(Debug, PartialEq, DdsType)]
#[dust_dds(extensibility = "appendable")]
struct A2 {
    m0: i32,
    m1: i32,
}
#[derive(Debug, PartialEq, DdsType)]
#[dust_dds(extensibility = "appendable")]
struct A3 {
    m0: i32,
    #[dust_dds(try_construct = "USE_DEFAULT")]
    m1: i32,
}
#[derive(Debug, PartialEq, DdsType)]
#[dust_dds(extensibility = "mutable")]
struct M1 {
    #[dust_dds(id = 1)]
    m0: i32,
}
#[derive(Debug, PartialEq, DdsType)]
#[dust_dds(extensibility = "mutable")]
struct M2 {
    #[dust_dds(id = 1)]
    m0: i32,
    #[dust_dds(id = 2)]
    m1: i32,
}
#[derive(Debug, PartialEq, DdsType)]
#[dust_dds(extensibility = "mutable")]
struct M3 {
    #[dust_dds(id = 1)]
    m0: i32,
    #[dust_dds(id = 2, optional)]
    m1: Option<i32>,
}

struct Toks<'a> {
    t: Vec<&'a str>,
    i: usize,
}
impl<'a> Toks<'a> {
    fn new(s: &'a str) -> Self {
        Toks { t: s.split_whitespace().collect(), i: 0 }
    }
    fn next(&mut self) -> &'a str {
        let x = self.t[self.i];
        self.i += 1;
        x
    }
    fn int(&mut self) -> i128 {
        self.next().parse::<i128>().unwrap()
    }
}

fn prim_kind(s: &str) -> Option<TypeKind> {
    Some(match s {
        "b" => TypeKind::BOOLEAN,
        "y" => TypeKind::BYTE,
        "u8" => TypeKind::UINT8,
        "i8" => TypeKind::INT8,
        "u16" => TypeKind::UINT16,
        "i16" => TypeKind::INT16,
        "u32" => TypeKind::UINT32,
        "i32" => TypeKind::INT32,
        "u64" => TypeKind::UINT64,
        "i64" => TypeKind::INT64,
        "f32" => TypeKind::FLOAT32,
        "f64" => TypeKind::FLOAT64,
        "f128" => TypeKind::FLOAT128,
        "c8" => TypeKind::CHAR8,
        _ => return None,
    })
}

fn ext(s: &str) -> ExtensibilityKind {
    match s {
        "F" => ExtensibilityKind::Final,
        "A" => ExtensibilityKind::Appendable,
        "M" => ExtensibilityKind::Mutable,
        _ => panic!("ext"),
    }
}

fn leak_str(s: String) -> &'static str {
    Box::leak(s.into_boxed_str())
}

fn parse_type(t: &mut Toks) -> DynamicType<'static> {
    let k = t.next();
    if let Some(pk) = prim_kind(k) {
        return DynamicTypeBuilderFactory::get_primitive_type(pk);
    }
    match k {
        "s" => {
            let b = t.int() as u32;
            DynamicTypeBuilderFactory::create_string_type(b).build()
        }
        "w" => {
            let b = t.int() as u32;
            DynamicTypeBuilderFactory::create_wstring_type(b).build()
        }
        "S" => {
            let e = ext(t.next());
            let tname = t.int();
            let n = t.int();
            let mut b = DynamicTypeBuilderFactory::create_type(TypeDescriptor {
                kind: TypeKind::STRUCTURE,
                name: leak_str(format!("T{tname}")),
                base_type: None,
                discriminator_type: None,
                bound: &[],
                element_type: None,
                key_element_type: None,
                extensibility_kind: e,
                is_nested: false,
            });
            for i in 0..n {
                let id = t.int() as u32;
                let flags = t.int();
                let name = t.int();
                let ty = parse_type(t);
                b.add_member(MemberDescriptor {
                    name: leak_str(format!("m{name}")),
                    id,
                    r#type: ty,
                    default_value: None,
                    index: i as u32,
                    label: &[],
                    try_construct_kind: if flags & 8 != 0 {
                        TryConstructKind::UseDefault
                    } else {
                        TryConstructKind::Discard
                    },
                    is_key: flags & 2 != 0,
                    is_optional: flags & 1 != 0,
                    is_must_understand: flags & 4 != 0,
                    is_shared: false,
                    is_default_label: false,
                    is_external: false,
                })
                .unwrap();
            }
            b.build()
        }
        _ => panic!("bad type token {k}"),
    }
}

fn chr(x: i128) -> char {
    char::from_u32(x as u32).unwrap()
}

fn parse_data(t: &mut Toks, ty: DynamicType<'static>) -> DynamicData<'static> {
    let n = t.int();
    let mut d = DynamicDataFactory::create_data(ty);
    for _ in 0..n {
        let id = t.int() as u32;
        let v = parse_storage(t, ty, id);
        d.set_value(id, v);
    }
    d
}

fn parse_storage(t: &mut Toks, ty: DynamicType<'static>, id: u32) -> DataStorage {
    let k = t.next();
    match k {
        "pu8" => DataStorage::UInt8(t.int() as u8),
        "pi8" => DataStorage::Int8(t.int() as i8),
        "pu16" => DataStorage::UInt16(t.int() as u16),
        "pi16" => DataStorage::Int16(t.int() as i16),
        "pu32" => DataStorage::UInt32(t.int() as u32),
        "pi32" => DataStorage::Int32(t.int() as i32),
        "pu64" => DataStorage::UInt64(t.int() as u64),
        "pi64" => DataStorage::Int64(t.int() as i64),
        "pf32" => DataStorage::Float32(f32::from_bits(t.int() as u32)),
        "pf64" => DataStorage::Float64(f64::from_bits(t.int() as u64)),
        "pf128" => DataStorage::Float128(t.int()),
        "pc8" => DataStorage::Char8(chr(t.int())),
        "pb" => DataStorage::Boolean(t.int() != 0),
        "s" => DataStorage::String(String::from_utf8(vh::util::hex(t.next())).unwrap()),
        "d" => {
            let m = ty.get_member(id).expect("value refers to a member the type does not have");
            DataStorage::ComplexValue(parse_data(t, m.descriptor.r#type))
        }
        _ => panic!("bad value token {k}"),
    }
}

fn show_data(d: &DynamicData) -> String {
    let n = d.get_item_count();
    let mut s = format!("{n}");
    for i in 0..n {
        let id = d.get_member_id_at_index(i).unwrap();
        s.push_str(&format!(" {} {}", id, show_storage(d.get_value(id).unwrap())));
    }
    s
}

fn show_storage(v: &DataStorage) -> String {
    match v {
        DataStorage::UInt8(x) => format!("pu8 {x}"),
        DataStorage::Int8(x) => format!("pi8 {x}"),
        DataStorage::UInt16(x) => format!("pu16 {x}"),
        DataStorage::Int16(x) => format!("pi16 {x}"),
        DataStorage::Int32(x) => format!("pi32 {x}"),
        DataStorage::UInt32(x) => format!("pu32 {x}"),
        DataStorage::Int64(x) => format!("pi64 {x}"),
        DataStorage::UInt64(x) => format!("pu64 {x}"),
        DataStorage::Float32(x) => format!("pf32 {}", x.to_bits()),
        DataStorage::Float64(x) => format!("pf64 {}", x.to_bits()),
        DataStorage::Float128(x) => format!("pf128 {x}"),
        DataStorage::Char8(x) => format!("pc8 {}", *x as u32),
        DataStorage::Boolean(x) => format!("pb {}", *x as u8),
        DataStorage::String(x) => format!("s {}", vh::util::to_hex(x.as_bytes())),
        DataStorage::ComplexValue(x) => format!("d {}", show_data(x)),
        _ => "UNSUPPORTED".to_string(),
    }
}

fn code(e: &XTypesError) -> u32 {
    match e {
        XTypesError::OutOfMemory => 10,
        XTypesError::InvalidData => 2,
        XTypesError::InvalidType => 3,
        XTypesError::PidNotFound(_) => 6,
        XTypesError::InvalidId(_) => 4,
        XTypesError::InvalidIndex(_) => 5,
        XTypesError::InvalidName => 7,
        XTypesError::NotEnoughData => 1,
        XTypesError::NotSupported(_) => 8,
        XTypesError::IllegalOperation => 9,
    }
}

fn decode(ty: DynamicType<'static>, bytes: &[u8]) -> String {
    let r = catch_unwind(AssertUnwindSafe(|| {
        xtypes::deserializer::deserialize_top_level_type(ty, bytes)
    }));
    match r {
        Err(_) => "P".to_string(),
        Ok(Err(e)) => format!("E {}", code(&e)),
        Ok(Ok(d)) => format!("D d {}", show_data(&d)),
    }
}

fn tc_of(bits: i128) -> TypeConsistencyEnforcementQosPolicy {
    TypeConsistencyEnforcementQosPolicy {
        kind: if bits & 32 != 0 {
            TypeConsistencyKind::DisallowTypeCoercion
        } else {
            TypeConsistencyKind::AllowTypeCoercion
        },
        ignore_sequence_bounds: bits & 1 != 0,
        ignore_string_bounds: bits & 2 != 0,
        ignore_member_names: bits & 4 != 0,
        prevent_type_widening: bits & 8 != 0,
        force_type_validation: bits & 16 != 0,
    }
}

// ---------------------------------------------------------------- type objects by hand

const TFLAGS: [TypeFlag; 5] = [
    TYPE_FLAG_IS_FINAL,
    TYPE_FLAG_IS_APPENDABLE,
    TYPE_FLAG_IS_MUTABLE,
    TYPE_FLAG_IS_NESTED,
    TYPE_FLAG_IS_AUTOID_HASH,
];
const MFLAGS: [MemberFlag; 7] = [
    MEMBER_FLAG_TRY_CONSTRUCT1,
    MEMBER_FLAG_TRY_CONSTRUCT2,
    MEMBER_FLAG_IS_EXTERNAL,
    MEMBER_FLAG_IS_OPTIONAL,
    MEMBER_FLAG_IS_MUST_UNDERSTAND,
    MEMBER_FLAG_IS_KEY,
    MEMBER_FLAG_IS_DEFAULT,
];

fn tflags_of(bits: i128) -> TypeFlag {
    // the inner u16 is private: zero = FINAL & MUTABLE
    let mut f = TYPE_FLAG_IS_FINAL & TYPE_FLAG_IS_MUTABLE;
    for (i, b) in TFLAGS.iter().enumerate() {
        if bits & (1 << i) != 0 {
            f |= *b;
        }
    }
    f
}
fn tflags_bits(f: TypeFlag) -> u32 {
    let mut r = 0;
    for (i, b) in TFLAGS.iter().enumerate() {
        if (f & *b) == *b {
            r |= 1 << i;
        }
    }
    r
}
fn mflags_of(bits: i128) -> MemberFlag {
    let mut f = MemberFlag::default();
    for (i, b) in MFLAGS.iter().enumerate() {
        if bits & (1 << i) != 0 {
            f |= *b;
        }
    }
    f
}
fn mflags_bits(f: MemberFlag) -> u32 {
    let mut r = 0;
    for (i, b) in MFLAGS.iter().enumerate() {
        if (f | *b) == f {
            r |= 1 << i;
        }
    }
    r
}

fn hash_of(h: i128) -> [u8; 14] {
    let mut a = [0u8; 14];
    for i in 0..6 {
        a[i] = ((h >> (8 * i)) & 0xff) as u8;
    }
    a
}
fn hash_tok(a: &[u8; 14]) -> u64 {
    let mut r = 0u64;
    for i in 0..6 {
        r |= (a[i] as u64) << (8 * i);
    }
    r
}

fn coll_header() -> PlainCollectionHeader {
    PlainCollectionHeader { equiv_kind: EK_MINIMAL, element_flags: MEMBER_FLAG_MINIMAL_MASK }
}

fn parse_tid(t: &mut Toks) -> TypeIdentifier {
    let k = t.next();
    match k {
        "none" => TypeIdentifier::TkNone,
        "bool" => TypeIdentifier::TkBoolean,
        "byte" => TypeIdentifier::TkByteType,
        "i8" => TypeIdentifier::TkInt8Type,
        "u8" => TypeIdentifier::TkUint8Type,
        "i16" => TypeIdentifier::TkInt16Type,
        "u16" => TypeIdentifier::TkUint16Type,
        "i32" => TypeIdentifier::TkInt32Type,
        "u32" => TypeIdentifier::TkUint32Type,
        "i64" => TypeIdentifier::TkInt64Type,
        "u64" => TypeIdentifier::TkUint64Type,
        "f32" => TypeIdentifier::TkFloat32Type,
        "f64" => TypeIdentifier::TkFloat64Type,
        "f128" => TypeIdentifier::TkFloat128Type,
        "c8" => TypeIdentifier::TkChar8Type,
        "c16" => TypeIdentifier::TkChar16Type,
        "s8s" => TypeIdentifier::TiString8Small {
            string_sdefn: StringSTypeDefn { bound: t.int() as u8 },
        },
        "s8l" => TypeIdentifier::TiString8Large {
            string_ldefn: StringLTypeDefn { bound: t.int() as u32 },
        },
        "s16s" => TypeIdentifier::TiString16Small {
            string_sdefn: StringSTypeDefn { bound: t.int() as u8 },
        },
        "s16l" => TypeIdentifier::TiString16Large {
            string_ldefn: StringLTypeDefn { bound: t.int() as u32 },
        },
        "seqs" => {
            let b = t.int() as u8;
            let e = parse_tid(t);
            TypeIdentifier::TiPlainSequenceSmall {
                seq_sdefn: PlainSequenceSElemDefn {
                    header: coll_header(),
                    bound: b,
                    element_identifier: Box::new(e),
                },
            }
        }
        "seql" => {
            let b = t.int() as u32;
            let e = parse_tid(t);
            TypeIdentifier::TiPlainSequenceLarge {
                seq_ldefn: PlainSequenceLElemDefn {
                    header: coll_header(),
                    bound: b,
                    element_identifier: Box::new(e),
                },
            }
        }
        "arrs" => {
            let n = t.int();
            let bs: Vec<u8> = (0..n).map(|_| t.int() as u8).collect();
            let e = parse_tid(t);
            TypeIdentifier::TiPlainArraySmall {
                array_sdefn: PlainArraySElemDefn {
                    header: coll_header(),
                    array_bound_seq: bs,
                    element_identifier: Box::new(e),
                },
            }
        }
        "arrl" => {
            let n = t.int();
            let bs: Vec<u32> = (0..n).map(|_| t.int() as u32).collect();
            let e = parse_tid(t);
            TypeIdentifier::TiPlainArrayLarge {
                array_ldefn: PlainArrayLElemDefn {
                    header: coll_header(),
                    array_bound_seq: bs,
                    element_identifier: Box::new(e),
                },
            }
        }
        "maps" => TypeIdentifier::TiPlainMapSmall {
            map_sdefn: PlainMapSTypeDefn {
                header: coll_header(),
                bound: 0,
                element_identifier: Box::new(TypeIdentifier::TkInt32Type),
                key_flags: MEMBER_FLAG_MINIMAL_MASK,
                key_identifier: Box::new(TypeIdentifier::TkInt32Type),
            },
        },
        "mapl" => TypeIdentifier::TiPlainMapLarge {
            map_ldefn: PlainMapLTypeDefn {
                header: coll_header(),
                bound: 1000,
                element_identifier: Box::new(TypeIdentifier::TkInt32Type),
                key_flags: MEMBER_FLAG_MINIMAL_MASK,
                key_identifier: Box::new(TypeIdentifier::TkInt32Type),
            },
        },
        "scc" => TypeIdentifier::TiStronglyConnectedComponent {
            sc_component_id: StronglyConnectedComponentId {
                sc_component_id: TypeObjectHashId::EkComplete { hash: [0; 14] },
                scc_length: 1,
                scc_index: 0,
            },
        },
        "ekc" => TypeIdentifier::EkComplete { equivalence_hash: hash_of(t.int()) },
        "ekm" => TypeIdentifier::EkMinimal { equivalence_hash: hash_of(t.int()) },
        "dflt" => TypeIdentifier::default(),
        _ => panic!("bad tid token {k}"),
    }
}

fn show_tid(t: &TypeIdentifier) -> String {
    match t {
        TypeIdentifier::TkNone => "none".into(),
        TypeIdentifier::TkBoolean => "bool".into(),
        TypeIdentifier::TkByteType => "byte".into(),
        TypeIdentifier::TkInt8Type => "i8".into(),
        TypeIdentifier::TkUint8Type => "u8".into(),
        TypeIdentifier::TkInt16Type => "i16".into(),
        TypeIdentifier::TkUint16Type => "u16".into(),
        TypeIdentifier::TkInt32Type => "i32".into(),
        TypeIdentifier::TkUint32Type => "u32".into(),
        TypeIdentifier::TkInt64Type => "i64".into(),
        TypeIdentifier::TkUint64Type => "u64".into(),
        TypeIdentifier::TkFloat32Type => "f32".into(),
        TypeIdentifier::TkFloat64Type => "f64".into(),
        TypeIdentifier::TkFloat128Type => "f128".into(),
        TypeIdentifier::TkChar8Type => "c8".into(),
        TypeIdentifier::TkChar16Type => "c16".into(),
        TypeIdentifier::TiString8Small { string_sdefn } => format!("s8s {}", string_sdefn.bound),
        TypeIdentifier::TiString8Large { string_ldefn } => format!("s8l {}", string_ldefn.bound),
        TypeIdentifier::TiString16Small { string_sdefn } => format!("s16s {}", string_sdefn.bound),
        TypeIdentifier::TiString16Large { string_ldefn } => format!("s16l {}", string_ldefn.bound),
        TypeIdentifier::TiPlainSequenceSmall { seq_sdefn } => {
            format!("seqs {} {}", seq_sdefn.bound, show_tid(&seq_sdefn.element_identifier))
        }
        TypeIdentifier::TiPlainSequenceLarge { seq_ldefn } => {
            format!("seql {} {}", seq_ldefn.bound, show_tid(&seq_ldefn.element_identifier))
        }
        TypeIdentifier::TiPlainArraySmall { array_sdefn } => format!(
            "arrs {} {} {}",
            array_sdefn.array_bound_seq.len(),
            array_sdefn.array_bound_seq.iter().map(|x| x.to_string()).collect::<Vec<_>>().join(" "),
            show_tid(&array_sdefn.element_identifier)
        ),
        TypeIdentifier::TiPlainArrayLarge { array_ldefn } => format!(
            "arrl {} {} {}",
            array_ldefn.array_bound_seq.len(),
            array_ldefn.array_bound_seq.iter().map(|x| x.to_string()).collect::<Vec<_>>().join(" "),
            show_tid(&array_ldefn.element_identifier)
        ),
        TypeIdentifier::TiPlainMapSmall { .. } => "maps".into(),
        TypeIdentifier::TiPlainMapLarge { .. } => "mapl".into(),
        TypeIdentifier::TiStronglyConnectedComponent { .. } => "scc".into(),
        TypeIdentifier::EkComplete { equivalence_hash } => format!("ekc {}", hash_tok(equivalence_hash)),
        TypeIdentifier::EkMinimal { equivalence_hash } => format!("ekm {}", hash_tok(equivalence_hash)),
        TypeIdentifier::Default { .. } => "dflt".into(),
    }
}

fn parse_cto(t: &mut Toks) -> CompleteTypeObject {
    let flags = t.int();
    let tname = t.int();
    let n = t.int();
    let mut member_seq = Vec::new();
    for _ in 0..n {
        let id = t.int() as u32;
        let mf = t.int();
        let name = t.int();
        let tid = parse_tid(t);
        member_seq.push(CompleteStructMember {
            common: CommonStructMember {
                member_id: id,
                member_flags: mflags_of(mf),
                member_type_id: tid,
            },
            detail: CompleteMemberDetail {
                name: format!("m{name}"),
                ann_builtin: None,
                ann_custom: None,
            },
        });
    }
    CompleteTypeObject::TkStructure {
        struct_type: CompleteStructType {
            struct_flags: tflags_of(flags),
            header: CompleteStructHeader {
                base_type: TypeIdentifier::TkNone,
                detail: CompleteTypeDetail {
                    ann_builtin: None,
                    ann_custom: None,
                    type_name: format!("T{tname}"),
                },
            },
            member_seq,
        },
    }
}

fn tok_of_name(s: &str) -> String {
    // "m12" -> "12"; anything else is printed as a negative marker so the comparison fails
    if s.len() > 1 && s[1..].chars().all(|c| c.is_ascii_digit()) {
        s[1..].to_string()
    } else {
        "-1".to_string()
    }
}

fn show_cto(c: &CompleteTypeObject) -> String {
    match c {
        CompleteTypeObject::TkStructure { struct_type } => {
            let mut s = format!(
                "{} {} {}",
                tflags_bits(struct_type.struct_flags),
                tok_of_name(&struct_type.header.detail.type_name),
                struct_type.member_seq.len()
            );
            for m in &struct_type.member_seq {
                s.push_str(&format!(
                    " {} {} {} {}",
                    m.common.member_id,
                    mflags_bits(m.common.member_flags),
                    tok_of_name(&m.detail.name),
                    show_tid(&m.common.member_type_id)
                ));
            }
            s
        }
        _ => "NOTSTRUCT".to_string(),
    }
}

fn assignable(
    c1: &CompleteTypeObject,
    c2: &CompleteTypeObject,
    tc: &TypeConsistencyEnforcementQosPolicy,
) -> String {
    match catch_unwind(AssertUnwindSafe(|| c1.is_assignable_from_w_type_consistency(c2, tc))) {
        Ok(true) => "1".to_string(),
        Ok(false) => "0".to_string(),
        Err(_) => "P".to_string(),
    }
}

/// reader type R := writer type W on the writer sample `w`
fn typed_pair<W: TypeSupport + Type, R: TypeSupport + Type>(
    w: W,
    ver: i128,
    end: &str,
    tc: &TypeConsistencyEnforcementQosPolicy,
) -> String {
    let c1 = CompleteTypeObject::from(R::TYPE);
    let c2 = CompleteTypeObject::from(W::TYPE);
    let a = assignable(&c1, &c2, tc);
    let data = w.create_dynamic_sample();
    let r = catch_unwind(AssertUnwindSafe(|| match (ver, end) {
        (1, "le") => xtypes::serializer::serialize_cdr1_le(&data),
        (1, "be") => xtypes::serializer::serialize_cdr1_be(&data),
        (2, "le") => xtypes::serializer::serialize_cdr2_le(&data),
        (2, "be") => xtypes::serializer::serialize_cdr2_be(&data),
        _ => panic!("bad version / endianness"),
    }));
    let (ser, typed) = match r {
        Err(_) => ("SP".to_string(), "na".to_string()),
        Ok(Err(e)) => (format!("SE {}", code(&e)), "na".to_string()),
        Ok(Ok(bytes)) => {
            let dec = decode(R::TYPE, &bytes);
            // what DataReader<R> hands to the application (Sample::new)
            let typed = match catch_unwind(AssertUnwindSafe(|| {
                xtypes::deserializer::deserialize_top_level_type(R::TYPE, &bytes)
                    .ok()
                    .map(|mut d| R::create_sample(&mut d).map(|s| show_data(&s.create_dynamic_sample())))
            })) {
                Ok(Some(Some(s))) => format!("some {s}"),
                Ok(Some(None)) => "none".to_string(),
                _ => "na".to_string(),
            };
            (format!("S {} {}", vh::util::to_hex(&bytes), dec), typed)
        }
    };
    format!("A {} C {} ; {} ; {} ; TY {}", a, show_cto(&c1), show_cto(&c2), ser, typed)
}

fn run_line(line: &str) -> String {
    let parts: Vec<&str> = line.split('|').collect();
    let mut t = Toks::new(parts[0]);
    let op = t.next();
    match op {
        "ev" => {
            let ver = t.int();
            let end = t.next();
            let tc = tc_of(t.int());
            let t1 = parse_type(&mut Toks::new(parts[1]));
            let t2 = parse_type(&mut Toks::new(parts[2]));
            let mut vt = Toks::new(parts[3]);
            let k = vt.next();
            assert_eq!(k, "d");
            let data = parse_data(&mut vt, t2);
            // the call of discovery_methods.rs (process_discovered_writers): reader type := writer type
            let c1 = CompleteTypeObject::from(t1);
            let c2 = CompleteTypeObject::from(t2);
            let a = assignable(&c1, &c2, &tc);
            let r = catch_unwind(AssertUnwindSafe(|| match (ver, end) {
                (1, "le") => xtypes::serializer::serialize_cdr1_le(&data),
                (1, "be") => xtypes::serializer::serialize_cdr1_be(&data),
                (2, "le") => xtypes::serializer::serialize_cdr2_le(&data),
                (2, "be") => xtypes::serializer::serialize_cdr2_be(&data),
                _ => panic!("bad version / endianness"),
            }));
            let ser = match r {
                Err(_) => "SP".to_string(),
                Ok(Err(e)) => format!("SE {}", code(&e)),
                Ok(Ok(bytes)) => format!("S {} {}", vh::util::to_hex(&bytes), decode(t1, &bytes)),
            };
            format!("A {} C {} ; {} ; {}", a, show_cto(&c1), show_cto(&c2), ser)
        }
        "ty" => {
            let k = t.int();
            let ver = t.int();
            let end = t.next();
            let tc = tc_of(t.int());
            let v: Vec<i32> = vh::util::ints(parts[1]).iter().map(|x| *x as i32).collect();
            match k {
                0 => typed_pair::<A2, A1>(A2 { m0: v[0], m1: v[1] }, ver, end, &tc),
                1 => typed_pair::<A1, A2>(A1 { m0: v[0] }, ver, end, &tc),
                2 => typed_pair::<A1, A3>(A1 { m0: v[0] }, ver, end, &tc),
                3 => typed_pair::<M1, M2>(M1 { m0: v[0] }, ver, end, &tc),
                4 => typed_pair::<M2, M1>(M2 { m0: v[0], m1: v[1] }, ver, end, &tc),
                5 => typed_pair::<M1, M3>(M1 { m0: v[0] }, ver, end, &tc),
                6 => typed_pair::<A2, A2>(A2 { m0: v[0], m1: v[1] }, ver, end, &tc),
                7 => typed_pair::<M3, M2>(M3 { m0: v[0], m1: if v[1] == 0 { None } else { Some(v[1]) } }, ver, end, &tc),
                _ => "BADOP".to_string(),
            }
        }
        "as" => {
            let tc = tc_of(t.int());
            let c1 = parse_cto(&mut Toks::new(parts[1]));
            let c2 = parse_cto(&mut Toks::new(parts[2]));
            format!("A {}", assignable(&c1, &c2, &tc))
        }
        _ => "BADOP".to_string(),
    }
}

fn main() {
    vh::main_loop(run_line);
}
