//! C15 harness: endpoint matching (topic, type, partition, RxO QoS) on the REAL code.
//!
//! The three functions of interest are private in /repo
//! (`get_discovered_reader_incompatible_qos_policy_list`,
//! `get_discovered_writer_incompatible_qos_policy_list`, `fnmatch_to_regex` in
//! dcps/dcps_domain_participant/discovery_methods.rs), so they are driven through their
//! closest public callers `DcpsDomainParticipant::process_discovered_readers` /
//! `process_discovered_writers`.  The discovered endpoint arrives as it does in
//! production: as a PL_CDR parameter list decoded by `Discovered{Reader,Writer}Data::from_bytes`
//! and stored with `add_discovered_{reader,writer}`.
//!
//! One case = one (writer configuration, reader configuration) pair.  Two participants
//! are built: A hosts the writer and discovers the reader, B hosts the reader and
//! discovers the writer.  Output: `W <verdict> R <verdict>` with
//!   M                 matched (matched list has the peer, count 1)
//!   I <last> <ids..>  offered/requested incompatible QoS: last_policy_id, policy ids in status order
//!   T                 inconsistent topic (type mismatch)
//!   N                 nothing happened (topic filter or partition mismatch)
//!   X<why>            an observation the model has no word for (always a disagreement)
use dust_dds::dcps::data_representation_builtin_endpoints::{
    discovered_reader_data::DiscoveredReaderData, discovered_writer_data::DiscoveredWriterData,
    parameter_id_values as pid,
};
use dust_dds::dcps::dcps_domain_participant::{
    participant_entity::DcpsDomainParticipant, topic_entity::TopicEntity,
    user_defined_data_reader::UserDefinedDataReader, user_defined_data_writer::UserDefinedDataWriter,
    user_defined_publisher::PublisherEntity, user_defined_subscriber::UserDefinedSubscriber,
};
use dust_dds::dcps::status_condition::DcpsStatusCondition;
use dust_dds::dcps::status_mask::StatusMask;
use dust_dds::dds_async::domain_participant_factory::{DcpsChannel, DcpsSender};
use dust_dds::builtin_topics::BuiltInTopicKey;
use dust_dds::infrastructure::{
    instance::InstanceHandle,
    qos::{DataReaderQos, DataWriterQos, DomainParticipantQos, PublisherQos, SubscriberQos, TopicQos},
    qos_policy::*,
    time::{Duration, DurationKind, Time},
};
use dust_dds::rtps::{stateful_reader::RtpsStatefulReader, stateful_writer::RtpsStatefulWriter};
use dust_dds::runtime::{Clock, DdsRuntime, Spawner, TaskHandle, Timer};
use dust_dds::transport::{
    interface::{RtpsTransportParticipant, WriteMessage},
    types::{EntityId, Guid, Locator, ReliabilityKind},
};
use dust_dds::dcps::dcps_domain_participant::data_writer_entity::serialize;
use dust_dds::xtypes::type_support::{Type, TypeSupport, _String};
use std::sync::OnceLock;

// ---------------------------------------------------------------- a do-nothing runtime
#[derive(Clone)]
struct NoClock;
impl Clock for NoClock {
    fn now(&self) -> Time {
        Time::new(1_700_000_000, 0)
    }
}
#[derive(Clone)]
struct NoTimer;
impl Timer for NoTimer {
    fn delay(&mut self, _d: core::time::Duration) -> impl core::future::Future<Output = ()> + Send {
        async {}
    }
}
struct NoTask;
impl TaskHandle for NoTask {
    fn join(&self) {}
}
#[derive(Clone)]
struct NoSpawner;
impl Spawner for NoSpawner {
    type TaskHandle = NoTask;
    fn spawn(&self, _f: impl core::future::Future<Output = ()> + Send + 'static) -> NoTask {
        NoTask
    }
}
struct NoRuntime;
impl DdsRuntime for NoRuntime {
    type ClockHandle = NoClock;
    type TimerHandle = NoTimer;
    type SpawnerHandle = NoSpawner;
    fn timer(&self) -> NoTimer {
        NoTimer
    }
    fn clock(&self) -> NoClock {
        NoClock
    }
    fn spawner(&self) -> NoSpawner {
        NoSpawner
    }
}
struct NoWire;
impl WriteMessage for NoWire {
    fn write_message(&self, _buf: &[u8], _locators: &[Locator]) {}
}

fn sender() -> DcpsSender {
    static CH: OnceLock<&'static DcpsChannel> = OnceLock::new();
    CH.get_or_init(|| Box::leak(Box::new(DcpsChannel::new()))).sender()
}

fn participant(prefix: [u8; 12]) -> DcpsDomainParticipant {
    let transport = RtpsTransportParticipant {
        message_writer: Box::new(NoWire),
        default_unicast_locator_list: vec![],
        metatraffic_unicast_locator_list: vec![],
        metatraffic_multicast_locator_list: vec![],
        default_multicast_locator_list: vec![],
        fragment_size: 1344,
    };
    DcpsDomainParticipant::new(
        0,
        String::new(),
        prefix,
        DomainParticipantQos::default(),
        None,
        StatusMask::default(),
        transport,
        sender(),
        core::time::Duration::from_secs(5),
    )
}

// ---------------------------------------------------------------- case parsing
struct Cur<'a> {
    t: Vec<&'a str>,
    i: usize,
}
impl<'a> Cur<'a> {
    fn tok(&mut self) -> &'a str {
        let s = self.t[self.i];
        self.i += 1;
        s
    }
    fn int(&mut self) -> i128 {
        self.tok().parse::<i128>().unwrap()
    }
}

#[derive(Clone)]
struct Ep {
    durability: DurabilityQosPolicy,
    presentation: PresentationQosPolicy,
    deadline: DeadlineQosPolicy,
    latency_budget: LatencyBudgetQosPolicy,
    liveliness: LivelinessQosPolicy,
    reliability: ReliabilityQosPolicy,
    destination_order: DestinationOrderQosPolicy,
    ownership: OwnershipQosPolicy,
    representation: DataRepresentationQosPolicy,
}

fn dk(c: &mut Cur) -> DurationKind {
    let inf = c.int();
    let s = c.int();
    let n = c.int();
    if inf != 0 {
        DurationKind::Infinite
    } else {
        DurationKind::Finite(Duration::new(s as i32, n as u32))
    }
}

fn ep(c: &mut Cur) -> Ep {
    let durability = DurabilityQosPolicy {
        kind: match c.int() {
            0 => DurabilityQosPolicyKind::Volatile,
            1 => DurabilityQosPolicyKind::TransientLocal,
            2 => DurabilityQosPolicyKind::Transient,
            _ => DurabilityQosPolicyKind::Persistent,
        },
    };
    let access_scope = match c.int() {
        0 => PresentationQosPolicyAccessScopeKind::Instance,
        _ => PresentationQosPolicyAccessScopeKind::Topic,
    };
    let coherent_access = c.int() != 0;
    let ordered_access = c.int() != 0;
    let deadline = DeadlineQosPolicy { period: dk(c) };
    let latency_budget = LatencyBudgetQosPolicy { duration: dk(c) };
    let lkind = match c.int() {
        0 => LivelinessQosPolicyKind::Automatic,
        1 => LivelinessQosPolicyKind::ManualByParticipant,
        _ => LivelinessQosPolicyKind::ManualByTopic,
    };
    let liveliness = LivelinessQosPolicy { kind: lkind, lease_duration: dk(c) };
    let reliability = ReliabilityQosPolicy {
        kind: match c.int() {
            0 => ReliabilityQosPolicyKind::BestEffort,
            _ => ReliabilityQosPolicyKind::Reliable,
        },
        max_blocking_time: DurationKind::Finite(Duration::new(0, 100_000_000)),
    };
    let destination_order = DestinationOrderQosPolicy {
        kind: match c.int() {
            0 => DestinationOrderQosPolicyKind::ByReceptionTimestamp,
            _ => DestinationOrderQosPolicyKind::BySourceTimestamp,
        },
    };
    let ownership = OwnershipQosPolicy {
        kind: match c.int() {
            0 => OwnershipQosPolicyKind::Shared,
            _ => OwnershipQosPolicyKind::Exclusive,
        },
    };
    let n = c.int();
    let mut value = vec![];
    for _ in 0..n {
        value.push(c.int() as u16);
    }
    Ep {
        durability,
        presentation: PresentationQosPolicy { access_scope, coherent_access, ordered_access },
        deadline,
        latency_budget,
        liveliness,
        reliability,
        destination_order,
        ownership,
        representation: DataRepresentationQosPolicy { value },
    }
}

fn names(c: &mut Cur) -> Vec<String> {
    let n = c.int();
    (0..n)
        .map(|_| String::from_utf8(vh::util::hex(c.tok())).expect("utf8 partition name"))
        .collect()
}

// ---------------------------------------------------------------- PL_CDR of the discovered endpoint
fn param<T: TypeSupport>(buf: &mut Vec<u8>, id: i16, v: T) {
    // the real XCDR1 little-endian encoder of the crate; the 4-byte encapsulation header is dropped
    let full = serialize(&v.create_dynamic_sample(), &DataRepresentationQosPolicy { value: vec![] }).expect("serialize");
    let body = full[4..].to_vec();
    let padded = body.len().div_ceil(4) * 4;
    buf.extend_from_slice(&id.to_le_bytes());
    buf.extend_from_slice(&(padded as u16).to_le_bytes());
    buf.extend_from_slice(&body);
    buf.resize(buf.len() + padded - body.len(), 0);
}

fn endpoint_bytes(key: [u8; 16], pkey: [u8; 16], topic: &str, ty: &str, e: &Ep, partition: &[String]) -> Vec<u8> {
    let mut b = vec![0u8, 3, 0, 0];
    param(&mut b, pid::PID_ENDPOINT_GUID, BuiltInTopicKey { value: key });
    param(&mut b, pid::PID_PARTICIPANT_GUID, BuiltInTopicKey { value: pkey });
    param(&mut b, pid::PID_TOPIC_NAME, _String { value: topic.to_string() });
    param(&mut b, pid::PID_TYPE_NAME, _String { value: ty.to_string() });
    param(&mut b, pid::PID_DURABILITY, e.durability.clone());
    param(&mut b, pid::PID_DEADLINE, e.deadline.clone());
    param(&mut b, pid::PID_LATENCY_BUDGET, e.latency_budget.clone());
    param(&mut b, pid::PID_LIVELINESS, e.liveliness.clone());
    param(&mut b, pid::PID_RELIABILITY, e.reliability.clone());
    param(&mut b, pid::PID_OWNERSHIP, e.ownership.clone());
    param(&mut b, pid::PID_DESTINATION_ORDER, e.destination_order.clone());
    param(&mut b, pid::PID_PRESENTATION, e.presentation.clone());
    param(&mut b, pid::PID_PARTITION, PartitionQosPolicy { name: partition.to_vec() });
    param(&mut b, pid::PID_DATA_REPRESENTATION, e.representation.clone());
    b.extend_from_slice(&[1, 0, 0, 0]);
    b
}

const LOCAL_TOPIC: &str = "Square";
const LOCAL_TYPE: &str = "ShapeType";

fn handle(prefix: [u8; 12], a: u8, kind: u8) -> [u8; 16] {
    let mut h = [0u8; 16];
    h[..12].copy_from_slice(&prefix);
    h[12] = 0;
    h[13] = 0;
    h[14] = a;
    h[15] = kind;
    h
}

fn local_topic(p: &mut DcpsDomainParticipant, prefix: [u8; 12]) {
    let t = TopicEntity::new(
        TopicQos::default(),
        LOCAL_TYPE.to_string(),
        LOCAL_TOPIC.to_string(),
        InstanceHandle::new(handle(prefix, 1, 0x0a)),
        DcpsStatusCondition::default(),
        None,
        StatusMask::default(),
        <BuiltInTopicKey as Type>::TYPE,
    );
    p.domain_participant.locally_created_topic_list.push(t);
}

fn ids(last: i32, total: i32, pol: &[(i32, i32)]) -> String {
    if total != 1 || pol.iter().any(|x| x.1 != 1) {
        return format!("Xcounts{}", total);
    }
    let mut s = format!("I {}", last);
    for (id, _) in pol {
        s.push_str(&format!(" {}", id));
    }
    s
}

/// participant A: local writer (offered QoS `off`, publisher partition `pp`), discovers the reader
fn writer_side(off: &Ep, req: &Ep, pp: &[String], sp: &[String], topic: &str, ty: &str) -> String {
    let pa = [1u8; 12];
    let pb = [2u8; 12];
    let mut p = participant(pa);
    local_topic(&mut p, pa);
    let pub_h = InstanceHandle::new(handle(pa, 1, 0x08));
    let mut pq = PublisherQos::default();
    pq.presentation = off.presentation.clone();
    pq.partition = PartitionQosPolicy { name: pp.to_vec() };
    let mut publisher = PublisherEntity::new(pq, pub_h, vec![], None, StatusMask::default());
    publisher.enabled = true;
    let mut wq = DataWriterQos::default();
    wq.durability = off.durability.clone();
    wq.deadline = off.deadline.clone();
    wq.latency_budget = off.latency_budget.clone();
    wq.liveliness = off.liveliness.clone();
    wq.reliability = off.reliability.clone();
    wq.destination_order = off.destination_order.clone();
    wq.ownership = off.ownership.clone();
    wq.representation = off.representation.clone();
    let wh = handle(pa, 1, 0x02);
    let guid = Guid::new(pa, EntityId::new([0, 0, 1], 0x02));
    let mut w = UserDefinedDataWriter::new(
        InstanceHandle::new(wh),
        RtpsStatefulWriter::new(guid, 1344),
        LOCAL_TOPIC.to_string(),
        None,
        StatusMask::default(),
        wq,
    );
    w.enabled = true;
    publisher.data_writer_list.push(w);
    p.domain_participant.user_defined_publisher_list.push(publisher);

    let rkey = handle(pb, 1, 0x07);
    let bytes = endpoint_bytes(rkey, handle(pb, 0, 0xc1), topic, ty, req, sp);
    let Ok(drd) = DiscoveredReaderData::from_bytes(&bytes) else {
        return "Xdecode".to_string();
    };
    p.domain_participant.add_discovered_reader(drd);
    p.process_discovered_readers(&NoRuntime);

    let topic_bad = p.domain_participant.locally_created_topic_list[0].inconsistent_topic_status.total_count;
    let w = &p.domain_participant.user_defined_publisher_list[0].data_writer_list[0];
    let matched = w.matched_subscription_list.len();
    let st = &w.incompatible_subscriptions.offered_incompatible_qos_status;
    let pol: Vec<(i32, i32)> = st.policies.iter().map(|x| (x.policy_id, x.count)).collect();
    let n_inc = w.incompatible_subscriptions.incompatible_subscription_list.len();
    match (matched, n_inc, topic_bad) {
        (1, 0, 0) => {
            let m = &w.matched_subscription_list[0];
            // echo check: what was matched is what was announced
            if m.key().value != rkey
                || m.liveliness() != &req.liveliness
                || m.deadline() != &req.deadline
                || m.presentation() != &req.presentation
                || m.representation() != &req.representation
                || w.publication_matched_status.current_count != 1
                || w.publication_matched_status.total_count != 1
            {
                "Xecho".to_string()
            } else {
                "M".to_string()
            }
        }
        (0, 1, 0) => ids(st.last_policy_id, st.total_count, &pol),
        (0, 0, 1) => "T".to_string(),
        (0, 0, 0) => "N".to_string(),
        (a, b, c) => format!("Xmix{}-{}-{}", a, b, c),
    }
}

/// participant B: local reader (requested QoS `req`, subscriber partition `sp`), discovers the writer
fn reader_side(off: &Ep, req: &Ep, pp: &[String], sp: &[String], topic: &str, ty: &str) -> String {
    let pa = [1u8; 12];
    let pb = [2u8; 12];
    let mut p = participant(pb);
    local_topic(&mut p, pb);
    let sub_h = InstanceHandle::new(handle(pb, 1, 0x09));
    let mut sq = SubscriberQos::default();
    sq.presentation = req.presentation.clone();
    sq.partition = PartitionQosPolicy { name: sp.to_vec() };
    let mut subscriber = UserDefinedSubscriber::new(sub_h, sq, None, StatusMask::default());
    subscriber.enabled = true;
    let mut rq = DataReaderQos::default();
    rq.durability = req.durability.clone();
    rq.deadline = req.deadline.clone();
    rq.latency_budget = req.latency_budget.clone();
    rq.liveliness = req.liveliness.clone();
    rq.reliability = req.reliability.clone();
    rq.destination_order = req.destination_order.clone();
    rq.ownership = req.ownership.clone();
    rq.representation = req.representation.clone();
    let rh = handle(pb, 1, 0x07);
    let guid = Guid::new(pb, EntityId::new([0, 0, 1], 0x07));
    let rel = match req.reliability.kind {
        ReliabilityQosPolicyKind::BestEffort => ReliabilityKind::BestEffort,
        ReliabilityQosPolicyKind::Reliable => ReliabilityKind::Reliable,
    };
    let mut r = UserDefinedDataReader::new(
        InstanceHandle::new(rh),
        rq,
        LOCAL_TOPIC.to_string(),
        None,
        StatusMask::default(),
        RtpsStatefulReader::new(guid, rel),
    );
    r.enabled = true;
    subscriber.data_reader_list.push(r);
    p.domain_participant.user_defined_subscriber_list.push(subscriber);

    let wkey = handle(pa, 1, 0x02);
    let bytes = endpoint_bytes(wkey, handle(pa, 0, 0xc1), topic, ty, off, pp);
    let Ok(dwd) = DiscoveredWriterData::from_bytes(&bytes) else {
        return "Xdecode".to_string();
    };
    p.domain_participant.add_discovered_writer(dwd);
    p.process_discovered_writers(&NoRuntime);

    let topic_bad = p.domain_participant.locally_created_topic_list[0].inconsistent_topic_status.total_count;
    let r = &p.domain_participant.user_defined_subscriber_list[0].data_reader_list[0];
    let matched = r.matched_publication_list.len();
    let st = &r.requested_incompatible_qos_status;
    let pol: Vec<(i32, i32)> = st.policies.iter().map(|x| (x.policy_id, x.count)).collect();
    let n_inc = r.incompatible_writer_list.len();
    match (matched, n_inc, topic_bad) {
        (1, 0, 0) => {
            let m = &r.matched_publication_list[0];
            if m.key().value != wkey
                || m.liveliness() != &off.liveliness
                || m.deadline() != &off.deadline
                || m.presentation() != &off.presentation
                || m.representation() != &off.representation
                || r.subscription_matched_status.current_count != 1
                || r.subscription_matched_status.total_count != 1
            {
                "Xecho".to_string()
            } else {
                "M".to_string()
            }
        }
        (0, 1, 0) => ids(st.last_policy_id, st.total_count, &pol),
        (0, 0, 1) => "T".to_string(),
        (0, 0, 0) => "N".to_string(),
        (a, b, c) => format!("Xmix{}-{}-{}", a, b, c),
    }
}

fn run_line(line: &str) -> String {
    let mut c = Cur { t: line.split_whitespace().collect(), i: 0 };
    let topic_eq = c.int() != 0;
    let type_eq = c.int() != 0;
    let off = ep(&mut c);
    let req = ep(&mut c);
    let pp = names(&mut c);
    let sp = names(&mut c);
    let topic = if topic_eq { LOCAL_TOPIC } else { "Circle" };
    let ty = if type_eq { LOCAL_TYPE } else { "OtherType" };
    let w = writer_side(&off, &req, &pp, &sp, topic, ty);
    let r = reader_side(&off, &req, &pp, &sp, topic, ty);
    format!("W {} R {}", w, r)
}

fn main() {
    vh::main_loop_sites(run_line);
}
