//! Reader-cache harness (C18..C25): drives the real UserDefinedDataReader /
//! DataReaderEntity with an operation sequence and prints every result and the
//! final cache state in a canonical numeric form.
//!
//! line:  Q ord hist ms mi mspi own sep ; op ; op ; ...
//!   ord 0 by-reception 1 by-source; hist 0 keep-all | depth; ms/mi/mspi -1 unlimited | n;
//!   own 0 shared 1 exclusive; sep -1 infinite | nanoseconds
//! ops:  A w i k ts data rts   add_reader_change (k: 0 Alive 1 AliveFiltered 2 Disposed 3 Unregistered 4 DisposedUnregistered; ts -1 = none)
//!       R max ss vs is inst   read  (masks as bits; inst -1 = any)        T ... take
//!       RN max prev ss vs is  read_next_instance (prev -1 = none)         TN ... take_next_instance
//!       M w strength          add_matched_publication                      U w  remove_matched_publication
use dust_dds::dcps::dcps_domain_participant::data_reader_entity::AddChangeResult;
use dust_dds::dcps::dcps_domain_participant::user_defined_data_reader::UserDefinedDataReader;
use dust_dds::dcps::status_mask::StatusMask;
use dust_dds::infrastructure::error::DdsError;
use dust_dds::infrastructure::instance::InstanceHandle;
use dust_dds::infrastructure::qos::{DataReaderQos, DataWriterQos, PublisherQos, TopicQos};
use dust_dds::infrastructure::qos_policy::*;
use dust_dds::infrastructure::sample_info::{InstanceStateKind, SampleStateKind, ViewStateKind};
use dust_dds::infrastructure::status::SampleRejectedStatusKind;
use dust_dds::infrastructure::time::{Duration, DurationKind, Time};
use dust_dds::rtps::stateful_reader::RtpsStatefulReader;
use dust_dds::transport::types::{ChangeKind, EntityId, Guid, ReliabilityKind};
use std::sync::Arc;

fn h16(i: i128) -> [u8; 16] {
    let mut b = [0u8; 16];
    b[8..16].copy_from_slice(&(i as u64).to_be_bytes());
    b
}
fn h2i(b: &[u8; 16]) -> u64 {
    u64::from_be_bytes(b[8..16].try_into().unwrap())
}
fn time(ns: i128) -> Time {
    Time::new((ns / 1_000_000_000) as i32, (ns % 1_000_000_000) as u32)
}
fn t2i(t: Time) -> i128 {
    t.sec() as i128 * 1_000_000_000 + t.nanosec() as i128
}
fn len(v: i128) -> Length {
    if v < 0 { Length::Unlimited } else { Length::Limited(v as i32) }
}
fn kind(k: i128) -> ChangeKind {
    match k {
        0 => ChangeKind::Alive,
        1 => ChangeKind::AliveFiltered,
        2 => ChangeKind::NotAliveDisposed,
        3 => ChangeKind::NotAliveUnregistered,
        _ => ChangeKind::NotAliveDisposedUnregistered,
    }
}
fn kind_i(k: ChangeKind) -> i32 {
    match k {
        ChangeKind::Alive => 0,
        ChangeKind::AliveFiltered => 1,
        ChangeKind::NotAliveDisposed => 2,
        ChangeKind::NotAliveUnregistered => 3,
        ChangeKind::NotAliveDisposedUnregistered => 4,
    }
}
fn ss_mask(m: i128) -> Vec<SampleStateKind> {
    let mut v = vec![];
    if m & 1 != 0 { v.push(SampleStateKind::Read) }
    if m & 2 != 0 { v.push(SampleStateKind::NotRead) }
    v
}
fn vs_mask(m: i128) -> Vec<ViewStateKind> {
    let mut v = vec![];
    if m & 1 != 0 { v.push(ViewStateKind::New) }
    if m & 2 != 0 { v.push(ViewStateKind::NotNew) }
    v
}
fn is_mask(m: i128) -> Vec<InstanceStateKind> {
    let mut v = vec![];
    if m & 1 != 0 { v.push(InstanceStateKind::Alive) }
    if m & 2 != 0 { v.push(InstanceStateKind::NotAliveDisposed) }
    if m & 4 != 0 { v.push(InstanceStateKind::NotAliveNoWriters) }
    v
}
fn ss_i(s: SampleStateKind) -> i32 { match s { SampleStateKind::Read => 1, SampleStateKind::NotRead => 2 } }
fn vs_i(s: ViewStateKind) -> i32 { match s { ViewStateKind::New => 1, ViewStateKind::NotNew => 2 } }
fn is_i(s: InstanceStateKind) -> i32 {
    match s { InstanceStateKind::Alive => 1, InstanceStateKind::NotAliveDisposed => 2, InstanceStateKind::NotAliveNoWriters => 4 }
}
fn opt_h(i: i128) -> Option<InstanceHandle> {
    if i < 0 { None } else { Some(InstanceHandle::new(h16(i))) }
}

fn coll(r: Result<Vec<(Arc<[u8]>, dust_dds::infrastructure::sample_info::SampleInfo)>, DdsError>) -> String {
    match r {
        Err(DdsError::NoData) => "rN".into(),
        Err(DdsError::BadParameter) => "rB".into(),
        Err(DdsError::NotEnabled) => "rX".into(),
        Err(_) => "rE".into(),
        Ok(l) => {
            let mut s = format!("r {}", l.len());
            for (d, si) in l {
                let data = if d.len() >= 8 { u64::from_be_bytes(d[0..8].try_into().unwrap()) } else { 0 };
                let ih: [u8; 16] = si.instance_handle.into();
                let ph: [u8; 16] = si.publication_handle.into();
                s += &format!(
                    " {} {} {} {} {} {} {} {} {} {} {} {} {}",
                    data, h2i(&ih), si.valid_data as i32, ss_i(si.sample_state), vs_i(si.view_state),
                    is_i(si.instance_state), si.disposed_generation_count, si.no_writers_generation_count,
                    si.sample_rank, si.generation_rank, si.absolute_generation_rank,
                    si.source_timestamp.map(t2i).unwrap_or(-1), h2i(&ph)
                );
            }
            s
        }
    }
}

fn mk_reader(q: &[i128]) -> UserDefinedDataReader {
    let mut qos = DataReaderQos::default();
    qos.destination_order.kind = if q[0] == 1 { DestinationOrderQosPolicyKind::BySourceTimestamp } else { DestinationOrderQosPolicyKind::ByReceptionTimestamp };
    qos.history.kind = if q[1] == 0 { HistoryQosPolicyKind::KeepAll } else { HistoryQosPolicyKind::KeepLast(q[1] as u32) };
    qos.resource_limits.max_samples = len(q[2]);
    qos.resource_limits.max_instances = len(q[3]);
    qos.resource_limits.max_samples_per_instance = len(q[4]);
    qos.ownership.kind = if q[5] == 1 { OwnershipQosPolicyKind::Exclusive } else { OwnershipQosPolicyKind::Shared };
    qos.time_based_filter.minimum_separation = if q[6] < 0 { DurationKind::Infinite } else {
        DurationKind::Finite(Duration::new((q[6] / 1_000_000_000) as i32, (q[6] % 1_000_000_000) as u32)) };
    let guid = Guid::new([9; 12], EntityId::new([0, 0, 1], 7));
    let mut rd = UserDefinedDataReader::new(
        InstanceHandle::new(h16(999)), qos, "t".to_string(), None, StatusMask::default(),
        RtpsStatefulReader::new(guid, ReliabilityKind::BestEffort));
    rd.enabled = true;
    rd
}

fn probe(rd: &mut UserDefinedDataReader) -> String {
    coll(rd.read(i32::MAX, &ss_mask(3), &vs_mask(3), &is_mask(7), &None))
}

fn apply(rd: &mut UserDefinedDataReader, op: &str) -> String {
    let mut out: Vec<String> = vec![];
    {
        let (name, rest) = op.split_once(' ').unwrap_or((op, ""));
        let v = vh::util::ints(rest);
        match name {
            "A" => {
                let mut data = vec![0u8; 8];
                data.copy_from_slice(&(v[4] as u64).to_be_bytes());
                let ts = if v[3] < 0 { None } else { Some(time(v[3])) };
                let r = rd.add_reader_change(Guid::from(h16(v[0])), Arc::from(data.into_boxed_slice()), kind(v[2]), h16(v[1]), ts, time(v[5]));
                out.push(match r {
                    Ok(AddChangeResult::Added) => "a 0".into(),
                    Ok(AddChangeResult::NotAdded) => "a 1".into(),
                    Ok(AddChangeResult::Rejected(h, k)) => {
                        let hb: [u8; 16] = h.into();
                        format!("a 2 {} {}", h2i(&hb), match k {
                            SampleRejectedStatusKind::NotRejected => 0,
                            SampleRejectedStatusKind::RejectedByInstancesLimit => 1,
                            SampleRejectedStatusKind::RejectedBySamplesLimit => 2,
                            SampleRejectedStatusKind::RejectedBySamplesPerInstanceLimit => 3,
                        })
                    }
                    Err(_) => "a 9".into(),
                });
            }
            "R" => out.push(coll(rd.read(v[0] as i32, &ss_mask(v[1]), &vs_mask(v[2]), &is_mask(v[3]), &opt_h(v[4])))),
            "T" => out.push(coll(rd.take(v[0] as i32, &ss_mask(v[1]), &vs_mask(v[2]), &is_mask(v[3]), &opt_h(v[4])))),
            "RN" => out.push(coll(rd.read_next_instance(v[0] as i32, &opt_h(v[1]), &ss_mask(v[2]), &vs_mask(v[3]), &is_mask(v[4])))),
            "TN" => out.push(coll(rd.take_next_instance(v[0] as i32, &opt_h(v[1]), &ss_mask(v[2]), &vs_mask(v[3]), &is_mask(v[4])))),
            "M" => {
                let mut wq = DataWriterQos::default();
                wq.ownership_strength.value = v[1] as i32;
                let pd = dust_dds::verif_hooks::publication_builtin_topic_data(
                    h16(v[0]), h16(0), "t", "ty", &wq, &PublisherQos::default(), &TopicQos::default());
                rd.add_matched_publication(pd);
                out.push("m".into());
            }
            "U" => {
                rd.remove_matched_publication(&InstanceHandle::new(h16(v[0])));
                out.push("m".into());
            }
            _ => out.push("?".into()),
        }
    }
    out.pop().unwrap()
}

fn run_line(line: &str) -> String {
    let mut parts = line.split(';');
    let q = vh::util::ints(parts.next().unwrap());
    let ops: Vec<&str> = parts.map(|x| x.trim()).filter(|x| !x.is_empty()).collect();
    let mut rd = mk_reader(&q);
    let mut out: Vec<String> = vec![];
    for (k, op) in ops.iter().enumerate() {
        if op.starts_with('R') || op.starts_with('T') {
            // state before the op, observed on a replayed copy (the probe is destructive)
            let mut copy = mk_reader(&q);
            for o in &ops[..k] {
                apply(&mut copy, o);
            }
            out.push(format!("B {}", probe(&mut copy)));
        }
        out.push(apply(&mut rd, op));
    }
    // final state
    let mut s = format!("S {}", rd.sample_list.len());
    for c in rd.sample_list.iter() {
        let ih: [u8; 16] = c.instance_handle.into();
        let data = u64::from_be_bytes(c.data_value[0..8].try_into().unwrap());
        s += &format!(" {} {} {} {} {} {} {} {}", kind_i(c.kind), h2i(&c.writer_guid), h2i(&ih),
            c.source_timestamp.map(t2i).unwrap_or(-1), data, ss_i(c.sample_state), c.disposed_generation_count, c.no_writers_generation_count);
    }
    // instance states are private: observe them through handles + a non-mutating probe is impossible,
    // so report what is public: handle and last_received_time_stamp
    s += &format!(" I {}", rd.instances.len());
    for i in rd.instances.iter() {
        let ih: [u8; 16] = (*i.handle()).into();
        s += &format!(" {}", h2i(&ih));
    }
    s += &format!(" O {}", rd.instance_ownership.len());
    for o in rd.instance_ownership.iter() {
        let ih: [u8; 16] = o.instance_handle.into();
        s += &format!(" {} {} {}", h2i(&ih), h2i(&o.owner_handle), t2i(o.last_received_time));
    }
    out.push(s);
    // destructive probe at the very end: everything still stored, with its SampleInfo
    out.push(format!("P {}", probe(&mut rd)));
    out.join(" | ")
}

fn main() {
    vh::main_loop(run_line);
}
