//! C33 harness (copied from sim.rs and extended): RECORDING listeners at every level.
//! Changes w.r.t. sim.rs:
//!   P / T / PUB / SUB / W / R accept  l=<0|1>  (install a recording listener)  and  m=<K,K,...>  (listener
//!   mask; kinds IT ODM RDM OIQ RIQ SL SR DOR DA LL LC PM SM; `-` = empty);  T2 = topic of a second type
//!   (same type NAME, different structure) to raise InconsistentTopic
//!   SL <W|R|PUB|SUB|P> <idx> l= m=   set_listener after creation (create with old=1 to label the replaced listener OLD..)
//!   Q <W|R> <idx> lb=<ns> dl=<ns>   set_qos (latency budget / deadline) after creation
//!   netw <key>    deliver only the datagrams carrying DATA of the writer with that entity key (256 = SPDP)
//!   netm          merge all pending user DATA datagrams into one datagram and deliver it (several changes in one worker pass)
//!   jump <ns>     move the clock without visiting intermediate timer deadlines, then settle
//!   ev            print and clear the recorded listener calls: `ev <label>:<kind>:<count> ...` (sorted);
//!                 labels P<i> PUB<i> SUB<i> W<i> R<i> T<i> (creation index of the entity owning the listener)
//! Scenario interpreter over the simulated stack (see vh::sim).  One scenario per
//! stdin line, ops separated by ';'.  Because the factory owns a process-wide static
//! channel, every scenario runs in a fresh child process (`sim --one`).
//!
//! ops (indices refer to creation order of each entity kind, starting at 0):
//!   cfg frag=<n> tag=<s> ann=<ms>           (before creating participants)
//!   P <domain>                               create participant
//!   T <p> <name>                             create topic (type KeyedData)
//!   PUB <p> | SUB <p>
//!   W <pub> <topic> k=v...                   rel dur hist ms mi mspi dl ls mbt own str en
//!   R <sub> <topic> k=v...                   rel dur hist ms mi mspi dl own sep ord
//!   w <writer> <key> <len> <seed> [ts_ns]    write          d / u <writer> <key>  dispose / unregister
//!   t <reader> <max> | r <reader> <max>      take / read (any state)
//!   adv <ns>                                 advance simulated time
//!   net [max]                                deliver in-flight datagrams (fault rules apply)
//!   fault <drop|dup|hold> <kind> <sn> <frag> <times>   rule on USER traffic (kind DATA DATA_FRAG HEARTBEAT ACKNACK GAP NACK_FRAG ANY; -1 = any)
//!   rel                                      release held datagrams
//!   wfa <writer> <budget_ns>                 wait_for_acknowledgments
//!   wfh <reader> <budget_ns>                 wait_for_historical_data
//!   pm <writer> | sm <reader>                matched statuses
//!   delays                                   count and maximum of the timer delays requested so far
//!   delW <w> | delR <r> | delPUB <i> | delSUB <i> | delT <i> | delP <i> | delall <p>
//!   inject <p> <meta 0|1> <hex>              hand a raw datagram to participant p
//!   sent                                     summary of user datagrams sent since the last `sent`
use dust_dds::dds_async::data_reader::DataReaderAsync;
use dust_dds::dds_async::data_writer::DataWriterAsync;
use dust_dds::dds_async::domain_participant::DomainParticipantAsync;
use dust_dds::dds_async::domain_participant_factory::DomainParticipantFactoryAsync;
use dust_dds::dds_async::publisher::PublisherAsync;
use dust_dds::dds_async::subscriber::SubscriberAsync;
use dust_dds::dds_async::topic::TopicAsync;
use dust_dds::dds_async::topic_description::TopicDescriptionAsync;
use dust_dds::infrastructure::error::{DdsError, DdsResult};
use dust_dds::infrastructure::qos::{DataReaderQos, DataWriterQos, QosKind};
use dust_dds::infrastructure::qos_policy::*;
use dust_dds::infrastructure::sample_info::{
    InstanceStateKind, ANY_INSTANCE_STATE, ANY_SAMPLE_STATE, ANY_VIEW_STATE,
};
use dust_dds::infrastructure::time::{Duration, DurationKind, Time};
use dust_dds::infrastructure::type_support::DdsType;
use dust_dds::rtps_messages::overall_structure::{RtpsMessageRead, RtpsSubmessageReadKind};
use dust_dds::dds_async::data_reader_listener::DataReaderListener;
use dust_dds::dds_async::data_writer_listener::DataWriterListener;
use dust_dds::dds_async::domain_participant_listener::DomainParticipantListener;
use dust_dds::dds_async::publisher_listener::PublisherListener;
use dust_dds::dds_async::subscriber_listener::SubscriberListener;
use dust_dds::dds_async::topic_listener::TopicListener;
use dust_dds::infrastructure::status::*;
use std::collections::{BTreeMap, HashMap};
use std::sync::{Arc, Mutex};
use std::io::{BufRead, Write};
use vh::sim::{Packet, Sim, SimRuntime, SimTransport};

#[derive(DdsType, Debug, Clone, PartialEq)]
struct KeyedData {
    #[dust_dds(key)]
    id: u8,
    value: Vec<u8>,
}

#[derive(DdsType, Debug, Clone, PartialEq)]
struct OtherData {
    #[dust_dds(key)]
    id: u32,
    a: i64,
    b: String,
}

type Log = Arc<Mutex<Vec<(String, &'static str)>>>;
/// listener that records (owner label, callback) into the shared log
#[derive(Clone)]
struct Rec {
    log: Log,
    label: String,
}
impl Rec {
    fn push(&self, k: &'static str) {
        self.log.lock().unwrap().push((self.label.clone(), k));
    }
}
impl<Foo: Send + 'static> DataReaderListener<Foo> for Rec {
    async fn on_data_available(&mut self, _r: DataReaderAsync<Foo>) { self.push("DA") }
    async fn on_sample_rejected(&mut self, _r: DataReaderAsync<Foo>, _s: SampleRejectedStatus) { self.push("SR") }
    async fn on_liveliness_changed(&mut self, _r: DataReaderAsync<Foo>, _s: LivelinessChangedStatus) { self.push("LC") }
    async fn on_requested_deadline_missed(&mut self, _r: DataReaderAsync<Foo>, _s: RequestedDeadlineMissedStatus) { self.push("RDM") }
    async fn on_requested_incompatible_qos(&mut self, _r: DataReaderAsync<Foo>, _s: RequestedIncompatibleQosStatus) { self.push("RIQ") }
    async fn on_subscription_matched(&mut self, _r: DataReaderAsync<Foo>, _s: SubscriptionMatchedStatus) { self.push("SM") }
    async fn on_sample_lost(&mut self, _r: DataReaderAsync<Foo>, _s: SampleLostStatus) { self.push("SL") }
}
impl<Foo: Send + 'static> DataWriterListener<Foo> for Rec {
    async fn on_liveliness_lost(&mut self, _w: DataWriterAsync<Foo>, _s: LivelinessLostStatus) { self.push("LL") }
    async fn on_offered_deadline_missed(&mut self, _w: DataWriterAsync<Foo>, _s: OfferedDeadlineMissedStatus) { self.push("ODM") }
    async fn on_offered_incompatible_qos(&mut self, _w: DataWriterAsync<Foo>, _s: OfferedIncompatibleQosStatus) { self.push("OIQ") }
    async fn on_publication_matched(&mut self, _w: DataWriterAsync<Foo>, _s: PublicationMatchedStatus) { self.push("PM") }
}
impl SubscriberListener for Rec {
    async fn on_data_on_readers(&mut self, _s: SubscriberAsync) { self.push("DOR") }
    async fn on_data_available(&mut self, _r: DataReaderAsync<()>) { self.push("DA") }
    async fn on_sample_rejected(&mut self, _r: DataReaderAsync<()>, _s: SampleRejectedStatus) { self.push("SR") }
    async fn on_liveliness_changed(&mut self, _r: DataReaderAsync<()>, _s: LivelinessChangedStatus) { self.push("LC") }
    async fn on_requested_deadline_missed(&mut self, _r: DataReaderAsync<()>, _s: RequestedDeadlineMissedStatus) { self.push("RDM") }
    async fn on_requested_incompatible_qos(&mut self, _r: DataReaderAsync<()>, _s: RequestedIncompatibleQosStatus) { self.push("RIQ") }
    async fn on_subscription_matched(&mut self, _r: DataReaderAsync<()>, _s: SubscriptionMatchedStatus) { self.push("SM") }
    async fn on_sample_lost(&mut self, _r: DataReaderAsync<()>, _s: SampleLostStatus) { self.push("SL") }
}
impl PublisherListener for Rec {
    async fn on_liveliness_lost(&mut self, _w: DataWriterAsync<()>, _s: LivelinessLostStatus) { self.push("LL") }
    async fn on_offered_deadline_missed(&mut self, _w: DataWriterAsync<()>, _s: OfferedDeadlineMissedStatus) { self.push("ODM") }
    async fn on_offered_incompatible_qos(&mut self, _w: DataWriterAsync<()>, _s: OfferedIncompatibleQosStatus) { self.push("OIQ") }
    async fn on_publication_matched(&mut self, _w: DataWriterAsync<()>, _s: PublicationMatchedStatus) { self.push("PM") }
}
impl TopicListener for Rec {
    async fn on_inconsistent_topic(&mut self, _t: TopicAsync, _s: InconsistentTopicStatus) { self.push("IT") }
}
impl DomainParticipantListener for Rec {
    async fn on_inconsistent_topic(&mut self, _t: TopicAsync, _s: InconsistentTopicStatus) { self.push("IT") }
    async fn on_liveliness_lost(&mut self, _w: DataWriterAsync<()>, _s: LivelinessLostStatus) { self.push("LL") }
    async fn on_offered_deadline_missed(&mut self, _w: DataWriterAsync<()>, _s: OfferedDeadlineMissedStatus) { self.push("ODM") }
    async fn on_offered_incompatible_qos(&mut self, _w: DataWriterAsync<()>, _s: OfferedIncompatibleQosStatus) { self.push("OIQ") }
    async fn on_sample_lost(&mut self, _r: DataReaderAsync<()>, _s: SampleLostStatus) { self.push("SL") }
    async fn on_data_available(&mut self, _r: DataReaderAsync<()>) { self.push("DA") }
    async fn on_sample_rejected(&mut self, _r: DataReaderAsync<()>, _s: SampleRejectedStatus) { self.push("SR") }
    async fn on_liveliness_changed(&mut self, _r: DataReaderAsync<()>, _s: LivelinessChangedStatus) { self.push("LC") }
    async fn on_requested_deadline_missed(&mut self, _r: DataReaderAsync<()>, _s: RequestedDeadlineMissedStatus) { self.push("RDM") }
    async fn on_requested_incompatible_qos(&mut self, _r: DataReaderAsync<()>, _s: RequestedIncompatibleQosStatus) { self.push("RIQ") }
    async fn on_publication_matched(&mut self, _w: DataWriterAsync<()>, _s: PublicationMatchedStatus) { self.push("PM") }
    async fn on_subscription_matched(&mut self, _r: DataReaderAsync<()>, _s: SubscriptionMatchedStatus) { self.push("SM") }
}
fn kind_of(k: &str) -> Option<StatusKind> {
    Some(match k {
        "IT" => StatusKind::InconsistentTopic,
        "ODM" => StatusKind::OfferedDeadlineMissed,
        "RDM" => StatusKind::RequestedDeadlineMissed,
        "OIQ" => StatusKind::OfferedIncompatibleQos,
        "RIQ" => StatusKind::RequestedIncompatibleQos,
        "SL" => StatusKind::SampleLost,
        "SR" => StatusKind::SampleRejected,
        "DOR" => StatusKind::DataOnReaders,
        "DA" => StatusKind::DataAvailable,
        "LL" => StatusKind::LivelinessLost,
        "LC" => StatusKind::LivelinessChanged,
        "PM" => StatusKind::PublicationMatched,
        "SM" => StatusKind::SubscriptionMatched,
        _ => return None,
    })
}
/// (install listener?, mask) from the `l=` / `m=` tokens
fn old_prefix(tokens: &[&str]) -> &'static str {
    if tokens.iter().any(|t| *t == "old=1") { "OLD" } else { "" }
}
fn lm(tokens: &[&str]) -> (bool, Vec<StatusKind>) {
    let mut l = false;
    let mut m = vec![];
    for t in tokens {
        if let Some(v) = t.strip_prefix("l=") {
            l = v == "1";
        }
        if let Some(v) = t.strip_prefix("m=") {
            m = v.split(',').filter_map(kind_of).collect();
        }
    }
    (l, m)
}

fn err_code(e: &DdsError) -> i32 {
    match e {
        DdsError::Error(_) => 1,
        DdsError::Unsupported => 2,
        DdsError::BadParameter => 3,
        DdsError::PreconditionNotMet(_) => 4,
        DdsError::OutOfResources => 5,
        DdsError::NotEnabled => 6,
        DdsError::ImmutablePolicy => 7,
        DdsError::InconsistentPolicy => 8,
        DdsError::AlreadyDeleted => 9,
        DdsError::Timeout => 10,
        DdsError::NoData => 11,
        DdsError::IllegalOperation => 12,
    }
}
fn rc<T>(r: &DdsResult<T>) -> String {
    match r {
        Ok(_) => "0".into(),
        Err(e) => format!("E{}", err_code(e)),
    }
}
fn kv(tokens: &[&str]) -> HashMap<String, i64> {
    let mut m = HashMap::new();
    for t in tokens {
        if let Some((k, v)) = t.split_once('=') {
            if let Ok(v) = v.parse::<i64>() {
                m.insert(k.to_string(), v);
            }
        }
    }
    m
}
fn dk(ns: i64) -> DurationKind {
    if ns < 0 {
        DurationKind::Infinite
    } else {
        DurationKind::Finite(Duration::new((ns / 1_000_000_000) as i32, (ns % 1_000_000_000) as u32))
    }
}
fn len(v: i64) -> Length {
    if v < 0 { Length::Unlimited } else { Length::Limited(v as i32) }
}
fn payload(n: usize, seed: u64) -> Vec<u8> {
    let mut x = seed.wrapping_mul(6364136223846793005).wrapping_add(1442695040888963407);
    (0..n)
        .map(|_| {
            x = x.wrapping_mul(6364136223846793005).wrapping_add(1442695040888963407);
            (x >> 33) as u8
        })
        .collect()
}
fn checksum(b: &[u8]) -> u64 {
    let mut h: u64 = 1469598103934665603;
    for x in b {
        h ^= *x as u64;
        h = h.wrapping_mul(1099511628211);
    }
    h % 1_000_000_007
}

#[derive(Clone)]
struct Rule {
    action: u8,
    kind: String,
    sn: i64,
    frag: i64,
    times: i64,
}

/// (kind, writer entity key, sn, first fragment) of every submessage in a datagram
fn summarize(bytes: &[u8]) -> Vec<(String, u32, i64, i64)> {
    let mut v = vec![];
    if let Ok(m) = RtpsMessageRead::try_from(bytes) {
        for s in m.submessages() {
            let key = |e: dust_dds::transport::types::EntityId| {
                let k = e.entity_key();
                ((k[0] as u32) << 16) | ((k[1] as u32) << 8) | k[2] as u32
            };
            match s {
                RtpsSubmessageReadKind::Data(d) => v.push(("DATA".into(), key(d.writer_id()), d.writer_sn(), 0)),
                RtpsSubmessageReadKind::DataFrag(d) => {
                    v.push(("DATA_FRAG".into(), key(d.writer_id()), d.writer_sn(), d.fragment_starting_num() as i64))
                }
                RtpsSubmessageReadKind::Heartbeat(h) => v.push(("HEARTBEAT".into(), key(h.writer_id()), h.last_sn(), h.first_sn())),
                RtpsSubmessageReadKind::AckNack(a) => v.push(("ACKNACK".into(), key(*a.writer_id()), a.reader_sn_state().base(), 0)),
                RtpsSubmessageReadKind::Gap(g) => v.push(("GAP".into(), key(g.writer_id()), g.gap_start(), g.gap_list().base())),
                RtpsSubmessageReadKind::NackFrag(n) => v.push(("NACK_FRAG".into(), key(n._writer_id()), n.writer_sn(), 0)),
                _ => {}
            }
        }
    }
    v
}

struct World {
    sim: Sim,
    factory: DomainParticipantFactoryAsync<SimTransport>,
    parts: Vec<DomainParticipantAsync>,
    topics: Vec<TopicAsync>,
    pubs: Vec<PublisherAsync>,
    subs: Vec<SubscriberAsync>,
    writers: Vec<DataWriterAsync<KeyedData>>,
    readers: Vec<DataReaderAsync<KeyedData>>,
    rules: Vec<Rule>,
    sent_mark: usize,
    log: Log,
}

const BUDGET: i64 = 2_000_000_000;

impl World {
    fn filter(rules: &mut Vec<Rule>, p: &Packet) -> u8 {
        if p.meta {
            return 0;
        }
        let subs = summarize(&p.bytes);
        for r in rules.iter_mut() {
            if r.times == 0 {
                continue;
            }
            let hit = subs.iter().any(|(k, _, sn, frag)| {
                (r.kind == "ANY" || &r.kind == k) && (r.sn < 0 || r.sn == *sn) && (r.frag < 0 || r.frag == *frag)
            });
            if hit {
                if r.times > 0 {
                    r.times -= 1;
                }
                return r.action;
            }
        }
        0
    }

    fn op(&mut self, op: &str) -> String {
        let t: Vec<&str> = op.split_whitespace().collect();
        if t.is_empty() {
            return String::new();
        }
        let n = |i: usize| -> i64 { t.get(i).and_then(|x| x.parse::<i64>().ok()).unwrap_or(0) };
        let u = |i: usize| -> usize { n(i) as usize };
        match t[0] {
            "cfg" => {
                let m = kv(&t[1..]);
                if let Some(f) = m.get("frag") {
                    *self.sim.shared.fragment_size.lock().unwrap() = *f as usize;
                }
                let tag = t.iter().find_map(|x| x.strip_prefix("tag=")).map(|s| s.to_string());
                let ann = m.get("ann").copied();
                if tag.is_some() || ann.is_some() {
                    let mut b = dust_dds::dds_async::configuration::DustDdsConfigurationBuilder::new();
                    if let Some(tg) = tag {
                        b = b.domain_tag(tg);
                    }
                    if let Some(a) = ann {
                        b = b.participant_announcement_interval(core::time::Duration::from_millis(a as u64));
                    }
                    let c = b.build().unwrap();
                    let f = &self.factory;
                    let _ = self.sim.run(async { *f.get_mut_configuration().await = c; }, BUDGET);
                }
                "c".into()
            }
            "P" => {
                let f = &self.factory;
                let (l, m) = lm(&t[1..]);
                let rec = if l { Some(Rec { log: self.log.clone(), label: format!("{}P{}", old_prefix(&t[1..]), self.parts.len()) }) } else { None };
                let r = self.sim.run(f.create_participant(n(1) as i32, QosKind::Default, rec, &m), BUDGET);
                self.sim.settle();
                match r {
                    Ok(Ok(p)) => {
                        self.parts.push(p);
                        "P 0".into()
                    }
                    Ok(Err(e)) => format!("P E{}", err_code(&e)),
                    Err(_) => "P STUCK".into(),
                }
            }
            "T" | "T2" => {
                let p = &self.parts[u(1)];
                let name = t.get(2).copied().unwrap_or("topic");
                let (l, m) = lm(&t[1..]);
                let rec = if l { Some(Rec { log: self.log.clone(), label: format!("{}T{}", old_prefix(&t[1..]), self.topics.len()) }) } else { None };
                let r = if t[0] == "T" {
                    self.sim.run(p.create_topic::<KeyedData>(name, "KeyedData", QosKind::Default, rec, &m), BUDGET)
                } else {
                    self.sim.run(p.create_topic::<OtherData>(name, "KeyedData", QosKind::Default, rec, &m), BUDGET)
                };
                self.sim.settle();
                match r {
                    Ok(Ok(x)) => {
                        self.topics.push(x);
                        "T 0".into()
                    }
                    Ok(Err(e)) => format!("T E{}", err_code(&e)),
                    Err(_) => "T STUCK".into(),
                }
            }
            "PUB" => {
                let p = &self.parts[u(1)];
                let (l, m) = lm(&t[1..]);
                let rec = if l { Some(Rec { log: self.log.clone(), label: format!("{}PUB{}", old_prefix(&t[1..]), self.pubs.len()) }) } else { None };
                let r = self.sim.run(p.create_publisher(QosKind::Default, rec, &m), BUDGET);
                self.sim.settle();
                match r {
                    Ok(Ok(x)) => {
                        self.pubs.push(x);
                        "PUB 0".into()
                    }
                    Ok(Err(e)) => format!("PUB E{}", err_code(&e)),
                    Err(_) => "PUB STUCK".into(),
                }
            }
            "SUB" => {
                let p = &self.parts[u(1)];
                let (l, m) = lm(&t[1..]);
                let rec = if l { Some(Rec { log: self.log.clone(), label: format!("{}SUB{}", old_prefix(&t[1..]), self.subs.len()) }) } else { None };
                let r = self.sim.run(p.create_subscriber(QosKind::Default, rec, &m), BUDGET);
                self.sim.settle();
                match r {
                    Ok(Ok(x)) => {
                        self.subs.push(x);
                        "SUB 0".into()
                    }
                    Ok(Err(e)) => format!("SUB E{}", err_code(&e)),
                    Err(_) => "SUB STUCK".into(),
                }
            }
            "W" => {
                let m = kv(&t[3..]);
                let g = |k: &str, d: i64| m.get(k).copied().unwrap_or(d);
                let mut q = DataWriterQos::default();
                q.reliability.kind = if g("rel", 1) == 1 { ReliabilityQosPolicyKind::Reliable } else { ReliabilityQosPolicyKind::BestEffort };
                q.reliability.max_blocking_time = dk(g("mbt", 100_000_000));
                q.durability.kind = if g("dur", 0) == 1 { DurabilityQosPolicyKind::TransientLocal } else { DurabilityQosPolicyKind::Volatile };
                q.history.kind = if g("hist", 0) == 0 { HistoryQosPolicyKind::KeepAll } else { HistoryQosPolicyKind::KeepLast(g("hist", 0) as u32) };
                q.resource_limits.max_samples = len(g("ms", -1));
                q.resource_limits.max_instances = len(g("mi", -1));
                q.resource_limits.max_samples_per_instance = len(g("mspi", -1));
                q.deadline.period = dk(g("dl", -1));
                q.lifespan.duration = dk(g("ls", -1));
                q.ownership.kind = if g("own", 0) == 1 { OwnershipQosPolicyKind::Exclusive } else { OwnershipQosPolicyKind::Shared };
                q.ownership_strength.value = g("str", 0) as i32;
                let pb = &self.pubs[u(1)];
                let tp = &self.topics[u(2)];
                let (l, m) = lm(&t[1..]);
                let rec = if l { Some(Rec { log: self.log.clone(), label: format!("{}W{}", old_prefix(&t[1..]), self.writers.len()) }) } else { None };
                let r = self.sim.run(pb.create_datawriter::<KeyedData>(tp, QosKind::Specific(q), rec, &m), BUDGET);
                self.sim.settle();
                match r {
                    Ok(Ok(x)) => {
                        self.writers.push(x);
                        "W 0".into()
                    }
                    Ok(Err(e)) => format!("W E{}", err_code(&e)),
                    Err(_) => "W STUCK".into(),
                }
            }
            "R" => {
                let m = kv(&t[3..]);
                let g = |k: &str, d: i64| m.get(k).copied().unwrap_or(d);
                let mut q = DataReaderQos::default();
                q.reliability.kind = if g("rel", 1) == 1 { ReliabilityQosPolicyKind::Reliable } else { ReliabilityQosPolicyKind::BestEffort };
                q.durability.kind = if g("dur", 0) == 1 { DurabilityQosPolicyKind::TransientLocal } else { DurabilityQosPolicyKind::Volatile };
                q.history.kind = if g("hist", 0) == 0 { HistoryQosPolicyKind::KeepAll } else { HistoryQosPolicyKind::KeepLast(g("hist", 0) as u32) };
                q.resource_limits.max_samples = len(g("ms", -1));
                q.resource_limits.max_instances = len(g("mi", -1));
                q.resource_limits.max_samples_per_instance = len(g("mspi", -1));
                q.deadline.period = dk(g("dl", -1));
                q.ownership.kind = if g("own", 0) == 1 { OwnershipQosPolicyKind::Exclusive } else { OwnershipQosPolicyKind::Shared };
                q.time_based_filter.minimum_separation = dk(g("sep", 0));
                q.destination_order.kind = if g("ord", 0) == 1 { DestinationOrderQosPolicyKind::BySourceTimestamp } else { DestinationOrderQosPolicyKind::ByReceptionTimestamp };
                let sb = &self.subs[u(1)];
                let tp = &self.topics[u(2)];
                let (l, m) = lm(&t[1..]);
                let rec = if l { Some(Rec { log: self.log.clone(), label: format!("{}R{}", old_prefix(&t[1..]), self.readers.len()) }) } else { None };
                let r = self.sim.run(sb.create_datareader::<KeyedData>(tp, QosKind::Specific(q), rec, &m), BUDGET);
                self.sim.settle();
                match r {
                    Ok(Ok(x)) => {
                        self.readers.push(x);
                        "R 0".into()
                    }
                    Ok(Err(e)) => format!("R E{}", err_code(&e)),
                    Err(_) => "R STUCK".into(),
                }
            }
            "w" | "d" | "u" => {
                let w = &self.writers[u(1)];
                let data = KeyedData { id: n(2) as u8, value: if t[0] == "w" { payload(u(3), n(4) as u64) } else { vec![] } };
                let ts = t.get(5).and_then(|x| x.parse::<i64>().ok());
                let budget = 30_000_000_000;
                let r = match (t[0], ts) {
                    ("w", Some(ts)) => self.sim.run(w.write_w_timestamp(data, None, Time::new((ts / 1_000_000_000) as i32, (ts % 1_000_000_000) as u32)), budget),
                    ("w", None) => self.sim.run(w.write(data, None), budget),
                    ("d", _) => self.sim.run(w.dispose(data, None), budget),
                    _ => self.sim.run(w.unregister_instance(data, None), budget),
                };
                self.sim.settle();
                match r {
                    Ok(x) => format!("{} {}", t[0], rc(&x)),
                    Err(_) => format!("{} STUCK", t[0]),
                }
            }
            "t" | "r" => {
                let rd = &self.readers[u(1)];
                let max = if n(2) <= 0 { i32::MAX } else { n(2) as i32 };
                let r = if t[0] == "t" {
                    self.sim.run(rd.take(max, ANY_SAMPLE_STATE, ANY_VIEW_STATE, ANY_INSTANCE_STATE), BUDGET)
                } else {
                    self.sim.run(rd.read(max, ANY_SAMPLE_STATE, ANY_VIEW_STATE, ANY_INSTANCE_STATE), BUDGET)
                };
                self.sim.settle();
                match r {
                    Ok(Ok(l)) => {
                        let mut s = format!("{} {}", t[0], l.len());
                        for x in l {
                            let si = &x.sample_info;
                            let is = match si.instance_state {
                                InstanceStateKind::Alive => 1,
                                InstanceStateKind::NotAliveDisposed => 2,
                                InstanceStateKind::NotAliveNoWriters => 4,
                            };
                            let ts = si.source_timestamp.map(|t| t.sec() as i64 * 1_000_000_000 + t.nanosec() as i64).unwrap_or(-1);
                            match &x.data {
                                Some(d) => s += &format!(" {} {} {} {} {}", d.id, d.value.len(), checksum(&d.value), is, ts),
                                None => s += &format!(" -1 0 0 {} {}", is, ts),
                            }
                        }
                        s
                    }
                    Ok(Err(e)) => format!("{} E{}", t[0], err_code(&e)),
                    Err(_) => format!("{} STUCK", t[0]),
                }
            }
            "ev" => {
                self.sim.settle();
                let mut counts: BTreeMap<(String, &'static str), usize> = BTreeMap::new();
                for e in self.log.lock().unwrap().drain(..) {
                    *counts.entry(e).or_insert(0) += 1;
                }
                let mut s = String::from("ev");
                for ((l, k), c) in counts {
                    s += &format!(" {}:{}:{}", l, k, c);
                }
                s
            }
            "SL" => {
                // set_listener after creation: SL <W|R|PUB|SUB|P> <idx> l= m=   (the new listener is labelled like
                // one installed at creation; listeners installed at creation of an entity that is re-configured
                // should be created with the scenario flag old=1 so that they are labelled OLD<label>)
                let (l, m) = lm(&t[1..]);
                let i = u(2);
                let rec = |label: String| if l { Some(Rec { log: self.log.clone(), label }) } else { None };
                let r = match t[1] {
                    "W" => self.sim.run(self.writers[i].set_listener(rec(format!("W{}", i)), &m), BUDGET),
                    "R" => self.sim.run(self.readers[i].set_listener(rec(format!("R{}", i)), &m), BUDGET),
                    "PUB" => self.sim.run(self.pubs[i].set_listener(rec(format!("PUB{}", i)), &m), BUDGET),
                    "SUB" => self.sim.run(self.subs[i].set_listener(rec(format!("SUB{}", i)), &m), BUDGET),
                    _ => self.sim.run(self.parts[i].set_listener(rec(format!("P{}", i)), &m), BUDGET),
                };
                self.sim.settle();
                match r {
                    Ok(x) => format!("SL {}", rc(&x)),
                    Err(_) => "SL STUCK".into(),
                }
            }
            "Q" => {
                // set_qos after creation: Q W <idx> lb=<ns> (latency budget) | Q R <idx> dl=<ns> (deadline)
                let m = kv(&t[3..]);
                let i = u(2);
                let r = if t[1] == "W" {
                    let w = &self.writers[i];
                    match self.sim.run(w.get_qos(), BUDGET) {
                        Ok(Ok(mut q)) => {
                            if let Some(v) = m.get("lb") {
                                q.latency_budget.duration = dk(*v);
                            }
                            if let Some(v) = m.get("dl") {
                                q.deadline.period = dk(*v);
                            }
                            self.sim.run(w.set_qos(QosKind::Specific(q)), BUDGET)
                        }
                        Ok(Err(e)) => Ok(Err(e)),
                        Err(e) => Err(e),
                    }
                } else {
                    let rd = &self.readers[i];
                    match self.sim.run(rd.get_qos(), BUDGET) {
                        Ok(Ok(mut q)) => {
                            if let Some(v) = m.get("lb") {
                                q.latency_budget.duration = dk(*v);
                            }
                            if let Some(v) = m.get("dl") {
                                q.deadline.period = dk(*v);
                            }
                            self.sim.run(rd.set_qos(QosKind::Specific(q)), BUDGET)
                        }
                        Ok(Err(e)) => Ok(Err(e)),
                        Err(e) => Err(e),
                    }
                };
                self.sim.settle();
                match r {
                    Ok(x) => format!("Q {}", rc(&x)),
                    Err(_) => "Q STUCK".into(),
                }
            }
            "netw" => {
                // deliver ONLY the in-flight datagrams that carry a DATA of the writer with entity key <key>
                // (256 = SPDP participant writer, 3 / 4 = SEDP publications / subscriptions writer); the
                // others stay in flight: datagrams may overtake each other
                let key = n(1) as u32;
                let mut k = 0;
                self.sim.settle();
                loop {
                    let next = {
                        let mut q = self.sim.shared.inflight.lock().unwrap();
                        match q.iter().position(|p| !p.held && summarize(&p.bytes).iter().any(|x| x.0 == "DATA" && x.1 == key)) {
                            Some(i) => Some(q.remove(i)),
                            None => None,
                        }
                    };
                    let Some(p) = next else { break };
                    self.sim.deliver_packet(&p);
                    k += 1;
                    if k > 10_000 {
                        break;
                    }
                }
                format!("netw {}", k)
            }
            "netm" => {
                // merge ALL pending user datagrams that carry a DATA submessage into ONE datagram (header of the
                // first + all submessages, as a batching RTPS writer would send them) and deliver it: every
                // reader gets all those changes within one pass of the worker; the rest stays in flight
                self.sim.settle();
                let mut group: Vec<Packet> = vec![];
                {
                    let mut q = self.sim.shared.inflight.lock().unwrap();
                    let mut i = 0;
                    while i < q.len() {
                        let p = &q[i];
                        let is_data = !p.meta && !p.held && summarize(&p.bytes).iter().any(|x| x.0 == "DATA");
                        let same_route = group.first().map(|g| g.from == p.from && g.to == p.to).unwrap_or(true);
                        if is_data && same_route {
                            group.push(q.remove(i));
                        } else {
                            i += 1;
                        }
                    }
                }
                let k = group.len();
                if k > 0 {
                    let mut bytes = group[0].bytes[..20].to_vec();
                    for p in &group {
                        bytes.extend_from_slice(&p.bytes[20..]);
                    }
                    let p = Packet { id: 0, from: group[0].from, to: group[0].to, meta: false, bytes, held: false };
                    self.sim.deliver_packet(&p);
                }
                format!("netm {}", k)
            }
            "jump" => {
                // move the simulated clock WITHOUT stopping at the timer deadlines on the way, then let the
                // worker run once.  (`adv` stops exactly at the instant now - last_write == deadline period, where
                // time_until_missed_*_deadline is 0 but the check uses a strict `>`: with a frozen clock the
                // worker then spins on delay(0) forever.)
                {
                    let mut g = self.sim.shared.now_ns.lock().unwrap();
                    *g += n(1);
                }
                self.sim.settle();
                "jump".into()
            }
            "adv" => {
                self.sim.advance(n(1));
                "adv".into()
            }
            "net" => {
                let max = if t.len() > 1 { u(1) } else { 100_000 };
                let mut rules = std::mem::take(&mut self.rules);
                let k = self.sim.pump(max, &mut |p| World::filter(&mut rules, p));
                self.rules = rules;
                format!("net {}", k)
            }
            "fault" => {
                let action = match t[1] {
                    "drop" => 1,
                    "dup" => 2,
                    _ => 3,
                };
                self.rules.push(Rule { action, kind: t[2].to_string(), sn: n(3), frag: n(4), times: if t.len() > 5 { n(5) } else { 1 } });
                "f".into()
            }
            "rel" => {
                self.sim.release_held();
                "rel".into()
            }
            "wfa" => {
                let w = &self.writers[u(1)];
                let r = self.sim.run(w.wait_for_acknowledgments(), n(2));
                self.sim.settle();
                match r {
                    Ok(x) => format!("wfa {}", rc(&x)),
                    Err(_) => "wfa PENDING".into(),
                }
            }
            "wfh" => {
                let rd = &self.readers[u(1)];
                let r = self.sim.run(rd.wait_for_historical_data(), n(2));
                self.sim.settle();
                match r {
                    Ok(x) => format!("wfh {}", rc(&x)),
                    Err(_) => "wfh PENDING".into(),
                }
            }
            "pm" => {
                let w = &self.writers[u(1)];
                match self.sim.run(w.get_publication_matched_status(), BUDGET) {
                    Ok(Ok(s)) => format!("pm {} {} {} {}", s.total_count, s.total_count_change, s.current_count, s.current_count_change),
                    Ok(Err(e)) => format!("pm E{}", err_code(&e)),
                    Err(_) => "pm STUCK".into(),
                }
            }
            "sm" => {
                let rd = &self.readers[u(1)];
                match self.sim.run(rd.get_subscription_matched_status(), BUDGET) {
                    Ok(Ok(s)) => format!("sm {} {} {} {}", s.total_count, s.total_count_change, s.current_count, s.current_count_change),
                    Ok(Err(e)) => format!("sm E{}", err_code(&e)),
                    Err(_) => "sm STUCK".into(),
                }
            }
            "delays" => {
                let d = self.sim.shared.delays.lock().unwrap();
                let max = d.iter().map(|x| x.1).max().unwrap_or(0);
                format!("delays {} {}", d.len(), max)
            }
            "delW" => {
                let w = &self.writers[u(1)];
                let pb = w.get_publisher();
                let r = self.sim.run(pb.delete_datawriter(w), BUDGET);
                self.sim.settle();
                match r { Ok(x) => format!("delW {}", rc(&x)), Err(_) => "delW STUCK".into() }
            }
            "delR" => {
                let rd = &self.readers[u(1)];
                let sb = rd.get_subscriber();
                let r = self.sim.run(sb.delete_datareader(rd), BUDGET);
                self.sim.settle();
                match r { Ok(x) => format!("delR {}", rc(&x)), Err(_) => "delR STUCK".into() }
            }
            "delPUB" => {
                let x = &self.pubs[u(1)];
                let p = x.get_participant();
                let r = self.sim.run(p.delete_publisher(x), BUDGET);
                self.sim.settle();
                match r { Ok(x) => format!("delPUB {}", rc(&x)), Err(_) => "delPUB STUCK".into() }
            }
            "delSUB" => {
                let x = &self.subs[u(1)];
                let p = x.get_participant();
                let r = self.sim.run(p.delete_subscriber(x), BUDGET);
                self.sim.settle();
                match r { Ok(x) => format!("delSUB {}", rc(&x)), Err(_) => "delSUB STUCK".into() }
            }
            "delT" => {
                let x = &self.topics[u(1)];
                let p = x.get_participant();
                let r = self.sim.run(p.delete_topic(x), BUDGET);
                self.sim.settle();
                match r { Ok(x) => format!("delT {}", rc(&x)), Err(_) => "delT STUCK".into() }
            }
            "delall" => {
                let p = &self.parts[u(1)];
                let r = self.sim.run(p.delete_contained_entities(), BUDGET);
                self.sim.settle();
                match r { Ok(x) => format!("delall {}", rc(&x)), Err(_) => "delall STUCK".into() }
            }
            "delP" => {
                let p = &self.parts[u(1)];
                let f = &self.factory;
                let r = self.sim.run(f.delete_participant(p), BUDGET);
                self.sim.settle();
                if let Ok(Ok(())) = r {
                    self.sim.shared.endpoints.lock().unwrap()[u(1)].alive = false;
                }
                match r { Ok(x) => format!("delP {}", rc(&x)), Err(_) => "delP STUCK".into() }
            }
            "inject" => {
                let bytes = vh::util::hex(t[3]);
                let p = Packet { id: 0, from: 999, to: u(1), meta: n(2) == 1, bytes, held: false };
                self.sim.deliver_packet(&p);
                "inj".into()
            }
            "sent" => {
                let log = self.sim.shared.sent_log.lock().unwrap();
                let mut s = String::from("sent");
                for (from, to, meta, bytes) in log[self.sent_mark..].iter() {
                    if *meta {
                        continue;
                    }
                    for (k, w, sn, fr) in summarize(bytes) {
                        s += &format!(" {}>{}:{}:{}:{}:{}", from, to, k, w, sn, fr);
                    }
                }
                self.sent_mark = log.len();
                s
            }
            _ => format!("?{}", t[0]),
        }
    }
}

fn run_scenario(line: &str) -> String {
    let sim = Sim::new(1344);
    let factory = DomainParticipantFactoryAsync::new(
        SimRuntime(sim.shared.clone()),
        [1, 2, 3, 4],
        [5, 6, 7, 8],
        SimTransport(sim.shared.clone()),
        Default::default(),
    );
    let mut w = World {
        sim,
        factory,
        parts: vec![],
        topics: vec![],
        pubs: vec![],
        subs: vec![],
        writers: vec![],
        readers: vec![],
        rules: vec![],
        sent_mark: 0,
        log: Arc::new(Mutex::new(vec![])),
    };
    let mut out = vec![];
    for op in line.split(';') {
        let op = op.trim();
        if op.is_empty() {
            continue;
        }
        out.push(w.op(op));
    }
    out.join(" | ")
}

fn main() {
    let args: Vec<String> = std::env::args().collect();
    if args.get(1).map(|s| s.as_str()) == Some("--one") {
        // child: one scenario on stdin
        let mut line = String::new();
        std::io::stdin().lock().read_line(&mut line).unwrap();
        // watchdog: a scenario that runs away (time or memory) ends as `HANG`
        std::thread::spawn(|| {
            let t0 = std::time::Instant::now();
            loop {
                std::thread::sleep(std::time::Duration::from_millis(100));
                let rss_pages = std::fs::read_to_string("/proc/self/statm")
                    .ok()
                    .and_then(|s| s.split_whitespace().nth(1).and_then(|x| x.parse::<u64>().ok()))
                    .unwrap_or(0);
                if t0.elapsed().as_secs() > 90 || rss_pages > 400_000 {
                    println!("HANG");
                    std::process::exit(4);
                }
            }
        });
        std::panic::set_hook(Box::new(|info| {
            let s = info.location().map(|l| format!("{}:{}", l.file(), l.line())).unwrap_or_default();
            println!("PANIC {}", s);
            std::process::exit(3);
        }));
        println!("{}", run_scenario(line.trim()));
        std::process::exit(0);
    }
    let exe = std::env::current_exe().unwrap();
    let stdin = std::io::stdin();
    let stdout = std::io::stdout();
    let mut out = stdout.lock();
    for line in stdin.lock().lines() {
        let line = line.unwrap();
        if line.trim().is_empty() {
            continue;
        }
        let mut child = std::process::Command::new(&exe)
            .arg("--one")
            .stdin(std::process::Stdio::piped())
            .stdout(std::process::Stdio::piped())
            .stderr(std::process::Stdio::null())
            .spawn()
            .unwrap();
        child.stdin.take().unwrap().write_all(format!("{}\n", line).as_bytes()).unwrap();
        let o = child.wait_with_output().unwrap();
        let s = String::from_utf8_lossy(&o.stdout);
        let last = s.lines().last().unwrap_or("ABORT").to_string();
        writeln!(out, "{}", if last.is_empty() { "ABORT".to_string() } else { last }).unwrap();
        out.flush().unwrap();
    }
}
