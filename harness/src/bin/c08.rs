//! C08: `<LE|BE> <message text>` -> `OK <encoded bytes> | <decoded message text>`.
//! LE: the real encoder RtpsMessageWrite::new on structs built with the public constructors.
//! BE: the harness's big-endian layout of the same message (dust-dds never writes BE).
//! Both are decoded by the real RtpsMessageRead::try_from and printed through the accessors.
#[path = "../wire_common.rs"]
mod wire_common;
use dust_dds::rtps_messages::overall_structure::RtpsMessageRead;
use wire_common::*;

fn run_line(line: &str) -> String {
    let (e, text) = line.split_once(' ').unwrap();
    let spec = parse_msg(text);
    let bytes = if e == "LE" { encode_real(&spec) } else { encode_be(&spec) };
    // a panic of the decoder (possible when a truncated length field makes payload bytes look like
    // submessages) is an output like any other: `OK <bytes> | PANIC`
    let dec = match std::panic::catch_unwind(|| RtpsMessageRead::try_from(&bytes[..])) {
        Ok(Ok(m)) => fmt_message(&m),
        Ok(Err(x)) => format!("ERR {}", err_code(&x)),
        Err(_) => "PANIC".to_string(),
    };
    format!("OK {} | {}", bx_encode(&bytes), dec)
}

fn main() {
    vh::main_loop_sites(run_line);
}
