//! C07 (RTPS part): `<bytes>` -> result of the real RtpsMessageRead::try_from on exactly
//! these bytes, every submessage printed through its accessors, plus what the call
//! requested from the allocator: `OK <message> | A <bytes allocated> P <peak live> R <retained>`,
//! `ERR <code> | A .. P .. R ..`, or `PANIC file:line`.
#[path = "../wire_common.rs"]
mod wire_common;
use dust_dds::rtps_messages::overall_structure::RtpsMessageRead;
use std::alloc::{GlobalAlloc, Layout, System};
use std::sync::atomic::{AtomicUsize, Ordering::Relaxed};
use wire_common::*;

struct Counting;
static TOTAL: AtomicUsize = AtomicUsize::new(0);
static LIVE: AtomicUsize = AtomicUsize::new(0);
static PEAK: AtomicUsize = AtomicUsize::new(0);

fn on_alloc(n: usize) {
    TOTAL.fetch_add(n, Relaxed);
    let l = LIVE.fetch_add(n, Relaxed) + n;
    PEAK.fetch_max(l, Relaxed);
}
unsafe impl GlobalAlloc for Counting {
    unsafe fn alloc(&self, l: Layout) -> *mut u8 {
        on_alloc(l.size());
        unsafe { System.alloc(l) }
    }
    unsafe fn dealloc(&self, p: *mut u8, l: Layout) {
        LIVE.fetch_sub(l.size(), Relaxed);
        unsafe { System.dealloc(p, l) }
    }
    unsafe fn realloc(&self, p: *mut u8, l: Layout, new: usize) -> *mut u8 {
        // a realloc may copy: count it as a fresh block next to the old one
        on_alloc(new);
        LIVE.fetch_sub(l.size(), Relaxed);
        unsafe { System.realloc(p, l, new) }
    }
}
#[global_allocator]
static A: Counting = Counting;

fn run_line(line: &str) -> String {
    let bytes = bx_decode(line);
    let live0 = LIVE.load(Relaxed);
    let total0 = TOTAL.load(Relaxed);
    PEAK.store(live0, Relaxed);
    let r = RtpsMessageRead::try_from(&bytes[..]);
    let total = TOTAL.load(Relaxed) - total0;
    let peak = PEAK.load(Relaxed).saturating_sub(live0);
    let kept = LIVE.load(Relaxed).saturating_sub(live0);
    let m = format!("A {} P {} R {}", total, peak, kept);
    match r {
        Ok(msg) => format!("OK {} | {}", fmt_message(&msg), m),
        Err(x) => format!("ERR {} | {}", err_code(&x), m),
    }
}

/// `mutate` mode (used by the case generator): `<LE|BE> <ops|-> | <message text>` -> the real
/// encoding of the message (big-endian: the harness layout) with the mutation ops applied.
/// ops, comma separated: b@K:O=V / h@K:O=V / w@K:O=V set an 8/16/32-bit field at offset O of
/// submessage K (K = -1: offset from the start of the message); x@P=V xor; t@N truncate;
/// i@P=HEX insert; d@P=N delete.
fn mutate_line(line: &str) -> String {
    let (head, text) = line.split_once(" | ").unwrap();
    let (e, ops) = head.split_once(' ').unwrap();
    let spec = parse_msg(text);
    let le = e == "LE";
    let mut b = if le { encode_real(&spec) } else { encode_be(&spec) };
    // start offsets of the submessages, following the length fields as written
    let mut starts = Vec::new();
    let mut p = 20usize;
    while p + 4 <= b.len() {
        starts.push(p);
        let l = if le { u16::from_le_bytes([b[p + 2], b[p + 3]]) } else { u16::from_be_bytes([b[p + 2], b[p + 3]]) } as usize;
        p += 4 + l;
    }
    if ops != "-" {
        for op in ops.split(',') {
            let (kind, rest) = op.split_once('@').unwrap();
            let (pos, val) = rest.split_once('=').unwrap_or((rest, "0"));
            let abs = |pos: &str| -> usize {
                match pos.split_once(':') {
                    Some((k, o)) => {
                        let k: i64 = k.parse().unwrap();
                        let o: usize = o.parse().unwrap();
                        if k < 0 || starts.is_empty() { o } else { starts[(k as usize) % starts.len()] + o }
                    }
                    None => pos.parse().unwrap(),
                }
            };
            match kind {
                "b" | "h" | "w" => {
                    let a = abs(pos);
                    let v: u64 = val.parse().unwrap();
                    let n = match kind { "b" => 1, "h" => 2, _ => 4 };
                    for i in 0..n {
                        let byte = if le { (v >> (8 * i)) as u8 } else { (v >> (8 * (n - 1 - i))) as u8 };
                        if a + i < b.len() {
                            b[a + i] = byte;
                        }
                    }
                }
                "x" => {
                    if !b.is_empty() {
                        let a = abs(pos) % b.len();
                        b[a] ^= val.parse::<u64>().unwrap() as u8;
                    }
                }
                "t" => {
                    let n = abs(pos);
                    if n < b.len() {
                        b.truncate(n);
                    }
                }
                "i" => {
                    let a = abs(pos).min(b.len());
                    let ins = vh::util::hex(val);
                    b.splice(a..a, ins);
                }
                "d" => {
                    let a = abs(pos).min(b.len());
                    let n = (val.parse::<usize>().unwrap()).min(b.len() - a);
                    b.drain(a..a + n);
                }
                _ => {}
            }
        }
    }
    bx_encode(&b)
}

fn main() {
    if std::env::args().nth(1).as_deref() == Some("mutate") {
        vh::main_loop(mutate_line);
        return;
    }
    if std::env::args().nth(1).as_deref() == Some("sizes") {
        println!("RtpsSubmessageReadKind {}", std::mem::size_of::<dust_dds::rtps_messages::overall_structure::RtpsSubmessageReadKind>());
        println!("Parameter {}", std::mem::size_of::<dust_dds::rtps_messages::submessage_elements::Parameter>());
        println!("Locator {}", std::mem::size_of::<dust_dds::transport::types::Locator>());
        return;
    }
    vh::main_loop_sites(run_line);
}
