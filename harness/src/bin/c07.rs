//! C07 (RTPS part): `<bytes>` -> result of the real RtpsMessageRead::try_from on exactly
//! these bytes, every submessage printed through its accessors, plus what the call
//! requested from the allocator: `OK <message> | A <bytes allocated> P <peak live> R <retained>`,
//! `ERR <code> | A .. P .. R ..`, or `PANIC file:line`.
#[path = "../wire_common.rs"]
mod wire_common;
use dust_dds::rtps_messages::overall_structure::RtpsMessageRead;
use std::alloc::{GlobalAlloc, Layout, System};
use std::sync::atomic::{AtomicUsize, Ordering::Relaxed};
use wire_common::*;

struct Counting;
static TOTAL: AtomicUsize = AtomicUsize::new(0);
static LIVE: AtomicUsize = AtomicUsize::new(0);
static PEAK: AtomicUsize = AtomicUsize::new(0);

fn on_alloc(n: usize) {
    TOTAL.fetch_add(n, Relaxed);
    let l = LIVE.fetch_add(n, Relaxed) + n;
    PEAK.fetch_max(l, Relaxed);
}
unsafe impl GlobalAlloc for Counting {
    unsafe fn alloc(&self, l: Layout) -> *mut u8 {
        on_alloc(l.size());
        unsafe { System.alloc(l) }
    }
    unsafe fn dealloc(&self, p: *mut u8, l: Layout) {
        LIVE.fetch_sub(l.size(), Relaxed);
        unsafe { System.dealloc(p, l) }
    }
    unsafe fn realloc(&self, p: *mut u8, l: Layout, new: usize) -> *mut u8 {
        // a realloc may copy: count it as a fresh block next to the old one
        on_alloc(new);
        LIVE.fetch_sub(l.size(), Relaxed);
        unsafe { System.realloc(p, l, new) }
    }
}
#[global_allocator]
static A: Counting = Counting;

fn run_line(line: &str) -> String {
    let bytes = bx_decode(line);
    let live0 = LIVE.load(Relaxed);
    let total0 = TOTAL.load(Relaxed);
    PEAK.store(live0, Relaxed);
    let r = RtpsMessageRead::try_from(&bytes[..]);
    let total = TOTAL.load(Relaxed) - total0;
    let peak = PEAK.load(Relaxed).saturating_sub(live0);
    let kept = LIVE.load(Relaxed).saturating_sub(live0);
    let m = format!("A {} P {} R {}", total, peak, kept);
    match r {
        Ok(msg) => format!("OK {} | {}", fmt_message(&msg), m),
        Err(x) => format!("ERR {} | {}", err_code(&x), m),
    }
}

fn main() {
    if std::env::args().nth(1).as_deref() == Some("sizes") {
        println!("RtpsSubmessageReadKind {}", std::mem::size_of::<dust_dds::rtps_messages::overall_structure::RtpsSubmessageReadKind>());
        println!("Parameter {}", std::mem::size_of::<dust_dds::rtps_messages::submessage_elements::Parameter>());
        println!("Locator {}", std::mem::size_of::<dust_dds::transport::types::Locator>());
        return;
    }
    vh::main_loop_sites(run_line);
}
