//! C34 — drives the REAL worker channels (dust_dds::dcps::channels::{oneshot,mpsc,notification})
//! through one history of operations on one thread, with counting wakers.
//!
//! input line : `<o|m|n> <op> <op> ...`
//!     s<h>:<v>  send v / notify through sender handle h        c<h>  clone handle h
//!     d<h>      drop sender handle h                            r     drop the receiver
//!     p<w>      poll the receiving future with waker w          q<w>  same, on a freshly created future (mpsc)
//!     P<w>/<op> poll with waker w WHILE a second thread attempts the sender-side <op> (released from inside
//!               the poll, at Waker::clone; see `race`): two output tokens, poll then op; `~` after the poll
//!               token = the op completed inside the poll (on the unchanged code only an op that takes no lock,
//!               i.e. a `k` through a dead handle, can); `T` = undecided
//! output line: one token per op: k (not expressible: handle gone), u (unit), e (send error),
//!     v<value> (Ready value), c (Ready closed), p (Pending); followed by `!<waker>` per wake issued
//!     during the op.
//! `stress <o|m|n> <seed> <threads> <n>`: multi-thread run (corroboration only) -> `OK …` / `FAIL …`.
use dust_dds::dcps::channels::mpsc::{mpsc_channel, MpscReceiver, MpscSender};
use dust_dds::dcps::channels::notification::{notification, NotificationReceiver, NotificationSender};
use dust_dds::dcps::channels::oneshot::{oneshot, OneshotReceiver, OneshotSender};
use dust_dds::infrastructure::error::DdsError;
use std::future::Future;
use std::pin::Pin;
use std::cell::RefCell;
use std::sync::atomic::{AtomicBool, AtomicUsize, Ordering};
use std::sync::{Arc, Mutex};
use std::task::{Context, Poll, RawWaker, RawWakerVTable, Wake, Waker};
use std::time::{Duration, Instant};

// Counting waker built on a RawWaker vtable so that `Waker::clone()` can run a hook: the
// channels call `cx.waker().clone()` inside poll; the hook is the point where a concurrent
// thread is let loose (see `race`).
struct CountWaker {
    n: AtomicUsize,
}
static VTABLE: RawWakerVTable = RawWakerVTable::new(vt_clone, vt_wake, vt_wake_by_ref, vt_drop);
unsafe fn vt_clone(p: *const ()) -> RawWaker {
    on_clone();
    unsafe { Arc::increment_strong_count(p as *const CountWaker) };
    RawWaker::new(p, &VTABLE)
}
unsafe fn vt_wake(p: *const ()) {
    let a = unsafe { Arc::from_raw(p as *const CountWaker) };
    a.n.fetch_add(1, Ordering::SeqCst);
}
unsafe fn vt_wake_by_ref(p: *const ()) {
    unsafe { &*(p as *const CountWaker) }.n.fetch_add(1, Ordering::SeqCst);
}
unsafe fn vt_drop(p: *const ()) {
    drop(unsafe { Arc::from_raw(p as *const CountWaker) });
}
fn count_waker(c: &Arc<CountWaker>) -> Waker {
    unsafe { Waker::from_raw(RawWaker::new(Arc::into_raw(c.clone()) as *const (), &VTABLE)) }
}

const NWAKERS: usize = 8;

struct Wakers {
    cells: Vec<Arc<CountWaker>>,
    wakers: Vec<Waker>,
    seen: Vec<usize>,
}
impl Wakers {
    fn new() -> Self {
        let cells: Vec<_> = (0..NWAKERS).map(|_| Arc::new(CountWaker { n: AtomicUsize::new(0) })).collect();
        let wakers = cells.iter().map(count_waker).collect();
        Wakers { cells, wakers, seen: vec![0; NWAKERS] }
    }
    /// wakes issued since the last call, as `!w` tokens
    fn delta(&mut self) -> String {
        let mut s = String::new();
        for (i, c) in self.cells.iter().enumerate() {
            let n = c.n.load(Ordering::SeqCst);
            for _ in self.seen[i]..n {
                s.push_str(&format!("!{}", i));
            }
            self.seen[i] = n;
        }
        s
    }
}

// ------------------------------------------------- a real two-thread interleaving, made
// deterministic by the lock: the helper thread is released from INSIDE the receiver's poll
// (hook in Waker::clone) and the hook waits until the helper's operation either has COMPLETED
// (then it ran inside the poll: poll is not one critical section) or is BLOCKED on the
// critical-section lock (then clone runs inside the section and the operation is serialised
// after the poll).  "Blocked" is read from /proc/self/task/<tid>/stat (state S after the
// helper announced that it is about to run its operation: the only place it can sleep is the
// futex of the global critical-section mutex).
#[derive(Default)]
struct RaceState {
    ready: AtomicBool,
    go: AtomicBool,
    started: AtomicBool,
    done: AtomicBool,
    in_window: AtomicBool,
    undecided: AtomicBool,
    tid: AtomicUsize,
    helper: Mutex<Option<std::thread::Thread>>,
}
thread_local!(static ARMED: RefCell<Option<Arc<RaceState>>> = const { RefCell::new(None) });

fn my_tid() -> usize {
    std::fs::read_link("/proc/thread-self")
        .ok()
        .and_then(|p| p.file_name().and_then(|f| f.to_str()).and_then(|f| f.parse().ok()))
        .unwrap_or(0)
}
fn thread_state(tid: usize) -> Option<char> {
    let s = std::fs::read_to_string(format!("/proc/self/task/{}/stat", tid)).ok()?;
    let i = s.rfind(')')?;
    s[i + 1..].trim_start().chars().next()
}
fn release(st: &RaceState) {
    st.go.store(true, Ordering::SeqCst);
    if let Some(t) = st.helper.lock().unwrap().as_ref() {
        t.unpark();
    }
}
fn on_clone() {
    let Some(st) = ARMED.with(|a| a.borrow_mut().take()) else { return };
    release(&st);
    let tid = st.tid.load(Ordering::SeqCst);
    let t0 = Instant::now();
    let mut asleep = 0;
    loop {
        if st.done.load(Ordering::SeqCst) {
            st.in_window.store(true, Ordering::SeqCst);
            return;
        }
        if st.started.load(Ordering::SeqCst) {
            if tid != 0 {
                if thread_state(tid) == Some('S') {
                    asleep += 1;
                    if asleep >= 3 && !st.done.load(Ordering::SeqCst) {
                        return; // blocked on the critical-section lock that this thread holds
                    }
                } else {
                    asleep = 0;
                }
            } else if t0.elapsed() > Duration::from_millis(300) {
                return; // no /proc: grace period only
            }
        }
        if t0.elapsed() > Duration::from_secs(20) {
            st.undecided.store(true, Ordering::SeqCst);
            return;
        }
        std::thread::yield_now();
    }
}

/// poll ∥ act: returns (poll token, act token); the poll token carries `~` when the
/// concurrent operation completed inside the poll, and is `T` when that could not be decided
fn race(poll: impl FnOnce() -> String, act: impl FnOnce() -> String + Send) -> (String, String) {
    let st = Arc::new(RaceState::default());
    std::thread::scope(|sc| {
        let st2 = st.clone();
        let h = sc.spawn(move || {
            st2.tid.store(my_tid(), Ordering::SeqCst);
            *st2.helper.lock().unwrap() = Some(std::thread::current());
            st2.ready.store(true, Ordering::SeqCst);
            while !st2.go.load(Ordering::SeqCst) {
                std::thread::park_timeout(Duration::from_millis(50));
            }
            st2.started.store(true, Ordering::SeqCst);
            let r = act();
            st2.done.store(true, Ordering::SeqCst);
            r
        });
        while !st.ready.load(Ordering::SeqCst) {
            std::thread::yield_now();
        }
        ARMED.with(|a| *a.borrow_mut() = Some(st.clone()));
        let mut p = poll();
        ARMED.with(|a| a.borrow_mut().take()); // poll did not clone the waker: nothing was released
        release(&st);
        let a = h.join().unwrap();
        if st.undecided.load(Ordering::SeqCst) {
            p = "T".to_string();
        } else if st.in_window.load(Ordering::SeqCst) {
            p.push('~');
        }
        (p, a)
    })
}

enum Op {
    Send(usize, i64),
    Clone(usize),
    DropS(usize),
    Poll(usize, bool),
    DropR,
    /// poll with waker w while a sender-side operation is attempted concurrently
    Race(usize, Box<Op>),
}

fn parse_op(t: &str) -> Op {
    let (c, rest) = t.split_at(1);
    match c {
        "s" => {
            let (h, v) = rest.split_once(':').unwrap();
            Op::Send(h.parse().unwrap(), v.parse().unwrap())
        }
        "c" => Op::Clone(rest.parse().unwrap()),
        "d" => Op::DropS(rest.parse().unwrap()),
        "p" => Op::Poll(rest.parse().unwrap(), false),
        "q" => Op::Poll(rest.parse().unwrap(), true),
        "r" => Op::DropR,
        "P" => {
            let (w, a) = rest.split_once('/').unwrap();
            Op::Race(w.parse().unwrap(), Box::new(parse_op(a)))
        }
        _ => panic!("bad op"),
    }
}
fn parse_ops(s: &str) -> Vec<Op> {
    s.split_whitespace().map(parse_op).collect()
}

fn live<T>(v: &[Option<T>], h: usize) -> bool {
    h < v.len() && v[h].is_some()
}

// ------------------------------------------------------------------ oneshot
fn act_oneshot(txs: &mut Vec<Option<OneshotSender<i64>>>, op: &Op) -> String {
    match *op {
        Op::Send(h, v) if live(txs, h) => {
            txs[h].take().unwrap().send(v);
            "u".to_string()
        }
        Op::DropS(h) if live(txs, h) => {
            drop(txs[h].take());
            "u".to_string()
        }
        _ => "k".to_string(),
    }
}
fn poll_oneshot(rx: &mut Option<OneshotReceiver<i64>>, waker: &Waker) -> String {
    let Some(rx) = rx.as_mut() else { return "k".to_string() };
    let mut cx = Context::from_waker(waker);
    match Pin::new(rx).poll(&mut cx) {
        Poll::Ready(Ok(v)) => format!("v{}", v),
        Poll::Ready(Err(DdsError::AlreadyDeleted)) => "c".to_string(),
        Poll::Ready(Err(_)) => "x".to_string(),
        Poll::Pending => "p".to_string(),
    }
}
fn run_oneshot(ops: Vec<Op>) -> String {
    let mut wk = Wakers::new();
    let (tx, rx) = oneshot::<i64>();
    let mut txs: Vec<Option<OneshotSender<i64>>> = vec![Some(tx)];
    let mut rx: Option<OneshotReceiver<i64>> = Some(rx);
    let mut out = Vec::new();
    for op in ops {
        match op {
            Op::Poll(w, _) => out.push(poll_oneshot(&mut rx, &wk.wakers[w])),
            Op::DropR => out.push(if rx.take().is_some() { "u" } else { "k" }.to_string()),
            Op::Race(w, a) => {
                let (p, r) = race(|| poll_oneshot(&mut rx, &wk.wakers[w]), || act_oneshot(&mut txs, &a));
                out.push(p);
                out.push(r);
            }
            op => out.push(act_oneshot(&mut txs, &op)),
        }
        let d = wk.delta();
        out.last_mut().unwrap().push_str(&d);
    }
    out.join(" ")
}

// --------------------------------------------------------------------- mpsc
type RecvFut = Pin<Box<dyn Future<Output = Option<i64>>>>;
struct MpscRx {
    ptr: *mut MpscReceiver<i64>,
    fut: Option<RecvFut>,
}
impl MpscRx {
    fn new(rx: MpscReceiver<i64>) -> Self {
        MpscRx { ptr: Box::into_raw(Box::new(rx)), fut: None }
    }
    fn poll(&mut self, cx: &mut Context<'_>, fresh: bool) -> Poll<Option<i64>> {
        if fresh {
            self.fut = None;
        }
        if self.fut.is_none() {
            // SAFETY: the boxed receiver outlives the future: `fut` is always dropped first (see Drop)
            let r: &'static MpscReceiver<i64> = unsafe { &*self.ptr };
            self.fut = Some(Box::pin(r.receive()));
        }
        let p = self.fut.as_mut().unwrap().as_mut().poll(cx);
        if p.is_ready() {
            self.fut = None;
        }
        p
    }
}
impl Drop for MpscRx {
    fn drop(&mut self) {
        self.fut = None;
        unsafe { drop(Box::from_raw(self.ptr)) };
    }
}

fn act_mpsc(txs: &mut Vec<Option<MpscSender<i64>>>, op: &Op) -> String {
    match *op {
        Op::Send(h, v) if live(txs, h) => match txs[h].as_ref().unwrap().send(v) {
            Ok(()) => "u".to_string(),
            Err(_) => "e".to_string(),
        },
        Op::Clone(h) if live(txs, h) => {
            let c = txs[h].as_ref().unwrap().clone();
            txs.push(Some(c));
            "u".to_string()
        }
        Op::DropS(h) if live(txs, h) => {
            drop(txs[h].take());
            "u".to_string()
        }
        _ => "k".to_string(),
    }
}
fn poll_mpsc(rx: &mut Option<MpscRx>, waker: &Waker, fresh: bool) -> String {
    let Some(rx) = rx.as_mut() else { return "k".to_string() };
    let mut cx = Context::from_waker(waker);
    match rx.poll(&mut cx, fresh) {
        Poll::Ready(Some(v)) => format!("v{}", v),
        Poll::Ready(None) => "c".to_string(),
        Poll::Pending => "p".to_string(),
    }
}
fn run_mpsc(ops: Vec<Op>) -> String {
    let mut wk = Wakers::new();
    let (tx, rx) = mpsc_channel::<i64>();
    let mut txs: Vec<Option<MpscSender<i64>>> = vec![Some(tx)];
    let mut rx: Option<MpscRx> = Some(MpscRx::new(rx));
    let mut out = Vec::new();
    for op in ops {
        match op {
            Op::Poll(w, fresh) => out.push(poll_mpsc(&mut rx, &wk.wakers[w], fresh)),
            Op::DropR => out.push(if rx.take().is_some() { "u" } else { "k" }.to_string()),
            Op::Race(w, a) => {
                let (p, r) = race(|| poll_mpsc(&mut rx, &wk.wakers[w], false), || act_mpsc(&mut txs, &a));
                out.push(p);
                out.push(r);
            }
            op => out.push(act_mpsc(&mut txs, &op)),
        }
        let d = wk.delta();
        out.last_mut().unwrap().push_str(&d);
    }
    out.join(" ")
}

// ------------------------------------------------------------- notification
fn act_notif(txs: &mut Vec<Option<NotificationSender>>, op: &Op) -> String {
    match *op {
        Op::Send(h, _) if live(txs, h) => {
            txs[h].as_ref().unwrap().notify();
            "u".to_string()
        }
        Op::Clone(h) if live(txs, h) => {
            let c = txs[h].as_ref().unwrap().clone();
            txs.push(Some(c));
            "u".to_string()
        }
        Op::DropS(h) if live(txs, h) => {
            drop(txs[h].take());
            "u".to_string()
        }
        _ => "k".to_string(),
    }
}
fn poll_notif(rx: &mut Option<NotificationReceiver>, waker: &Waker) -> String {
    let Some(rx) = rx.as_mut() else { return "k".to_string() };
    let mut cx = Context::from_waker(waker);
    match Pin::new(rx).poll(&mut cx) {
        Poll::Ready(Ok(())) => "v0".to_string(),
        Poll::Ready(Err(DdsError::AlreadyDeleted)) => "c".to_string(),
        Poll::Ready(Err(_)) => "x".to_string(),
        Poll::Pending => "p".to_string(),
    }
}
fn run_notif(ops: Vec<Op>) -> String {
    let mut wk = Wakers::new();
    let (tx, rx) = notification();
    let mut txs: Vec<Option<NotificationSender>> = vec![Some(tx)];
    let mut rx: Option<NotificationReceiver> = Some(rx);
    let mut out = Vec::new();
    for op in ops {
        match op {
            Op::Poll(w, _) => out.push(poll_notif(&mut rx, &wk.wakers[w])),
            Op::DropR => out.push(if rx.take().is_some() { "u" } else { "k" }.to_string()),
            Op::Race(w, a) => {
                let (p, r) = race(|| poll_notif(&mut rx, &wk.wakers[w]), || act_notif(&mut txs, &a));
                out.push(p);
                out.push(r);
            }
            op => out.push(act_notif(&mut txs, &op)),
        }
        let d = wk.delta();
        out.last_mut().unwrap().push_str(&d);
    }
    out.join(" ")
}

// --------------------------------------------- multi-thread stress (corroboration)
struct ThreadWaker {
    th: std::thread::Thread,
    flag: AtomicBool,
}
impl Wake for ThreadWaker {
    fn wake(self: Arc<Self>) {
        self.flag.store(true, Ordering::SeqCst);
        self.th.unpark();
    }
}

/// polls `f` until Ready; a Pending poll sleeps until ITS waker is woken.  If no wake
/// arrives within the deadline the future is polled once more: Ready then = lost wake-up.
fn block_on<T>(mut f: impl FnMut(&mut Context<'_>) -> Poll<T>, deadline: Duration) -> Result<T, &'static str> {
    loop {
        let tw = Arc::new(ThreadWaker { th: std::thread::current(), flag: AtomicBool::new(false) });
        let waker = Waker::from(tw.clone());
        let mut cx = Context::from_waker(&waker);
        if let Poll::Ready(v) = f(&mut cx) {
            return Ok(v);
        }
        let t0 = Instant::now();
        while !tw.flag.load(Ordering::SeqCst) {
            if t0.elapsed() > deadline {
                let mut cx = Context::from_waker(&waker);
                return match f(&mut cx) {
                    Poll::Ready(_) => Err("lost-wakeup"),
                    Poll::Pending => Err("hang"),
                };
            }
            std::thread::park_timeout(Duration::from_millis(20));
        }
    }
}

struct Lcg(u64);
impl Lcg {
    fn next(&mut self) -> u64 {
        self.0 = self.0.wrapping_mul(6364136223846793005).wrapping_add(1442695040888963407);
        self.0 >> 33
    }
    fn jitter(&mut self) {
        match self.next() % 4 {
            0 => std::thread::yield_now(),
            1 => {
                for _ in 0..(self.next() % 200) {
                    std::hint::spin_loop();
                }
            }
            _ => {}
        }
    }
}

fn stress(kind: &str, seed: u64, threads: usize, n: usize) -> String {
    let dl = Duration::from_secs(10);
    match kind {
        "m" => {
            let (tx, rx) = mpsc_channel::<i64>();
            let mut hs = Vec::new();
            for t in 0..threads {
                let tx = tx.clone();
                hs.push(std::thread::spawn(move || {
                    let mut g = Lcg(seed ^ (t as u64 + 1) * 7919);
                    for i in 0..n {
                        g.jitter();
                        if tx.send((t * 1_000_000 + i) as i64).is_err() {
                            return false;
                        }
                    }
                    true
                }));
            }
            drop(tx);
            let mut next = vec![0usize; threads];
            let mut rxw = MpscRx::new(rx);
            for _ in 0..threads * n {
                match block_on(|cx| rxw.poll(cx, false), dl) {
                    Ok(Some(v)) => {
                        let (t, i) = ((v / 1_000_000) as usize, (v % 1_000_000) as usize);
                        if t >= threads || next[t] != i {
                            return format!("FAIL mpsc order/duplicate value {}", v);
                        }
                        next[t] += 1;
                    }
                    Ok(None) => return "FAIL mpsc closed early".to_string(),
                    Err(e) => return format!("FAIL mpsc {}", e),
                }
            }
            for h in hs {
                if !h.join().unwrap() {
                    return "FAIL mpsc send error".to_string();
                }
            }
            // nothing more may arrive
            let w = Wakers::new();
            let mut cx = Context::from_waker(&w.wakers[0]);
            if let Poll::Ready(Some(v)) = rxw.poll(&mut cx, false) {
                return format!("FAIL mpsc extra value {}", v);
            }
            "OK".to_string()
        }
        "o" => {
            let mut g = Lcg(seed);
            for i in 0..n {
                let (tx, mut rx) = oneshot::<i64>();
                let do_send = g.next() % 3 != 0;
                let s2 = g.next();
                let h = std::thread::spawn(move || {
                    let mut g = Lcg(s2);
                    g.jitter();
                    if do_send {
                        tx.send(i as i64)
                    } else {
                        drop(tx)
                    }
                });
                g.jitter();
                let r = block_on(|cx| Pin::new(&mut rx).poll(cx), dl);
                h.join().unwrap();
                match r {
                    Ok(Ok(v)) if do_send && v == i as i64 => {}
                    Ok(Err(DdsError::AlreadyDeleted)) if !do_send => {}
                    Ok(Ok(v)) => return format!("FAIL oneshot got {} (sent: {})", v, do_send),
                    Ok(Err(_)) => return format!("FAIL oneshot error (sent: {})", do_send),
                    Err(e) => return format!("FAIL oneshot {}", e),
                }
            }
            "OK".to_string()
        }
        "n" => {
            let (tx, mut rx) = notification();
            let mut hs = Vec::new();
            for t in 0..threads {
                let tx = tx.clone();
                hs.push(std::thread::spawn(move || {
                    let mut g = Lcg(seed ^ (t as u64 + 1) * 104729);
                    for _ in 0..n {
                        g.jitter();
                        tx.notify();
                    }
                }));
            }
            drop(tx);
            let mut oks = 0usize;
            loop {
                match block_on(|cx| Pin::new(&mut rx).poll(cx), dl) {
                    Ok(Ok(())) => oks += 1,
                    Ok(Err(DdsError::AlreadyDeleted)) => break,
                    Ok(Err(_)) => return "FAIL notification error".to_string(),
                    Err(e) => return format!("FAIL notification {}", e),
                }
            }
            for h in hs {
                h.join().unwrap();
            }
            if oks == 0 && threads * n > 0 || oks > threads * n {
                return format!("FAIL notification {} completions for {} notifies", oks, threads * n);
            }
            "OK".to_string()
        }
        _ => "BADOP".to_string(),
    }
}

fn run_line(line: &str) -> String {
    let (kind, rest) = line.trim().split_once(' ').unwrap_or((line.trim(), ""));
    match kind {
        "o" => run_oneshot(parse_ops(rest)),
        "m" => run_mpsc(parse_ops(rest)),
        "n" => run_notif(parse_ops(rest)),
        "stress" => {
            let p: Vec<&str> = rest.split_whitespace().collect();
            stress(p[0], p[1].parse().unwrap(), p[2].parse().unwrap(), p[3].parse().unwrap())
        }
        _ => "BADOP".to_string(),
    }
}

fn main() {
    vh::main_loop(run_line);
}
