//! C41 — drives the REAL IDL compiler (`dust_dds_gen::compile_idl`, i.e. preprocessor ->
//! pest parser -> RustGenerator) on one IDL specification per input line.
//!
//! input : the IDL text with `\n` for newline and `\\` for backslash (one case per line)
//! output: `OK <generated Rust source, white space collapsed>` | `ERR` (compile_idl returned
//!         Err: preprocessor / parser rejected the text) | `PANIC` (todo!/unimplemented!/expect
//!         inside the generator)
//! The generated source is printed as it is (only white space is collapsed): the
//! structure is recovered from it by the tolerant tokenizer/parser of props/C41.py.
use std::path::PathBuf;

fn unescape(s: &str) -> String {
    let mut out = String::with_capacity(s.len());
    let mut it = s.chars();
    while let Some(c) = it.next() {
        if c == '\\' {
            match it.next() {
                Some('n') => out.push('\n'),
                Some('t') => out.push('\t'),
                Some('\\') => out.push('\\'),
                Some(o) => {
                    out.push('\\');
                    out.push(o)
                }
                None => out.push('\\'),
            }
        } else {
            out.push(c)
        }
    }
    out
}

fn scratch() -> PathBuf {
    let dir = PathBuf::from("/verif/.cache/c41gen/tmp");
    std::fs::create_dir_all(&dir).unwrap();
    dir.join(format!("in-{}.idl", std::process::id()))
}

fn run_line(line: &str) -> String {
    let idl = unescape(line);
    let path = scratch();
    std::fs::write(&path, idl).unwrap();
    match dust_dds_gen::compile_idl(&path) {
        Ok(src) => {
            let flat: Vec<&str> = src.split_whitespace().collect();
            format!("OK {}", flat.join(" "))
        }
        Err(_) => "ERR".to_string(),
    }
}

fn main() {
    vh::main_loop(run_line);
    let _ = std::fs::remove_file(scratch());
}
