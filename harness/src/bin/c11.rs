//! C11 / C12 harness: builds a keyed DynamicType and DynamicData values at run time from
//! the same (type, value) terms the Coq model gets and reports the instance handles the
//! real code computes on the writer side and on the reader side.
//!
//! line:   h <type> <value1> <value2>    -> OK <h(value1)> <h(value2)>
//!         r <type> <value>              -> OK <writer> <alive xcdr1> <alive xcdr2>
//!                                             <key xcdr1> <key xcdr2> <keyhash alive> <keyhash disposed>
//!         s <k|f<frag>> <1|2> <type> <w|d|u><value> ...
//!                                        whole stack (vh::sim): two participants, dynamic topic,
//!                                        reliable writer (XCDR1|XCDR2) and reader; every op is
//!                                        write / dispose / unregister of the sample, the network
//!                                        is pumped and the reader takes:
//!                                        -> OK <writer lookup_instance> <reader SampleInfo.instance_handle> ...
//!                                        The change reaches the reader WITHOUT key hash: f<frag> =
//!                                        transport fragment size (samples travel as DATA_FRAG, which
//!                                        never carries PID_KEY_HASH), k = the PID_KEY_HASH parameter of
//!                                        every user DATA in flight is renamed to an unknown vendor pid
//!                                        (a foreign writer that omits the key hash).  Runs in a child
//!                                        process (`--sim`): the factory owns a process-wide channel.
//! handle: 32 hex digits | E<n> (XTypesError / failed derivation) | P (panic)
//!
//! type:   b y u8 i8 u16 i16 u32 i32 u64 i64 f32 f64 f128 c8 | s<bound> | q<bound>(T)
//!         | a<d1,d2,..>(T) | S<f|a|m>{id:flags:T;...}   flags: k (key) o (optional) n
//! value:  <tag>:<int> | x<hex> | {id=V;...} | Q<tag>[i,i,..] | X[x<hex>,..] | R[{..},..]
use dust_dds::dcps::dcps_domain_participant::data_writer_entity::serialize;
use dust_dds::dcps::dcps_domain_participant::reader_methods::deserialize_topic_type;
use dust_dds::dcps::xtypes_glue::key_and_instance_handle::{
    get_instance_handle_from_dynamic_data, get_instance_handle_from_key_holder_data, KeyHolderData,
    KeyHolderType,
};
use dust_dds::infrastructure::instance::InstanceHandle;
use dust_dds::infrastructure::qos_policy::{
    DataRepresentationQosPolicy, XCDR2_DATA_REPRESENTATION, XCDR_DATA_REPRESENTATION,
};
use dust_dds::rtps_messages::overall_structure::{
    RtpsMessageHeader, RtpsMessageRead, RtpsMessageWrite, RtpsSubmessageReadKind,
};
use dust_dds::rtps::types::{PROTOCOLVERSION, VENDOR_ID_S2E};
use dust_dds::transport::types::{CacheChange, ChangeKind, EntityId, Guid};
use dust_dds::xtypes::data_storage::DataStorage;
use dust_dds::xtypes::dynamic_type::{
    DynamicData, DynamicDataFactory, DynamicType, DynamicTypeBuilderFactory, ExtensibilityKind,
    MemberDescriptor, TryConstructKind, TypeDescriptor, TypeKind,
};
use dust_dds::xtypes::error::XTypesError;
use dust_dds::dds_async::domain_participant_factory::DomainParticipantFactoryAsync;
use dust_dds::infrastructure::qos::{DataReaderQos, DataWriterQos, QosKind};
use dust_dds::infrastructure::qos_policy::{HistoryQosPolicyKind, ReliabilityQosPolicyKind};
use dust_dds::infrastructure::sample_info::{ANY_INSTANCE_STATE, ANY_SAMPLE_STATE, ANY_VIEW_STATE};
use std::io::{BufRead, Write};
use std::panic::{catch_unwind, AssertUnwindSafe};
use vh::sim::{Packet, Sim, SimRuntime, SimTransport};
use std::sync::Arc;

struct P<'a> {
    s: &'a [u8],
    i: usize,
}

impl<'a> P<'a> {
    fn new(s: &'a str) -> Self {
        P { s: s.as_bytes(), i: 0 }
    }
    fn peek(&self) -> u8 {
        if self.i < self.s.len() { self.s[self.i] } else { 0 }
    }
    fn eat(&mut self, c: u8) {
        assert!(self.peek() == c, "expected {} at {}", c as char, self.i);
        self.i += 1;
    }
    fn int(&mut self) -> i128 {
        let st = self.i;
        if self.peek() == b'-' {
            self.i += 1;
        }
        while self.peek().is_ascii_digit() {
            self.i += 1;
        }
        std::str::from_utf8(&self.s[st..self.i]).unwrap().parse().unwrap()
    }
    fn word(&mut self) -> String {
        let st = self.i;
        while self.peek().is_ascii_alphanumeric() {
            self.i += 1;
        }
        String::from_utf8(self.s[st..self.i].to_vec()).unwrap()
    }
    fn hexbytes(&mut self) -> Vec<u8> {
        let st = self.i;
        while self.peek().is_ascii_hexdigit() {
            self.i += 1;
        }
        vh::util::hex(if st == self.i { "-" } else { std::str::from_utf8(&self.s[st..self.i]).unwrap() })
    }
}

fn prim_kind(w: &str) -> Option<TypeKind> {
    Some(match w {
        "b" => TypeKind::BOOLEAN,
        "y" => TypeKind::BYTE,
        "u8" => TypeKind::UINT8,
        "i8" => TypeKind::INT8,
        "u16" => TypeKind::UINT16,
        "i16" => TypeKind::INT16,
        "u32" => TypeKind::UINT32,
        "i32" => TypeKind::INT32,
        "u64" => TypeKind::UINT64,
        "i64" => TypeKind::INT64,
        "f32" => TypeKind::FLOAT32,
        "f64" => TypeKind::FLOAT64,
        "f128" => TypeKind::FLOAT128,
        "c8" => TypeKind::CHAR8,
        _ => return None,
    })
}

fn parse_type(p: &mut P) -> DynamicType<'static> {
    match p.peek() {
        b's' => {
            p.eat(b's');
            let b = p.int() as u32;
            DynamicTypeBuilderFactory::create_string_type(b).build()
        }
        b'q' => {
            p.eat(b'q');
            let b = p.int() as u32;
            p.eat(b'(');
            let e = parse_type(p);
            p.eat(b')');
            DynamicTypeBuilderFactory::create_sequence_type(e, b).build()
        }
        b'a' => {
            p.eat(b'a');
            let mut dims = vec![p.int() as u32];
            while p.peek() == b',' {
                p.eat(b',');
                dims.push(p.int() as u32);
            }
            p.eat(b'(');
            let e = parse_type(p);
            p.eat(b')');
            DynamicTypeBuilderFactory::create_array_type(e, dims.leak()).build()
        }
        b'S' => {
            p.eat(b'S');
            let x = match p.peek() {
                b'f' => ExtensibilityKind::Final,
                b'a' => ExtensibilityKind::Appendable,
                b'm' => ExtensibilityKind::Mutable,
                _ => panic!("ext"),
            };
            p.i += 1;
            p.eat(b'{');
            let mut b = DynamicTypeBuilderFactory::create_type(TypeDescriptor {
                kind: TypeKind::STRUCTURE,
                name: "T",
                base_type: None,
                discriminator_type: None,
                bound: &[],
                element_type: None,
                key_element_type: None,
                extensibility_kind: x,
                is_nested: false,
            });
            let mut index = 0;
            while p.peek() != b'}' {
                let id = p.int() as u32;
                p.eat(b':');
                let flags = p.word();
                p.eat(b':');
                let t = parse_type(p);
                b.add_member(MemberDescriptor {
                    name: Box::leak(format!("m{}", index).into_boxed_str()),
                    id,
                    r#type: t,
                    default_value: None,
                    index,
                    label: &[],
                    try_construct_kind: TryConstructKind::Discard,
                    is_key: flags.contains('k'),
                    is_optional: flags.contains('o'),
                    is_must_understand: flags.contains('k'),
                    is_shared: false,
                    is_default_label: false,
                    is_external: false,
                })
                .unwrap();
                index += 1;
                if p.peek() == b';' {
                    p.eat(b';');
                }
            }
            p.eat(b'}');
            b.build()
        }
        _ => {
            let w = p.word();
            DynamicTypeBuilderFactory::get_primitive_type(prim_kind(&w).expect("prim"))
        }
    }
}

fn empty_struct() -> DynamicType<'static> {
    DynamicTypeBuilderFactory::create_type(TypeDescriptor {
        kind: TypeKind::STRUCTURE,
        name: "E",
        base_type: None,
        discriminator_type: None,
        bound: &[],
        element_type: None,
        key_element_type: None,
        extensibility_kind: ExtensibilityKind::Final,
        is_nested: false,
    })
    .build()
}

fn scalar(tag: &str, z: i128) -> DataStorage {
    match tag {
        "b" => DataStorage::Boolean(z != 0),
        "u8" => DataStorage::UInt8(z as u8),
        "i8" => DataStorage::Int8(z as i8),
        "u16" => DataStorage::UInt16(z as u16),
        "i16" => DataStorage::Int16(z as i16),
        "u32" => DataStorage::UInt32(z as u32),
        "i32" => DataStorage::Int32(z as i32),
        "u64" => DataStorage::UInt64(z as u64),
        "i64" => DataStorage::Int64(z as i64),
        "f32" => DataStorage::Float32(f32::from_bits(z as u32)),
        "f64" => DataStorage::Float64(f64::from_bits(z as u64)),
        "f128" => DataStorage::Float128(z),
        "c8" => DataStorage::Char8(char::from_u32(z as u32).expect("char")),
        _ => panic!("tag {}", tag),
    }
}

fn scalars(tag: &str, zs: Vec<i128>) -> DataStorage {
    match tag {
        "b" => DataStorage::SequenceBoolean(zs.iter().map(|&z| z != 0).collect()),
        "u8" => DataStorage::SequenceUInt8(zs.iter().map(|&z| z as u8).collect()),
        "i8" => DataStorage::SequenceInt8(zs.iter().map(|&z| z as i8).collect()),
        "u16" => DataStorage::SequenceUInt16(zs.iter().map(|&z| z as u16).collect()),
        "i16" => DataStorage::SequenceInt16(zs.iter().map(|&z| z as i16).collect()),
        "u32" => DataStorage::SequenceUInt32(zs.iter().map(|&z| z as u32).collect()),
        "i32" => DataStorage::SequenceInt32(zs.iter().map(|&z| z as i32).collect()),
        "u64" => DataStorage::SequenceUInt64(zs.iter().map(|&z| z as u64).collect()),
        "i64" => DataStorage::SequenceInt64(zs.iter().map(|&z| z as i64).collect()),
        "f32" => DataStorage::SequenceFloat32(zs.iter().map(|&z| f32::from_bits(z as u32)).collect()),
        "f64" => DataStorage::SequenceFloat64(zs.iter().map(|&z| f64::from_bits(z as u64)).collect()),
        "f128" => DataStorage::SequenceFloat128(zs),
        "c8" => DataStorage::SequenceChar8(
            zs.iter().map(|&z| char::from_u32(z as u32).expect("char")).collect(),
        ),
        _ => panic!("tag {}", tag),
    }
}

fn parse_struct(p: &mut P, t: Option<DynamicType<'static>>) -> DynamicData<'static> {
    let t = match t {
        Some(t) if t.get_kind() == TypeKind::STRUCTURE => t,
        _ => empty_struct(),
    };
    let mut d = DynamicDataFactory::create_data(t);
    p.eat(b'{');
    while p.peek() != b'}' {
        let id = p.int() as u32;
        p.eat(b'=');
        let mt = t.get_member(id).ok().map(|m| m.descriptor.r#type);
        let v = parse_value(p, mt);
        d.set_value(id, v);
        if p.peek() == b';' {
            p.eat(b';');
        }
    }
    p.eat(b'}');
    d
}

fn parse_value(p: &mut P, t: Option<DynamicType<'static>>) -> DataStorage {
    match p.peek() {
        b'x' => {
            p.eat(b'x');
            DataStorage::String(String::from_utf8(p.hexbytes()).expect("utf8"))
        }
        b'{' => DataStorage::ComplexValue(parse_struct(p, t)),
        b'Q' => {
            p.eat(b'Q');
            let tag = p.word();
            p.eat(b'[');
            let mut zs = vec![];
            while p.peek() != b']' {
                zs.push(p.int());
                if p.peek() == b',' {
                    p.eat(b',');
                }
            }
            p.eat(b']');
            scalars(&tag, zs)
        }
        b'X' => {
            p.eat(b'X');
            p.eat(b'[');
            let mut ss = vec![];
            while p.peek() != b']' {
                p.eat(b'x');
                ss.push(String::from_utf8(p.hexbytes()).expect("utf8"));
                if p.peek() == b',' {
                    p.eat(b',');
                }
            }
            p.eat(b']');
            DataStorage::SequenceString(ss)
        }
        b'R' => {
            p.eat(b'R');
            p.eat(b'[');
            let et = t.and_then(|t| t.descriptor.element_type);
            let mut ds = vec![];
            while p.peek() != b']' {
                ds.push(parse_struct(p, et));
                if p.peek() == b',' {
                    p.eat(b',');
                }
            }
            p.eat(b']');
            DataStorage::SequenceComplexValue(ds)
        }
        _ => {
            let tag = p.word();
            p.eat(b':');
            let z = p.int();
            scalar(&tag, z)
        }
    }
}

fn err_code(e: &XTypesError) -> u32 {
    match e {
        XTypesError::InvalidId(_) => 1,
        XTypesError::InvalidType => 2,
        XTypesError::InvalidData => 3,
        XTypesError::InvalidIndex(_) => 4,
        XTypesError::InvalidName => 5,
        XTypesError::NotEnoughData => 6,
        XTypesError::IllegalOperation => 7,
        _ => 8,
    }
}

fn show(r: Result<InstanceHandle, XTypesError>) -> String {
    match r {
        Ok(h) => {
            let b: [u8; 16] = h.into();
            vh::util::to_hex(&b)
        }
        Err(e) => format!("E{}", err_code(&e)),
    }
}

fn guarded(f: impl FnOnce() -> String) -> String {
    catch_unwind(AssertUnwindSafe(f)).unwrap_or_else(|_| "P".to_string())
}

/// writer side (write_w_timestamp / register / dispose / unregister / lookup_instance):
/// KeyHolderData::from_dynamic_data + get_instance_handle_from_key_holder_data; and the
/// one-call form get_instance_handle_from_dynamic_data must agree with it
fn writer_handle(d: &DynamicData<'static>) -> String {
    guarded(|| {
        let mut member_list = Vec::new();
        let a = KeyHolderData::from_dynamic_data(d, &mut member_list)
            .and_then(|k| get_instance_handle_from_key_holder_data(&k));
        let a = show(a);
        let b = show(get_instance_handle_from_dynamic_data(d));
        if a == b { a } else { format!("MISMATCH({},{})", a, b) }
    })
}

fn over_the_wire(c: &CacheChange) -> Option<CacheChange> {
    let prefix = [1u8; 12];
    let header = RtpsMessageHeader::new(PROTOCOLVERSION, VENDOR_ID_S2E, prefix);
    let sub = c.as_data_submessage(EntityId::new([0, 0, 0], 0), c.writer_guid.entity_id());
    let msg = RtpsMessageWrite::new(&header, &[&sub]);
    let rd = RtpsMessageRead::try_from(msg.buffer()).ok()?;
    match rd.submessages().first()? {
        RtpsSubmessageReadKind::Data(d) => CacheChange::try_from_data_submessage(d, prefix, None).ok(),
        _ => None,
    }
}

/// communication_methods.rs: the handle a reader gives a received change
fn reader_handle(t: DynamicType<'static>, c: &CacheChange) -> String {
    guarded(|| {
        if let Some(i) = c.instance_handle {
            return show(Ok(InstanceHandle::new(i)));
        }
        match c.kind {
            ChangeKind::Alive | ChangeKind::AliveFiltered => {
                let Some(data_value) = deserialize_topic_type("T", t, c.data_value.as_ref()) else {
                    return "E20".to_string();
                };
                show(get_instance_handle_from_dynamic_data(&data_value))
            }
            _ => {
                let mut members = Vec::new();
                let Ok(kh) = KeyHolderType::from_dynamic_type(&t, &mut members) else {
                    return "E21".to_string();
                };
                // communication_methods.rs calls xtypes::deserializer::deserialize_top_level_type
                // (pub(crate)); deserialize_topic_type is that call followed by validation
                let kt: DynamicType<'static> = DynamicType {
                    descriptor: t.descriptor,
                    member_list: Vec::leak(kh.as_dynamic_type().member_list.to_vec()),
                };
                let Some(data_value) = deserialize_topic_type("T", kt, c.data_value.as_ref()) else {
                    return "E22".to_string();
                };
                show(get_instance_handle_from_dynamic_data(&data_value))
            }
        }
    })
}

fn change(kind: ChangeKind, h: Option<[u8; 16]>, data: Vec<u8>) -> CacheChange {
    CacheChange {
        kind,
        writer_guid: Guid::new([1; 12], EntityId::new([0, 0, 1], 2)),
        sequence_number: 1,
        source_timestamp: None,
        instance_handle: h,
        data_value: Arc::from(data),
    }
}

fn paths(t: DynamicType<'static>, d: &DynamicData<'static>) -> String {
    let hw = writer_handle(d);
    if hw.len() != 32 {
        // write / dispose return the error before any change is handed to the transport
        return vec![hw; 7].join(" ");
    }
    let mut out = vec![hw.clone()];
    let reprs = [XCDR_DATA_REPRESENTATION, XCDR2_DATA_REPRESENTATION];
    // sample travels without key hash
    for r in reprs {
        out.push(guarded(|| {
            let q = DataRepresentationQosPolicy { value: vec![r] };
            let Ok(bytes) = serialize(d, &q) else { return "E30".to_string() };
            let Some(c) = over_the_wire(&change(ChangeKind::Alive, None, bytes)) else {
                return "E31".to_string();
            };
            reader_handle(t, &c)
        }));
    }
    // dispose: the serialized key travels without key hash
    for r in reprs {
        out.push(guarded(|| {
            let q = DataRepresentationQosPolicy { value: vec![r] };
            let mut member_list = Vec::new();
            let Ok(k) = KeyHolderData::from_dynamic_data(d, &mut member_list) else {
                return "E32".to_string();
            };
            let Ok(bytes) = serialize(k.as_dynamic_data(), &q) else { return "E30".to_string() };
            let Some(c) = over_the_wire(&change(ChangeKind::NotAliveDisposed, None, bytes)) else {
                return "E31".to_string();
            };
            reader_handle(t, &c)
        }));
    }
    // with PID_KEY_HASH (what the writer does: instance_handle: Some(handle))
    for kind in [ChangeKind::Alive, ChangeKind::NotAliveDisposed] {
        out.push(guarded(|| {
            if hw.len() != 32 {
                return hw.clone();
            }
            let h: [u8; 16] = vh::util::hex(&hw).try_into().unwrap();
            let q = DataRepresentationQosPolicy { value: vec![] };
            let Ok(bytes) = serialize(d, &q) else { return "E30".to_string() };
            let Some(c) = over_the_wire(&change(kind, Some(h), bytes)) else {
                return "E31".to_string();
            };
            reader_handle(t, &c)
        }));
    }
    out.join(" ")
}

// ------------------------------------------------------------ whole stack (op s)

const BUDGET: i64 = 5_000_000_000;

/// Renames PID_KEY_HASH (0x0070) in the inline QoS of every DATA submessage of the datagram
/// to 0x8070 (vendor specific, not must-understand: ignored by the receiver).
fn strip_key_hash(b: &mut [u8]) {
    let mut p = 20;
    while p + 4 <= b.len() {
        let (id, flags) = (b[p], b[p + 1]);
        let le = flags & 1 == 1;
        let rd16 = |x: &[u8], i: usize| -> usize {
            if le { u16::from_le_bytes([x[i], x[i + 1]]) as usize } else { u16::from_be_bytes([x[i], x[i + 1]]) as usize }
        };
        let mut len = rd16(b, p + 2);
        let body = p + 4;
        if len == 0 || body + len > b.len() {
            len = b.len() - body;
        }
        if id == 0x15 && flags & 2 != 0 && len >= 20 {
            let mut q = body + 4 + rd16(b, body + 2);
            while q + 4 <= body + len {
                let pid = rd16(b, q);
                let plen = rd16(b, q + 2);
                if pid == 1 {
                    break;
                }
                if pid == 0x0070 {
                    let v: [u8; 2] = if le { 0x8070u16.to_le_bytes() } else { 0x8070u16.to_be_bytes() };
                    b[q] = v[0];
                    b[q + 1] = v[1];
                }
                q += 4 + plen;
            }
        }
        p = body + len;
    }
}

fn sim_scenario(line: &str) -> String {
    let parts: Vec<&str> = line.split_whitespace().collect();
    let (strip, frag) = match parts[1] {
        "k" => (true, 1344usize),
        f => (false, f[1..].parse().expect("frag")),
    };
    let repr = if parts[2] == "2" { XCDR2_DATA_REPRESENTATION } else { XCDR_DATA_REPRESENTATION };
    let t = parse_type(&mut P::new(parts[3]));
    let sim = Sim::new(frag);
    let factory = DomainParticipantFactoryAsync::new(
        SimRuntime(sim.shared.clone()),
        [1, 2, 3, 4],
        [5, 6, 7, 8],
        SimTransport(sim.shared.clone()),
        Default::default(),
    );
    let mut pump = |sim: &Sim| {
        for _ in 0..4 {
            let n = sim.pump(100_000, &mut |_p: &Packet| 0);
            if n == 0 {
                break;
            }
        }
    };
    macro_rules! go {
        ($e:expr) => {
            match sim.run($e, BUDGET) {
                Ok(Ok(x)) => {
                    sim.settle();
                    x
                }
                Ok(Err(e)) => return format!("SETUP {:?}", e),
                Err(_) => return "SETUP STUCK".to_string(),
            }
        };
    }
    let p0 = go!(factory.create_participant(0, QosKind::Default, None::<()>, &[]));
    let p1 = go!(factory.create_participant(0, QosKind::Default, None::<()>, &[]));
    let t0 = go!(p0.create_dynamic_topic("t", "T", QosKind::Default, None::<()>, &[], t));
    let t1 = go!(p1.create_dynamic_topic("t", "T", QosKind::Default, None::<()>, &[], t));
    let pb = go!(p0.create_publisher(QosKind::Default, None::<()>, &[]));
    let sb = go!(p1.create_subscriber(QosKind::Default, None::<()>, &[]));
    pump(&sim);
    let mut wq = DataWriterQos::default();
    wq.reliability.kind = ReliabilityQosPolicyKind::Reliable;
    wq.history.kind = HistoryQosPolicyKind::KeepAll;
    wq.representation = DataRepresentationQosPolicy { value: vec![repr] };
    let mut rq = DataReaderQos::default();
    rq.reliability.kind = ReliabilityQosPolicyKind::Reliable;
    rq.history.kind = HistoryQosPolicyKind::KeepAll;
    rq.representation =
        DataRepresentationQosPolicy { value: vec![XCDR_DATA_REPRESENTATION, XCDR2_DATA_REPRESENTATION] };
    let w = go!(pb.create_datawriter::<DynamicData<'static>>(&t0, QosKind::Specific(wq), None::<()>, &[]));
    let r = go!(sb.create_datareader::<DynamicData<'static>>(&t1, QosKind::Specific(rq), None::<()>, &[]));
    let mut matched = false;
    for _ in 0..20 {
        pump(&sim);
        if let Ok(Ok(st)) = sim.run(w.get_publication_matched_status(), BUDGET) {
            if st.current_count >= 1 {
                matched = true;
                break;
            }
        }
        sim.advance(500_000_000);
    }
    if !matched {
        return "SETUP NOMATCH".to_string();
    }
    pump(&sim);
    let mut out = vec![];
    for tok in &parts[4..] {
        let (op, val) = tok.split_at(1);
        let d = parse_struct(&mut P::new(val), Some(t));
        // the handle the writer side assigns
        let hw_of = |sim: &Sim| -> String {
            match sim.run(w.lookup_instance(d.clone()), BUDGET) {
                Ok(Ok(Some(h))) => show(Ok(h)),
                Ok(Ok(None)) => "E41".to_string(),
                Ok(Err(_)) => "E43".to_string(),
                Err(_) => "E44".to_string(),
            }
        };
        let mut hw = if op != "w" { hw_of(&sim) } else { String::new() };
        let res = match op {
            "w" => sim.run(w.write(d.clone(), None), BUDGET),
            "d" => sim.run(w.dispose(d.clone(), None), BUDGET),
            _ => sim.run(w.unregister_instance(d.clone(), None), BUDGET),
        };
        sim.settle();
        if op == "w" {
            hw = hw_of(&sim);
        }
        if !matches!(res, Ok(Ok(()))) {
            out.push(format!("{} E45", if hw.len() == 32 { "E45".to_string() } else { hw }));
            continue;
        }
        // deliver, renaming the key hash of user DATA in flight when asked to
        for round in 0..6 {
            if strip {
                for p in sim.shared.inflight.lock().unwrap().iter_mut() {
                    if !p.meta {
                        strip_key_hash(&mut p.bytes);
                    }
                }
            }
            let n = sim.pump(1, &mut |_p: &Packet| 0);
            if n == 0 {
                if round >= 1 {
                    break;
                }
                sim.advance(300_000_000);
            }
        }
        // pump(1) above delivers one datagram per round: drain the rest the same way
        loop {
            if strip {
                for p in sim.shared.inflight.lock().unwrap().iter_mut() {
                    if !p.meta {
                        strip_key_hash(&mut p.bytes);
                    }
                }
            }
            if sim.pump(1, &mut |_p: &Packet| 0) == 0 {
                break;
            }
        }
        let hr = match sim.run(r.take(100, ANY_SAMPLE_STATE, ANY_VIEW_STATE, ANY_INSTANCE_STATE), BUDGET) {
            Ok(Ok(samples)) if samples.len() == 1 => {
                if std::env::var("C11_DEBUG").is_ok() {
                    eprintln!("{:?} valid={}", samples[0].sample_info.instance_state, samples[0].sample_info.valid_data);
                }
                show(Ok(samples[0].sample_info.instance_handle))
            }
            Ok(Ok(samples)) if samples.is_empty() => "E40".to_string(),
            Ok(Ok(_)) => "E42".to_string(),
            Ok(Err(_)) => "E40".to_string(),
            Err(_) => "E44".to_string(),
        };
        out.push(format!("{} {}", hw, hr));
    }
    format!("OK {}", out.join(" "))
}

fn run_sim_child(line: &str) -> String {
    let exe = std::env::current_exe().unwrap();
    let mut child = std::process::Command::new(&exe)
        .arg("--sim")
        .stdin(std::process::Stdio::piped())
        .stdout(std::process::Stdio::piped())
        .stderr(if std::env::var("C11_DEBUG").is_ok() { std::process::Stdio::inherit() } else { std::process::Stdio::null() })
        .spawn()
        .unwrap();
    child.stdin.take().unwrap().write_all(format!("{}\n", line).as_bytes()).unwrap();
    let o = child.wait_with_output().unwrap();
    let s = String::from_utf8_lossy(&o.stdout);
    let last = s.lines().last().unwrap_or("").to_string();
    if last.is_empty() { "ABORT".to_string() } else { last }
}

/// entry point shared by the c11 and c12 binaries
pub fn main_entry() {
    let args: Vec<String> = std::env::args().collect();
    if args.get(1).map(|s| s.as_str()) == Some("--sim") {
        let mut line = String::new();
        std::io::stdin().lock().read_line(&mut line).unwrap();
        std::panic::set_hook(Box::new(|_| {}));
        let r = catch_unwind(AssertUnwindSafe(|| sim_scenario(line.trim())));
        println!("{}", r.unwrap_or_else(|_| "PANIC".to_string()));
        std::process::exit(0);
    }
    vh::main_loop(run_line);
}

pub fn run_line(line: &str) -> String {
    let parts: Vec<&str> = line.split_whitespace().collect();
    if parts[0] == "s" {
        return run_sim_child(line);
    }
    let t = parse_type(&mut P::new(parts[1]));
    match parts[0] {
        "h" => {
            let d1 = parse_struct(&mut P::new(parts[2]), Some(t));
            let d2 = parse_struct(&mut P::new(parts[3]), Some(t));
            format!("OK {} {}", writer_handle(&d1), writer_handle(&d2))
        }
        "r" => {
            let d = parse_struct(&mut P::new(parts[2]), Some(t));
            format!("OK {}", paths(t, &d))
        }
        _ => "BADOP".to_string(),
    }
}

#[allow(dead_code)]
fn main() {
    main_entry();
}
