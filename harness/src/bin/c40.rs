//! C40 replay driver.  The correspondence run of C40 does not go through a line
//! harness: props/C40.py pretty-prints the generated declarations into a Rust
//! program under /verif/.cache/c40gen, builds it against /repo and runs it.  This
//! binary gives `./check C40 --replay FILE` the usual line interface: one case
//! line (JSON: declaration + values) -> `python3 props/C40.py --one` regenerates,
//! builds and runs the one-declaration program and prints its output on one line.
use std::io::Write;
use std::process::{Command, Stdio};

fn run_line(line: &str) -> String {
    let verif = std::env::var("VERIF_HOME").unwrap_or_else(|_| "/verif".to_string());
    let mut child = match Command::new("python3")
        .arg(format!("{verif}/props/C40.py"))
        .arg("--one")
        .current_dir(&verif)
        .stdin(Stdio::piped())
        .stdout(Stdio::piped())
        .stderr(Stdio::null())
        .spawn()
    {
        Ok(c) => c,
        Err(e) => return format!("ERROR spawn {e}"),
    };
    child.stdin.take().unwrap().write_all(line.as_bytes()).unwrap();
    match child.wait_with_output() {
        Ok(o) => String::from_utf8_lossy(&o.stdout).trim().replace('\n', " @@ "),
        Err(e) => format!("ERROR wait {e}"),
    }
}

fn main() {
    // the derive under test is used by the generated program, not by this driver;
    // keep the dependency so the driver is rebuilt against the current tree as well
    let _ = <u8 as dust_dds::xtypes::type_support::Type>::TYPE;
    vh::main_loop(run_line)
}
