//! C06 — no datagram can crash, hang or exhaust a running participant.
//! COPY of bin/sim.rs (scenario interpreter over vh::sim) plus the C06 driver:
//!
//! one case per stdin line:   <k=v knobs> | <hex datagram> <hex datagram> ...
//!   knobs: frag (fragment size, default 1344)  a / m / j (samples written by the healthy
//!          peer's writer, by the victim's writer, by the spoofed participant's writer before
//!          the injection)  rel (victim reader reliable 1 / best effort 0)  probe (1 = run the
//!          liveness probe)  cap (1 = print the captured setup traffic incl. metatraffic and stop)
//!   scenario: three participants on one topic, each with one writer and one reader:
//!          0 = healthy peer H, 1 = victim V, 2 = participant S whose identity the injected
//!          datagrams may claim.  After discovery and the writes every in-flight datagram is
//!          delivered (quiescent), the user traffic of the setup is printed (`LOG from>to:hex`),
//!          then each datagram is handed to V's transport receiver (all worker stages run), the
//!          datagrams V sends in reaction are recorded and DROPPED (V's state only depends on
//!          the injected datagrams), finally the liveness probe runs with a normal network.
//!   output (one line):  LOG ... | D0 OK <bytes requested> <peak> <largest single request> <micros> <hex,hex|-> | D1 ... | PROBE hv=1 vh=1 api=1 wake=1 | END
//!          a panic ends the line with `PANIC <file>:<line>` (panic hook of the child), a request
//!          of more than 1 GiB from the allocator with `OOM <bytes>`, the wall-clock watchdog of
//!          the parent with `HANG`.
//! Every case runs in a fresh child process (`c06 --one`), because the factory owns a
//! process-wide static channel; a watchdog thread of the child ends a datagram that takes longer than `lim` ms (knob, default 6000) with `HANG`;
//! the parent kills a child after `C06_LIMIT_S` (default 120) seconds as a backstop.
use std::alloc::{GlobalAlloc, Layout, System};
use std::sync::atomic::{AtomicUsize, Ordering::Relaxed};

struct Counting;
static TOTAL: AtomicUsize = AtomicUsize::new(0);
static LIVE: AtomicUsize = AtomicUsize::new(0);
static PEAK: AtomicUsize = AtomicUsize::new(0);
/// largest single request since it was last reset
static MAXREQ: AtomicUsize = AtomicUsize::new(0);
const TRAP: usize = 1 << 30;

static IN_TRAP: std::sync::atomic::AtomicBool = std::sync::atomic::AtomicBool::new(false);
fn trap(n: usize) -> ! {
    // no allocation, no locks: raw write to fd 1, then abort
    use std::io::Write;
    use std::os::fd::FromRawFd;
    if std::env::var_os("C06_BT").is_some() && !IN_TRAP.swap(true, Relaxed) {
        // diagnostic mode: where does the request come from (allocates; counting is bypassed)
        eprintln!("{}", std::backtrace::Backtrace::force_capture());
    }
    let mut buf = [0u8; 40];
    let mut i = buf.len();
    buf[i - 1] = b'\n';
    i -= 1;
    let mut v = n;
    loop {
        i -= 1;
        buf[i] = b'0' + (v % 10) as u8;
        v /= 10;
        if v == 0 {
            break;
        }
    }
    let mut f = unsafe { std::fs::File::from_raw_fd(1) };
    let _ = f.write_all(b"\nOOM ");
    let _ = f.write_all(&buf[i..]);
    std::process::abort();
}
fn on_alloc(n: usize) {
    if IN_TRAP.load(Relaxed) {
        return;
    }
    if n > TRAP {
        trap(n);
    }
    MAXREQ.fetch_max(n, Relaxed);
    TOTAL.fetch_add(n, Relaxed);
    let l = LIVE.fetch_add(n, Relaxed) + n;
    if l > 3 * TRAP {
        trap(l);
    }
    PEAK.fetch_max(l, Relaxed);
}
unsafe impl GlobalAlloc for Counting {
    unsafe fn alloc(&self, l: Layout) -> *mut u8 {
        on_alloc(l.size());
        unsafe { System.alloc(l) }
    }
    unsafe fn alloc_zeroed(&self, l: Layout) -> *mut u8 {
        on_alloc(l.size());
        unsafe { System.alloc_zeroed(l) }
    }
    unsafe fn dealloc(&self, p: *mut u8, l: Layout) {
        LIVE.fetch_sub(l.size(), Relaxed);
        unsafe { System.dealloc(p, l) }
    }
    unsafe fn realloc(&self, p: *mut u8, l: Layout, new: usize) -> *mut u8 {
        on_alloc(new);
        LIVE.fetch_sub(l.size(), Relaxed);
        unsafe { System.realloc(p, l, new) }
    }
}
#[global_allocator]
static A: Counting = Counting;

use dust_dds::dds_async::data_reader::DataReaderAsync;
use dust_dds::dds_async::data_writer::DataWriterAsync;
use dust_dds::dds_async::domain_participant::DomainParticipantAsync;
use dust_dds::dds_async::domain_participant_factory::DomainParticipantFactoryAsync;
use dust_dds::dds_async::publisher::PublisherAsync;
use dust_dds::dds_async::subscriber::SubscriberAsync;
use dust_dds::dds_async::topic::TopicAsync;
use dust_dds::dds_async::topic_description::TopicDescriptionAsync;
use dust_dds::infrastructure::error::{DdsError, DdsResult};
use dust_dds::infrastructure::qos::{DataReaderQos, DataWriterQos, QosKind};
use dust_dds::infrastructure::qos_policy::*;
use dust_dds::infrastructure::sample_info::{
    InstanceStateKind, ANY_INSTANCE_STATE, ANY_SAMPLE_STATE, ANY_VIEW_STATE,
};
use dust_dds::infrastructure::time::{Duration, DurationKind, Time};
use dust_dds::infrastructure::type_support::DdsType;
use dust_dds::rtps_messages::overall_structure::{RtpsMessageRead, RtpsSubmessageReadKind};
use std::collections::HashMap;
use std::io::{BufRead, Write};
use vh::sim::{Packet, Sim, SimRuntime, SimTransport};

#[derive(DdsType, Debug, Clone, PartialEq)]
struct KeyedData {
    #[dust_dds(key)]
    id: u8,
    value: Vec<u8>,
}

fn err_code(e: &DdsError) -> i32 {
    match e {
        DdsError::Error(_) => 1,
        DdsError::Unsupported => 2,
        DdsError::BadParameter => 3,
        DdsError::PreconditionNotMet(_) => 4,
        DdsError::OutOfResources => 5,
        DdsError::NotEnabled => 6,
        DdsError::ImmutablePolicy => 7,
        DdsError::InconsistentPolicy => 8,
        DdsError::AlreadyDeleted => 9,
        DdsError::Timeout => 10,
        DdsError::NoData => 11,
        DdsError::IllegalOperation => 12,
    }
}
fn rc<T>(r: &DdsResult<T>) -> String {
    match r {
        Ok(_) => "0".into(),
        Err(e) => format!("E{}", err_code(e)),
    }
}
fn kv(tokens: &[&str]) -> HashMap<String, i64> {
    let mut m = HashMap::new();
    for t in tokens {
        if let Some((k, v)) = t.split_once('=') {
            if let Ok(v) = v.parse::<i64>() {
                m.insert(k.to_string(), v);
            }
        }
    }
    m
}
fn dk(ns: i64) -> DurationKind {
    if ns < 0 {
        DurationKind::Infinite
    } else {
        DurationKind::Finite(Duration::new((ns / 1_000_000_000) as i32, (ns % 1_000_000_000) as u32))
    }
}
fn len(v: i64) -> Length {
    if v < 0 { Length::Unlimited } else { Length::Limited(v as i32) }
}
fn payload(n: usize, seed: u64) -> Vec<u8> {
    let mut x = seed.wrapping_mul(6364136223846793005).wrapping_add(1442695040888963407);
    (0..n)
        .map(|_| {
            x = x.wrapping_mul(6364136223846793005).wrapping_add(1442695040888963407);
            (x >> 33) as u8
        })
        .collect()
}
fn checksum(b: &[u8]) -> u64 {
    let mut h: u64 = 1469598103934665603;
    for x in b {
        h ^= *x as u64;
        h = h.wrapping_mul(1099511628211);
    }
    h % 1_000_000_007
}

#[derive(Clone)]
struct Rule {
    action: u8,
    kind: String,
    sn: i64,
    frag: i64,
    times: i64,
}

/// (kind, writer entity key, sn, first fragment) of every submessage in a datagram
fn summarize(bytes: &[u8]) -> Vec<(String, u32, i64, i64)> {
    let mut v = vec![];
    if let Ok(m) = RtpsMessageRead::try_from(bytes) {
        for s in m.submessages() {
            let key = |e: dust_dds::transport::types::EntityId| {
                let k = e.entity_key();
                ((k[0] as u32) << 16) | ((k[1] as u32) << 8) | k[2] as u32
            };
            match s {
                RtpsSubmessageReadKind::Data(d) => v.push(("DATA".into(), key(d.writer_id()), d.writer_sn(), 0)),
                RtpsSubmessageReadKind::DataFrag(d) => {
                    v.push(("DATA_FRAG".into(), key(d.writer_id()), d.writer_sn(), d.fragment_starting_num() as i64))
                }
                RtpsSubmessageReadKind::Heartbeat(h) => v.push(("HEARTBEAT".into(), key(h.writer_id()), h.last_sn(), h.first_sn())),
                RtpsSubmessageReadKind::AckNack(a) => v.push(("ACKNACK".into(), key(*a.writer_id()), a.reader_sn_state().base(), 0)),
                RtpsSubmessageReadKind::Gap(g) => v.push(("GAP".into(), key(g.writer_id()), g.gap_start(), g.gap_list().base())),
                RtpsSubmessageReadKind::NackFrag(n) => v.push(("NACK_FRAG".into(), key(n._writer_id()), n.writer_sn(), 0)),
                _ => {}
            }
        }
    }
    v
}

struct World {
    sim: Sim,
    factory: DomainParticipantFactoryAsync<SimTransport>,
    parts: Vec<DomainParticipantAsync>,
    topics: Vec<TopicAsync>,
    pubs: Vec<PublisherAsync>,
    subs: Vec<SubscriberAsync>,
    writers: Vec<DataWriterAsync<KeyedData>>,
    readers: Vec<DataReaderAsync<KeyedData>>,
    rules: Vec<Rule>,
    sent_mark: usize,
}

const BUDGET: i64 = 2_000_000_000;

impl World {
    fn filter(rules: &mut Vec<Rule>, p: &Packet) -> u8 {
        if p.meta {
            return 0;
        }
        let subs = summarize(&p.bytes);
        for r in rules.iter_mut() {
            if r.times == 0 {
                continue;
            }
            let hit = subs.iter().any(|(k, _, sn, frag)| {
                (r.kind == "ANY" || &r.kind == k) && (r.sn < 0 || r.sn == *sn) && (r.frag < 0 || r.frag == *frag)
            });
            if hit {
                if r.times > 0 {
                    r.times -= 1;
                }
                return r.action;
            }
        }
        0
    }

    fn op(&mut self, op: &str) -> String {
        let t: Vec<&str> = op.split_whitespace().collect();
        if t.is_empty() {
            return String::new();
        }
        let n = |i: usize| -> i64 { t.get(i).and_then(|x| x.parse::<i64>().ok()).unwrap_or(0) };
        let u = |i: usize| -> usize { n(i) as usize };
        match t[0] {
            "cfg" => {
                let m = kv(&t[1..]);
                if let Some(f) = m.get("frag") {
                    *self.sim.shared.fragment_size.lock().unwrap() = *f as usize;
                }
                let tag = t.iter().find_map(|x| x.strip_prefix("tag=")).map(|s| s.to_string());
                let ann = m.get("ann").copied();
                if tag.is_some() || ann.is_some() {
                    let mut b = dust_dds::dds_async::configuration::DustDdsConfigurationBuilder::new();
                    if let Some(tg) = tag {
                        b = b.domain_tag(tg);
                    }
                    if let Some(a) = ann {
                        b = b.participant_announcement_interval(core::time::Duration::from_millis(a as u64));
                    }
                    let c = b.build().unwrap();
                    let f = &self.factory;
                    let _ = self.sim.run(async { *f.get_mut_configuration().await = c; }, BUDGET);
                }
                "c".into()
            }
            "P" => {
                let f = &self.factory;
                let r = self.sim.run(f.create_participant(n(1) as i32, QosKind::Default, None::<()>, &[]), BUDGET);
                self.sim.settle();
                match r {
                    Ok(Ok(p)) => {
                        self.parts.push(p);
                        "P 0".into()
                    }
                    Ok(Err(e)) => format!("P E{}", err_code(&e)),
                    Err(_) => "P STUCK".into(),
                }
            }
            "T" => {
                let p = &self.parts[u(1)];
                let name = t.get(2).copied().unwrap_or("topic");
                let r = self.sim.run(p.create_topic::<KeyedData>(name, "KeyedData", QosKind::Default, None::<()>, &[]), BUDGET);
                self.sim.settle();
                match r {
                    Ok(Ok(x)) => {
                        self.topics.push(x);
                        "T 0".into()
                    }
                    Ok(Err(e)) => format!("T E{}", err_code(&e)),
                    Err(_) => "T STUCK".into(),
                }
            }
            "PUB" => {
                let p = &self.parts[u(1)];
                let r = self.sim.run(p.create_publisher(QosKind::Default, None::<()>, &[]), BUDGET);
                self.sim.settle();
                match r {
                    Ok(Ok(x)) => {
                        self.pubs.push(x);
                        "PUB 0".into()
                    }
                    Ok(Err(e)) => format!("PUB E{}", err_code(&e)),
                    Err(_) => "PUB STUCK".into(),
                }
            }
            "SUB" => {
                let p = &self.parts[u(1)];
                let r = self.sim.run(p.create_subscriber(QosKind::Default, None::<()>, &[]), BUDGET);
                self.sim.settle();
                match r {
                    Ok(Ok(x)) => {
                        self.subs.push(x);
                        "SUB 0".into()
                    }
                    Ok(Err(e)) => format!("SUB E{}", err_code(&e)),
                    Err(_) => "SUB STUCK".into(),
                }
            }
            "W" => {
                let m = kv(&t[3..]);
                let g = |k: &str, d: i64| m.get(k).copied().unwrap_or(d);
                let mut q = DataWriterQos::default();
                q.reliability.kind = if g("rel", 1) == 1 { ReliabilityQosPolicyKind::Reliable } else { ReliabilityQosPolicyKind::BestEffort };
                q.reliability.max_blocking_time = dk(g("mbt", 100_000_000));
                q.durability.kind = if g("dur", 0) == 1 { DurabilityQosPolicyKind::TransientLocal } else { DurabilityQosPolicyKind::Volatile };
                q.history.kind = if g("hist", 0) == 0 { HistoryQosPolicyKind::KeepAll } else { HistoryQosPolicyKind::KeepLast(g("hist", 0) as u32) };
                q.resource_limits.max_samples = len(g("ms", -1));
                q.resource_limits.max_instances = len(g("mi", -1));
                q.resource_limits.max_samples_per_instance = len(g("mspi", -1));
                q.deadline.period = dk(g("dl", -1));
                q.lifespan.duration = dk(g("ls", -1));
                q.ownership.kind = if g("own", 0) == 1 { OwnershipQosPolicyKind::Exclusive } else { OwnershipQosPolicyKind::Shared };
                q.ownership_strength.value = g("str", 0) as i32;
                let pb = &self.pubs[u(1)];
                let tp = &self.topics[u(2)];
                let r = self.sim.run(pb.create_datawriter::<KeyedData>(tp, QosKind::Specific(q), None::<()>, &[]), BUDGET);
                self.sim.settle();
                match r {
                    Ok(Ok(x)) => {
                        self.writers.push(x);
                        "W 0".into()
                    }
                    Ok(Err(e)) => format!("W E{}", err_code(&e)),
                    Err(_) => "W STUCK".into(),
                }
            }
            "R" => {
                let m = kv(&t[3..]);
                let g = |k: &str, d: i64| m.get(k).copied().unwrap_or(d);
                let mut q = DataReaderQos::default();
                q.reliability.kind = if g("rel", 1) == 1 { ReliabilityQosPolicyKind::Reliable } else { ReliabilityQosPolicyKind::BestEffort };
                q.durability.kind = if g("dur", 0) == 1 { DurabilityQosPolicyKind::TransientLocal } else { DurabilityQosPolicyKind::Volatile };
                q.history.kind = if g("hist", 0) == 0 { HistoryQosPolicyKind::KeepAll } else { HistoryQosPolicyKind::KeepLast(g("hist", 0) as u32) };
                q.resource_limits.max_samples = len(g("ms", -1));
                q.resource_limits.max_instances = len(g("mi", -1));
                q.resource_limits.max_samples_per_instance = len(g("mspi", -1));
                q.deadline.period = dk(g("dl", -1));
                q.ownership.kind = if g("own", 0) == 1 { OwnershipQosPolicyKind::Exclusive } else { OwnershipQosPolicyKind::Shared };
                q.time_based_filter.minimum_separation = dk(g("sep", 0));
                q.destination_order.kind = if g("ord", 0) == 1 { DestinationOrderQosPolicyKind::BySourceTimestamp } else { DestinationOrderQosPolicyKind::ByReceptionTimestamp };
                let sb = &self.subs[u(1)];
                let tp = &self.topics[u(2)];
                let r = self.sim.run(sb.create_datareader::<KeyedData>(tp, QosKind::Specific(q), None::<()>, &[]), BUDGET);
                self.sim.settle();
                match r {
                    Ok(Ok(x)) => {
                        self.readers.push(x);
                        "R 0".into()
                    }
                    Ok(Err(e)) => format!("R E{}", err_code(&e)),
                    Err(_) => "R STUCK".into(),
                }
            }
            "w" | "d" | "u" => {
                let w = &self.writers[u(1)];
                let data = KeyedData { id: n(2) as u8, value: if t[0] == "w" { payload(u(3), n(4) as u64) } else { vec![] } };
                let ts = t.get(5).and_then(|x| x.parse::<i64>().ok());
                let budget = 30_000_000_000;
                let r = match (t[0], ts) {
                    ("w", Some(ts)) => self.sim.run(w.write_w_timestamp(data, None, Time::new((ts / 1_000_000_000) as i32, (ts % 1_000_000_000) as u32)), budget),
                    ("w", None) => self.sim.run(w.write(data, None), budget),
                    ("d", _) => self.sim.run(w.dispose(data, None), budget),
                    _ => self.sim.run(w.unregister_instance(data, None), budget),
                };
                self.sim.settle();
                match r {
                    Ok(x) => format!("{} {}", t[0], rc(&x)),
                    Err(_) => format!("{} STUCK", t[0]),
                }
            }
            "t" | "r" => {
                let rd = &self.readers[u(1)];
                let max = if n(2) <= 0 { i32::MAX } else { n(2) as i32 };
                let r = if t[0] == "t" {
                    self.sim.run(rd.take(max, ANY_SAMPLE_STATE, ANY_VIEW_STATE, ANY_INSTANCE_STATE), BUDGET)
                } else {
                    self.sim.run(rd.read(max, ANY_SAMPLE_STATE, ANY_VIEW_STATE, ANY_INSTANCE_STATE), BUDGET)
                };
                self.sim.settle();
                match r {
                    Ok(Ok(l)) => {
                        let mut s = format!("{} {}", t[0], l.len());
                        for x in l {
                            let si = &x.sample_info;
                            let is = match si.instance_state {
                                InstanceStateKind::Alive => 1,
                                InstanceStateKind::NotAliveDisposed => 2,
                                InstanceStateKind::NotAliveNoWriters => 4,
                            };
                            let ts = si.source_timestamp.map(|t| t.sec() as i64 * 1_000_000_000 + t.nanosec() as i64).unwrap_or(-1);
                            match &x.data {
                                Some(d) => s += &format!(" {} {} {} {} {}", d.id, d.value.len(), checksum(&d.value), is, ts),
                                None => s += &format!(" -1 0 0 {} {}", is, ts),
                            }
                        }
                        s
                    }
                    Ok(Err(e)) => format!("{} E{}", t[0], err_code(&e)),
                    Err(_) => format!("{} STUCK", t[0]),
                }
            }
            "adv" => {
                self.sim.advance(n(1));
                "adv".into()
            }
            "net" => {
                let max = if t.len() > 1 { u(1) } else { 100_000 };
                let mut rules = std::mem::take(&mut self.rules);
                let k = self.sim.pump(max, &mut |p| World::filter(&mut rules, p));
                self.rules = rules;
                format!("net {}", k)
            }
            "fault" => {
                let action = match t[1] {
                    "drop" => 1,
                    "dup" => 2,
                    _ => 3,
                };
                self.rules.push(Rule { action, kind: t[2].to_string(), sn: n(3), frag: n(4), times: if t.len() > 5 { n(5) } else { 1 } });
                "f".into()
            }
            "rel" => {
                self.sim.release_held();
                "rel".into()
            }
            "wfa" => {
                let w = &self.writers[u(1)];
                let r = self.sim.run(w.wait_for_acknowledgments(), n(2));
                self.sim.settle();
                match r {
                    Ok(x) => format!("wfa {}", rc(&x)),
                    Err(_) => "wfa PENDING".into(),
                }
            }
            "wfh" => {
                let rd = &self.readers[u(1)];
                let r = self.sim.run(rd.wait_for_historical_data(), n(2));
                self.sim.settle();
                match r {
                    Ok(x) => format!("wfh {}", rc(&x)),
                    Err(_) => "wfh PENDING".into(),
                }
            }
            "pm" => {
                let w = &self.writers[u(1)];
                match self.sim.run(w.get_publication_matched_status(), BUDGET) {
                    Ok(Ok(s)) => format!("pm {} {} {} {}", s.total_count, s.total_count_change, s.current_count, s.current_count_change),
                    Ok(Err(e)) => format!("pm E{}", err_code(&e)),
                    Err(_) => "pm STUCK".into(),
                }
            }
            "sm" => {
                let rd = &self.readers[u(1)];
                match self.sim.run(rd.get_subscription_matched_status(), BUDGET) {
                    Ok(Ok(s)) => format!("sm {} {} {} {}", s.total_count, s.total_count_change, s.current_count, s.current_count_change),
                    Ok(Err(e)) => format!("sm E{}", err_code(&e)),
                    Err(_) => "sm STUCK".into(),
                }
            }
            "delays" => {
                let d = self.sim.shared.delays.lock().unwrap();
                let max = d.iter().map(|x| x.1).max().unwrap_or(0);
                format!("delays {} {}", d.len(), max)
            }
            "delW" => {
                let w = &self.writers[u(1)];
                let pb = w.get_publisher();
                let r = self.sim.run(pb.delete_datawriter(w), BUDGET);
                self.sim.settle();
                match r { Ok(x) => format!("delW {}", rc(&x)), Err(_) => "delW STUCK".into() }
            }
            "delR" => {
                let rd = &self.readers[u(1)];
                let sb = rd.get_subscriber();
                let r = self.sim.run(sb.delete_datareader(rd), BUDGET);
                self.sim.settle();
                match r { Ok(x) => format!("delR {}", rc(&x)), Err(_) => "delR STUCK".into() }
            }
            "delPUB" => {
                let x = &self.pubs[u(1)];
                let p = x.get_participant();
                let r = self.sim.run(p.delete_publisher(x), BUDGET);
                self.sim.settle();
                match r { Ok(x) => format!("delPUB {}", rc(&x)), Err(_) => "delPUB STUCK".into() }
            }
            "delSUB" => {
                let x = &self.subs[u(1)];
                let p = x.get_participant();
                let r = self.sim.run(p.delete_subscriber(x), BUDGET);
                self.sim.settle();
                match r { Ok(x) => format!("delSUB {}", rc(&x)), Err(_) => "delSUB STUCK".into() }
            }
            "delT" => {
                let x = &self.topics[u(1)];
                let p = x.get_participant();
                let r = self.sim.run(p.delete_topic(x), BUDGET);
                self.sim.settle();
                match r { Ok(x) => format!("delT {}", rc(&x)), Err(_) => "delT STUCK".into() }
            }
            "delall" => {
                let p = &self.parts[u(1)];
                let r = self.sim.run(p.delete_contained_entities(), BUDGET);
                self.sim.settle();
                match r { Ok(x) => format!("delall {}", rc(&x)), Err(_) => "delall STUCK".into() }
            }
            "delP" => {
                let p = &self.parts[u(1)];
                let f = &self.factory;
                let r = self.sim.run(f.delete_participant(p), BUDGET);
                self.sim.settle();
                if let Ok(Ok(())) = r {
                    self.sim.shared.endpoints.lock().unwrap()[u(1)].alive = false;
                }
                match r { Ok(x) => format!("delP {}", rc(&x)), Err(_) => "delP STUCK".into() }
            }
            "inject" => {
                let bytes = vh::util::hex(t[3]);
                let p = Packet { id: 0, from: 999, to: u(1), meta: n(2) == 1, bytes, held: false };
                self.sim.deliver_packet(&p);
                "inj".into()
            }
            "sent" => {
                let log = self.sim.shared.sent_log.lock().unwrap();
                let mut s = String::from("sent");
                for (from, to, meta, bytes) in log[self.sent_mark..].iter() {
                    if *meta {
                        continue;
                    }
                    for (k, w, sn, fr) in summarize(bytes) {
                        s += &format!(" {}>{}:{}:{}:{}:{}", from, to, k, w, sn, fr);
                    }
                }
                self.sent_mark = log.len();
                s
            }
            _ => format!("?{}", t[0]),
        }
    }
}


/// Runtime wrapper (as in bin/disc.rs): identical to SimRuntime except that the timer notices when
/// the code under test asks for a ZERO delay over and over at one frozen simulated instant (the
/// worker does this when `now - last_communication == lease_duration` exactly, e.g. for a discovered
/// participant announcing a lease duration of 0).  With a real clock such a busy loop ends when the
/// clock ticks; here the clock is moved by 1 ns after 64 consecutive zero delays.
#[derive(Default)]
struct SpinState {
    at: i64,
    count: u32,
}
#[derive(Clone)]
struct C06Timer {
    inner: vh::sim::SimTimer,
    shared: std::sync::Arc<vh::sim::Shared>,
    spin: std::sync::Arc<std::sync::Mutex<SpinState>>,
}
impl dust_dds::runtime::Timer for C06Timer {
    fn delay(&mut self, duration: core::time::Duration) -> impl std::future::Future<Output = ()> + Send {
        if duration.as_nanos() == 0 {
            let mut now = self.shared.now_ns.lock().unwrap();
            let mut st = self.spin.lock().unwrap();
            if st.at == *now {
                st.count += 1;
            } else {
                st.at = *now;
                st.count = 1;
            }
            if st.count >= 64 {
                *now += 1;
                st.count = 0;
            }
        }
        self.inner.delay(duration)
    }
}
struct C06Runtime(std::sync::Arc<vh::sim::Shared>, std::sync::Arc<std::sync::Mutex<SpinState>>);
impl dust_dds::runtime::DdsRuntime for C06Runtime {
    type ClockHandle = vh::sim::SimClock;
    type TimerHandle = C06Timer;
    type SpawnerHandle = vh::sim::SimSpawner;
    fn timer(&self) -> C06Timer {
        C06Timer { inner: SimRuntime(self.0.clone()).timer(), shared: self.0.clone(), spin: self.1.clone() }
    }
    fn clock(&self) -> vh::sim::SimClock {
        SimRuntime(self.0.clone()).clock()
    }
    fn spawner(&self) -> vh::sim::SimSpawner {
        SimRuntime(self.0.clone()).spawner()
    }
}

fn new_world() -> World {
    let sim = Sim::new(1344);
    let factory = DomainParticipantFactoryAsync::new(
        C06Runtime(sim.shared.clone(), Default::default()),
        [1, 2, 3, 4],
        [5, 6, 7, 8],
        SimTransport(sim.shared.clone()),
        Default::default(),
    );
    World { sim, factory, parts: vec![], topics: vec![], pubs: vec![], subs: vec![], writers: vec![], readers: vec![], rules: vec![], sent_mark: 0 }
}

fn say(s: &str) {
    // one line in pieces: every piece is flushed so that the parent sees how far the child got
    print!("{}", s);
    std::io::stdout().flush().unwrap();
}

const VICTIM: usize = 1;
/// wall-clock deadline (ms since start) of the datagram being handled; 0 = none
static DEADLINE_MS: AtomicUsize = AtomicUsize::new(0);

fn run_case(line: &str) {
    let (knobs, dgrams) = line.split_once('|').unwrap_or((line, ""));
    let kt: Vec<&str> = knobs.split_whitespace().collect();
    let m = kv(&kt);
    let g = |k: &str, d: i64| m.get(k).copied().unwrap_or(d);
    let mut w = new_world();
    *w.sim.shared.fragment_size.lock().unwrap() = g("frag", 1344) as usize;
    let rel = g("rel", 1);
    let mut setup: Vec<String> = vec![];
    for p in 0..3 {
        setup.push("P 0".into());
        let _ = p;
    }
    for p in 0..3 {
        setup.push(format!("T {} t", p));
        setup.push(format!("PUB {}", p));
        setup.push(format!("SUB {}", p));
    }
    for p in 0..3 {
        setup.push(format!("W {} {} rel=1", p, p));
        setup.push(format!("R {} {} rel={}", p, p, if p == VICTIM { rel } else { 1 }));
    }
    setup.push("net".into());
    setup.push("adv 100000000".into());
    setup.push("net".into());
    for (wr, n) in [(0, g("a", 1)), (1, g("m", 1)), (2, g("j", 0))] {
        for i in 0..n {
            setup.push(format!("w {} {} {} {}", wr, 1 + i % 3, 8 + 4 * i, 7 * wr + i));
        }
    }
    setup.push("net".into());
    setup.push("adv 300000000".into());
    setup.push("net".into());
    setup.push("t 0 0".into());
    setup.push("t 1 0".into());
    setup.push("t 2 0".into());
    for op in &setup {
        let r = w.op(op);
        if r.contains("STUCK") || r.contains(" E") {
            say(&format!("SETUP-FAILED {} -> {} | END\n", op, r));
            return;
        }
    }
    // the traffic of the setup phase
    {
        let log = w.sim.shared.sent_log.lock().unwrap();
        let cap = g("cap", 0) == 1;
        let mut s = String::from("LOG");
        for (from, to, meta, bytes) in log.iter() {
            if *meta && !cap {
                continue;
            }
            s += &format!(" {}>{}{}:{}", from, to, if *meta { "m" } else { "" }, vh::util::to_hex(bytes));
        }
        say(&s);
        if cap {
            say(" | END\n");
            return;
        }
    }
    let mut mark = w.sim.shared.sent_log.lock().unwrap().len();
    let limit_ms = g("lim", 6000) as usize;
    let start = std::time::Instant::now();
    std::thread::spawn(move || loop {
        std::thread::sleep(std::time::Duration::from_millis(20));
        let d = DEADLINE_MS.load(Relaxed);
        if d != 0 && start.elapsed().as_millis() as usize > d {
            use std::io::Write;
            use std::os::fd::FromRawFd;
            let mut f = unsafe { std::fs::File::from_raw_fd(1) };
            let _ = f.write_all(b"HANG\n");
            std::process::abort();
        }
    });
    for (k, h) in dgrams.split_whitespace().enumerate() {
        let bytes = vh::util::hex(h);
        say(&format!(" | D{} ", k));
        let live0 = LIVE.load(Relaxed);
        let total0 = TOTAL.load(Relaxed);
        PEAK.store(live0, Relaxed);
        MAXREQ.store(0, Relaxed);
        let t0 = std::time::Instant::now();
        let p = Packet { id: 0, from: 999, to: VICTIM, meta: false, bytes, held: false };
        DEADLINE_MS.store(start.elapsed().as_millis() as usize + limit_ms, Relaxed);
        w.sim.deliver_packet(&p);
        DEADLINE_MS.store(0, Relaxed);
        let us = t0.elapsed().as_micros();
        let total = TOTAL.load(Relaxed) - total0;
        let peak = PEAK.load(Relaxed).saturating_sub(live0);
        let maxreq = MAXREQ.load(Relaxed);
        // what the victim sent in reaction; nothing of it is delivered
        w.sim.shared.inflight.lock().unwrap().clear();
        let log = w.sim.shared.sent_log.lock().unwrap();
        let mut outs: Vec<String> = vec![];
        for (from, _to, meta, bytes) in log[mark..].iter() {
            if *from == VICTIM && !*meta {
                outs.push(vh::util::to_hex(bytes));
            }
        }
        mark = log.len();
        drop(log);
        say(&format!("OK {} {} {} {} {}", total, peak, maxreq, us, if outs.is_empty() { "-".to_string() } else { outs.join(",") }));
    }
    if g("probe", 1) == 1 {
        // liveness: healthy writer -> victim reader, victim writer -> healthy reader, one API call
        // on the victim, and the worker still asks the timer for its next wake-up
        say(" | PROBE ");
        let d0 = w.sim.shared.delays.lock().unwrap().len();
        let mut res = vec![];
        let r1 = w.op("w 0 9 33 4242");
        for _ in 0..6 {
            w.op("net");
            w.op("adv 250000000");
        }
        w.op("net");
        let t1 = w.op("t 1 0");
        res.push(format!("hv={}", (r1 == "w 0" && t1.contains(" 9 33 ")) as u8));
        let r2 = w.op("w 1 9 35 4343");
        for _ in 0..6 {
            w.op("net");
            w.op("adv 250000000");
        }
        w.op("net");
        let t0 = w.op("t 0 0");
        res.push(format!("vh={}", (r2 == "w 0" && t0.contains(" 9 35 ")) as u8));
        let a1 = w.op("pm 1");
        let a2 = w.op("sm 1");
        res.push(format!("api={}", (a1.starts_with("pm ") && !a1.contains('E') && !a1.contains("STUCK") && a2.starts_with("sm ") && !a2.contains('E') && !a2.contains("STUCK")) as u8));
        let d1 = w.sim.shared.delays.lock().unwrap().len();
        res.push(format!("wake={}", (d1 > d0 + 10) as u8));
        say(&res.join(" "));
    }
    say(" | END\n");
}

fn main() {
    let args: Vec<String> = std::env::args().collect();
    if args.get(1).map(|s| s.as_str()) == Some("--one") {
        let mut line = String::new();
        std::io::stdin().lock().read_line(&mut line).unwrap();
        std::panic::set_hook(Box::new(|info| {
            let s = info.location().map(|l| format!("{}:{}", l.file(), l.line())).unwrap_or_default();
            println!("PANIC {}", s);
            std::process::exit(3);
        }));
        run_case(line.trim());
        std::process::exit(0);
    }
    let limit: u64 = std::env::var("C06_LIMIT_S").ok().and_then(|s| s.parse().ok()).unwrap_or(120);
    let exe = std::env::current_exe().unwrap();
    let stdin = std::io::stdin();
    let stdout = std::io::stdout();
    let mut out = stdout.lock();
    for line in stdin.lock().lines() {
        let line = line.unwrap();
        if line.trim().is_empty() {
            continue;
        }
        let mut child = std::process::Command::new(&exe)
            .arg("--one")
            .stdin(std::process::Stdio::piped())
            .stdout(std::process::Stdio::piped())
            .stderr(std::process::Stdio::null())
            .spawn()
            .unwrap();
        child.stdin.take().unwrap().write_all(format!("{}\n", line).as_bytes()).unwrap();
        let mut so = child.stdout.take().unwrap();
        let reader = std::thread::spawn(move || {
            let mut s = String::new();
            use std::io::Read;
            let _ = so.read_to_string(&mut s);
            s
        });
        let t0 = std::time::Instant::now();
        let mut hung = false;
        let status = loop {
            match child.try_wait().unwrap() {
                Some(st) => break Some(st),
                None => {
                    if t0.elapsed().as_secs() >= limit {
                        let _ = child.kill();
                        let _ = child.wait();
                        hung = true;
                        break None;
                    }
                    std::thread::sleep(std::time::Duration::from_millis(2));
                }
            }
        };
        let s = reader.join().unwrap_or_default();
        let mut flat = s.replace('\n', " ").trim().to_string();
        if hung {
            flat += " HANG";
        } else if let Some(st) = status {
            if !st.success() && !flat.contains("PANIC ") && !flat.contains("OOM ") && !flat.ends_with("HANG") {
                flat += &format!(" ABORT {:?}", st.code());
            }
        }
        if flat.is_empty() {
            flat = "ABORT".into();
        }
        writeln!(out, "{}", flat).unwrap();
        out.flush().unwrap();
    }
}
