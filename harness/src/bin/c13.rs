//! C13 harness: discovery data <-> PL_CDR parameter list, on the REAL code.
//!
//! The four discovery data types have `pub(crate)` fields, so values cannot be built
//! field by field from outside the crate.  What is public (under --cfg dust_dds_verif):
//! `from_bytes` / `into_bytes` of the four types, their `Debug`, `Clone`, `PartialEq`,
//! the XCDR1 encoder `data_writer_entity::serialize` (per-policy encoders), and
//! `DcpsDomainParticipant::announce_participant` whose output lands in the SPDP
//! writer's history cache.
//!
//! ops (one per line):
//!   dec <k> <hex>          k in t|w|r|p : from_bytes(hex)
//!        -> ERR <code> | PANIC <site> |
//!           OK <debug-of-value> ## <hex of value.into_bytes()> ## <rt>
//!           rt = 1 if from_bytes(into_bytes(v)) == Ok(v), 0 if it is Ok but different, E<code> if Err
//!   enc <policy> <args..>  per-policy XCDR1-LE encoder of the crate (`serialize`, encapsulation header dropped):
//!        the value bytes of the parameter, padded to a multiple of 4   -> OK <hex>
//!   ann <domain_id> <tag-hex> <prefix-hex(12)> (fill <len> <byte> | hex <hex>) <mu> <mm> <du> <dm>
//!        (each locator list: <n> then n x (<kind> <port> <addr-hex(16)>))
//!        end-to-end SPDP announcement: a DcpsDomainParticipant with this domain id / tag / guid prefix /
//!        user_data QoS / transport locators calls announce_participant; the bytes found in the SPDP
//!        writer's history cache are printed and decoded again
//!        -> OK <hex of announced bytes> ## <result of `dec p` on them>
use dust_dds::builtin_topics::BuiltInTopicKey;
use dust_dds::dcps::data_representation_builtin_endpoints::{
    discovered_reader_data::DiscoveredReaderData, discovered_topic_data::DiscoveredTopicData,
    discovered_writer_data::DiscoveredWriterData, rtps_data_representation::CdrError,
    spdp_discovered_participant_data::SpdpDiscoveredParticipantData,
};
use dust_dds::dcps::dcps_domain_participant::data_writer_entity::serialize;
use dust_dds::dcps::dcps_domain_participant::participant_entity::DcpsDomainParticipant;
use dust_dds::dcps::status_mask::StatusMask;
use dust_dds::dds_async::domain_participant_factory::{DcpsChannel, DcpsSender};
use dust_dds::infrastructure::{
    qos::DomainParticipantQos,
    qos_policy::*,
    time::{Duration, DurationKind, Time},
};
use dust_dds::runtime::{Clock, DdsRuntime, Spawner, TaskHandle, Timer};
use dust_dds::transport::{
    interface::{RtpsTransportParticipant, WriteMessage},
    types::Locator,
};
use dust_dds::xtypes::error::XTypesError;
use dust_dds::xtypes::type_support::{TypeSupport, _String};
use std::sync::OnceLock;
use vh::util::{hex, to_hex};

fn xcode(e: &XTypesError) -> i32 {
    match e {
        XTypesError::OutOfMemory => 20,
        XTypesError::InvalidData => 21,
        XTypesError::InvalidType => 22,
        XTypesError::PidNotFound(_) => 23,
        XTypesError::InvalidId(_) => 24,
        XTypesError::InvalidIndex(_) => 25,
        XTypesError::InvalidName => 26,
        XTypesError::NotEnoughData => 27,
        XTypesError::NotSupported(_) => 28,
        XTypesError::IllegalOperation => 29,
    }
}
fn code(e: &CdrError) -> i32 {
    match e {
        CdrError::InvalidData => 1,
        CdrError::PidNotFound(_) => 2,
        CdrError::NotEnoughData => 3,
        CdrError::Unsupported(_) => 4,
        CdrError::XTypes(x) => xcode(x),
    }
}

macro_rules! dec_kind {
    ($t:ty, $b:expr) => {{
        match <$t>::from_bytes($b) {
            Err(e) => format!("ERR {}", code(&e)),
            Ok(v) => {
                let b2 = v.clone().into_bytes();
                let rt = match <$t>::from_bytes(&b2) {
                    Ok(v2) => {
                        if v2 == v {
                            "1".to_string()
                        } else {
                            "0".to_string()
                        }
                    }
                    Err(e) => format!("E{}", code(&e)),
                };
                format!("OK {:?} ## {} ## {}", v, to_hex(&b2), rt)
            }
        }
    }};
}

fn dec(kind: &str, b: &[u8]) -> String {
    match kind {
        "t" => dec_kind!(DiscoveredTopicData, b),
        "w" => dec_kind!(DiscoveredWriterData, b),
        "r" => dec_kind!(DiscoveredReaderData, b),
        "p" => dec_kind!(SpdpDiscoveredParticipantData, b),
        _ => "BADKIND".to_string(),
    }
}

// ---------------------------------------------------------------- per-policy encoders
fn body<T: TypeSupport>(v: T) -> String {
    // real XCDR1 little-endian encoder of the crate; 4-byte encapsulation header dropped.
    // `serialize` pads the whole serialization to a multiple of 4 (as write_cdr_parameter does).
    let full = serialize(&v.create_dynamic_sample(), &DataRepresentationQosPolicy { value: vec![] }).expect("serialize");
    format!("OK {}", to_hex(&full[4..]))
}
fn dk(v: &[i128], i: usize) -> DurationKind {
    if v[i] != 0 {
        DurationKind::Infinite
    } else {
        DurationKind::Finite(Duration::new(v[i + 1] as i32, v[i + 2] as u32))
    }
}
fn len(t: &str) -> Length {
    if t == "u" { Length::Unlimited } else { Length::Limited(t.parse::<i64>().unwrap() as i32) }
}
fn blob(toks: &[&str]) -> Vec<u8> {
    // "fill <len> <byte>" | "hex <hex>"
    match toks[0] {
        "fill" => vec![toks[2].parse::<u8>().unwrap(); toks[1].parse::<usize>().unwrap()],
        _ => hex(toks[1]),
    }
}

fn enc(toks: &[&str]) -> String {
    let v: Vec<i128> = toks[1..].iter().filter_map(|t| t.parse::<i128>().ok()).collect();
    match toks[0] {
        "key" => {
            let b = hex(toks[1]);
            let mut a = [0u8; 16];
            a.copy_from_slice(&b);
            body(BuiltInTopicKey { value: a })
        }
        "str" => body(_String { value: String::from_utf8(hex(toks[1])).unwrap() }),
        "userdata" => body(UserDataQosPolicy { value: blob(&toks[1..]) }),
        "topicdata" => body(TopicDataQosPolicy { value: blob(&toks[1..]) }),
        "groupdata" => body(GroupDataQosPolicy { value: blob(&toks[1..]) }),
        "transprio" => body(TransportPriorityQosPolicy { value: v[0] as i32 }),
        "ownstr" => body(OwnershipStrengthQosPolicy { value: v[0] as i32 }),
        "lifespan" => body(LifespanQosPolicy { duration: dk(&v, 0) }),
        "deadline" => body(DeadlineQosPolicy { period: dk(&v, 0) }),
        "latency" => body(LatencyBudgetQosPolicy { duration: dk(&v, 0) }),
        "tbf" => body(TimeBasedFilterQosPolicy { minimum_separation: dk(&v, 0) }),
        "durability" => body(DurabilityQosPolicy {
            kind: match v[0] {
                0 => DurabilityQosPolicyKind::Volatile,
                1 => DurabilityQosPolicyKind::TransientLocal,
                2 => DurabilityQosPolicyKind::Transient,
                _ => DurabilityQosPolicyKind::Persistent,
            },
        }),
        "presentation" => body(PresentationQosPolicy {
            access_scope: if v[0] == 0 { PresentationQosPolicyAccessScopeKind::Instance } else { PresentationQosPolicyAccessScopeKind::Topic },
            coherent_access: v[1] != 0,
            ordered_access: v[2] != 0,
        }),
        "liveliness" => body(LivelinessQosPolicy {
            kind: match v[0] {
                0 => LivelinessQosPolicyKind::Automatic,
                1 => LivelinessQosPolicyKind::ManualByParticipant,
                _ => LivelinessQosPolicyKind::ManualByTopic,
            },
            lease_duration: dk(&v, 1),
        }),
        "reliability" => body(ReliabilityQosPolicy {
            kind: if v[0] == 1 { ReliabilityQosPolicyKind::BestEffort } else { ReliabilityQosPolicyKind::Reliable },
            max_blocking_time: dk(&v, 1),
        }),
        "destorder" => body(DestinationOrderQosPolicy {
            kind: if v[0] == 0 { DestinationOrderQosPolicyKind::ByReceptionTimestamp } else { DestinationOrderQosPolicyKind::BySourceTimestamp },
        }),
        "ownership" => body(OwnershipQosPolicy {
            kind: if v[0] == 0 { OwnershipQosPolicyKind::Shared } else { OwnershipQosPolicyKind::Exclusive },
        }),
        "history" => body(HistoryQosPolicy {
            kind: if v[0] == 0 { HistoryQosPolicyKind::KeepLast(v[1] as u32) } else { HistoryQosPolicyKind::KeepAll },
        }),
        "reslimits" => body(ResourceLimitsQosPolicy {
            max_samples: len(toks[1]),
            max_instances: len(toks[2]),
            max_samples_per_instance: len(toks[3]),
        }),
        "partition" => body(PartitionQosPolicy {
            name: toks[1..].iter().map(|t| String::from_utf8(hex(t)).unwrap()).collect(),
        }),
        "datarep" => body(DataRepresentationQosPolicy { value: v.iter().map(|x| *x as u16).collect() }),
        "tce" => body(TypeConsistencyEnforcementQosPolicy {
            kind: if v[0] == 0 { TypeConsistencyKind::DisallowTypeCoercion } else { TypeConsistencyKind::AllowTypeCoercion },
            ignore_sequence_bounds: v[1] != 0,
            ignore_string_bounds: v[2] != 0,
            ignore_member_names: v[3] != 0,
            prevent_type_widening: v[4] != 0,
            force_type_validation: v[5] != 0,
        }),
        _ => "BADPOLICY".to_string(),
    }
}

// ---------------------------------------------------------------- end-to-end SPDP announcement
#[derive(Clone)]
struct NoClock;
impl Clock for NoClock {
    fn now(&self) -> Time {
        Time::new(1_700_000_000, 0)
    }
}
#[derive(Clone)]
struct NoTimer;
impl Timer for NoTimer {
    fn delay(&mut self, _d: core::time::Duration) -> impl core::future::Future<Output = ()> + Send {
        async {}
    }
}
struct NoTask;
impl TaskHandle for NoTask {
    fn join(&self) {}
}
#[derive(Clone)]
struct NoSpawner;
impl Spawner for NoSpawner {
    type TaskHandle = NoTask;
    fn spawn(&self, _f: impl core::future::Future<Output = ()> + Send + 'static) -> NoTask {
        NoTask
    }
}
struct NoRuntime;
impl DdsRuntime for NoRuntime {
    type ClockHandle = NoClock;
    type TimerHandle = NoTimer;
    type SpawnerHandle = NoSpawner;
    fn timer(&self) -> NoTimer {
        NoTimer
    }
    fn clock(&self) -> NoClock {
        NoClock
    }
    fn spawner(&self) -> NoSpawner {
        NoSpawner
    }
}
struct NoWire;
impl WriteMessage for NoWire {
    fn write_message(&self, _buf: &[u8], _locators: &[Locator]) {}
}
fn sender() -> DcpsSender {
    static CH: OnceLock<&'static DcpsChannel> = OnceLock::new();
    CH.get_or_init(|| Box::leak(Box::new(DcpsChannel::new()))).sender()
}
fn locs(toks: &[&str], i: &mut usize) -> Vec<Locator> {
    let n = toks[*i].parse::<usize>().unwrap();
    *i += 1;
    let mut out = vec![];
    for _ in 0..n {
        let kind = toks[*i].parse::<i64>().unwrap() as i32;
        let port = toks[*i + 1].parse::<i64>().unwrap() as u32;
        let a = hex(toks[*i + 2]);
        let mut addr = [0u8; 16];
        addr.copy_from_slice(&a);
        out.push(Locator::new(kind, port, addr));
        *i += 3;
    }
    out
}

/// ann <domain_id> <tag-hex> <prefix-hex(12)> (fill <len> <byte> | hex <hex>) <mu> <mm> <du> <dm>
fn ann(toks: &[&str]) -> String {
    let domain_id = toks[0].parse::<i64>().unwrap() as i32;
    let tag = String::from_utf8(hex(toks[1])).unwrap();
    let mut prefix = [0u8; 12];
    prefix.copy_from_slice(&hex(toks[2]));
    let ud = blob(&toks[3..]);
    let mut i = if toks[3] == "fill" { 6 } else { 5 };
    let mu = locs(toks, &mut i);
    let mm = locs(toks, &mut i);
    let du = locs(toks, &mut i);
    let dm = locs(toks, &mut i);
    let transport = RtpsTransportParticipant {
        message_writer: Box::new(NoWire),
        default_unicast_locator_list: du,
        metatraffic_unicast_locator_list: mu,
        metatraffic_multicast_locator_list: mm,
        default_multicast_locator_list: dm,
        fragment_size: 1344,
    };
    let mut qos = DomainParticipantQos::default();
    qos.user_data = UserDataQosPolicy { value: ud };
    let mut p = DcpsDomainParticipant::new(
        domain_id,
        tag,
        prefix,
        qos,
        None,
        StatusMask::default(),
        transport,
        sender(),
        core::time::Duration::from_secs(5),
    );
    p.domain_participant.enabled = true;
    p.domain_participant.builtin_publisher.dcps_participant_writer.enabled = true;
    p.announce_participant(&NoRuntime);
    let ch = p.domain_participant.builtin_publisher.dcps_participant_writer.transport_writer.changes();
    let Some(last) = ch.last() else {
        return "NOCHANGE".to_string();
    };
    let b: &[u8] = last.data_value.as_ref();
    format!("OK {} ## {}", to_hex(b), dec("p", b))
}

fn run_line(line: &str) -> String {
    let toks: Vec<&str> = line.split_whitespace().collect();
    match toks[0] {
        "dec" => dec(toks[1], &hex(toks.get(2).copied().unwrap_or("-"))),
        "enc" => enc(&toks[1..]),
        "ann" => ann(&toks[1..]),
        _ => "BADOP".to_string(),
    }
}

fn main() {
    vh::main_loop_sites(run_line);
}
