//! Entity-management scenario interpreter (C35 / C36 / C37) over the simulated stack
//! (copied from bin/sim.rs and extended).  One scenario per stdin line, ops separated by
//! ';'.  Because the factory owns a process-wide static channel, every scenario runs in a
//! fresh child process (`entity --one`); the child prints one line per op, the parent joins
//! them with " | " (so everything observed before a panic is kept).
//!
//! Entities are named by their index in the list of SUCCESSFULLY created proxies of their
//! kind (creation order, starting at 0).  A bad index gives `X`.
//!
//!   FQ <0|1>                      factory set_qos(entity_factory.autoenable_created_entities)
//!   P <domain> [def | ud=<n> auto=<0|1>]          create participant            -> P <handle hex> | P E<n>
//!   T <p> <name id> [def | <eqos kv>]              create topic "t<id>"          -> T <hex>
//!   PUB <p> [def | <gqos kv>] ; SUB <p> [def | <gqos kv>]                       -> PUB <hex>
//!   W <pub> <topic> [def | <eqos kv>] ; R <sub> <topic> [def | <eqos kv>]       -> W <hex>
//!   CFT <p> <name id> <topic>     create content filtered topic "c<id>"         -> CFT 0
//!   RC <sub> <cft> [def | kv]     reader on a content filtered topic            -> R <hex>  (joins the reader list)
//!   delW <w> [<pub>] ; delR <r> [<sub>] ; delPUB <x> [<p>] ; delSUB <x> [<p>] ; delT <t> [<p>] ; delCFT <c> [<p>]
//!                                 delete, optionally THROUGH another parent      -> del 0 | del E<n>
//!   delP <p> ; delall <p>         delete_participant / delete_contained_entities
//!   gq <K> <i>                    get_qos (K = P T PUB SUB W R)                 -> q <ints> | q E<n>
//!   sq <K> <i> [def | kv]         set_qos                                       -> s 0 | s E<n>
//!   en <K> <i>                    enable (K = P T W R)                          -> e 0 | e E<n>
//!   h <K> <i>                     get_instance_handle of the proxy              -> h <hex>
//!   st <W|R> <i>                  matched status (only the return code)         -> st 0 | st E<n>
//!   keepnet                       from now on the in-flight datagrams are kept (discovery works)          -> k
//!   settle                        deliver all datagrams and advance time (6 x 100 ms)                     -> n
//!   mpd <r> <w>                   reader r: get_matched_publication_data(handle of writer w)              -> m <19 ints> | m E<n>
//!                                 (dur dl lat lk ll rel mbt ls ud own str ord sc coh oa part td gd rep)
//!   msd <w> <r>                   writer w: get_matched_subscription_data(handle of reader r)             -> m <18 ints> | m E<n>
//!                                 (dur dl lat lk ll rel mbt own ord ud sep sc coh oa part td gd rep)
//!   burnPUB <p> <n> | burnSUB <p> <n> | burnT <p> <n> | burnW <pub> <topic> <n> | burnR <sub> <topic> <n>
//!                                 n times: create with default QoS, then delete -> b <iterations done> <code of the first failure or 0>
//!
//! eqos kv (topic / writer / reader; keys that do not exist on the kind are ignored):
//!   dur dl lat lk ll rel mbt ord hist(-1 keep all, n keep last n) ms mi mspi (u = unlimited) tp ls own str ud sep rep adu apn
//! gqos kv (publisher / subscriber): sc coh oa part gd auto
//! durations are nanoseconds, -1 = infinite.
use dust_dds::dds_async::content_filtered_topic::ContentFilteredTopicAsync;
use dust_dds::dds_async::data_reader::DataReaderAsync;
use dust_dds::dds_async::data_writer::DataWriterAsync;
use dust_dds::dds_async::domain_participant::DomainParticipantAsync;
use dust_dds::dds_async::domain_participant_factory::DomainParticipantFactoryAsync;
use dust_dds::dds_async::publisher::PublisherAsync;
use dust_dds::dds_async::subscriber::SubscriberAsync;
use dust_dds::dds_async::topic::TopicAsync;
use dust_dds::infrastructure::error::{DdsError, DdsResult};
use dust_dds::infrastructure::instance::InstanceHandle;
use dust_dds::infrastructure::qos::{
    DataReaderQos, DataWriterQos, DomainParticipantFactoryQos, DomainParticipantQos, PublisherQos, QosKind,
    SubscriberQos, TopicQos,
};
use dust_dds::infrastructure::qos_policy::*;
use dust_dds::infrastructure::time::{Duration, DurationKind};
use dust_dds::infrastructure::type_support::DdsType;
use std::collections::HashMap;
use std::io::{BufRead, Write};
use vh::sim::{Sim, SimRuntime, SimTransport};

#[derive(DdsType, Debug, Clone, PartialEq)]
struct KeyedData {
    #[dust_dds(key)]
    id: u8,
    value: Vec<u8>,
}

fn err_code(e: &DdsError) -> i32 {
    match e {
        DdsError::Error(_) => 1,
        DdsError::Unsupported => 2,
        DdsError::BadParameter => 3,
        DdsError::PreconditionNotMet(_) => 4,
        DdsError::OutOfResources => 5,
        DdsError::NotEnabled => 6,
        DdsError::ImmutablePolicy => 7,
        DdsError::InconsistentPolicy => 8,
        DdsError::AlreadyDeleted => 9,
        DdsError::Timeout => 10,
        DdsError::NoData => 11,
        DdsError::IllegalOperation => 12,
    }
}
fn hexh(h: &InstanceHandle) -> String {
    let b: &[u8; 16] = h.as_ref();
    vh::util::to_hex(b)
}

// ------------------------------------------------------------------ QoS specs
type Kv = HashMap<String, String>;
fn kv(tokens: &[&str]) -> Kv {
    let mut m = HashMap::new();
    for t in tokens {
        if let Some((k, v)) = t.split_once('=') {
            m.insert(k.to_string(), v.to_string());
        }
    }
    m
}
fn gi(m: &Kv, k: &str, d: i64) -> i64 {
    m.get(k).and_then(|v| v.parse::<i64>().ok()).unwrap_or(d)
}
fn glen(m: &Kv, k: &str) -> Length {
    match m.get(k).map(|s| s.as_str()) {
        None | Some("u") => Length::Unlimited,
        Some(v) => Length::Limited(v.parse::<i64>().unwrap_or(0) as i32),
    }
}
fn dk(ns: i64) -> DurationKind {
    if ns < 0 {
        DurationKind::Infinite
    } else {
        DurationKind::Finite(Duration::new((ns / 1_000_000_000) as i32, (ns % 1_000_000_000) as u32))
    }
}
fn dk_out(d: &DurationKind) -> i64 {
    match d {
        DurationKind::Infinite => -1,
        DurationKind::Finite(d) => d.sec() as i64 * 1_000_000_000 + d.nanosec() as i64,
    }
}
fn len_out(l: &Length) -> String {
    match l {
        Length::Unlimited => "u".into(),
        Length::Limited(v) => v.to_string(),
    }
}
fn bytes_in(n: i64) -> Vec<u8> {
    if n <= 0 { vec![] } else { vec![n as u8] }
}
fn bytes_out(v: &[u8]) -> i64 {
    match v.len() {
        0 => 0,
        1 => v[0] as i64,
        _ => -1,
    }
}
fn rep_in(n: i64) -> Vec<u16> {
    match n {
        1 => vec![XCDR_DATA_REPRESENTATION],
        2 => vec![XCDR2_DATA_REPRESENTATION],
        3 => vec![XCDR_DATA_REPRESENTATION, XCDR2_DATA_REPRESENTATION],
        4 => vec![XCDR2_DATA_REPRESENTATION, XCDR_DATA_REPRESENTATION],
        _ => vec![],
    }
}
fn rep_out(v: &[u16]) -> i64 {
    let x = XCDR_DATA_REPRESENTATION;
    let y = XCDR2_DATA_REPRESENTATION;
    if v.is_empty() {
        0
    } else if v == [x] {
        1
    } else if v == [y] {
        2
    } else if v == [x, y] {
        3
    } else if v == [y, x] {
        4
    } else {
        -1
    }
}
fn dur_in(n: i64) -> DurabilityQosPolicyKind {
    match n {
        1 => DurabilityQosPolicyKind::TransientLocal,
        2 => DurabilityQosPolicyKind::Transient,
        3 => DurabilityQosPolicyKind::Persistent,
        _ => DurabilityQosPolicyKind::Volatile,
    }
}
fn dur_out(k: &DurabilityQosPolicyKind) -> i64 {
    match k {
        DurabilityQosPolicyKind::Volatile => 0,
        DurabilityQosPolicyKind::TransientLocal => 1,
        DurabilityQosPolicyKind::Transient => 2,
        DurabilityQosPolicyKind::Persistent => 3,
    }
}
fn lk_in(n: i64) -> LivelinessQosPolicyKind {
    match n {
        1 => LivelinessQosPolicyKind::ManualByParticipant,
        2 => LivelinessQosPolicyKind::ManualByTopic,
        _ => LivelinessQosPolicyKind::Automatic,
    }
}
fn lk_out(k: &LivelinessQosPolicyKind) -> i64 {
    match k {
        LivelinessQosPolicyKind::Automatic => 0,
        LivelinessQosPolicyKind::ManualByParticipant => 1,
        LivelinessQosPolicyKind::ManualByTopic => 2,
    }
}
fn rel_in(n: i64) -> ReliabilityQosPolicyKind {
    if n == 1 { ReliabilityQosPolicyKind::Reliable } else { ReliabilityQosPolicyKind::BestEffort }
}
fn rel_out(k: &ReliabilityQosPolicyKind) -> i64 {
    match k {
        ReliabilityQosPolicyKind::BestEffort => 0,
        ReliabilityQosPolicyKind::Reliable => 1,
    }
}
fn ord_in(n: i64) -> DestinationOrderQosPolicyKind {
    if n == 1 { DestinationOrderQosPolicyKind::BySourceTimestamp } else { DestinationOrderQosPolicyKind::ByReceptionTimestamp }
}
fn ord_out(k: &DestinationOrderQosPolicyKind) -> i64 {
    match k {
        DestinationOrderQosPolicyKind::ByReceptionTimestamp => 0,
        DestinationOrderQosPolicyKind::BySourceTimestamp => 1,
    }
}
fn hist_in(n: i64) -> HistoryQosPolicyKind {
    if n < 0 { HistoryQosPolicyKind::KeepAll } else { HistoryQosPolicyKind::KeepLast(n as u32) }
}
fn hist_out(k: &HistoryQosPolicyKind) -> i64 {
    match k {
        HistoryQosPolicyKind::KeepAll => -1,
        HistoryQosPolicyKind::KeepLast(n) => *n as i64,
    }
}
fn own_in(n: i64) -> OwnershipQosPolicyKind {
    if n == 1 { OwnershipQosPolicyKind::Exclusive } else { OwnershipQosPolicyKind::Shared }
}
fn own_out(k: &OwnershipQosPolicyKind) -> i64 {
    match k {
        OwnershipQosPolicyKind::Shared => 0,
        OwnershipQosPolicyKind::Exclusive => 1,
    }
}

/// the uniform 21-slot vector (see header); slots that do not exist on a kind print the
/// fixed constants str=0 sep=0 adu=1 apn=-1 tp=0 ls=-1
#[allow(clippy::too_many_arguments)]
fn vec_out(
    dur: i64, dl: i64, lat: i64, lk: i64, ll: i64, rel: i64, mbt: i64, ord: i64, hist: i64, ms: String, mi: String,
    mspi: String, tp: i64, ls: i64, own: i64, st: i64, ud: i64, sep: i64, rep: i64, adu: i64, apn: i64,
) -> String {
    format!(
        "{} {} {} {} {} {} {} {} {} {} {} {} {} {} {} {} {} {} {} {} {}",
        dur, dl, lat, lk, ll, rel, mbt, ord, hist, ms, mi, mspi, tp, ls, own, st, ud, sep, rep, adu, apn
    )
}

fn topic_qos(m: &Kv) -> TopicQos {
    let mut q = TopicQos::default();
    q.durability.kind = dur_in(gi(m, "dur", 0));
    q.deadline.period = dk(gi(m, "dl", -1));
    q.latency_budget.duration = dk(gi(m, "lat", 0));
    q.liveliness.kind = lk_in(gi(m, "lk", 0));
    q.liveliness.lease_duration = dk(gi(m, "ll", -1));
    q.reliability.kind = rel_in(gi(m, "rel", 0));
    q.reliability.max_blocking_time = dk(gi(m, "mbt", 100_000_000));
    q.destination_order.kind = ord_in(gi(m, "ord", 0));
    q.history.kind = hist_in(gi(m, "hist", 1));
    q.resource_limits.max_samples = glen(m, "ms");
    q.resource_limits.max_instances = glen(m, "mi");
    q.resource_limits.max_samples_per_instance = glen(m, "mspi");
    q.transport_priority.value = gi(m, "tp", 0) as i32;
    q.lifespan.duration = dk(gi(m, "ls", -1));
    q.ownership.kind = own_in(gi(m, "own", 0));
    q.topic_data.value = bytes_in(gi(m, "ud", 0));
    q.representation.value = rep_in(gi(m, "rep", 0));
    q
}
fn topic_qos_out(q: &TopicQos) -> String {
    vec_out(
        dur_out(&q.durability.kind), dk_out(&q.deadline.period), dk_out(&q.latency_budget.duration),
        lk_out(&q.liveliness.kind), dk_out(&q.liveliness.lease_duration), rel_out(&q.reliability.kind),
        dk_out(&q.reliability.max_blocking_time), ord_out(&q.destination_order.kind), hist_out(&q.history.kind),
        len_out(&q.resource_limits.max_samples), len_out(&q.resource_limits.max_instances),
        len_out(&q.resource_limits.max_samples_per_instance), q.transport_priority.value as i64,
        dk_out(&q.lifespan.duration), own_out(&q.ownership.kind), 0, bytes_out(&q.topic_data.value), 0,
        rep_out(&q.representation.value), 1, -1,
    )
}
fn writer_qos(m: &Kv) -> DataWriterQos {
    let mut q = DataWriterQos::default();
    q.durability.kind = dur_in(gi(m, "dur", 0));
    q.deadline.period = dk(gi(m, "dl", -1));
    q.latency_budget.duration = dk(gi(m, "lat", 0));
    q.liveliness.kind = lk_in(gi(m, "lk", 0));
    q.liveliness.lease_duration = dk(gi(m, "ll", -1));
    q.reliability.kind = rel_in(gi(m, "rel", 1));
    q.reliability.max_blocking_time = dk(gi(m, "mbt", 100_000_000));
    q.destination_order.kind = ord_in(gi(m, "ord", 0));
    q.history.kind = hist_in(gi(m, "hist", 1));
    q.resource_limits.max_samples = glen(m, "ms");
    q.resource_limits.max_instances = glen(m, "mi");
    q.resource_limits.max_samples_per_instance = glen(m, "mspi");
    q.transport_priority.value = gi(m, "tp", 0) as i32;
    q.lifespan.duration = dk(gi(m, "ls", -1));
    q.ownership.kind = own_in(gi(m, "own", 0));
    q.ownership_strength.value = gi(m, "str", 0) as i32;
    q.user_data.value = bytes_in(gi(m, "ud", 0));
    q.representation.value = rep_in(gi(m, "rep", 0));
    q.writer_data_lifecycle.autodispose_unregistered_instances = gi(m, "adu", 1) != 0;
    q
}
fn writer_qos_out(q: &DataWriterQos) -> String {
    vec_out(
        dur_out(&q.durability.kind), dk_out(&q.deadline.period), dk_out(&q.latency_budget.duration),
        lk_out(&q.liveliness.kind), dk_out(&q.liveliness.lease_duration), rel_out(&q.reliability.kind),
        dk_out(&q.reliability.max_blocking_time), ord_out(&q.destination_order.kind), hist_out(&q.history.kind),
        len_out(&q.resource_limits.max_samples), len_out(&q.resource_limits.max_instances),
        len_out(&q.resource_limits.max_samples_per_instance), q.transport_priority.value as i64,
        dk_out(&q.lifespan.duration), own_out(&q.ownership.kind), q.ownership_strength.value as i64,
        bytes_out(&q.user_data.value), 0, rep_out(&q.representation.value),
        q.writer_data_lifecycle.autodispose_unregistered_instances as i64, -1,
    )
}
fn reader_qos(m: &Kv) -> DataReaderQos {
    let mut q = DataReaderQos::default();
    q.durability.kind = dur_in(gi(m, "dur", 0));
    q.deadline.period = dk(gi(m, "dl", -1));
    q.latency_budget.duration = dk(gi(m, "lat", 0));
    q.liveliness.kind = lk_in(gi(m, "lk", 0));
    q.liveliness.lease_duration = dk(gi(m, "ll", -1));
    q.reliability.kind = rel_in(gi(m, "rel", 0));
    q.reliability.max_blocking_time = dk(gi(m, "mbt", 100_000_000));
    q.destination_order.kind = ord_in(gi(m, "ord", 0));
    q.history.kind = hist_in(gi(m, "hist", 1));
    q.resource_limits.max_samples = glen(m, "ms");
    q.resource_limits.max_instances = glen(m, "mi");
    q.resource_limits.max_samples_per_instance = glen(m, "mspi");
    q.ownership.kind = own_in(gi(m, "own", 0));
    q.user_data.value = bytes_in(gi(m, "ud", 0));
    q.time_based_filter.minimum_separation = dk(gi(m, "sep", 0));
    q.representation.value = rep_in(gi(m, "rep", 0));
    q.reader_data_lifecycle.autopurge_nowriter_samples_delay = dk(gi(m, "apn", -1));
    q
}
fn reader_qos_out(q: &DataReaderQos) -> String {
    vec_out(
        dur_out(&q.durability.kind), dk_out(&q.deadline.period), dk_out(&q.latency_budget.duration),
        lk_out(&q.liveliness.kind), dk_out(&q.liveliness.lease_duration), rel_out(&q.reliability.kind),
        dk_out(&q.reliability.max_blocking_time), ord_out(&q.destination_order.kind), hist_out(&q.history.kind),
        len_out(&q.resource_limits.max_samples), len_out(&q.resource_limits.max_instances),
        len_out(&q.resource_limits.max_samples_per_instance), 0, -1, own_out(&q.ownership.kind), 0,
        bytes_out(&q.user_data.value), dk_out(&q.time_based_filter.minimum_separation),
        rep_out(&q.representation.value), 1, dk_out(&q.reader_data_lifecycle.autopurge_nowriter_samples_delay),
    )
}
fn scope_in(n: i64) -> PresentationQosPolicyAccessScopeKind {
    if n == 1 { PresentationQosPolicyAccessScopeKind::Topic } else { PresentationQosPolicyAccessScopeKind::Instance }
}
fn scope_out(k: &PresentationQosPolicyAccessScopeKind) -> i64 {
    match k {
        PresentationQosPolicyAccessScopeKind::Instance => 0,
        PresentationQosPolicyAccessScopeKind::Topic => 1,
    }
}
fn part_in(n: i64) -> Vec<String> {
    if n <= 0 { vec![] } else { vec![format!("p{}", n)] }
}
fn part_out(v: &[String]) -> i64 {
    match v.len() {
        0 => 0,
        1 => v[0].strip_prefix('p').and_then(|s| s.parse::<i64>().ok()).unwrap_or(-1),
        _ => -1,
    }
}
fn pub_qos(m: &Kv) -> PublisherQos {
    let mut q = PublisherQos::default();
    q.presentation.access_scope = scope_in(gi(m, "sc", 0));
    q.presentation.coherent_access = gi(m, "coh", 0) != 0;
    q.presentation.ordered_access = gi(m, "oa", 0) != 0;
    q.partition.name = part_in(gi(m, "part", 0));
    q.group_data.value = bytes_in(gi(m, "gd", 0));
    q.entity_factory.autoenable_created_entities = gi(m, "auto", 1) != 0;
    q
}
fn pub_qos_out(q: &PublisherQos) -> String {
    format!(
        "{} {} {} {} {} {}",
        scope_out(&q.presentation.access_scope), q.presentation.coherent_access as i64,
        q.presentation.ordered_access as i64, part_out(&q.partition.name), bytes_out(&q.group_data.value),
        q.entity_factory.autoenable_created_entities as i64
    )
}
fn sub_qos(m: &Kv) -> SubscriberQos {
    let mut q = SubscriberQos::default();
    q.presentation.access_scope = scope_in(gi(m, "sc", 0));
    q.presentation.coherent_access = gi(m, "coh", 0) != 0;
    q.presentation.ordered_access = gi(m, "oa", 0) != 0;
    q.partition.name = part_in(gi(m, "part", 0));
    q.group_data.value = bytes_in(gi(m, "gd", 0));
    q.entity_factory.autoenable_created_entities = gi(m, "auto", 1) != 0;
    q
}
fn sub_qos_out(q: &SubscriberQos) -> String {
    format!(
        "{} {} {} {} {} {}",
        scope_out(&q.presentation.access_scope), q.presentation.coherent_access as i64,
        q.presentation.ordered_access as i64, part_out(&q.partition.name), bytes_out(&q.group_data.value),
        q.entity_factory.autoenable_created_entities as i64
    )
}
fn part_qos(m: &Kv) -> DomainParticipantQos {
    let mut q = DomainParticipantQos::default();
    q.user_data.value = bytes_in(gi(m, "ud", 0));
    q.entity_factory.autoenable_created_entities = gi(m, "auto", 1) != 0;
    q
}
fn part_qos_out(q: &DomainParticipantQos) -> String {
    format!("{} {}", bytes_out(&q.user_data.value), q.entity_factory.autoenable_created_entities as i64)
}
fn is_def(t: &[&str]) -> bool {
    t.is_empty() || t[0] == "def"
}

// ------------------------------------------------------------------ the world
struct World {
    sim: Sim,
    factory: DomainParticipantFactoryAsync<SimTransport>,
    parts: Vec<DomainParticipantAsync>,
    topics: Vec<TopicAsync>,
    cfts: Vec<ContentFilteredTopicAsync>,
    pubs: Vec<PublisherAsync>,
    subs: Vec<SubscriberAsync>,
    writers: Vec<DataWriterAsync<KeyedData>>,
    readers: Vec<DataReaderAsync<KeyedData>>,
    keepnet: bool,
}

const BUDGET: i64 = 2_000_000_000;

fn code<T>(r: Result<DdsResult<T>, vh::sim::Stuck>) -> String {
    match r {
        Ok(Ok(_)) => "0".into(),
        Ok(Err(e)) => format!("E{}", err_code(&e)),
        Err(_) => "STUCK".into(),
    }
}

impl World {
    fn op(&mut self, op: &str) -> String {
        let t: Vec<&str> = op.split_whitespace().collect();
        if t.is_empty() {
            return String::new();
        }
        let n = |i: usize| -> i64 { t.get(i).and_then(|x| x.parse::<i64>().ok()).unwrap_or(0) };
        let u = |i: usize| -> usize { n(i) as usize };
        macro_rules! get {
            ($v:expr, $i:expr) => {
                match $v.get($i) {
                    Some(x) => x.clone(),
                    None => return "X".into(),
                }
            };
        }
        match t[0] {
            "FQ" => {
                let mut q = DomainParticipantFactoryQos::default();
                q.entity_factory.autoenable_created_entities = n(1) != 0;
                let f = &self.factory;
                let r = self.sim.run(f.set_qos(QosKind::Specific(q)), BUDGET);
                self.sim.settle();
                format!("FQ {}", code(r))
            }
            "P" => {
                let q = if is_def(&t[2..]) { QosKind::Default } else { QosKind::Specific(part_qos(&kv(&t[2..]))) };
                let f = &self.factory;
                let r = self.sim.run(f.create_participant(n(1) as i32, q, None::<()>, &[]), BUDGET);
                self.sim.settle();
                match r {
                    Ok(Ok(p)) => {
                        let s = format!("P {}", hexh(&p.get_instance_handle()));
                        self.parts.push(p);
                        s
                    }
                    Ok(Err(e)) => format!("P E{}", err_code(&e)),
                    Err(_) => "P STUCK".into(),
                }
            }
            "T" => {
                let p = get!(self.parts, u(1));
                let name = format!("t{}", n(2));
                let q = if is_def(&t[3..]) { QosKind::Default } else { QosKind::Specific(topic_qos(&kv(&t[3..]))) };
                let r = self.sim.run(p.create_topic::<KeyedData>(&name, "KeyedData", q, None::<()>, &[]), BUDGET);
                self.sim.settle();
                match r {
                    Ok(Ok(x)) => {
                        let s = format!("T {}", hexh(&x.get_instance_handle()));
                        self.topics.push(x);
                        s
                    }
                    Ok(Err(e)) => format!("T E{}", err_code(&e)),
                    Err(_) => "T STUCK".into(),
                }
            }
            "CFT" => {
                let p = get!(self.parts, u(1));
                let name = format!("c{}", n(2));
                let tp = get!(self.topics, u(3));
                let r = self.sim.run(p.create_contentfilteredtopic(&name, &tp, String::from("id = %0"), vec!["1".to_string()]), BUDGET);
                self.sim.settle();
                match r {
                    Ok(Ok(x)) => {
                        self.cfts.push(x);
                        "CFT 0".into()
                    }
                    Ok(Err(e)) => format!("CFT E{}", err_code(&e)),
                    Err(_) => "CFT STUCK".into(),
                }
            }
            "PUB" => {
                let p = get!(self.parts, u(1));
                let q = if is_def(&t[2..]) { QosKind::Default } else { QosKind::Specific(pub_qos(&kv(&t[2..]))) };
                let r = self.sim.run(p.create_publisher(q, None::<()>, &[]), BUDGET);
                self.sim.settle();
                match r {
                    Ok(Ok(x)) => {
                        let s = format!("PUB {}", hexh(&x.get_instance_handle()));
                        self.pubs.push(x);
                        s
                    }
                    Ok(Err(e)) => format!("PUB E{}", err_code(&e)),
                    Err(_) => "PUB STUCK".into(),
                }
            }
            "SUB" => {
                let p = get!(self.parts, u(1));
                let q = if is_def(&t[2..]) { QosKind::Default } else { QosKind::Specific(sub_qos(&kv(&t[2..]))) };
                let r = self.sim.run(p.create_subscriber(q, None::<()>, &[]), BUDGET);
                self.sim.settle();
                match r {
                    Ok(Ok(x)) => {
                        let s = format!("SUB {}", hexh(&x.get_instance_handle()));
                        self.subs.push(x);
                        s
                    }
                    Ok(Err(e)) => format!("SUB E{}", err_code(&e)),
                    Err(_) => "SUB STUCK".into(),
                }
            }
            "W" => {
                let pb = get!(self.pubs, u(1));
                let tp = get!(self.topics, u(2));
                let q = if is_def(&t[3..]) { QosKind::Default } else { QosKind::Specific(writer_qos(&kv(&t[3..]))) };
                let r = self.sim.run(pb.create_datawriter::<KeyedData>(&tp, q, None::<()>, &[]), BUDGET);
                self.sim.settle();
                match r {
                    Ok(Ok(x)) => {
                        let s = format!("W {}", hexh(&x.get_instance_handle()));
                        self.writers.push(x);
                        s
                    }
                    Ok(Err(e)) => format!("W E{}", err_code(&e)),
                    Err(_) => "W STUCK".into(),
                }
            }
            "R" | "RC" => {
                let sb = get!(self.subs, u(1));
                let q = if is_def(&t[3..]) { QosKind::Default } else { QosKind::Specific(reader_qos(&kv(&t[3..]))) };
                let r = if t[0] == "R" {
                    let tp = get!(self.topics, u(2));
                    self.sim.run(sb.create_datareader::<KeyedData>(&tp, q, None::<()>, &[]), BUDGET)
                } else {
                    let tp = get!(self.cfts, u(2));
                    self.sim.run(sb.create_datareader::<KeyedData>(&tp, q, None::<()>, &[]), BUDGET)
                };
                self.sim.settle();
                match r {
                    Ok(Ok(x)) => {
                        let s = format!("R {}", hexh(&x.get_instance_handle()));
                        self.readers.push(x);
                        s
                    }
                    Ok(Err(e)) => format!("R E{}", err_code(&e)),
                    Err(_) => "R STUCK".into(),
                }
            }
            "delW" => {
                let w = get!(self.writers, u(1));
                let pb = if t.len() > 2 { get!(self.pubs, u(2)) } else { w.get_publisher() };
                let r = self.sim.run(pb.delete_datawriter(&w), BUDGET);
                self.sim.settle();
                format!("del {}", code(r))
            }
            "delR" => {
                let rd = get!(self.readers, u(1));
                let sb = if t.len() > 2 { get!(self.subs, u(2)) } else { rd.get_subscriber() };
                let r = self.sim.run(sb.delete_datareader(&rd), BUDGET);
                self.sim.settle();
                format!("del {}", code(r))
            }
            "delPUB" => {
                let x = get!(self.pubs, u(1));
                let p = if t.len() > 2 { get!(self.parts, u(2)) } else { x.get_participant() };
                let r = self.sim.run(p.delete_publisher(&x), BUDGET);
                self.sim.settle();
                format!("del {}", code(r))
            }
            "delSUB" => {
                let x = get!(self.subs, u(1));
                let p = if t.len() > 2 { get!(self.parts, u(2)) } else { x.get_participant() };
                let r = self.sim.run(p.delete_subscriber(&x), BUDGET);
                self.sim.settle();
                format!("del {}", code(r))
            }
            "delT" => {
                use dust_dds::dds_async::topic_description::TopicDescriptionAsync;
                let x = get!(self.topics, u(1));
                let p = if t.len() > 2 { get!(self.parts, u(2)) } else { x.get_participant() };
                let r = self.sim.run(p.delete_topic(&x), BUDGET);
                self.sim.settle();
                format!("del {}", code(r))
            }
            "delCFT" => {
                use dust_dds::dds_async::topic_description::TopicDescriptionAsync;
                let x = get!(self.cfts, u(1));
                let p = if t.len() > 2 { get!(self.parts, u(2)) } else { x.get_participant() };
                let r = self.sim.run(p.delete_contentfilteredtopic(&x), BUDGET);
                self.sim.settle();
                format!("del {}", code(r))
            }
            "delall" => {
                let p = get!(self.parts, u(1));
                let r = self.sim.run(p.delete_contained_entities(), BUDGET);
                self.sim.settle();
                format!("del {}", code(r))
            }
            "delP" => {
                let p = get!(self.parts, u(1));
                let f = &self.factory;
                let r = self.sim.run(f.delete_participant(&p), BUDGET);
                self.sim.settle();
                if let Ok(Ok(())) = r {
                    if let Some(e) = self.sim.shared.endpoints.lock().unwrap().get_mut(u(1)) {
                        e.alive = false;
                    }
                }
                format!("del {}", code(r))
            }
            "gq" => {
                let i = u(2);
                let s = match t.get(1).copied().unwrap_or("") {
                    "P" => {
                        let x = get!(self.parts, i);
                        self.sim.run(x.get_qos(), BUDGET).map(|r| r.map(|q| part_qos_out(&q)))
                    }
                    "T" => {
                        let x = get!(self.topics, i);
                        self.sim.run(x.get_qos(), BUDGET).map(|r| r.map(|q| topic_qos_out(&q)))
                    }
                    "PUB" => {
                        let x = get!(self.pubs, i);
                        self.sim.run(x.get_qos(), BUDGET).map(|r| r.map(|q| pub_qos_out(&q)))
                    }
                    "SUB" => {
                        let x = get!(self.subs, i);
                        self.sim.run(x.get_qos(), BUDGET).map(|r| r.map(|q| sub_qos_out(&q)))
                    }
                    "W" => {
                        let x = get!(self.writers, i);
                        self.sim.run(x.get_qos(), BUDGET).map(|r| r.map(|q| writer_qos_out(&q)))
                    }
                    "R" => {
                        let x = get!(self.readers, i);
                        self.sim.run(x.get_qos(), BUDGET).map(|r| r.map(|q| reader_qos_out(&q)))
                    }
                    _ => return "X".into(),
                };
                self.sim.settle();
                match s {
                    Ok(Ok(v)) => format!("q {}", v),
                    Ok(Err(e)) => format!("q E{}", err_code(&e)),
                    Err(_) => "q STUCK".into(),
                }
            }
            "sq" => {
                let i = u(2);
                let def = is_def(&t[3..]);
                let m = kv(&t[3..]);
                let r = match t.get(1).copied().unwrap_or("") {
                    "P" => {
                        let x = get!(self.parts, i);
                        let q = if def { QosKind::Default } else { QosKind::Specific(part_qos(&m)) };
                        self.sim.run(x.set_qos(q), BUDGET)
                    }
                    "T" => {
                        let x = get!(self.topics, i);
                        let q = if def { QosKind::Default } else { QosKind::Specific(topic_qos(&m)) };
                        self.sim.run(x.set_qos(q), BUDGET)
                    }
                    "PUB" => {
                        let x = get!(self.pubs, i);
                        let q = if def { QosKind::Default } else { QosKind::Specific(pub_qos(&m)) };
                        self.sim.run(x.set_qos(q), BUDGET)
                    }
                    "SUB" => {
                        let x = get!(self.subs, i);
                        let q = if def { QosKind::Default } else { QosKind::Specific(sub_qos(&m)) };
                        self.sim.run(x.set_qos(q), BUDGET)
                    }
                    "W" => {
                        let x = get!(self.writers, i);
                        let q = if def { QosKind::Default } else { QosKind::Specific(writer_qos(&m)) };
                        self.sim.run(x.set_qos(q), BUDGET)
                    }
                    "R" => {
                        let x = get!(self.readers, i);
                        let q = if def { QosKind::Default } else { QosKind::Specific(reader_qos(&m)) };
                        self.sim.run(x.set_qos(q), BUDGET)
                    }
                    _ => return "X".into(),
                };
                self.sim.settle();
                format!("s {}", code(r))
            }
            "en" => {
                let i = u(2);
                let r = match t.get(1).copied().unwrap_or("") {
                    "P" => {
                        let x = get!(self.parts, i);
                        self.sim.run(x.enable(), BUDGET)
                    }
                    "T" => {
                        let x = get!(self.topics, i);
                        self.sim.run(x.enable(), BUDGET)
                    }
                    "W" => {
                        let x = get!(self.writers, i);
                        self.sim.run(x.enable(), BUDGET)
                    }
                    "R" => {
                        let x = get!(self.readers, i);
                        self.sim.run(x.enable(), BUDGET)
                    }
                    _ => return "X".into(),
                };
                self.sim.settle();
                format!("e {}", code(r))
            }
            "h" => {
                let i = u(2);
                let h = match t.get(1).copied().unwrap_or("") {
                    "P" => get!(self.parts, i).get_instance_handle(),
                    "T" => get!(self.topics, i).get_instance_handle(),
                    "PUB" => get!(self.pubs, i).get_instance_handle(),
                    "SUB" => get!(self.subs, i).get_instance_handle(),
                    "W" => get!(self.writers, i).get_instance_handle(),
                    "R" => get!(self.readers, i).get_instance_handle(),
                    _ => return "X".into(),
                };
                format!("h {}", hexh(&h))
            }
            "st" => {
                let i = u(2);
                let r = match t.get(1).copied().unwrap_or("") {
                    "W" => {
                        let x = get!(self.writers, i);
                        self.sim.run(x.get_publication_matched_status(), BUDGET).map(|r| r.map(|_| ()))
                    }
                    "R" => {
                        let x = get!(self.readers, i);
                        self.sim.run(x.get_subscription_matched_status(), BUDGET).map(|r| r.map(|_| ()))
                    }
                    _ => return "X".into(),
                };
                self.sim.settle();
                format!("st {}", code(r))
            }
            "keepnet" => {
                self.keepnet = true;
                "k".into()
            }
            "settle" => {
                // let discovery finish: deliver everything, let time pass, several rounds
                for _ in 0..6 {
                    self.sim.pump(100_000, &mut |_| 0);
                    self.sim.advance(100_000_000);
                }
                self.sim.pump(100_000, &mut |_| 0);
                "n".into()
            }
            "mpd" => {
                let rd = get!(self.readers, u(1));
                let w = get!(self.writers, u(2));
                let r = self.sim.run(rd.get_matched_publication_data(w.get_instance_handle()), BUDGET);
                self.sim.settle();
                match r {
                    Ok(Ok(d)) => format!(
                        "m {} {} {} {} {} {} {} {} {} {} {} {} {} {} {} {} {} {} {}",
                        dur_out(&d.durability().kind), dk_out(&d.deadline().period), dk_out(&d.latency_budget().duration),
                        lk_out(&d.liveliness().kind), dk_out(&d.liveliness().lease_duration), rel_out(&d.reliability().kind),
                        dk_out(&d.reliability().max_blocking_time), dk_out(&d.lifespan().duration),
                        bytes_out(&d.user_data().value), own_out(&d.ownership().kind), d.ownership_strength().value,
                        ord_out(&d.destination_order().kind), scope_out(&d.presentation().access_scope),
                        d.presentation().coherent_access as i64, d.presentation().ordered_access as i64,
                        part_out(&d.partition().name), bytes_out(&d.topic_data().value), bytes_out(&d.group_data().value),
                        rep_out(&d.representation().value)
                    ),
                    Ok(Err(e)) => format!("m E{}", err_code(&e)),
                    Err(_) => "m STUCK".into(),
                }
            }
            "msd" => {
                let w = get!(self.writers, u(1));
                let rd = get!(self.readers, u(2));
                let r = self.sim.run(w.get_matched_subscription_data(rd.get_instance_handle()), BUDGET);
                self.sim.settle();
                match r {
                    Ok(Ok(d)) => format!(
                        "m {} {} {} {} {} {} {} {} {} {} {} {} {} {} {} {} {} {}",
                        dur_out(&d.durability().kind), dk_out(&d.deadline().period), dk_out(&d.latency_budget().duration),
                        lk_out(&d.liveliness().kind), dk_out(&d.liveliness().lease_duration), rel_out(&d.reliability().kind),
                        dk_out(&d.reliability().max_blocking_time), own_out(&d.ownership().kind),
                        ord_out(&d.destination_order().kind), bytes_out(&d.user_data().value),
                        dk_out(&d.time_based_filter().minimum_separation), scope_out(&d.presentation().access_scope),
                        d.presentation().coherent_access as i64, d.presentation().ordered_access as i64,
                        part_out(&d.partition().name), bytes_out(&d.topic_data().value), bytes_out(&d.group_data().value),
                        rep_out(&d.representation().value)
                    ),
                    Ok(Err(e)) => format!("m E{}", err_code(&e)),
                    Err(_) => "m STUCK".into(),
                }
            }
            "burnPUB" | "burnSUB" | "burnT" => {
                let p = get!(self.parts, u(1));
                let total = n(2);
                let mut done = 0;
                let mut c = "0".to_string();
                for _ in 0..total {
                    let r = match t[0] {
                        "burnPUB" => match self.sim.run(p.create_publisher(QosKind::Default, None::<()>, &[]), BUDGET) {
                            Ok(Ok(x)) => self.sim.run(p.delete_publisher(&x), BUDGET),
                            Ok(Err(e)) => Ok(Err(e)),
                            Err(s) => Err(s),
                        },
                        "burnSUB" => match self.sim.run(p.create_subscriber(QosKind::Default, None::<()>, &[]), BUDGET) {
                            Ok(Ok(x)) => self.sim.run(p.delete_subscriber(&x), BUDGET),
                            Ok(Err(e)) => Ok(Err(e)),
                            Err(s) => Err(s),
                        },
                        _ => match self.sim.run(p.create_topic::<KeyedData>("burn", "KeyedData", QosKind::Default, None::<()>, &[]), BUDGET) {
                            Ok(Ok(x)) => self.sim.run(p.delete_topic(&x), BUDGET),
                            Ok(Err(e)) => Ok(Err(e)),
                            Err(s) => Err(s),
                        },
                    };
                    let k = code(r);
                    if k != "0" {
                        c = k;
                        break;
                    }
                    done += 1;
                }
                self.sim.settle();
                format!("b {} {}", done, c)
            }
            "burnW" | "burnR" => {
                let tp = get!(self.topics, u(2));
                let total = n(3);
                let mut done = 0;
                let mut c = "0".to_string();
                for _ in 0..total {
                    let r = if t[0] == "burnW" {
                        let pb = get!(self.pubs, u(1));
                        match self.sim.run(pb.create_datawriter::<KeyedData>(&tp, QosKind::Default, None::<()>, &[]), BUDGET) {
                            Ok(Ok(x)) => self.sim.run(pb.delete_datawriter(&x), BUDGET),
                            Ok(Err(e)) => Ok(Err(e)),
                            Err(s) => Err(s),
                        }
                    } else {
                        let sb = get!(self.subs, u(1));
                        match self.sim.run(sb.create_datareader::<KeyedData>(&tp, QosKind::Default, None::<()>, &[]), BUDGET) {
                            Ok(Ok(x)) => self.sim.run(sb.delete_datareader(&x), BUDGET),
                            Ok(Err(e)) => Ok(Err(e)),
                            Err(s) => Err(s),
                        }
                    };
                    let k = code(r);
                    if k != "0" {
                        c = k;
                        break;
                    }
                    done += 1;
                    // drop the discovery datagrams of the deleted endpoint: nobody listens
                    self.sim.shared.inflight.lock().unwrap().clear();
                    self.sim.shared.sent_log.lock().unwrap().clear();
                }
                self.sim.settle();
                format!("b {} {}", done, c)
            }
            _ => format!("?{}", t[0]),
        }
    }
}

fn run_scenario(line: &str) {
    let sim = Sim::new(1344);
    let factory = DomainParticipantFactoryAsync::new(
        SimRuntime(sim.shared.clone()),
        [1, 2, 3, 4],
        [5, 6, 7, 8],
        SimTransport(sim.shared.clone()),
        Default::default(),
    );
    let mut w = World {
        sim,
        factory,
        parts: vec![],
        topics: vec![],
        cfts: vec![],
        pubs: vec![],
        subs: vec![],
        writers: vec![],
        readers: vec![],
        keepnet: false,
    };
    let stdout = std::io::stdout();
    for op in line.split(';') {
        let op = op.trim();
        if op.is_empty() {
            continue;
        }
        let r = w.op(op);
        let mut o = stdout.lock();
        writeln!(o, "{}", r).unwrap();
        o.flush().unwrap();
        // the discovery traffic is not part of these properties (unless `keepnet`): keep the queues short
        if !w.keepnet {
            w.sim.shared.inflight.lock().unwrap().clear();
        }
        w.sim.shared.sent_log.lock().unwrap().clear();
    }
}

fn main() {
    let args: Vec<String> = std::env::args().collect();
    if args.get(1).map(|s| s.as_str()) == Some("--one") {
        // child: one scenario on stdin
        let mut line = String::new();
        std::io::stdin().lock().read_line(&mut line).unwrap();
        std::panic::set_hook(Box::new(|info| {
            let s = info.location().map(|l| format!("{}:{}", l.file(), l.line())).unwrap_or_default();
            println!("PANIC {}", s);
            std::process::exit(3);
        }));
        run_scenario(line.trim());
        std::process::exit(0);
    }
    let exe = std::env::current_exe().unwrap();
    let stdin = std::io::stdin();
    let stdout = std::io::stdout();
    let mut out = stdout.lock();
    for line in stdin.lock().lines() {
        let line = line.unwrap();
        if line.trim().is_empty() {
            continue;
        }
        let mut child = std::process::Command::new(&exe)
            .arg("--one")
            .stdin(std::process::Stdio::piped())
            .stdout(std::process::Stdio::piped())
            .stderr(std::process::Stdio::null())
            .spawn()
            .unwrap();
        child.stdin.take().unwrap().write_all(format!("{}\n", line).as_bytes()).unwrap();
        let o = child.wait_with_output().unwrap();
        let s = String::from_utf8_lossy(&o.stdout);
        let parts: Vec<&str> = s.lines().filter(|l| !l.trim().is_empty()).collect();
        let mut joined = parts.join(" | ");
        if !o.status.success() && !joined.contains("PANIC") {
            joined = if joined.is_empty() { "ABORT".to_string() } else { format!("{} | ABORT", joined) };
        }
        writeln!(out, "{}", if joined.is_empty() { "ABORT".to_string() } else { joined }).unwrap();
        out.flush().unwrap();
    }
}
