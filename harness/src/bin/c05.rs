//! C05 — fragmentation / reassembly / NACK_FRAG repair, driven on the REAL
//! RtpsStatefulWriter, RtpsStatefulReader (+ its RtpsWriterProxy) and CacheChange.
//!
//! One case per line:  `<rel> <nreaders> <f> [<fair>] | op | op | ...`   (fair is only read by the oracle)
//!   rel      1 = RELIABLE reader and reader proxies, 0 = BEST_EFFORT
//!   nreaders 1 or 2 reader proxies matched at the writer (reader under test is R1)
//!   f        data_max_size_serialized of the writer
//! ops:
//!   W <hex>                         writer.add_change(next sn, payload)
//!   D <sn> <idx> <which>            deliver to R1 the datagram that carried fragment idx (0-based)
//!                                   of sample sn addressed to reader <which> (DATA: idx 0)
//!   X <rid> <sn> <start> <nsub> <fsize> <dsize> <hex>   a hand-made DATA_FRAG, serialised, parsed, delivered
//!   H <first> <last> <count> <final>  heartbeat handling exactly as communication_methods.rs does it
//!   N                               R1's last NACK_FRAG -> writer; responses -> R1
//!   F <count> <sn> <base> <n,n,..>  forged NACK_FRAG from R1 -> writer; responses -> R1
//!   A                               R1's last ACKNACK -> writer; responses -> R1
//! Output: one observation per op joined by " | ", then " # " and R1's changes.
use dust_dds::infrastructure::time::Time;
use dust_dds::rtps::stateful_reader::RtpsStatefulReader;
use dust_dds::rtps::stateful_writer::RtpsStatefulWriter;
use dust_dds::rtps_messages::overall_structure::{
    RtpsMessageRead, RtpsMessageWrite, RtpsSubmessageReadKind,
};
use dust_dds::rtps_messages::submessage_elements::{
    FragmentNumberSet, ParameterList, SerializedDataFragment,
};
use dust_dds::rtps_messages::submessages::data_frag::DataFragSubmessage;
use dust_dds::rtps_messages::submessages::nack_frag::NackFragSubmessage;
use dust_dds::runtime::Clock;
use dust_dds::transport::interface::WriteMessage;
use dust_dds::transport::types::{
    CacheChange, ChangeKind, DurabilityKind, EntityId, Guid, Locator, ReaderProxy,
    ReliabilityKind, WriterProxy, ENTITYID_UNKNOWN,
};
use std::collections::HashMap;
use std::sync::Mutex;

struct Cap(Mutex<Vec<Vec<u8>>>);
impl WriteMessage for Cap {
    fn write_message(&self, buf: &[u8], _l: &[Locator]) {
        self.0.lock().unwrap().push(buf.to_vec());
    }
}
impl Cap {
    fn new() -> Self {
        Cap(Mutex::new(Vec::new()))
    }
    fn take(&self) -> Vec<Vec<u8>> {
        std::mem::take(&mut *self.0.lock().unwrap())
    }
}
struct Clk;
impl Clock for Clk {
    fn now(&self) -> Time {
        Time::new(1, 0)
    }
}

const WPREFIX: [u8; 12] = [1; 12];
const RPREFIX: [u8; 12] = [2; 12];

fn rid_of(code: i128) -> EntityId {
    // 1 -> R1, 2 -> R2, anything else -> some other reader id
    EntityId::new([(code >> 16) as u8, (code >> 8) as u8, code as u8], 0x07)
}
fn code_of(e: EntityId) -> i128 {
    let k = e.entity_key();
    ((k[0] as i128) << 16) | ((k[1] as i128) << 8) | (k[2] as i128)
}

/// data above 1024 bytes is reported as `#<len>.<63-bit FNV-1a digest>` (see FragCorr.v)
fn od(b: &[u8]) -> String {
    if b.len() > 1024 {
        let mut h: u64 = 1469598103934665603;
        for x in b {
            h = ((h ^ (*x as u64)).wrapping_mul(1099511628211)) & 0x7fff_ffff_ffff_ffff;
        }
        format!("#{}.{}", b.len(), h)
    } else {
        vh::util::to_hex(b)
    }
}

fn item_of(sm: &RtpsSubmessageReadKind) -> Option<String> {
    match sm {
        RtpsSubmessageReadKind::DataFrag(f) => Some(format!(
            "F:{}:{}:{}:{}:{}:{}:{}",
            code_of(f.reader_id()),
            f.writer_sn(),
            f.fragment_starting_num(),
            f.fragments_in_submessage(),
            f.fragment_size(),
            f.data_size(),
            od(f.serialized_payload().as_ref())
        )),
        RtpsSubmessageReadKind::Data(d) => Some(format!(
            "D:{}:{}:{}",
            code_of(d.reader_id()),
            d.writer_sn(),
            od(d.serialized_payload().as_ref())
        )),
        RtpsSubmessageReadKind::Gap(g) => Some(format!("G:{}", g.gap_start())),
        _ => None,
    }
}

struct Sys {
    writer: RtpsStatefulWriter,
    reader: RtpsStatefulReader,
    wguid: Guid,
    r1: Guid,
    next_sn: i64,
    net: HashMap<(i128, i64, i64), Vec<u8>>,
    last_reply: Option<Vec<u8>>,
}

impl Sys {
    fn deliver(&mut self, dg: &[u8]) {
        if let Ok(m) = RtpsMessageRead::try_from(dg) {
            let prefix = m.header().guid_prefix();
            for sm in m.submessages() {
                match sm {
                    RtpsSubmessageReadKind::DataFrag(f) => {
                        self.reader.on_data_frag_submessage(f, prefix, None)
                    }
                    RtpsSubmessageReadKind::Data(d) => {
                        self.reader.on_data_submessage(d, prefix, None)
                    }
                    _ => (),
                }
            }
        }
    }
    fn items(dgs: &[Vec<u8>]) -> Vec<String> {
        let mut v = Vec::new();
        for dg in dgs {
            if let Ok(m) = RtpsMessageRead::try_from(dg.as_slice()) {
                for sm in m.submessages() {
                    if let Some(s) = item_of(sm) {
                        v.push(s);
                    }
                }
            }
        }
        v
    }
    fn nchanges(&mut self) -> usize {
        self.reader.changes_mut().len()
    }
    fn respond(&mut self, dgs: Vec<Vec<u8>>) -> String {
        let it = Self::items(&dgs);
        for dg in &dgs {
            self.deliver(dg);
        }
        format!("S {} ; C {}", it.join(" "), self.nchanges())
    }
}

fn run_line(line: &str) -> String {
    let mut parts = line.split('|').map(|s| s.trim());
    let cfg = vh::util::ints(parts.next().unwrap());
    let rel = if cfg[0] == 1 { ReliabilityKind::Reliable } else { ReliabilityKind::BestEffort };
    let nreaders = cfg[1];
    let f = cfg[2] as usize;
    let wguid = Guid::new(WPREFIX, EntityId::new([0, 0, 9], 0x02));
    let r1 = Guid::new(RPREFIX, rid_of(1));
    let r2 = Guid::new(RPREFIX, rid_of(2));
    let mut writer = RtpsStatefulWriter::new(wguid, f);
    for (k, g) in [r1, r2].iter().enumerate() {
        if (k as i128) < nreaders {
            writer.add_matched_reader(ReaderProxy {
                remote_reader_guid: *g,
                remote_group_entity_id: ENTITYID_UNKNOWN,
                reliability_kind: rel,
                durability_kind: DurabilityKind::TransientLocal,
                unicast_locator_list: vec![],
                multicast_locator_list: vec![],
                expects_inline_qos: false,
            });
        }
    }
    let mut reader = RtpsStatefulReader::new(r1, rel);
    reader.add_matched_writer(&WriterProxy {
        remote_writer_guid: wguid,
        remote_group_entity_id: ENTITYID_UNKNOWN,
        reliability_kind: rel,
        durability_kind: DurabilityKind::TransientLocal,
        unicast_locator_list: vec![],
        multicast_locator_list: vec![],
    });
    let mut s = Sys { writer, reader, wguid, r1, next_sn: 1, net: HashMap::new(), last_reply: None };
    let mut obs: Vec<String> = Vec::new();
    for op in parts {
        if op.is_empty() {
            continue;
        }
        let (k, rest) = op.split_once(' ').unwrap_or((op, ""));
        match k {
            "W" => {
                let data = vh::util::hex(rest);
                let sn = s.next_sn;
                s.next_sn += 1;
                let cap = Cap::new();
                s.writer.add_change(
                    CacheChange {
                        kind: ChangeKind::Alive,
                        writer_guid: s.wguid,
                        sequence_number: sn,
                        source_timestamp: None,
                        instance_handle: None,
                        data_value: data.into(),
                    },
                    &cap,
                    &Clk,
                );
                let dgs = cap.take();
                for dg in &dgs {
                    if let Ok(m) = RtpsMessageRead::try_from(dg.as_slice()) {
                        for sm in m.submessages() {
                            match sm {
                                RtpsSubmessageReadKind::DataFrag(fr) => {
                                    s.net.insert(
                                        (
                                            code_of(fr.reader_id()),
                                            fr.writer_sn(),
                                            fr.fragment_starting_num() as i64 - 1,
                                        ),
                                        dg.clone(),
                                    );
                                }
                                RtpsSubmessageReadKind::Data(d) => {
                                    s.net.insert((code_of(d.reader_id()), d.writer_sn(), 0), dg.clone());
                                }
                                _ => (),
                            }
                        }
                    }
                }
                obs.push(format!("S {}", Sys::items(&dgs).join(" ")));
            }
            "D" => {
                let v = vh::util::ints(rest);
                if let Some(dg) = s.net.get(&(v[2], v[0] as i64, v[1] as i64)).cloned() {
                    s.deliver(&dg);
                }
                obs.push(format!("C {}", s.nchanges()));
            }
            "X" => {
                let mut t = rest.split_whitespace();
                let mut n = || t.next().unwrap().parse::<i128>().unwrap();
                let (rid, sn, start, nsub, fsize, dsize) = (n(), n(), n(), n(), n(), n());
                let data = vh::util::hex(t.next().unwrap_or("-"));
                let frag = DataFragSubmessage::new(
                    true,
                    false,
                    false,
                    rid_of(rid),
                    s.wguid.entity_id(),
                    sn as i64,
                    start as u32,
                    nsub as u16,
                    fsize as u16,
                    dsize as u32,
                    ParameterList::new(Vec::new()),
                    SerializedDataFragment::from(data.as_slice()),
                );
                let msg = RtpsMessageWrite::from_submessages(&[&frag], WPREFIX);
                let dg = msg.buffer().to_vec();
                s.deliver(&dg);
                obs.push(format!("C {}", s.nchanges()));
            }
            "H" => {
                let v = vh::util::ints(rest);
                let (first, last, count, fin) = (v[0] as i64, v[1] as i64, v[2] as i32, v[3] != 0);
                let liveliness = false;
                let cap = Cap::new();
                let reader_guid = s.reader.guid();
                // transcription of communication_methods.rs (heartbeat handling of a user reader);
                // a HEARTBEAT with firstSN <= 0 is ignored there before any reader is looked up
                if first <= 0 {
                } else if let Some(writer_proxy) = s.reader.matched_writer_lookup(s.wguid) {
                    if writer_proxy.last_received_heartbeat_count() < count {
                        writer_proxy.set_last_received_heartbeat_count(count);
                        writer_proxy.missing_changes_update(last);
                        writer_proxy.lost_changes_update(first);
                        let must_send_acknacks =
                            !fin || (!liveliness && writer_proxy.missing_changes().count() > 0);
                        writer_proxy.set_must_send_acknacks(must_send_acknacks);
                        writer_proxy.write_message(&reader_guid, &cap);
                    }
                }
                let dgs = cap.take();
                let mut o = String::from("R");
                if let Some(dg) = dgs.first() {
                    if let Ok(m) = RtpsMessageRead::try_from(dg.as_slice()) {
                        for sm in m.submessages() {
                            match sm {
                                RtpsSubmessageReadKind::AckNack(a) => {
                                    let set: Vec<String> =
                                        a.reader_sn_state().set().map(|x| x.to_string()).collect();
                                    o += &format!(
                                        " ack:{}:{}:{}",
                                        a.reader_sn_state().base(),
                                        set.join(","),
                                        a.count()
                                    );
                                }
                                RtpsSubmessageReadKind::NackFrag(n) => {
                                    let set: Vec<String> = n
                                        .fragment_number_state()
                                        .set()
                                        .map(|x| x.to_string())
                                        .collect();
                                    o += &format!(
                                        " nf:{}:{}:{}:{}",
                                        n.writer_sn(),
                                        n.fragment_number_state().base(),
                                        set.join(","),
                                        n.count()
                                    );
                                }
                                _ => (),
                            }
                        }
                    }
                    s.last_reply = Some(dg.clone());
                }
                obs.push(o);
            }
            "N" | "A" => {
                let cap = Cap::new();
                if let Some(dg) = s.last_reply.clone() {
                    if let Ok(m) = RtpsMessageRead::try_from(dg.as_slice()) {
                        let prefix = m.header().guid_prefix();
                        for sm in m.submessages() {
                            match sm {
                                RtpsSubmessageReadKind::NackFrag(n) if k == "N" => {
                                    s.writer.on_nack_frag_submessage_received(n, prefix, &cap)
                                }
                                RtpsSubmessageReadKind::AckNack(a) if k == "A" => {
                                    s.writer.on_acknack_submessage_received(a, prefix, &cap, &Clk);
                                }
                                _ => (),
                            }
                        }
                    }
                }
                let r = s.respond(cap.take());
                obs.push(r);
            }
            "F" => {
                let mut t = rest.split_whitespace();
                let count = t.next().unwrap().parse::<i32>().unwrap();
                let sn = t.next().unwrap().parse::<i64>().unwrap();
                let base = t.next().unwrap().parse::<u32>().unwrap();
                let set: Vec<u32> = t
                    .next()
                    .unwrap_or("")
                    .split(',')
                    .filter_map(|x| x.parse::<u32>().ok())
                    .collect();
                let nf = NackFragSubmessage::new(
                    s.r1.entity_id(),
                    s.wguid.entity_id(),
                    sn,
                    FragmentNumberSet::new(base, set),
                    count,
                );
                // through the wire, as a received submessage would be
                let msg = RtpsMessageWrite::from_submessages(&[&nf], RPREFIX);
                let cap = Cap::new();
                if let Ok(m) = RtpsMessageRead::try_from(msg.buffer()) {
                    for sm in m.submessages() {
                        if let RtpsSubmessageReadKind::NackFrag(n) = sm {
                            s.writer.on_nack_frag_submessage_received(n, RPREFIX, &cap);
                        }
                    }
                }
                let r = s.respond(cap.take());
                obs.push(r);
            }
            _ => obs.push("BADOP".to_string()),
        }
    }
    let ch: Vec<String> = s
        .reader
        .changes_mut()
        .iter()
        .map(|c| format!("{}:{}", c.sequence_number, od(&c.data_value)))
        .collect();
    format!("{} # {}", obs.join(" | "), ch.join(" "))
}

fn main() {
    vh::main_loop_sites(run_line);
}
