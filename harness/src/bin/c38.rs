use dust_dds::rtps_udp_transport::udp_transport::RtpsUdpTransportParticipantFactory;

// line: sequence of usize values; output: "r after r after ..." (r: 0 ok, 3 BadParameter, 99 other error)
fn run_line(line: &str) -> String {
    let mut f = RtpsUdpTransportParticipantFactory::default();
    let mut out = vec![format!("{}", f.fragment_size())];
    for tok in line.split_whitespace() {
        let n: usize = tok.parse::<u128>().map(|x| x as usize).unwrap();
        let r = match f.set_fragment_size(n) {
            Ok(_) => 0,
            Err(dust_dds::infrastructure::error::DdsError::BadParameter) => 3,
            Err(_) => 99,
        };
        out.push(format!("{} {}", r, f.fragment_size()));
    }
    out.join(" ")
}
fn main() {
    vh::main_loop(run_line);
}
